(* C09 — type signatures round-trip through the parser.  Property theorems only. *)
From QV Require Import Sig SigParse.
Local Open Scope string_scope.

Example C09_nonvacuous :
  wf_ty (TMap (TS SStr) (TStruct "A<B>" [("x", TList (TS SI32)); ("y", TTuple [])])) = true /\
  parse "{s([i]())<A<B>,x,y>}" = POk (TMap (TS SStr) (TStruct "A<B>" [("x", TList (TS SI32)); ("y", TTuple [])])).
Proof. vm_compute. split; reflexivity. Qed.
