(* C09 — type signatures round-trip through the parser.
   Property theorems only; the model is theories/SigParse.v (signature.Parse on goparsec's
   combinators, theories/Peg.v), the printer is Sig.print (Type.Signature()), proofs are in
   theories/SigParseProofs.v.

   Not covered by a theorem: Go-level panics inside the nodify callbacks (type assertions on
   node positions); the model gives every callback the node shapes the grammar produces.
   Their absence is validated by the correspondence runs only. *)
From QV Require Import Sig Peg SigParse SigParseProofs SigParseMerged Idl IdlProofs.
From Coq Require Import NArith.
Local Open Scope string_scope.

(* every signature of the grammar, nested arbitrarily, parses to exactly the type it prints
   (struct and member names included) — so its printed signature is the identical string *)
Theorem C09_print_parse : forall t, wf_ty t = true -> parse (print t) = POk t.
Proof. exact parse_print. Qed.
Print Assumptions C09_print_parse.

(* printing is a fixed point for whatever the parser accepts, white space or not *)
Theorem C09_fixed_point : forall s t, parse s = POk t -> parse (print t) = POk t.
Proof. exact parse_fixed_point. Qed.
Print Assumptions C09_fixed_point.

(* what the parser accepts is a type of the grammar *)
Theorem C09_accepts_grammar_only : forall s t, parse s = POk t -> wf_ty t = true.
Proof. exact parse_wf. Qed.
Print Assumptions C09_accepts_grammar_only.

(* ... and the accepted input is that type's printed signature, with white space between tokens
   at most: every other string is rejected *)
Theorem C09_accepts_only_printed_signatures : forall s t, parse s = POk t -> unspace s = print t.
Proof. exact parse_canonical. Qed.
Print Assumptions C09_accepts_only_printed_signatures.

(* any input is accepted or rejected with an error: the recursion bound chosen by Parse's model
   (length of the input + 1) is never reached, Kleene never spins *)
Theorem C09_total : forall s, parse s <> PFuel.
Proof. exact parse_total. Qed.
Print Assumptions C09_total.
Theorem C09_reject_is_error : forall s, (exists t, parse s = POk t) \/ parse s = PErr.
Proof. exact parse_outcomes. Qed.
Print Assumptions C09_reject_is_error.

(* two well-formed types with the same signature are the same type *)
Theorem C09_print_injective : forall t u, wf_ty t = true -> wf_ty u = true -> print t = print u -> t = u.
Proof. exact print_inj. Qed.
Print Assumptions C09_print_injective.

(* Go representation: reading Type()'s kind tree back as a signature gives the signature with
   the names dropped (structs as tuples, v as the empty struct, o as the ObjectReference struct);
   the members of the Go struct are the cleaned member names, P0, P1, ... for tuples *)
Theorem C09_names_consistent_go : forall t, shape_sig (go_type t) = print (anon t).
Proof. exact go_type_consistent. Qed.
Print Assumptions C09_names_consistent_go.
Theorem C09_names_consistent_members : forall n fs,
  shape_fields (go_type (TStruct n fs)) = map (fun f => clean_name (fst f)) fs.
Proof. exact go_type_fields_struct. Qed.
Print Assumptions C09_names_consistent_members.
Theorem C09_names_consistent_object : go_type (TS SObject) = go_type ty_ObjectReference.
Proof. exact go_type_object. Qed.
Print Assumptions C09_names_consistent_object.

(* IDL name: SignatureIDL() of a type (without void/empty tuple inside, struct names not beginning
   with a basic type name or a container keyword: idl_safe) is read back by the IDL type parser, and
   resolved through a scope declaring the structs it is the type's signature again (layer 1 of C18) *)
Theorem C09_names_consistent_idl : forall t sc g, idl_safe t = true -> scope_has sc t -> ty_depth t < g ->
  exists i, fst (itype (S (String.length (idl_name t))) (idl_name t)) = Ok (NVal (VType i)) "" /\
            isig g sc i = Some (print t).
Proof. exact idl_type_roundtrip. Qed.
Print Assumptions C09_names_consistent_idl.

(* Type() itself: total once the two reflect panics are repaired ... *)
Theorem C09_holds_type_total : forall cfg t, c_key_panic cfg = false -> c_dup_panic cfg = false ->
  go_type_result cfg t <> None.
Proof. exact go_type_total. Qed.
Print Assumptions C09_holds_type_total.
(* ... and on every type without an uncomparable key and without clashing member names it is the
   kind tree go_type t of the theorems above, repaired or not *)
Theorem C09_type_unaffected : forall cfg t, bad_key t = false -> dup_member t = false -> go_type_result cfg t = Some (go_type t).
Proof. exact go_type_good. Qed.
Print Assumptions C09_type_unaffected.
(* ... and on the pinned code a signature of the grammar whose Type() panics *)
Theorem C09_refuted_type_panics_uncomparable_key :
  exists t, wf_ty t = true /\ parse "{[i]i}" = POk t /\
            go_type_result {| c_key_panic := true; c_dup_panic := false |} t = None.
Proof. exists (TMap (TList (TS SI32)) (TS SI32)). vm_compute. repeat split. Qed.
Print Assumptions C09_refuted_type_panics_uncomparable_key.
Theorem C09_refuted_type_panics_duplicate_member :
  exists t, wf_ty t = true /\ parse "(ii)<A,x,x>" = POk t /\
            go_type_result {| c_key_panic := false; c_dup_panic := true |} t = None.
Proof. exists (TStruct "A" [("x", TS SI32); ("x", TS SI32)]). vm_compute. repeat split. Qed.
Print Assumptions C09_refuted_type_panics_duplicate_member.

(* C07's subject, proved here because it is a fact about this grammar: n nested empty tuples
   cost at least 2^n parser invocations (the struct alternative is tried before the tuple
   alternative on the same prefix) *)
Theorem C09_steps_exponential : forall n, (2 ^ N.of_nat n <= parse_steps (nest n))%N.
Proof. exact nest_steps_exponential. Qed.
Print Assumptions C09_steps_exponential.

(* ---- the repaired grammar (design/C07.grammar.fix.diff; model decl_m / parse_m: the prefix
   "(" list ")" once, then the optional struct definition).  The correspondence run compares the
   implementation with parse_m when the source has this grammar (TieC09.tie_grammar_switch). ---- *)
(* the two grammars agree on every input and for every recursion bound: same node and rest, same
   failure (the model's own outcomes NoFuel / Hang included) *)
Theorem C09_merged_grammar_same : forall f s, fst (decl_m f s) = fst (decl f s).
Proof. exact decl_m_decl. Qed.
Print Assumptions C09_merged_grammar_same.
(* hence the repaired Parse returns what the pinned Parse returns, for every string *)
Theorem C09_merged_same : forall s, parse_m s = parse s.
Proof. exact parse_m_parse. Qed.
Print Assumptions C09_merged_same.
(* and every theorem above holds for it *)
Theorem C09_merged_print_parse : forall t, wf_ty t = true -> parse_m (print t) = POk t.
Proof. exact parse_m_print. Qed.
Print Assumptions C09_merged_print_parse.
Theorem C09_merged_fixed_point : forall s t, parse_m s = POk t -> parse_m (print t) = POk t.
Proof. exact parse_m_fixed_point. Qed.
Print Assumptions C09_merged_fixed_point.
Theorem C09_merged_accepts_grammar_only : forall s t, parse_m s = POk t -> wf_ty t = true.
Proof. exact parse_m_wf. Qed.
Print Assumptions C09_merged_accepts_grammar_only.
Theorem C09_merged_accepts_only_printed_signatures : forall s t, parse_m s = POk t -> unspace s = print t.
Proof. exact parse_m_canonical. Qed.
Print Assumptions C09_merged_accepts_only_printed_signatures.
Theorem C09_merged_total : forall s, parse_m s <> PFuel.
Proof. exact parse_m_total. Qed.
Print Assumptions C09_merged_total.
Theorem C09_merged_reject_is_error : forall s, (exists t, parse_m s = POk t) \/ parse_m s = PErr.
Proof. exact parse_m_outcomes. Qed.
Print Assumptions C09_merged_reject_is_error.
(* whichever grammar is observed, the model the implementation is compared with is parse *)
Theorem C09_observed_grammar_same : forall merged s, parse_g merged s = parse s.
Proof. exact parse_g_parse. Qed.
Print Assumptions C09_observed_grammar_same.
(* what the repair is for (C07): a number of parser invocations linear in the input *)
Theorem C09_merged_steps_linear : forall s, (parse_steps_m s <= 30 * N.of_nat (String.length s) + 24)%N.
Proof. exact parse_steps_m_linear. Qed.
Print Assumptions C09_merged_steps_linear.

Example C09_nonvacuous :
  wf_ty (TMap (TS SStr) (TStruct "A<B>" [("x", TList (TS SI32)); ("y", TTuple [])])) = true /\
  parse "{s([i]())<A<B>,x,y>}" = POk (TMap (TS SStr) (TStruct "A<B>" [("x", TList (TS SI32)); ("y", TTuple [])])) /\
  parse " { s ( [ i ] ( ) ) < A<B> , x , y > }" = parse "{s([i]())<A<B>,x,y>}" /\
  parse "{s([i]())<A<B>,x,y>} " = PErr /\ parse "(i)<A>" = PErr.
Proof. vm_compute. repeat split. Qed.
Example C09_nonvacuous_merged :
  parse_m "{s([i]())<A<B>,x,y>}" = POk (TMap (TS SStr) (TStruct "A<B>" [("x", TList (TS SI32)); ("y", TTuple [])])) /\
  parse_m "((i)(s)<A,b>)" = POk (TTuple [TTuple [TS SI32]; TStruct "A" [("b", TS SStr)]]) /\
  parse_m "(i)<A>" = PErr /\ parse_m "(i)<A,a" = PErr /\ parse_m "()<A,a" = PErr /\
  (parse_steps_m (nest 10) = 530 /\ parse_steps (nest 10) = 84909)%N.
Proof. vm_compute. repeat split. Qed.
