(* C13 — subscribers get each emitted event exactly once, in order, only while subscribed.
   Property theorems only; the model is theories/Signals.v, proofs theories/SignalsProofs.v. *)
From QV Require Import Signals SignalsProofs.
Local Open Scope N_scope.

(* the pinned tree violates the property along three switches; witnesses by computation *)
Theorem C13_refuted_sub_unserialised :
  exists st x, run (with_switch false false true false) init tr17 = Some st /\
    quiescent (with_switch false false true false) st = true /\
    nth_error (subs st) 1 = Some x /\ s_pc x = PAcked /\ s_win x = [11] /\
    s_got x = [] /\ s_queue x = [] /\ inflight st (s_conn x) (s_sig x) = [].
Proof. exact refuted_sub_unserialised. Qed.
Print Assumptions C13_refuted_sub_unserialised.

Theorem C13_refuted_snapshot_send :
  exists st, run (with_switch false true false false) init tr16 = Some st /\
    quiescent (with_switch false true false false) st = true /\
    no_event_after_ack [] (dlog st 1%nat) = false.
Proof. exact refuted_snapshot_send. Qed.
Print Assumptions C13_refuted_snapshot_send.

Theorem C13_refuted_uid_global :
  exists st x, run (with_switch true false false false) init (tr15 ++ [LReply; LCliRecv 1]) = Some st /\
    quiescent (with_switch true false false false) st = true /\
    nth_error (subs st) 1 = Some x /\ s_pc x = PFailed.
Proof. exact refuted_uid_global. Qed.
Print Assumptions C13_refuted_uid_global.

Theorem C13_refuted_uid_global_relock :
  exists st x, run (with_switch true false false true) init (tr15 ++ [LEmitSnap 200 31]) = Some st /\
    quiescent (with_switch true false false true) st = true /\ dead st = true /\
    nth_error (subs st) 0 = Some x /\ s_pc x = PAcked /\ s_win x = [31] /\
    s_got x = [] /\ s_queue x = [] /\ inflight st (s_conn x) (s_sig x) = [].
Proof. exact refuted_uid_global_relock. Qed.
Print Assumptions C13_refuted_uid_global_relock.

Example C13_nonvacuous : exists st, run cfg0 init tr_ex = Some st /\ overflow st = false /\
  map (fun x => (s_pc x, s_got x, s_win x)) (subs st) =
    [(PClosed, [5], [5]); (PClosed, [5; 6], [5; 6]); (PAcked, [5; 6], [5; 6])].
Proof. exact ex_run. Qed.
