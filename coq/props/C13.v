(* C13 — subscribers get each emitted event exactly once, in order, only while subscribed.
   Property theorems only; the model is theories/Signals.v, proofs theories/SignalsProofs.v. *)
From QV Require Import Signals SignalsProofs SignalsInv3 SignalsMain SignalsQuiesce SignalsRaw SignalsRawProofs.
From QV Require Import SignalsFwd SignalsFwdProofs.
Local Open Scope N_scope.

(* Reading of the statement.  A run is any sequence of labels accepted by [run] from [init]: every
   interleaving of the atomic actions of the subscriber goroutines (any number, on any
   connections, any signals), the client endpoints, the object's mailbox goroutine and the one
   emitter.  For subscriber x: s_got = payloads read so far, in order; s_all = the emissions of its
   signal taken while its connection was registered, since its handler was installed; s_skip =
   events already in transit to its connection at that moment; s_win = emissions of its signal
   between the acknowledgement (SubscribeID returns nil) and the cancel request.
   [delivery_ok]: read ++ queued ++ in transit = s_skip ++ s_all: nothing lost, duplicated,
   reordered or foreign, and a subscriber that keeps reading (LDeliver enabled while queued) gets all
   of it.  [window_ok]: s_all = s_pre ++ s_win ++ post: every emission of the window is in it.
   "Within the queue capacity": overflow st = false (no event met a full queue). *)
Theorem C13_holds : forall g tr st s x,
  clean g -> run g init tr = Some st -> overflow st = false ->
  nth_error (subs st) s = Some x ->
  delivery_ok st x /\ prefix_ok x /\ window_ok x /\ (s_pc x = PAcked -> s_ackd x = true).
Proof. exact c13_delivery. Qed.
Print Assumptions C13_holds.

(* between acknowledgement and cancel request the connection is registered by exactly one entry of
   the object's table (several subscribers of one client share it; subscribers on other
   connections have their own): the mechanism behind "each receives its own complete copy, one
   leaving does not disturb the others" — C13_holds is stated for every subscriber of every run *)
Theorem C13_holds_registered : forall g tr st s x,
  clean g -> run g init tr = Some st -> nth_error (subs st) s = Some x -> s_pc x = PAcked ->
  List.length (ents (table st) (s_conn x) (s_sig x)) = 1%nat.
Proof. exact c13_registered_while_acked. Qed.
Print Assumptions C13_holds_registered.

(* after the server has acknowledged the removal of a registration no further event for it is
   sent on that connection: in the log of frames written to connection c, no Event frame carries
   the message id of a registration after the Reply to the unregisterEvent call that removed it *)
Theorem C13_holds_no_event_after_unregister_reply : forall g tr st c,
  clean g -> run g init tr = Some st -> no_event_after_ack [] (dlog st c) = true.
Proof. exact c13_no_event_after_unregister_reply. Qed.
Print Assumptions C13_holds_no_event_after_unregister_reply.

(* when the system has come to rest (no internal action enabled: every frame dispatched, every
   request answered, every queue read) no call of SubscribeID or of a cancel function is still
   waiting, every subscriber whose cancel reached the abort has its channel closed, and every live
   subscriber has read exactly s_skip ++ s_all — hence, by C13_holds, every emission of its window:
   the channel is closed once it cancels, and nothing is lost for a subscriber that keeps reading *)
Theorem C13_holds_at_rest : forall g tr st s x,
  clean g -> run g init tr = Some st -> overflow st = false -> quiescent g st = true ->
  nth_error (subs st) s = Some x ->
  (forall m, s_pc x <> PWaitReg m) /\ (forall m, s_pc x <> PWaitUnreg m) /\ s_pc x <> PAborting /\
  (live (s_pc x) = true -> s_got x = s_skip x ++ s_all x).
Proof. exact c13_at_rest. Qed.
Print Assumptions C13_holds_at_rest.

(* the pinned tree violates the property along three switches; witnesses by computation *)
Theorem C13_refuted_sub_unserialised :
  exists st x, run (with_switch false false true false) init tr17 = Some st /\
    quiescent (with_switch false false true false) st = true /\
    nth_error (subs st) 1 = Some x /\ s_pc x = PAcked /\ s_win x = [11] /\
    s_got x = [] /\ s_queue x = [] /\ inflight st (s_conn x) (s_sig x) = [].
Proof. exact refuted_sub_unserialised. Qed.
Print Assumptions C13_refuted_sub_unserialised.

Theorem C13_refuted_snapshot_send :
  exists st, run (with_switch false true false false) init tr16 = Some st /\
    quiescent (with_switch false true false false) st = true /\
    no_event_after_ack [] (dlog st 1%nat) = false.
Proof. exact refuted_snapshot_send. Qed.
Print Assumptions C13_refuted_snapshot_send.

Theorem C13_refuted_uid_global :
  exists st x, run (with_switch true false false false) init (tr15 ++ [LReply; LCliRecv 1]) = Some st /\
    quiescent (with_switch true false false false) st = true /\
    nth_error (subs st) 1 = Some x /\ s_pc x = PFailed.
Proof. exact refuted_uid_global. Qed.
Print Assumptions C13_refuted_uid_global.

Theorem C13_refuted_uid_global_relock :
  exists st x, run (with_switch true false false true) init (tr15 ++ [LEmitSnap 200 31]) = Some st /\
    quiescent (with_switch true false false true) st = true /\ dead st = true /\
    nth_error (subs st) 0 = Some x /\ s_pc x = PAcked /\ s_win x = [31] /\
    s_got x = [] /\ s_queue x = [] /\ inflight st (s_conn x) (s_sig x) = [].
Proof. exact refuted_uid_global_relock. Qed.
Print Assumptions C13_refuted_uid_global_relock.

(* Registrations whose ids are chosen by the caller (SignalsRaw.v: the table operations of the model
   above with any ids; [rclean]: ids compared per connection, a refused duplicate leaves the table
   alone), next to connections in every kind of bad health ([RBreak c k]: every write to c fails with
   EPIPE / a reset / a closed direction, or with io.EOF — UpdateSignal then drops the registration in
   the middle of its loop —, the connection is closed, one write fails, writes are slow).  "One
   subscriber leaving [or failing] does not disturb the others", at the level of registrations: a
   registerEvent that was acknowledged is sent every later emission of its signal until an
   unregisterEvent for its own (connection, id) is processed, as long as ITS OWN connection is not
   broken — whatever else is registered, refused or removed meanwhile (the same id for another signal,
   the same id on another connection, ...) and whatever happens to the other connections, wherever
   their registrations sit in the table relative to this one. *)
Theorem C13_holds_raw_registration_kept : forall g, rclean g -> forall pre post c m sig uid p,
  snd (raw_step g (raw_run g rinit pre) (RReg c m sig uid)) = OAck ->
  (forall s, ~ In (RUnreg c s uid) post) ->
  (forall k, ~ In (RBreak c k) (pre ++ post)) ->
  exists l, snd (raw_step g (raw_run g rinit (pre ++ RReg c m sig uid :: post)) (REmit sig p)) = OSent l /\ In (c, m) l.
Proof. exact raw_acked_receives. Qed.
Print Assumptions C13_holds_raw_registration_kept.

(* while no connection is in bad health an emission is the plain fan-out over the registrations of the
   signal, in table order, and leaves the table alone (the model of rounds 3 and 4) *)
Theorem C13_holds_raw_emission_all_healthy : forall g st sig p, r_bad st = [] -> r_once st = [] ->
  snd (raw_step g st (REmit sig p)) = OSent (targets sig (r_table st)) /\
  r_table (fst (raw_step g st (REmit sig p))) = r_table st.
Proof. exact raw_emit_all_healthy. Qed.
Print Assumptions C13_holds_raw_emission_all_healthy.

(* nothing is written to a connection every write to which fails *)
Theorem C13_holds_raw_broken_gets_nothing : forall g st sig p c m l, bad_of (r_bad st) c <> None ->
  snd (raw_step g st (REmit sig p)) = OSent l -> ~ In (c, m) l.
Proof. exact raw_bad_gets_nothing. Qed.
Print Assumptions C13_holds_raw_broken_gets_nothing.

(* after an acknowledged unregisterEvent the table has no entry of that (connection, id): later emissions send nothing to it *)
Theorem C13_holds_raw_unregistered : forall g, rclean g -> forall os c s uid,
  snd (raw_step g (raw_run g rinit os) (RUnreg c s uid)) = OAck ->
  forall u, In u (r_table (fst (raw_step g (raw_run g rinit os) (RUnreg c s uid)))) -> is_user c uid u = false.
Proof. exact raw_removed. Qed.
Print Assumptions C13_holds_raw_unregistered.

(* a refused registerEvent / unregisterEvent changes nothing *)
Theorem C13_holds_raw_refused_no_effect : forall g, rclean g -> forall st o,
  snd (raw_step g st o) = ORefused -> fst (raw_step g st o) = st.
Proof. exact raw_refused. Qed.
Print Assumptions C13_holds_raw_refused_no_effect.

(* the table operation of SignalsRaw.v is the one the mailbox goroutine of the full model performs *)
Theorem C13_raw_is_mailbox_step : forall g st c f rest st',
  up st c = f :: rest -> step g st (LMbox c) = Some st' ->
  table st' = r_table (fst (raw_step g (rof (table st)) (op_of c f))).
Proof. exact step_mbox_is_raw_step. Qed.
Print Assumptions C13_raw_is_mailbox_step.


(* The client side of subscriptions on one client (SignalsFwd.v): handler slots whose indexes are the
   handler ids (reused once free), one forwarding goroutine per subscription (FTake: it takes an event
   from its queue and is blocked in its send until FRead: the subscriber receives), cancel functions
   (FCancel: close(abort); FAbort: the forwarder sees it, RemoveHandler(its id), close(events)), the
   connection's end (FDown).  Every interleaving of these labels for any number of subscribers of any
   signals: a subscriber that has not cancelled, on a connection that is up, still has its handler in
   its slot, its queue and its channel are open, and what it has received ++ the event its forwarder
   holds ++ its queue is exactly the sequence of events of its signal dispatched since its subscription
   (within the queue capacity); for a subscriber that has cancelled the same equation says that what
   it received is a prefix of it.  [f_all] is ghost and does not depend on the slots. *)
Theorem C13_holds_client_side : forall tr st s x,
  frun finit tr = Some st -> nth_error (fsubs st) s = Some x ->
  (fover st = false -> f_got x ++ oh (f_hold x) ++ f_queue x = f_all x) /\
  (f_abort x = false -> fdown st = false ->
     f_qclosed x = false /\ f_done x = false /\ slots st (f_slot x) = Some s).
Proof. exact fwd_holds. Qed.
Print Assumptions C13_holds_client_side.

(* one subscriber's cancel never removes another's handler: the RemoveHandler of forwarder s leaves every
   other subscription and every slot that holds another subscription's handler as they were *)
Theorem C13_holds_cancel_removes_own_handler : forall tr st s st',
  frun finit tr = Some st -> fstep st (FAbort s) = Some st' ->
  forall s', s' <> s ->
    nth_error (fsubs st') s' = nth_error (fsubs st) s' /\
    (forall i, slots st i = Some s' -> slots st' i = Some s').
Proof. exact fwd_cancel_own. Qed.
Print Assumptions C13_holds_cancel_removes_own_handler.

(* the queue of a subscription is closed by no step but its own forwarder's abort and the connection's end *)
Theorem C13_holds_closed_only_by_own_cancel : forall tr st l st' s x,
  frun finit tr = Some st -> fstep st l = Some st' ->
  nth_error (fsubs st) s = Some x -> f_qclosed x = false ->
  l <> FAbort s -> l <> FDown ->
  exists x', nth_error (fsubs st') s = Some x' /\ f_qclosed x' = false.
Proof. exact fwd_closed_by. Qed.
Print Assumptions C13_holds_closed_only_by_own_cancel.

(* what the correspondence replays (operations of a harness that owns the readers, with the forwarders'
   forced steps in between) is a run of this transition system: the theorems above hold for its states *)
Theorem C13_client_side_replay_is_run : forall os st,
  freplay finit os = Some st -> exists tr, frun finit tr = Some st.
Proof. exact fwd_replay_is_run. Qed.
Print Assumptions C13_client_side_replay_is_run.

Example C13_nonvacuous : exists st, run cfg0 init tr_ex = Some st /\ overflow st = false /\
  map (fun x => (s_pc x, s_got x, s_win x)) (subs st) =
    [(PClosed, [5], [5]); (PClosed, [5; 6], [5; 6]); (PAcked, [5; 6], [5; 6])].
Proof. exact ex_run. Qed.

(* cancel with an undelivered event, a new subscriber before the leaver reads on, the leaver reads to the end *)
Theorem C13_witness_client_side : exists st, freplay finit fwd_ops_ex = Some st /\
  map (fun x => (f_slot x, f_done x, f_got x)) (fsubs st) = [(0%nat, true, [1]); (1%nat, false, [2])] /\
  slots st 0%nat = None /\ slots st 1%nat = Some 1%nat /\ fover st = false.
Proof. exact fwd_ex. Qed.
Print Assumptions C13_witness_client_side.
