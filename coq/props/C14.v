(* C14 — A property is an atomic, typed register with validated writes and change events.
   Property theorems only; model: theories/Property.v, proofs: theories/PropertyProofs.v,
   linearizability machinery: theories/Lin.v, LinProofs.v; the subscriber table (registerEvent /
   unregisterEvent with client-chosen user ids): theories/PropertySubs.v, PropertySubsProofs.v; objects with
   several properties (one table, one register per property): theories/PropertyMulti.v, PropertyMultiProofs.v.  Every theorem holds for every
   implementor-side validator [valid]. *)
From Coq Require Import NArith List String Permutation.
From QV Require Import Bytes Property PropertyProofs Lin LinProofs PropertySubs PropertySubsProofs PropertyMulti PropertyMultiProofs.
Import ListNotations.
Local Open Scope N_scope.

(* a write the validator (or the name resolution, or the payload decoding) rejects changes
   nothing and emits nothing *)
Theorem C14_rejected_write_unchanged : forall c valid s o s' ev,
  pstep c valid s o = (s', RFail, ev) -> s' = s /\ ev = [].
Proof. exact rejected_unchanged. Qed.
Print Assumptions C14_rejected_write_unchanged.

(* an accepted write — by a client or by the service itself — stores the value and emits exactly
   one event per subscriber, carrying the new value *)
Theorem C14_accepted_write_one_event : forall c valid s o s' ev, is_write o = true ->
  pstep c valid s o = (s', RDone, ev) ->
  exists v, check c valid o = Some v /\ p_val s' = Some v /\ p_subs s' = p_subs s /\
            ev = map (fun sub => (sub, cv_data v)) (p_subs s).
Proof. exact accepted_one_event. Qed.
Print Assumptions C14_accepted_write_one_event.

Theorem C14_client_write_stores_its_value : forall c valid nm v v', check c valid (PSet nm v) = Some v' -> v' = v.
Proof. exact check_set_value. Qed.
Print Assumptions C14_client_write_stores_its_value.
Theorem C14_service_update_stores_declared_type : forall c valid x v, check c valid (PUpdate x) = Some v ->
  v = {| cv_sig := prop_sig; cv_data := le 4 x |}.
Proof. exact check_update_value. Qed.
Print Assumptions C14_service_update_stores_declared_type.

Theorem C14_write_outcomes : forall c valid s o, is_write o = true ->
  snd (fst (pstep c valid s o)) = RDone \/ snd (fst (pstep c valid s o)) = RFail.
Proof. exact write_outcomes. Qed.
Print Assumptions C14_write_outcomes.
Theorem C14_reads_and_subscriptions_silent : forall c valid s o, is_write o = false ->
  p_val (fst (fst (pstep c valid s o))) = p_val s /\ snd (pstep c valid s o) = [].
Proof. exact nonwrite_silent. Qed.
Print Assumptions C14_reads_and_subscriptions_silent.

(* every stored value has the declared signature, is four bytes long and passed the validator;
   hence the generated getter, which insists on the declared signature, succeeds *)
Theorem C14_holds_stored_value_typed : forall c valid, pclean c -> forall s, preach c valid s ->
  forall v, p_val s = Some v -> well_typed valid v.
Proof. exact stored_well_typed. Qed.
Print Assumptions C14_holds_stored_value_typed.
Theorem C14_holds_typed_get_succeeds : forall c valid, pclean c -> forall s, preach c valid s ->
  forall v, p_val s = Some v -> exists x, getter (read s (NmStr prop_name)) = Some x /\ valid x = true.
Proof. exact getter_succeeds. Qed.
Print Assumptions C14_holds_typed_get_succeeds.

(* reading returns the value of the most recent accepted write of the sequence *)
Theorem C14_read_returns_last_accepted_write : forall c valid ops,
  read (fst (prun c valid pinit ops)) (NmStr prop_name) =
    match last_accepted c valid None ops with Some v => RVal v | None => RFail end.
Proof. exact read_returns_last_accepted. Qed.
Print Assumptions C14_read_returns_last_accepted_write.

(* concurrent clients: for every interleaving of the checks (name, decoding, validator — outside any
   lock), saves (under the mutex), notifications (after the mutex is released) and returns of any
   number of concurrent client writes, service-side updates, reads and subscriptions, the history
   the callers observe is linearizable with respect to the register: the writes take effect in one
   order consistent with real time and every read returns the latest accepted write *)
Theorem C14_linearizable : forall c valid tr st' ev, stamped 0 tr ->
  qrun c valid (pinit, []) tr = Some (st', ev) ->
  linearizable (rstep c valid) pinit (ops_of (qvis tr)).
Proof. exact property_linearizable. Qed.
Print Assumptions C14_linearizable.

(* ... and in every such run that starts and ends with no call in progress, a subscriber that
   registered (once) before it receives exactly the data of the accepted writes that returned:
   one event per accepted write, none for a rejected one *)
Theorem C14_events_exactly_accepted_writes : forall c valid tr s s' ev sub, nosub_tr sub tr ->
  count_sub sub (p_subs s) = 1%nat -> qrun c valid (s, []) tr = Some ((s', []), ev) ->
  Permutation (ev_for sub ev) (qaccepted c valid (s, []) tr).
Proof. exact events_exactly_accepted. Qed.
Print Assumptions C14_events_exactly_accepted_writes.

(* the checker used on recorded histories is sound and complete for that definition *)
Theorem C14_checker_sound_complete : forall c valid init (h : list (orec pop pres)),
  lin_check (rstep c valid) pres_eqb init h = true -> linearizable (rstep c valid) init h.
Proof.
  intros c valid init h. apply lin_check_sound. exact pres_eqb_eq.
Qed.
Print Assumptions C14_checker_sound_complete.

(* ---- who the subscribers are: the table behind registerEvent / unregisterEvent, keyed by ids the
   clients choose and shared by every signal and property of the object (PropertySubs.v) ---- *)

(* on that table, reads, client writes and service-side updates are the steps of the register above,
   the subscribers being the entries registered for the property *)
Theorem C14_subs_operations_are_register_steps : forall c valid s o, not_subscribe o = true ->
  sstep c valid s (SOp o) =
    (let '(p', r, ev) := pstep c valid (pstate_of s) o in
     ({| s_val := p_val p'; s_regs := s_regs s |}, r, map (fun e => (prop_uid, e)) ev)).
Proof. exact sop_is_pstep. Qed.
Print Assumptions C14_subs_operations_are_register_steps.

(* a registration — accepted, or refused because the connection already uses that user id for this or
   any other signal of the object — leaves every existing entry, hence every subscription to the
   property, where it was *)
Theorem C14_subs_registration_keeps_entries : forall c valid s cn obj sig uid mid s' r ev,
  sstep c valid s (SRegister cn obj sig uid mid) = (s', r, ev) ->
  ev = [] /\ s_val s' = s_val s /\
  ((r = RDone /\ s_regs s' = s_regs s ++ [{| r_conn := cn; r_uid := uid; r_sig := sig; r_mid := mid |}]) \/
   (r = RFail /\ s' = s)).
Proof. exact register_keeps_entries. Qed.
Print Assumptions C14_subs_registration_keeps_entries.

(* after any sequence of registrations (colliding or not), unregistrations, signal emissions, reads
   and writes: a rejected write changes nothing and emits nothing; an accepted write sends exactly
   one event carrying the new value to each registration for the property that was acknowledged and
   not unregistered since ([act]: computed from the answers the clients got), and nothing else *)
Theorem C14_subs_rejected_write_unchanged : forall c valid s o s' ev,
  sstep c valid s (SOp o) = (s', RFail, ev) -> s' = s /\ ev = [].
Proof. exact srejected_unchanged. Qed.
Print Assumptions C14_subs_rejected_write_unchanged.
Theorem C14_subs_acknowledged_subscription_one_event : forall c valid ops s act o s' ev,
  srun c valid sinit [] ops = (s, act) -> is_write o = true ->
  sstep c valid s (SOp o) = (s', RDone, ev) ->
  exists v, check c valid o = Some v /\ s_val s' = Some v /\ Permutation ev (owed act v).
Proof. exact acknowledged_subscriptions_one_event. Qed.
Print Assumptions C14_subs_acknowledged_subscription_one_event.

(* executed: connection 0 subscribes to "delay" with user id 42; its attempt to register "boom" with
   the same id is refused and moves nothing (the accepted write of 33 reaches it); the same id on
   connection 1 is another user; unregistering ends the subscription (no event for 34), registering
   again restarts it (rejected write: nothing; 35: one event under the new message id) *)
Theorem C14_subs_id_collision_example : srun_out pcfg_clean nonneg sinit ex_sops =
  [(RDone, []); (RFail, []); (RDone, []);
   (RDone, [(prop_uid, ((0%nat, 5), le 4 33))]);
   (RDone, [(boom_uid, ((1%nat, 3), le 4 8))]);
   (RDone, []);
   (RDone, []);
   (RDone, []);
   (RFail, []);
   (RDone, [(prop_uid, ((0%nat, 11), le 4 35))])]
  /\ snd (srun pcfg_clean nonneg sinit [] ex_sops) = [mk_reg 1 42 boom_uid 3; mk_reg 0 42 prop_uid 11].
Proof. exact ex_sseq. Qed.
Print Assumptions C14_subs_id_collision_example.

(* the optional per-object features (method statistics, traces) and the other methods of the generic
   object are transparent for the register and its subscribers: such a call — from whichever
   connection, wherever it stands in a sequence — changes nothing and emits nothing, so it can be
   erased from any sequence: same final state, same acknowledged registrations; hence the theorem
   above holds with them interleaved anywhere ([ops] there ranges over them too) *)
Theorem C14_subs_features_transparent : forall c valid s cn a, sstep c valid s (SAux cn a) = (s, RDone, []).
Proof. exact aux_transparent. Qed.
Print Assumptions C14_subs_features_transparent.
Theorem C14_subs_features_erasable : forall c valid ops s act,
  srun c valid s act (filter (fun o => negb (is_aux o)) ops) = srun c valid s act ops.
Proof. exact srun_erase_aux. Qed.
Print Assumptions C14_subs_features_erasable.
(* executed: statistics on; two connections subscribe with the same user id under the same message id;
   each accepted write — by a third connection, by the service — reaches both, each on its own
   connection, also after traces went on and statistics off; one leaves, the other keeps its events *)
Theorem C14_subs_features_example : srun_out pcfg_clean nonneg sinit ex_feature_sops =
  [(RDone, []); (RDone, []); (RDone, []);
   (RDone, [(prop_uid, ((0%nat, 5), le 4 33)); (prop_uid, ((1%nat, 5), le 4 33))]);
   (RDone, []); (RDone, []);
   (RDone, [(prop_uid, ((0%nat, 5), le 4 34)); (prop_uid, ((1%nat, 5), le 4 34))]);
   (RDone, []);
   (RDone, [(prop_uid, ((0%nat, 5), le 4 35))])].
Proof. exact ex_feature_seq. Qed.
Print Assumptions C14_subs_features_example.

(* ---- an object with several properties: one register per declared property (PropertyMulti.v) ---- *)

(* an operation acts on the register its name resolves to exactly as the one-property register above
   does — same answer, same events — and every OTHER property of the object keeps its value and its
   subscribers: a write to one property (accepted or not) never changes what another property reads *)
Theorem C14_multi_operation_is_local : forall t c valid ms o k po, List.length ms = List.length t ->
  localize t o = Some (k, po) ->
  let '(s1, r, ev) := pstep c valid (mreg ms k) po in
  let '(ms', r', ev') := mstep t c valid ms o in
  r' = r /\ ev' = map (fun e => (uid_of t k, e)) ev /\ mreg ms' k = s1 /\
  List.length ms' = List.length t /\
  forall j, j <> k -> mreg ms' j = mreg ms j.
Proof. exact mstep_local. Qed.
Print Assumptions C14_multi_operation_is_local.
Theorem C14_multi_unknown_name_fails : forall t c valid ms o, localize t o = None ->
  mstep t c valid ms o = (ms, RFail, []).
Proof. exact mstep_unresolved. Qed.
Print Assumptions C14_multi_unknown_name_fails.

(* after ANY sequence of operations on the object, the register of property k is what the operations
   addressed to k alone make of it; so reading a property returns the last accepted write of THAT
   property, whatever was written to the others in between *)
Theorem C14_multi_register_is_its_own_history : forall t c valid ops ms k, List.length ms = List.length t ->
  mreg (fst (mrun t c valid ms ops)) k = fst (prun c valid (mreg ms k) (ops_for t k ops)).
Proof. exact mrun_projection. Qed.
Print Assumptions C14_multi_register_is_its_own_history.
Theorem C14_multi_read_returns_last_accepted_write_of_that_property : forall t c valid ops n k,
  idx_name t n = Some k ->
  snd (fst (mstep t c valid (fst (mrun t c valid (minit t) ops)) (MGet (NmStr n)))) =
    match last_accepted c valid None (ops_for t k ops) with Some v => RVal v | None => RFail end.
Proof. exact mread_last_accepted. Qed.
Print Assumptions C14_multi_read_returns_last_accepted_write_of_that_property.

(* the checker applied to the recorded histories of such an object decides linearizability with
   respect to the family of registers; executed: UpdateA(1) ; UpdateA(2) overlapping UpdateB(2), both
   accepted ; then a = 2, b = 2 is linearizable and a = 1 (the accepted write to a lost because another
   property was written at the same time) is not *)
Theorem C14_multi_checker_sound_complete : forall t c valid init (h : list (orec mop pres)),
  lin_check (mrstep t c valid) pres_eqb init h = true <-> linearizable (mrstep t c valid) init h.
Proof. exact mlin_check_iff. Qed.
Print Assumptions C14_multi_checker_sound_complete.
Theorem C14_multi_lost_write_example :
  linearizable (mrstep ex_table pcfg_clean nonneg) (minit ex_table) (ex_hist 2) /\
  ~ linearizable (mrstep ex_table pcfg_clean nonneg) (minit ex_table) (ex_hist 1).
Proof. exact ex_lost_write. Qed.
Print Assumptions C14_multi_lost_write_example.

(* ---- the pinned code: a wrongly-typed value whose bytes decode is accepted and stored as is ---- *)
Theorem C14_refuted_store_untyped :
  let '(s1, l) := prun pcfg_pinned nonneg pinit
                    [PSubscribe 0 7; PUpdate 10; PSet (NmStr prop_name) str_abcd; PGet (NmStr prop_name)] in
  l = [(RDone, []); (RDone, [((0%nat, 7), le 4 10)]); (RDone, [((0%nat, 7), cv_data str_abcd)]); (RVal str_abcd, [])] /\
  getter (read s1 (NmStr prop_name)) = None /\ is_typed str_abcd = false.
Proof. exact refuted_store_untyped. Qed.
Print Assumptions C14_refuted_store_untyped.

(* the hypotheses are met: a get before any write fails, a subscriber sees the two accepted writes,
   a negative value, a wrongly-typed value are rejected and change nothing *)
Example C14_nonvacuous : pclean pcfg_clean /\ snd (prun pcfg_clean nonneg pinit ex_ops) =
  [(RFail, []); (RDone, []); (RDone, [((1%nat, 5), le 4 10)]); (RDone, [((1%nat, 5), le 4 12)]);
   (RFail, []); (RFail, []); (RVal {| cv_sig := "i"; cv_data := le 4 12 |}, [])].
Proof. exact (conj eq_refl ex_seq). Qed.
