(* C14 — A property is an atomic, typed register with validated writes and change events.
   Property theorems only; model: theories/Property.v, proofs: theories/PropertyProofs.v,
   linearizability machinery: theories/Lin.v, LinProofs.v.  Every theorem holds for every
   implementor-side validator [valid]. *)
From Coq Require Import NArith List String Permutation.
From QV Require Import Bytes Property PropertyProofs Lin LinProofs.
Import ListNotations.
Local Open Scope N_scope.

(* a write the validator (or the name resolution, or the payload decoding) rejects changes
   nothing and emits nothing *)
Theorem C14_rejected_write_unchanged : forall c valid s o s' ev,
  pstep c valid s o = (s', RFail, ev) -> s' = s /\ ev = [].
Proof. exact rejected_unchanged. Qed.
Print Assumptions C14_rejected_write_unchanged.

(* an accepted write — by a client or by the service itself — stores the value and emits exactly
   one event per subscriber, carrying the new value *)
Theorem C14_accepted_write_one_event : forall c valid s o s' ev, is_write o = true ->
  pstep c valid s o = (s', RDone, ev) ->
  exists v, check c valid o = Some v /\ p_val s' = Some v /\ p_subs s' = p_subs s /\
            ev = map (fun sub => (sub, cv_data v)) (p_subs s).
Proof. exact accepted_one_event. Qed.
Print Assumptions C14_accepted_write_one_event.

Theorem C14_client_write_stores_its_value : forall c valid nm v v', check c valid (PSet nm v) = Some v' -> v' = v.
Proof. exact check_set_value. Qed.
Print Assumptions C14_client_write_stores_its_value.
Theorem C14_service_update_stores_declared_type : forall c valid x v, check c valid (PUpdate x) = Some v ->
  v = {| cv_sig := prop_sig; cv_data := le 4 x |}.
Proof. exact check_update_value. Qed.
Print Assumptions C14_service_update_stores_declared_type.

Theorem C14_write_outcomes : forall c valid s o, is_write o = true ->
  snd (fst (pstep c valid s o)) = RDone \/ snd (fst (pstep c valid s o)) = RFail.
Proof. exact write_outcomes. Qed.
Print Assumptions C14_write_outcomes.
Theorem C14_reads_and_subscriptions_silent : forall c valid s o, is_write o = false ->
  p_val (fst (fst (pstep c valid s o))) = p_val s /\ snd (pstep c valid s o) = [].
Proof. exact nonwrite_silent. Qed.
Print Assumptions C14_reads_and_subscriptions_silent.

(* every stored value has the declared signature, is four bytes long and passed the validator;
   hence the generated getter, which insists on the declared signature, succeeds *)
Theorem C14_holds_stored_value_typed : forall c valid, pclean c -> forall s, preach c valid s ->
  forall v, p_val s = Some v -> well_typed valid v.
Proof. exact stored_well_typed. Qed.
Print Assumptions C14_holds_stored_value_typed.
Theorem C14_holds_typed_get_succeeds : forall c valid, pclean c -> forall s, preach c valid s ->
  forall v, p_val s = Some v -> exists x, getter (read s (NmStr prop_name)) = Some x /\ valid x = true.
Proof. exact getter_succeeds. Qed.
Print Assumptions C14_holds_typed_get_succeeds.

(* reading returns the value of the most recent accepted write of the sequence *)
Theorem C14_read_returns_last_accepted_write : forall c valid ops,
  read (fst (prun c valid pinit ops)) (NmStr prop_name) =
    match last_accepted c valid None ops with Some v => RVal v | None => RFail end.
Proof. exact read_returns_last_accepted. Qed.
Print Assumptions C14_read_returns_last_accepted_write.

(* concurrent clients: for every interleaving of the checks (name, decoding, validator — outside any
   lock), saves (under the mutex), notifications (after the mutex is released) and returns of any
   number of concurrent client writes, service-side updates, reads and subscriptions, the history
   the callers observe is linearizable with respect to the register: the writes take effect in one
   order consistent with real time and every read returns the latest accepted write *)
Theorem C14_linearizable : forall c valid tr st' ev, stamped 0 tr ->
  qrun c valid (pinit, []) tr = Some (st', ev) ->
  linearizable (rstep c valid) pinit (ops_of (qvis tr)).
Proof. exact property_linearizable. Qed.
Print Assumptions C14_linearizable.

(* ... and in every such run that starts and ends with no call in progress, a subscriber that
   registered (once) before it receives exactly the data of the accepted writes that returned:
   one event per accepted write, none for a rejected one *)
Theorem C14_events_exactly_accepted_writes : forall c valid tr s s' ev sub, nosub_tr sub tr ->
  count_sub sub (p_subs s) = 1%nat -> qrun c valid (s, []) tr = Some ((s', []), ev) ->
  Permutation (ev_for sub ev) (qaccepted c valid (s, []) tr).
Proof. exact events_exactly_accepted. Qed.
Print Assumptions C14_events_exactly_accepted_writes.

(* the checker used on recorded histories is sound and complete for that definition *)
Theorem C14_checker_sound_complete : forall c valid init (h : list (orec pop pres)),
  lin_check (rstep c valid) pres_eqb init h = true -> linearizable (rstep c valid) init h.
Proof.
  intros c valid init h. apply lin_check_sound. exact pres_eqb_eq.
Qed.
Print Assumptions C14_checker_sound_complete.

(* ---- the pinned code: a wrongly-typed value whose bytes decode is accepted and stored as is ---- *)
Theorem C14_refuted_store_untyped :
  let '(s1, l) := prun pcfg_pinned nonneg pinit
                    [PSubscribe 0 7; PUpdate 10; PSet (NmStr prop_name) str_abcd; PGet (NmStr prop_name)] in
  l = [(RDone, []); (RDone, [((0%nat, 7), le 4 10)]); (RDone, [((0%nat, 7), cv_data str_abcd)]); (RVal str_abcd, [])] /\
  getter (read s1 (NmStr prop_name)) = None /\ is_typed str_abcd = false.
Proof. exact refuted_store_untyped. Qed.
Print Assumptions C14_refuted_store_untyped.

(* the hypotheses are met: a get before any write fails, a subscriber sees the two accepted writes,
   a negative value, a wrongly-typed value are rejected and change nothing *)
Example C14_nonvacuous : pclean pcfg_clean /\ snd (prun pcfg_clean nonneg pinit ex_ops) =
  [(RFail, []); (RDone, []); (RDone, [((1%nat, 5), le 4 10)]); (RDone, [((1%nat, 5), le 4 12)]);
   (RFail, []); (RFail, []); (RVal {| cv_sig := "i"; cv_data := le 4 12 |}, [])].
Proof. exact (conj eq_refl ex_seq). Qed.
