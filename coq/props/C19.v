(* C19 — A session can be shared by concurrent goroutines.
   Property theorems only; model in theories/Session.v, proofs in theories/SessionProofs.v.

   init c epss      : one goroutine per entry of epss, each inside Session.client(info) with
                      info.Endpoints = that entry; empty pool, free RWMutex, no connection
   exec s ls        : run the schedule ls (labels (goroutine, dial outcome)); Fatal = the Go
                      runtime's fatal error on a misused RWMutex; Stuck = ls is not a schedule
   clean c          : the defect switch runlock_after_lock is off
   Every statement holds for every number of goroutines, every assignment of endpoint
   addresses to them, every schedule and every outcome of the dials.

   The C19_life_* theorems are about the LIFE of the pool (theories/SessionLife.v):
   lexec c linit es : run the events es on a fresh session: LSpawn epss (new requests arrive, one
                      per entry of epss), LStep l (one instruction of one request), LLose a (the
                      pooled connection to address a is lost, between two bursts: it is closed and
                      its closer — Lock; delete; Unlock — runs)
   They hold for every sequence of events.

   The C19_view_* theorems are about the session's VIEW of the directory (theories/SessionView.v):
   vexec loop_prog (vinit d0) es : the directory starts with the services d0 and the session with
                      that list; events: VChange d (a service becomes ready / is removed: the
                      directory now holds d and has put one signal on the connection), VAnswer (the
                      directory answers the loop's Services() call with what it holds then), VDeliver
                      (the next reply / signal on the connection reaches the session), VLoop (one
                      instruction of updateLoop: receive a signal, call Services(), store the list)
   quiet s          : nothing on the connection, no delivered signal waiting, the loop back at its select *)
From Coq Require Import List.
From QV Require Import Session SessionProofs SessionLife SessionLifeProofs SessionView SessionViewProofs.
Import ListNotations.

(* the process does not crash *)
Theorem C19_no_fatal : forall c, clean c -> forall epss ls, exec (init c epss) ls <> Fatal.
Proof. exact no_fatal. Qed.
Print Assumptions C19_no_fatal.

(* the session holds at most one pooled client per address *)
Theorem C19_one_client_per_address : forall c, clean c -> forall epss ls s,
  exec (init c epss) ls = Run s -> NoDup (map fst (s_pool (st_sh s))).
Proof. exact one_client_per_address. Qed.
Print Assumptions C19_one_client_per_address.

(* every request that returned a client got the pooled client of one of the addresses of its
   service, and the connection behind that client is open *)
Theorem C19_caller_gets_pooled : forall c, clean c -> forall epss ls s,
  exec (init c epss) ls = Run s -> forall i t cl,
  nth_error (st_thr s) i = Some t -> t_res t = Returned cl ->
  exists a, In a (t_eps t) /\ lookup a (s_pool (st_sh s)) = Some cl /\ mem cl (s_open (st_sh s)) = true.
Proof. exact caller_gets_pooled. Qed.
Print Assumptions C19_caller_gets_pooled.

(* hence all requests for services behind the same endpoint share one client *)
Theorem C19_same_address_same_client : forall c, clean c -> forall epss ls s,
  exec (init c epss) ls = Run s -> forall i j t u a c1 c2,
  nth_error (st_thr s) i = Some t -> nth_error (st_thr s) j = Some u ->
  t_eps t = [a] -> t_eps u = [a] -> t_res t = Returned c1 -> t_res u = Returned c2 -> c1 = c2.
Proof. exact same_address_same_client. Qed.
Print Assumptions C19_same_address_same_client.

(* a request never returns a nil client without an error, and it fails only when the service
   lists no endpoint or the dial failed *)
Theorem C19_never_nil : forall c, clean c -> forall epss ls s,
  exec (init c epss) ls = Run s -> forall i t, nth_error (st_thr s) i = Some t -> t_res t <> ReturnedNil.
Proof. exact never_nil. Qed.
Print Assumptions C19_never_nil.
Theorem C19_failed_only_without_endpoint : forall sh i t ch sh' t',
  tstep sh i t ch = TNext sh' t' -> t_res t' = Failed -> t_eps t = [] \/ ch = None.
Proof. exact failed_only_without_endpoint. Qed.
Print Assumptions C19_failed_only_without_endpoint.

(* once all requests have returned, every connection still open is a pooled one, so at most one
   connection per remote endpoint stays open (the losers of the race closed theirs) *)
Theorem C19_open_are_pooled : forall c, clean c -> forall epss ls s,
  exec (init c epss) ls = Run s -> forall x,
  all_done s = true -> In x (s_open (st_sh s)) -> pooled x (s_pool (st_sh s)) = true.
Proof. exact open_are_pooled. Qed.
Print Assumptions C19_open_are_pooled.
Theorem C19_one_connection_per_address : forall c, clean c -> forall epss ls s,
  exec (init c epss) ls = Run s -> forall x y t u a,
  all_done s = true -> In x (s_open (st_sh s)) -> In y (s_open (st_sh s)) ->
  nth_error (st_thr s) x = Some t -> nth_error (st_thr s) y = Some u ->
  t_sel t = Some a -> t_sel u = Some a -> x = y.
Proof. exact one_connection_per_address. Qed.
Print Assumptions C19_one_connection_per_address.

(* no schedule deadlocks: while a request is running some goroutine can step; and every
   schedule is finite *)
Theorem C19_no_deadlock : forall c, clean c -> forall epss ls s,
  exec (init c epss) ls = Run s -> all_done s = false -> exists l s', step s l = Run s'.
Proof. intros c Hc epss ls s E. exact (no_deadlock s (reach_inv c Hc epss ls s E)). Qed.
Print Assumptions C19_no_deadlock.
Theorem C19_schedules_finite : forall c epss ls s,
  exec (init c epss) ls = Run s -> List.length ls <= List.length epss * ksize (prog c).
Proof. exact schedule_length_bounded. Qed.
Print Assumptions C19_schedules_finite.

(* the pinned program (RUnlock after Lock) crashes: two goroutines, one endpoint, both miss the
   first lookup *)
Theorem C19_refuted_runlock_after_lock : exec (init cfg_pinned wit_epss) wit_sched = Fatal.
Proof. exact refuted_runlock_after_lock. Qed.
Print Assumptions C19_refuted_runlock_after_lock.

(* the same schedule, completed, on the clean program: both requests share client 0, one
   connection stays open *)
Example C19_nonvacuous :
  exists s, exec (init cfg_clean wit_epss) (wit_sched ++ [(1, None); (1, None)]) = Run s /\ all_done s = true /\
            s_pool (st_sh s) = [(0, 0)] /\ s_open (st_sh s) = [0] /\
            map t_res (st_thr s) = [Returned 0; Returned 0].
Proof. exact wit_clean_ok. Qed.

(* ---------- the life of the pool: bursts of requests, losses of pooled connections ---------- *)

Theorem C19_life_no_fatal : forall c, clean c -> forall es, lexec c linit es <> Fatal.
Proof. exact life_no_fatal. Qed.
Print Assumptions C19_life_no_fatal.

Theorem C19_life_one_client_per_address : forall c, clean c -> forall es s,
  lexec c linit es = Run s -> NoDup (map fst (s_pool (st_sh s))).
Proof. exact life_one_client_per_address. Qed.
Print Assumptions C19_life_one_client_per_address.

(* the moment a request returns — first burst or after any number of losses — the client it
   returns is the pooled client of one of the addresses of its service, over an open connection *)
Theorem C19_life_request_returns_live_client : forall c, clean c -> forall es s,
  lexec c linit es = Run s -> forall i ch s' t' cl,
  step s (i, ch) = Run s' -> nth_error (st_thr s') i = Some t' -> t_res t' = Returned cl ->
  mem cl (s_open (st_sh s')) = true /\ exists a, In a (t_eps t') /\ lookup a (s_pool (st_sh s')) = Some cl.
Proof. exact life_request_returns_live_client. Qed.
Print Assumptions C19_life_request_returns_live_client.

(* at any time, a client that was returned and whose connection is still up is the pooled one:
   requests after a loss share the new connection with each other, requests before it keep
   sharing the old one as long as it lives *)
Theorem C19_life_live_client_is_pooled : forall c, clean c -> forall es s,
  lexec c linit es = Run s -> forall i t cl,
  nth_error (st_thr s) i = Some t -> t_res t = Returned cl -> mem cl (s_open (st_sh s)) = true ->
  exists a, In a (t_eps t) /\ lookup a (s_pool (st_sh s)) = Some cl.
Proof. exact life_live_client_is_pooled. Qed.
Print Assumptions C19_life_live_client_is_pooled.

(* between the bursts every open connection is a pooled one: at most one per remote endpoint *)
Theorem C19_life_open_are_pooled : forall c, clean c -> forall es s,
  lexec c linit es = Run s -> forall x,
  all_done s = true -> In x (s_open (st_sh s)) -> pooled x (s_pool (st_sh s)) = true.
Proof. exact life_open_are_pooled. Qed.
Print Assumptions C19_life_open_are_pooled.
Theorem C19_life_one_connection_per_address : forall c, clean c -> forall es s,
  lexec c linit es = Run s -> forall x y t u a,
  all_done s = true -> In x (s_open (st_sh s)) -> In y (s_open (st_sh s)) ->
  nth_error (st_thr s) x = Some t -> nth_error (st_thr s) y = Some u ->
  t_sel t = Some a -> t_sel u = Some a -> x = y.
Proof. exact life_one_connection_per_address. Qed.
Print Assumptions C19_life_one_connection_per_address.

(* the session forgets a lost connection (the next request for that address dials again) *)
Theorem C19_life_loss_forgets : forall a s s', lose a s = Run s' -> lookup a (s_pool (st_sh s')) = None.
Proof. exact lose_forgets. Qed.
Print Assumptions C19_life_loss_forgets.

Theorem C19_life_no_deadlock : forall c, clean c -> forall es s,
  lexec c linit es = Run s -> all_done s = false -> exists l s', step s l = Run s'.
Proof. exact life_no_deadlock. Qed.
Print Assumptions C19_life_no_deadlock.

(* request, loss, request: the second request gets a new client over a new connection *)
Theorem C19_life_witness :
  exists s, lexec cfg_clean linit wit_life = Run s /\ all_done s = true /\
            s_pool (st_sh s) = [(0, 1)] /\ s_open (st_sh s) = [1] /\
            map t_res (st_thr s) = [Returned 0; Returned 1].
Proof. exact wit_life_ok. Qed.
Print Assumptions C19_life_witness.

(* ---------- the session's view of the directory: bursts of registrations during refreshes ---------- *)

(* once the directory is quiet and nothing is in flight, the session's list is exactly what the
   directory holds — every registered service is found by Proxy / Object, with its current endpoint
   and id — whatever the interleaving of changes, snapshots, deliveries and loop steps before *)
Theorem C19_view_quiescent : forall d0 es s,
  vexec loop_prog (vinit d0) es = Some s -> quiet s = true -> v_list s = v_dir s.
Proof. exact view_quiescent. Qed.
Print Assumptions C19_view_quiescent.

(* a burst of three registrations, two of them after the snapshot of the refresh in progress and
   delivered before its list is stored: the loop refreshes again and ends with all three *)
Theorem C19_view_witness :
  exists s, burst_end loop_prog = Some s /\ quiet s = true /\ v_list s = d3 /\ v_dir s = d3.
Proof. exact wit_burst_settles. Qed.
Print Assumptions C19_view_witness.

(* the same burst with a loop that discards the delivered signals after storing its list: quiet,
   and two registered services are missing from the session's list *)
Theorem C19_view_refuted_drain_after_store :
  exists s, burst_end (loop_prog ++ [UDrain]) = Some s /\ quiet s = true /\ v_dir s = d3 /\ v_list s = d1.
Proof. exact drain_after_store_loses. Qed.
Print Assumptions C19_view_refuted_drain_after_store.
