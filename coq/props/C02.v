(* C02 — Dynamic values survive encode/decode unchanged, byte for byte.  Theorems only;
   proofs in theories/ValueProofs.v, WireProofs.v, SigParseProofs.v. *)
From QV Require Import Value WireDefs ValueProofs ParseOpt WireTop WireRefute.
Local Open Scope N_scope.

(* every well-formed dynamic value, at any nesting depth, followed by any bytes: the decoder
   (value.NewValue over the PEG model of signature.Parse) returns the value itself and
   consumes exactly its encoding.  wf_dval = within the decoder's own limits; an opaque value
   carries any signature of the grammar that NewValue does not special-case, with well-typed data. *)
Theorem C02_roundtrip : forall c v rest, value_reader_no_len c = false -> wf_dval v ->
  new_value parse_opt c (enc_dval v ++ rest) = ROk (v, rest).
Proof. exact value_roundtrip_top. Qed.
Print Assumptions C02_roundtrip.

(* hence re-encoding the decoded value reproduces the bytes *)
Theorem C02_reencode : forall c v rest, value_reader_no_len c = false -> wf_dval v ->
  exists v', new_value parse_opt c (enc_dval v ++ rest) = ROk (v', rest) /\ enc_dval v' = enc_dval v.
Proof. exact value_reencode. Qed.
Print Assumptions C02_reencode.

(* "equal value": the encoding determines the value.  Two well-formed values, each followed by
   any bytes, that yield the same byte string are the same value followed by the same bytes;
   in particular no value's encoding is a proper prefix of another's *)
Theorem C02_injective : forall v1 v2 r1 r2, wf_dval v1 -> wf_dval v2 ->
  enc_dval v1 ++ r1 = enc_dval v2 ++ r2 -> v1 = v2 /\ r1 = r2.
Proof. exact value_enc_injective. Qed.
Print Assumptions C02_injective.
Theorem C02_prefix_free : forall v1 v2 r, wf_dval v1 -> wf_dval v2 ->
  enc_dval v1 = enc_dval v2 ++ r -> v1 = v2 /\ r = [].
Proof. exact value_enc_not_prefix. Qed.
Print Assumptions C02_prefix_free.

(* and a byte string splits into well-formed dynamic values in at most one way (this is what
   lets a list of values, or values written back to back, be read without any framing) *)
Theorem C02_stream_injective : forall vs1 vs2, Forall wf_dval vs1 -> Forall wf_dval vs2 ->
  flat_map enc_dval vs1 = flat_map enc_dval vs2 -> vs1 = vs2.
Proof. exact enc_dval_stream_injective. Qed.
Print Assumptions C02_stream_injective.

(* the data of an opaque value: the signature-driven reader returns exactly the bytes it consumed.
   Any well-formed signature, containers of zero-width elements included ("[v]", "[()]", "{v()}" ...) *)
Theorem C02_opaque_data : forall c v t fuel rest, value_reader_no_len c = false ->
  wf_ty t = true -> has_ty v t = true -> (dyn_depth v <= fuel)%nat ->
  sig_read parse_opt c fuel t (spec_enc v ++ rest) = ROk (spec_enc v, rest).
Proof. exact sig_read_spec_top. Qed.
Print Assumptions C02_opaque_data.

(* refutations: the pinned valueReader (switch value_reader_no_len), and the limits the
   encoder does not apply (findings list_over_4096 / raw_over_10MiB) *)
Theorem C02_refuted_value_reader :
  exists v, new_value parse_opt only_value_reader (enc_dval opq_sm) = ROk (v, []) /\ enc_dval v <> enc_dval opq_sm.
Proof. exact value_reencode_refuted. Qed.
Print Assumptions C02_refuted_value_reader.
Theorem C02_refuted_list_over_4096 :
  exists l, new_value parse_opt wclean (enc_dval (DList (repeat DVoid 4097))) = RErr l.
Proof. exact WireRefute.value_unbounded_refuted. Qed.
Print Assumptions C02_refuted_list_over_4096.

Example C02_nonvacuous : wf_dval ex_dval.
Proof. exact ex_dval_wf. Qed.
Example C02_nonvacuous_zero_width :
  wf_ty zw_ty = true /\ wfz zw_ty = false /\ has_ty zw_val zw_ty = true /\ dyn_depth zw_val = 1%nat /\ (List.length (spec_enc zw_val) = 42)%nat.
Proof. exact zw_val_ok. Qed.
