(* C02 — Dynamic values survive encode/decode unchanged, byte for byte.  Theorems only. *)
From QV Require Import Value ParseOpt WireRefute.
Local Open Scope N_scope.

(* refutations for the pinned behaviours (defect switches) *)
Theorem C02_refuted_value_reader :
  exists v, new_value parse_opt only_value_reader (enc_dval opq_sm) = ROk (v, []) /\ enc_dval v <> enc_dval opq_sm.
Proof. exact value_reencode_refuted. Qed.
Print Assumptions C02_refuted_value_reader.

Theorem C02_refuted_list_over_4096 :
  exists l, new_value parse_opt wclean (enc_dval (DList (repeat DVoid 4097))) = RErr l.
Proof. exact value_unbounded_refuted. Qed.
Print Assumptions C02_refuted_list_over_4096.
