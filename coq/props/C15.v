(* C15 — The service directory is a linearizable registry.
   This file holds the property theorems only; models in theories/Directory.v and Lin.v,
   proofs in theories/DirectoryProofs.v and LinProofs.v.

   Reading guide.  [cstep g] is the transliteration of bus/directory/directory.go
   (staging, services, lastID and the methods), [astep] the abstract registry (entries with
   a status, ids from a counter).  [run step s ops] gives the final state and, per
   operation, its result and the signals it emitted.  [lifecycle_of id tr] replays the
   results of a run for one identifier: handed out by a successful registerService, made
   visible by a successful serviceReady, ended by a successful unregisterService.
   [g : cfg] carries the two defect switches of the pinned code (cfg_unsync, cfg_wrap). *)
From Coq Require Import List NArith String Sorting.Sorted Permutation.
From QV Require Import Lin LinProofs Directory DirectoryProofs.
Import ListNotations.
Local Open Scope N_scope.

(* ---- sequential clauses, for every operation sequence ---- *)

(* the implementation model refines the abstract registry: same results, same signals *)
Theorem C15_refinement : forall g ops, cfg_wrap g = false ->
  snd (run (cstep g) cinit ops) = snd (run astep ainit ops).
Proof. exact refinement. Qed.
Print Assumptions C15_refinement.

(* identifiers are assigned strictly increasing (hence never reused) *)
Theorem C15_ids_increasing : forall g ops, cfg_wrap g = false ->
  StronglySorted N.lt (tr_ids (snd (run (cstep g) cinit ops))).
Proof. exact concrete_ids_increasing. Qed.
Print Assumptions C15_ids_increasing.

(* a name is held by at most one entry of staging ∪ services; so is an identifier *)
Theorem C15_name_unique : forall g ops, cfg_wrap g = false ->
  let c := fst (run (cstep g) cinit ops) in
  NoDup (map (fun p => i_name (snd p)) (staging c ++ services c)) /\
  NoDup (map fst (staging c ++ services c)).
Proof. exact concrete_unique. Qed.
Print Assumptions C15_name_unique.

(* service / services see an entry exactly from serviceReady until unregisterService:
   after any sequence, an identifier is listed iff its life is in the Ready state, a lookup
   by name answers with the entry whose life is Ready under that name and fails when there
   is none, and the list is sorted by identifier *)
Theorem C15_visibility : forall ops,
  let a := fst (run astep ainit ops) in
  let tr := snd (run astep ainit ops) in
  (forall id, (exists n, lifecycle_of id tr = LReady n) <->
              (exists e, In e (a_entries a) /\ a_id e = id /\ a_ready e = true)) /\
  (forall n, match snd (fst (astep a (OService n))) with
             | RInfo i => lifecycle_of (i_id i) tr = LReady n /\ i_name i = n
             | RErr => forall id, lifecycle_of id tr <> LReady n
             | _ => False
             end) /\
  (exists l, snd (fst (astep a OServices)) = RList l /\ StronglySorted id_le l /\
             forall id, In id (map i_id l) <-> exists n, lifecycle_of id tr = LReady n).
Proof. exact visibility. Qed.
Print Assumptions C15_visibility.

(* updateServiceInfo cannot change a service's name, identity or status, whatever its
   argument and outcome *)
Theorem C15_update_identity : forall ops i,
  let a := fst (run astep ainit ops) in
  forall id n rd, entry_with (fst (fst (astep a (OUpdate i)))) id n rd <-> entry_with a id n rd.
Proof. exact update_identity_reachable. Qed.
Print Assumptions C15_update_identity.

(* signals: for every identifier the emitted serviceAdded / serviceRemoved are exactly those
   its life calls for — none before ready, one added at ready, one removed at the
   unregistration of a ready service, in that order, carrying the registered name *)
Theorem C15_events_exact : forall g ops id, cfg_wrap g = false ->
  events_for id (tr_events (snd (run (cstep g) cinit ops))) =
  life_events id (lifecycle_of id (snd (run (cstep g) cinit ops))).
Proof. exact concrete_events_exact. Qed.
Print Assumptions C15_events_exact.

(* ---- concurrent histories ---- *)

(* the executable checker decides linearizability (generic in the spec) *)
Theorem C15_lin_check_correct : forall h,
  lin_check astep_r dres_eqb ainit h = true <-> linearizable astep_r ainit h.
Proof. exact dir_lin_check_correct. Qed.
Print Assumptions C15_lin_check_correct.

(* every history of an object whose operations are single atomic steps inside their call
   interval is linearizable (generic) *)
Theorem C15_atomic_lin : forall (St Op Res : Type) (step : St -> Op -> St * Res) init tr st',
  stamped 0 tr -> arun step (init, []) tr st' -> linearizable step init (ops_of (erase tr)).
Proof. exact atomic_lin. Qed.
Print Assumptions C15_atomic_lin.

(* the property: with both defects absent, every history the directory can produce —
   any number of remote and local callers, any interleaving — is equivalent to a sequential
   run of the abstract registry that respects real time; the sequential clauses above hold
   of every such run *)
Theorem C15_holds : forall g, clean g ->
  forall h, dir_history g h -> linearizable astep_r ainit h.
Proof. exact dir_linearizable. Qed.
Print Assumptions C15_holds.

(* identifiers under concurrency: in a linearizable history no identifier is handed to two
   registrations, and along the explaining sequential order (real time respected) the
   identifiers of the completed registrations increase strictly.  With C15_holds: every
   history of the synchronised directory, whatever the interleaving. *)
Theorem C15_hist_ids_increasing : forall h, linearizable astep_r ainit h ->
  exists lin rest, Permutation h (lin ++ rest) /\ Forall (fun x => o_ret x = None) rest /\ rt_ok lin /\
    StronglySorted N.lt (hist_ids lin) /\ Permutation (hist_ids h) (hist_ids lin).
Proof. exact lin_ids_increasing. Qed.
Print Assumptions C15_hist_ids_increasing.

Theorem C15_hist_ids_distinct : forall h, linearizable astep_r ainit h -> NoDup (hist_ids h).
Proof. exact lin_ids_distinct. Qed.
Print Assumptions C15_hist_ids_distinct.

(* the pinned code: no lock — two overlapping registrations of one name both succeed *)
Theorem C15_refuted_unsync_local : forall g, cfg_unsync g = true ->
  exists h, dir_history g h /\ ~ linearizable astep_r ainit h.
Proof. exact unsync_refuted. Qed.
Print Assumptions C15_refuted_unsync_local.

(* the pinned code: the uint32 counter wraps after 2^32-1 registrations *)
Theorem C15_refuted_id_wrap : forall g, cfg_wrap g = true ->
  exists ops, ~ StronglySorted N.lt (tr_ids (snd (run (cstep g) cinit ops))).
Proof. exact wrap_refuted. Qed.
Print Assumptions C15_refuted_id_wrap.

(* hypotheses are satisfiable: a concrete life cycle on the clean model, and a concurrent
   history with two overlapping calls that the checker accepts *)
Example C15_nonvacuous :
  let i := Build_info "a" 0 "m" 1 ["e"%string] "" "" in
  clean cfg_clean /\
  snd (run (cstep cfg_clean) cinit [ORegister i; OReady 1; OService "a"; OUnregister 1; OService "a"]) =
  [(ORegister i, RId 1, []); (OReady 1, ROk, [EvAdded 1 "a"]); (OService "a", RInfo (with_id i 1), []);
   (OUnregister 1, ROk, [EvRemoved 1 "a"]); (OService "a", RErr, [])] /\
  lin_check astep_r dres_eqb ainit
    [Build_orec 1 (ORegister i) 1 (Some (4, RId 1)); Build_orec 2 (OService "a") 2 (Some (3, RErr));
     Build_orec 2 (OReady 1) 5 (Some (6, ROk))] = true.
Proof. exact (conj (conj eq_refl eq_refl) (conj eq_refl eq_refl)). Qed.
