(* C15 — the service directory is a linearizable registry (first slice; theorems follow). *)
From Coq Require Import List NArith String.
From QV Require Import Lin Directory.
Import ListNotations.
Local Open Scope N_scope.
Local Open Scope string_scope.

Example C15_nonvacuous :
  let i := Build_info "a" 0 "m" 1 ["e"] "" "" in
  snd (run (cstep cfg_clean) cinit [ORegister i; OReady 1; OService "a"; OUnregister 1; OService "a"]) =
  [(ORegister i, RId 1, []); (OReady 1, ROk, [EvAdded 1 "a"]); (OService "a", RInfo (with_id i 1), []);
   (OUnregister 1, ROk, [EvRemoved 1 "a"]); (OService "a", RErr, [])].
Proof. vm_compute. reflexivity. Qed.
