(* C11 — Losing the connection fails calls promptly instead of hanging them.
   Property theorems only; the model is theories/ConnLoss.v (a labelled transition system of one
   client endpoint with n calls, m subscriptions, d OnDisconnect callbacks), the proofs are in
   theories/ConnLossProofs.v.  "For every schedule" = for every label sequence accepted by [run];
   [terminal s] = the connection is lost (dead or closed) and no goroutine that exists can take
   another step (the readers of the events channels are goroutines of the system: "the reader
   keeps reading").  [reachable s] = s is reached from [init n m d] by some label sequence. *)
From QV Require Import ConnLoss ConnLossProofs.
From Coq Require Import List.
Import ListNotations.

(* no schedule makes the client panic (close of a closed channel, send on a closed channel) *)
Theorem C11_no_panic : forall s, reachable s -> panicked s = false.
Proof. exact no_panic. Qed.
Print Assumptions C11_no_panic.

(* after the loss nothing waits for ever: in a terminal state every call of the scenario has
   returned (or was never started) *)
Theorem C11_calls_return : forall s, reachable s -> terminal s ->
  forall c, c < nn s -> cp s c = CIdle \/ exists b, cp s c = CDone b.
Proof. intros s R. exact (terminal_calls s (inv_reachable s R)). Qed.
Print Assumptions C11_calls_return.

(* ... and what it returned is an error, for the calls in flight at the loss as well as for the
   calls made later, unless a Reply for it had already been read from the stream ([can_ok]) *)
Theorem C11_calls_fail : forall s tr s' c, reachable s -> lost s = true -> ~ can_ok s c -> c < nn s ->
  run tr s = Some s' -> terminal s' ->
  (cp s c <> CIdle -> cp s' c = CDone false) /\ (cp s' c = CIdle \/ cp s' c = CDone false).
Proof. intros s tr s' c R. exact (calls_fail s tr s' c (inv_reachable s R)). Qed.
Print Assumptions C11_calls_fail.

(* every subscription made before the loss has its events channel closed *)
Theorem C11_subscriptions_closed : forall s0 tr s i, reachable s0 -> lost s0 = false -> sp s0 i <> SNone -> i < mm s0 ->
  run tr s0 = Some s -> terminal s -> evclosed s i = true.
Proof. intros s0 tr s i R. exact (subs_closed s0 tr s i (inv_reachable s0 R)). Qed.
Print Assumptions C11_subscriptions_closed.

(* every callback registered before the loss has run exactly once; no callback ever runs twice *)
Theorem C11_callbacks_once : forall s0 tr s j, reachable s0 -> lost s0 = false -> cbreg s0 j = true ->
  run tr s0 = Some s -> terminal s -> cbcount s j = 1.
Proof. intros s0 tr s j R. exact (cb_once s0 tr s j (inv_reachable s0 R)). Qed.
Print Assumptions C11_callbacks_once.
Theorem C11_callbacks_at_most_once : forall s j, reachable s -> cbcount s j <= 1.
Proof. exact cb_at_most_once. Qed.
Print Assumptions C11_callbacks_at_most_once.

(* a Reply that sits in the call's reply channel is returned to the caller, whatever happens to
   the connection afterwards, provided its own Send does not fail and it is not cancelled *)
Theorem C11_reply_delivered : forall tr s s' c, reachable s -> holds_reply s c -> c < nn s -> run tr s = Some s' ->
  ~ In (LCallSendFail c) tr -> ~ In (LCancel c) tr -> terminal s' -> cp s' c = CDone true.
Proof. intros tr s s' c R. exact (reply_delivered tr s s' c (inv_reachable s R)). Qed.
Print Assumptions C11_reply_delivered.

(* early reply: while the call is still inside Send (pc CMade) its handler is already in the table,
   so a Reply read and dispatched now lands in its reply channel *)
Theorem C11_early_reply : forall s c k, reachable s -> cp s c = CMade k -> intab s (OCall c) -> cancelled s c = false ->
  proc s = PRead -> lost s = false ->
  exists s1, run [LPeerMsg (MFor (OCall c) TReply); LDispatch] s = Some s1 /\ holds_reply s1 c /\ cp s1 c = CMade k.
Proof. intros s c k R. exact (early_reply_lands s c k (inv_reachable s R)). Qed.
Print Assumptions C11_early_reply.

(* "within bounded time", as a bound on steps: once the connection is lost no schedule is longer
   than [measure s] labels (an explicit linear function of what is still pending: 10 per call not yet
   made, at most 5 per call in progress, 3 per occupied handler slot, 2 per closer goroutine, 3 per
   queued event, ...), so a terminal state is reached within that many steps whatever the scheduler
   does; the initial measure of a scenario is 10n + 5m + 4d + 6; a call takes at most 3 steps of its
   own after MakeHandler *)
Theorem C11_bounded : forall tr s s', reachable s -> lost s = true -> run tr s = Some s' ->
  length tr + measure s' <= measure s.
Proof. intros tr s s' R. exact (lost_run_bounded tr s s' (inv_reachable s R) (reachable_bounded s R)). Qed.
Print Assumptions C11_bounded.
Theorem C11_measure_init : forall n m d, measure (init n m d) = 10 * n + 5 * m + 4 * d + 6.
Proof. exact measure_init. Qed.
Print Assumptions C11_measure_init.
Theorem C11_call_own_steps : forall s l s' c, step s l = Some s' ->
  (l = LCallSend c \/ l = LCallSendFail c \/ l = LCallRemove c \/ (exists b, l = LCallSel c b) \/ l = LCallCancelSend c) ->
  callrank (cp s' c) < callrank (cp s c) /\ callrank (cp s c) <= 5.
Proof. exact call_own_steps. Qed.
Print Assumptions C11_call_own_steps.

(* MakeHandler registers the handler whatever the number of handlers already live: the table
   has no bound, the slot returned holds the new handler *)
Theorem C11_always_registered : forall tb o, nth_error (fst (alloc tb o)) (snd (alloc tb o)) = Some (Some o).
Proof. exact alloc_slot. Qed.
Print Assumptions C11_always_registered.

(* the reader never waits inside dispatch, lost connection or not: the Error message dispatch
   writes for a Call that found a full queue is part of the step, its result is discarded *)
Theorem C11_dispatch_never_waits : forall s m, panicked s = false -> proc s = PHave m ->
  exists s', step s LDispatch = Some s' /\ proc s' = PRead.
Proof. exact dispatch_enabled. Qed.
Print Assumptions C11_dispatch_never_waits.

(* the hypotheses are met by a concrete run: two calls, one subscription, one callback; the reply
   to call 0 is dispatched before either Send has returned (early reply), an event is queued, the
   connection dies; afterwards call 0 has its reply, call 1 an error, the events channel is closed
   after its one payload was read, the callback ran once *)
Example C11_nonvacuous :
  reachable ex_s0 /\ (lost ex_s0 = false /\ sp ex_s0 0 <> SNone /\ cbreg ex_s0 0 = true /\ cp ex_s0 0 = CWait /\ cp ex_s0 1 = CWait) /\
  ~ can_ok ex_s0 1 /\ holds_reply ex_s0 0 /\ run ex_tr ex_s0 = Some ex_s /\ terminal ex_s /\
  (cp ex_s 0 = CDone true /\ cp ex_s 1 = CDone false /\ evclosed ex_s 0 = true /\ delivered ex_s 0 = 1 /\ cbcount ex_s 0 = 1).
Proof. exact (conj ex_reachable (conj ex_before (conj ex_not_ok (conj ex_holds (conj ex_run (conj ex_terminal ex_after)))))). Qed.
Print Assumptions C11_nonvacuous.
