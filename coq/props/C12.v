(* C12 — one client cannot stop a service from serving others.  (theorems being added) *)
From QV Require Import Hostile.
Local Open Scope N_scope.
Example C12_nonvacuous : hclean {| h_dup_relock := false; h_uid_global := true; h_write_blocks := false; h_removed_answers := true |}.
Proof. split; reflexivity. Qed.
