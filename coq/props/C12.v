(* C12 — one client cannot stop a service from serving others.
   Property theorems only; model theories/Hostile.v, proofs theories/HostileProofs.v.

   The model is parameterised by a total function [cls] that says, for an object kind, an action
   and a payload, what argument decoding and the method body yield: "decoding returns a value or
   an error" is C07's property and is assumed here (lib/claims/C12.json).  A run is any label
   sequence accepted by [hrun] from a freshly started server ([hstart]: distinct object keys, nothing queued): any number of clients,
   any frames of any type (an unreadable one stands for garbage or a disconnect at any point), any
   interleaving of the connections' process and consumer goroutines, the objects' mailbox
   goroutines and the closers. *)
From QV Require Import Signals Hostile HostileProofs.
Local Open Scope N_scope.

(* no Deadlock / blocked-for-ever state is reachable: every object's goroutine is idle between two
   mails (never dead, never blocked in a write), every mailbox and consumer queue is within its
   capacity, no endpoint mutex stays held, no connection goroutine is blocked in a write *)
Theorem C12_holds_safe : forall cls g st0 tr st,
  hclean g -> hstart st0 -> hrun cls g st0 tr = Some st -> HInv st.
Proof. exact c12_safe. Qed.
Print Assumptions C12_holds_safe.

(* ... and from every reachable state a call of a fresh client to any object is answered after at
   most MailboxCap + 5 steps, all of them steps of that object's goroutine and of the fresh
   connection's own goroutines (nothing is needed from the hostile client or its connection) —
   unless the requests the object had already accepted contain a terminate that names it *)
Theorem C12_holds_probe : forall cls g st0 tr st o x pl oid sg u,
  hclean g -> hstart st0 -> hrun cls g st0 tr = Some st ->
  nth_error (objs st) o = Some x -> o_kind x <> KAuth ->
  cls (o_kind x) A_metaObject pl = PArgs oid sg u -> (oid = 0 \/ oid = o_id x) ->
  (List.length (probe_sched st o x pl) <= MailboxCap + 5)%nat /\
  ((exists st', hrun cls g st (probe_sched st o x pl) = Some st' /\ probe_answered st' (List.length (conns st)) = true) \/
   (exists st1 x1, hrun cls g st (repeat (LObj o) (List.length (o_mb x))) = Some st1 /\ nth_error (objs st1) o = Some x1 /\
                   o_alive x1 = false)).
Proof. exact c12_probe. Qed.
Print Assumptions C12_holds_probe.

(* the harness's server (authentication service, directory, a generic service with two objects) is such a start *)
Theorem C12_start : forall id2, id2 <> 1 -> hstart (hinit_of id2).
Proof. exact hstart_init. Qed.
Print Assumptions C12_start.

(* the exception removes exactly what it names: an object stops being alive only by executing a
   terminate request (action 3) addressed to it whose argument is its own id (or 0); holds for
   every configuration *)
Theorem C12_removed_only_by_terminate : forall cls g st l st' o x x',
  hstep cls g st l = Some st' -> nth_error (objs st) o = Some x -> nth_error (objs st') o = Some x' ->
  o_alive x = true -> o_alive x' = false ->
  l = LObj o /\ exists c f r oid sg u, o_mb x = (c, f) :: r /\ f_act f = A_terminate /\
                 cls (o_kind x) (f_act f) (f_pl f) = PArgs oid sg u /\ oid_ok x oid = true.
Proof. exact c12_removed_only_by_terminate. Qed.
Print Assumptions C12_removed_only_by_terminate.

(* the pinned tree: a second registerEvent with a known id kills the object's goroutine ... *)
Theorem C12_refuted_dup_relock :
  exists st x, hrun std_cls (hcfg_of true false false true) hinit tr_dup = Some st /\
    nth_error (objs st) 2 = Some x /\ o_gor x = ODead /\ o_alive x = true /\
    hrun std_cls (hcfg_of true false false true) st (probe_sched st 2 x (pack_args 1 0 0)) = None.
Proof. exact refuted_dup_relock. Qed.
Print Assumptions C12_refuted_dup_relock.

(* ... and a client that does not read blocks it in a write *)
Theorem C12_refuted_write_blocks :
  exists st x, hrun std_cls (hcfg_of false false true true) hinit (flood (S OutCap)) = Some st /\
    nth_error (objs st) 2 = Some x /\ (exists ws, o_gor x = OBlocked ws) /\ o_alive x = true /\
    hrun std_cls (hcfg_of false false true true) st (probe_sched st 2 x (pack_args 1 0 0)) = None.
Proof. exact refuted_write_blocks. Qed.
Print Assumptions C12_refuted_write_blocks.

Example C12_nonvacuous :
  exists st x st', hrun std_cls (hcfg_of false true false true) hinit (tr_dup ++ tl (flood 70)) = Some st /\
    nth_error (objs st) 2 = Some x /\
    hrun std_cls (hcfg_of false true false true) st (probe_sched st 2 x (pack_args 1 0 0)) = Some st' /\
    probe_answered st' (List.length (conns st)) = true.
Proof. exact ex_clean_probe. Qed.
