(* C12 — one client cannot stop a service from serving others.
   Property theorems only; model theories/Hostile.v, proofs theories/HostileProofs.v.

   The model is parameterised by a total function [cls] that says, for an object kind, an action
   and a payload, what argument decoding and the method body yield: "decoding returns a value or
   an error" is C07's property and is assumed here (lib/claims/C12.json).  A run is any label
   sequence accepted by [hrun] from a freshly started server ([hstart]: distinct object keys, nothing queued): any number of clients,
   any frames of any type (an unreadable one stands for garbage or a disconnect at any point), any
   interleaving of the connections' process and consumer goroutines, the objects' mailbox
   goroutines and the closers. *)
From QV Require Import Signals Hostile HostileProofs.
From QV Require Auth AuthStateless.
Local Open Scope N_scope.

(* no Deadlock / blocked-for-ever state is reachable: every object's goroutine is idle between two
   mails (never dead, never blocked in a write), every mailbox and consumer queue is within its
   capacity, no endpoint mutex stays held, no connection goroutine is blocked in a write *)
Theorem C12_holds_safe : forall cls g st0 tr st,
  hclean g -> hstart st0 -> hrun cls g st0 tr = Some st -> HInv st.
Proof. exact c12_safe. Qed.
Print Assumptions C12_holds_safe.

(* ... and from every reachable state a call of a fresh client to any object is answered after at
   most MailboxCap + 5 steps, all of them steps of that object's goroutine and of the fresh
   connection's own goroutines (nothing is needed from the hostile client or its connection) —
   unless the requests the object had already accepted contain a terminate that names it *)
Theorem C12_holds_probe : forall cls g st0 tr st o x pl oid sg u,
  hclean g -> hstart st0 -> hrun cls g st0 tr = Some st ->
  nth_error (objs st) o = Some x -> o_kind x <> KAuth ->
  cls (o_kind x) A_metaObject pl = PArgs oid sg u -> (oid = 0 \/ oid = o_id x) ->
  (List.length (probe_sched st o x pl) <= MailboxCap + 5)%nat /\
  ((exists st', hrun cls g st (probe_sched st o x pl) = Some st' /\ probe_answered st' (List.length (conns st)) = true) \/
   (exists st1 x1, hrun cls g st (repeat (LObj o) (List.length (o_mb x))) = Some st1 /\ nth_error (objs st1) o = Some x1 /\
                   o_alive x1 = false)).
Proof. exact c12_probe. Qed.
Print Assumptions C12_holds_probe.

(* the harness's server (authentication service, directory, a generic service with two objects) is such a start *)
Theorem C12_start : forall id2, id2 <> 1 -> hstart (hinit_of id2).
Proof. exact hstart_init. Qed.
Print Assumptions C12_start.

(* the exception removes exactly what it names: an object stops being alive only by executing a
   terminate request (action 3) addressed to it whose argument is its own id (or 0); holds for
   every configuration *)
Theorem C12_removed_only_by_terminate : forall cls g st l st' o x x',
  hstep cls g st l = Some st' -> nth_error (objs st) o = Some x -> nth_error (objs st') o = Some x' ->
  o_alive x = true -> o_alive x' = false ->
  l = LObj o /\ exists c f r oid sg u, o_mb x = (c, f) :: r /\ f_act f = A_terminate /\
                 cls (o_kind x) (f_act f) (f_pl f) = PArgs oid sg u /\ oid_ok x oid = true.
Proof. exact c12_removed_only_by_terminate. Qed.
Print Assumptions C12_removed_only_by_terminate.

(* service 0 itself (model theories/Auth.v, shared with C06; proofs theories/AuthStateless.v): a fresh
   client is served only if it can first AUTHENTICATE.  The mailbox goroutine of service 0 keeps no
   state between two mails: its answer to the mail at the head of its mailbox is the same in any
   two states that agree on that mail and on "its connection is closed" — whatever any client sent
   before, for every authenticator ... *)
Theorem C12_service0_stateless : forall skip fp auth eo st st' c f q q',
  Auth.s_mbox st = (c, f) :: q -> Auth.s_mbox st' = (c, f) :: q' ->
  Auth.c_closed (Auth.get st c) = Auth.c_closed (Auth.get st' c) ->
  snd (Auth.step skip fp auth eo st Auth.LMbox) = snd (Auth.step skip fp auth eo st' Auth.LMbox).
Proof. exact AuthStateless.mbox_answer_stateless. Qed.
Print Assumptions C12_service0_stateless.

(* ... and from EVERY state (reachable or not) in which service 0's mailbox is within its capacity,
   an open connection with nothing queued that sends an authenticate request carrying accepted
   credentials is answered "done" and becomes authenticated after
     LArrive; LConn; one LMbox per mail that was already queued (mails of other connections); LMbox
   i.e. at most queue_cap + 3 steps of its own two goroutines and of service 0's goroutine *)
Theorem C12_fresh_client_authenticates : forall skip fp auth eo st c f m r u t,
  Auth.c_closed (Auth.get st c) = false -> Auth.c_dead (Auth.get st c) = false -> Auth.c_inq (Auth.get st c) = [] ->
  (List.length (Auth.s_mbox st) <= Auth.queue_cap)%nat -> (forall e, In e (Auth.s_mbox st) -> fst e <> c) ->
  Auth.type_ok (Auth.f_type f) = true -> fp (Auth.f_type f) = true ->
  Auth.f_svc f = 0 -> Auth.f_obj f = 0 -> Auth.f_act f = Auth.AuthenticateActionID ->
  Auth.dec_capmap skip (Auth.f_payload f) = Auth.DOk m r -> Auth.creds m = Some (u, t) -> auth u t = true ->
  let st' := Auth.exec skip fp auth eo st
               (Auth.LArrive c f :: Auth.LConn c :: AuthStateless.mboxes (List.length (Auth.s_mbox st))) in
  snd (Auth.step skip fp auth eo st' Auth.LMbox) =
    [Auth.OAuthCall u t true; Auth.OFrame c Message.T_Reply 0 0 Auth.AuthenticateActionID (Auth.f_id f) Auth.BAuthDone] /\
  Auth.c_authed (Auth.get (fst (Auth.step skip fp auth eo st' Auth.LMbox)) c) = true.
Proof. exact AuthStateless.fresh_client_authenticates. Qed.
Print Assumptions C12_fresh_client_authenticates.

(* the pinned tree: a second registerEvent with a known id kills the object's goroutine ... *)
Theorem C12_refuted_dup_relock :
  exists st x, hrun std_cls (hcfg_of true false false true) hinit tr_dup = Some st /\
    nth_error (objs st) 2 = Some x /\ o_gor x = ODead /\ o_alive x = true /\
    hrun std_cls (hcfg_of true false false true) st (probe_sched st 2 x (pack_args 1 0 0)) = None.
Proof. exact refuted_dup_relock. Qed.
Print Assumptions C12_refuted_dup_relock.

(* ... and a client that does not read blocks it in a write *)
Theorem C12_refuted_write_blocks :
  exists st x, hrun std_cls (hcfg_of false false true true) hinit (flood (S OutCap)) = Some st /\
    nth_error (objs st) 2 = Some x /\ (exists ws, o_gor x = OBlocked ws) /\ o_alive x = true /\
    hrun std_cls (hcfg_of false false true true) st (probe_sched st 2 x (pack_args 1 0 0)) = None.
Proof. exact refuted_write_blocks. Qed.
Print Assumptions C12_refuted_write_blocks.

Example C12_nonvacuous :
  exists st x st', hrun std_cls (hcfg_of false true false true) hinit (tr_dup ++ tl (flood 70)) = Some st /\
    nth_error (objs st) 2 = Some x /\
    hrun std_cls (hcfg_of false true false true) st (probe_sched st 2 x (pack_args 1 0 0)) = Some st' /\
    probe_answered st' (List.length (conns st)) = true.
Proof. exact ex_clean_probe. Qed.
