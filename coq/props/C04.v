(* C04 — Every call gets exactly one answer — its own — and runs its method exactly once.
   Property theorems only; the model is theories/Call.v (a labelled transition system of clients,
   FIFO connections, the server's connection goroutine, per-object mailboxes, generated stubs and
   the client endpoint's dispatch), the proofs theories/CallProofs.v, the concrete runs
   theories/CallWitness.v.  "For every schedule" = for every list of labels `ls`; connections and
   clients are named by arbitrary naturals (any number of them); the method table `tg`, the result
   function `fr`, the argument-decoding predicate `ok` and the method-error predicate `ce` are
   arbitrary, and so is the connection's message-type filter `flt`.  `bounded st`: no client has drawn more than 2^31 message ids. *)
From QV Require Import Call CallProofs CallWitness.
From QV Require Teardown TeardownProofs.
Local Open Scope N_scope.

(* client.nextMessageID: two calls of one client whose issue indices differ by < 2^31 get different ids *)
Theorem C04_ids_distinct : forall i j : nat, i <> j ->
  (Z.abs (Z.of_nat i - Z.of_nat j) < 2 ^ 31)%Z -> id_of_index i <> id_of_index j.
Proof. exact ids_distinct. Qed.
Print Assumptions C04_ids_distinct.

(* SendReply / SendError: the answer carries the request's service, object, action and id *)
Theorem C04_reply_echoes_key : forall g ty p,
  fkey (mk_frame ty (fkey g) p (f_tag g)) = fkey g /\ f_tag (mk_frame ty (fkey g) p (f_tag g)) = f_tag g.
Proof. exact reply_echoes_key. Qed.
Print Assumptions C04_reply_echoes_key.

(* endPoint.dispatch on the client: a frame from the server matches the handler of at most one
   pending call, and it is the answer to that very call *)
Theorem C04_dispatch_unique : forall k flt tg fr ok ce ls,
  let st := exec k flt tg fr ok ce init ls in bounded st ->
  forall c i j g, In g (s2c st c) -> (i < issued st c)%nat -> (j < issued st c)%nat ->
  hit (calls st c i) g = true -> hit (calls st c j) g = true -> i = j /\ f_tag g = TCall c i.
Proof. exact dispatch_unique_reachable. Qed.
Print Assumptions C04_dispatch_unique.

(* the only step that changes an execution counter is a mailbox goroutine handling one mail whose
   type runs the method: exactly +1, for that mail's request *)
Theorem C04_mailbox_once : forall k flt tg fr ok ce st l t,
  ex (step k flt tg fr ok ce st l) t = ex st t \/
  exists s o c g r, l = LMbox s o /\ take_mail s o (mails st) = Some (c, g, r) /\ t = f_tag g /\
                    runs k (f_type g) = true /\ ex (step k flt tg fr ok ce st l) t = S (ex st t).
Proof. exact mailbox_once. Qed.
Print Assumptions C04_mailbox_once.

(* the composition, for the configuration without the two defects of the pinned tree *)
Theorem C04_holds : forall k flt tg fr ok ce, clean k -> forall ls,
  let st := exec k flt tg fr ok ce init ls in bounded st ->
  (forall c i,
     (k_returns (calls st c i) <= 1)%nat /\
     (forall p, k_result (calls st c i) = Some (ROk p) ->
                p = expected fr (calls st c i) /\ ex st (TCall c i) = 1%nat) /\
     (ex st (TCall c i) <= 1)%nat /\
     (k_result (calls st c i) <> None -> k_returns (calls st c i) = 1%nat)) /\
  (forall c n,
     (ex st (TRaw c n) <= 1)%nat /\
     (rawty st c n = T_Post -> back st (TRaw c n) = O) /\
     (is_cp (rawty st c n) = false -> ex st (TRaw c n) = O)).
Proof. exact call_outcome. Qed.
Print Assumptions C04_holds.

(* exactly one: when nothing of a connection is left in the queues and mailboxes, each call sent
   on it has returned once, or its answer is in its handler's queue and Call returns at its next step *)
Theorem C04_exactly_one_when_drained : forall k flt tg fr ok ce, clean k -> flt T_Call = true -> forall ls,
  let st := exec k flt tg fr ok ce init ls in bounded st ->
  forall c i, k_sent (calls st c i) = true ->
    c2s st c = [] -> (forall g, ~ In (c, g) (mails st)) -> s2c st c = [] ->
    k_returns (calls st c i) = 1%nat \/
    (k_returns (calls st c i) = O /\ k_waiting (calls st c i) = true /\ exists g, k_chan (calls st c i) = Some g).
Proof. exact call_exactly_one_when_drained. Qed.
Print Assumptions C04_exactly_one_when_drained.

(* the pinned tree (both switches on) violates the property: witnesses, replayed by the harness *)
Theorem C04_refuted_noncall_runs :
  (* a cancelled call runs its method a second time *)
  ex (run_ex cfg_pinned ex_cancel) (TCall 0 0) = 2%nat /\
  (* a Capability or a Cancel frame of any peer runs the method and is answered with a Reply *)
  ex (run_ex cfg_pinned (ex_raw T_Capability)) (TRaw 0 0) = 1%nat /\
  map f_type (s2c (run_ex cfg_pinned (ex_raw T_Capability)) 0) = [T_Reply] /\
  ex (run_ex cfg_pinned (ex_raw T_Cancel)) (TRaw 0 0) = 1%nat.
Proof. exact (conj ex_cancel_runs_twice ex_capability_runs). Qed.
Print Assumptions C04_refuted_noncall_runs.

Theorem C04_refuted_post_answered :
  back (run_ex cfg_pinned ex_post_noact) (TRaw 0 0) = 1%nat /\ rawty (run_ex cfg_pinned ex_post_noact) 0 0 = T_Post.
Proof. exact ex_post_answered. Qed.
Print Assumptions C04_refuted_post_answered.

(* ---- calls issued while the endpoint of their client loses the connection (Teardown.v) ----
   any schedule of any number of calls (register, send), answers, the loss noticed by the reader, and any
   number of overlapping executions of endPoint.closeWith, each in two halves *)

(* whatever the order of the two halves: a call returns at most once *)
Theorem C04_teardown_at_most_once : forall close_first ls i,
  (Teardown.rets (Teardown.exec close_first ls) i <= 1)%nat /\
  (Teardown.stat (Teardown.exec close_first ls) i = Teardown.SDone <-> Teardown.rets (Teardown.exec close_first ls) i = 1%nat).
Proof. exact TeardownProofs.returns_at_most_once. Qed.
Print Assumptions C04_teardown_at_most_once.

(* the order of the source (stream.Close() first, tie_c04_closewith_close_first): once one execution of
   closeWith is over no call is blocked waiting, whenever it was issued; a call that has registered
   its handler and not written its frame yet returns (an error) at its next step *)
Theorem C04_teardown_every_call_returns : forall ls,
  let s := Teardown.exec true ls in (Teardown.completed s > 0)%nat ->
  forall i, Teardown.stat s i <> Teardown.SWait /\
    (forall b, Teardown.stat s i = Teardown.SReg b ->
       Teardown.stat (Teardown.step true s (Teardown.DSend i)) i = Teardown.SDone /\
       Teardown.rets (Teardown.step true s (Teardown.DSend i)) i = 1%nat).
Proof. exact TeardownProofs.every_call_returns. Qed.
Print Assumptions C04_teardown_every_call_returns.

(* the other order (handlers released first, stream closed last) loses a call: a call that starts
   between the two halves after the reader noticed the loss waits for ever (until somebody calls
   Close() again); with the order of the source the same schedule ends with both calls returned *)
Theorem C04_teardown_order_matters :
  (let s := Teardown.exec false TeardownProofs.witness_ls in
   Teardown.completed s = 1%nat /\ Teardown.inprog s = 0%nat /\ Teardown.reader s = false /\ Teardown.open s = false /\
   Teardown.stat s 0 = Teardown.SDone /\ Teardown.stat s 1 = Teardown.SWait /\ Teardown.rets s 1 = 0%nat /\
   forall ls', Teardown.no_tear1 ls' = true ->
     Teardown.stat (Teardown.exec_from false s ls') 1 = Teardown.SWait /\ Teardown.rets (Teardown.exec_from false s ls') 1 = 0%nat) /\
  (let s := Teardown.exec true TeardownProofs.witness_ls in
   Teardown.stat s 0 = Teardown.SDone /\ Teardown.rets s 0 = 1%nat /\ Teardown.stat s 1 = Teardown.SDone /\ Teardown.rets s 1 = 1%nat).
Proof. exact (conj TeardownProofs.order_matters TeardownProofs.same_schedule_source_order). Qed.
Print Assumptions C04_teardown_order_matters.

(* the scenarios the harness forces (calls placed before the loss / while the reader holds its error /
   inside stream.Close() / after it; loss noticed by the reader or local Close(); answers arriving or
   not): every placement of up to four calls ends with every call returned *)
Theorem C04_teardown_scenarios_small_scope :
  forallb (fun ps => TeardownProofs.scen_ok true false false ps && TeardownProofs.scen_ok true false true ps &&
                     TeardownProofs.scen_ok true true false ps && TeardownProofs.scen_ok true true true ps)
          (TeardownProofs.all_lists 4) = true.
Proof. exact TeardownProofs.scenarios_small_scope. Qed.
Print Assumptions C04_teardown_scenarios_small_scope.

(* two calls in flight on one connection, sent in the opposite order of their ids: each returns
   once with the result of its own payload, each method body ran once *)
Example C04_nonvacuous :
  let st := run_ex cfg_clean ex_two_calls in
  k_result (calls st 0 0) = Some (ROk (rev p12)) /\ k_result (calls st 0 1) = Some (ROk (rev p345)) /\
  ex st (TCall 0 0) = 1%nat /\ ex st (TCall 0 1) = 1%nat /\ k_returns (calls st 0 0) = 1%nat /\ bounded st.
Proof. exact ex_two_calls_results. Qed.
