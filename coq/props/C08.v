(* C08 — A truncated encoding is never accepted.  Theorems only; proofs in
   theories/MessageProofs.v, PrefixProofs.v. *)
From QV Require Import Reader ReaderProofs Message MessageProofs Value GenDec WireDefs PrefixProofs ParseOpt WireTop WireRefute.
Local Open Scope N_scope.

(* messages: every strict prefix of a valid frame is rejected, for every read schedule *)
Theorem C08_message : forall m k sch r s', valid_msg m -> (k < List.length (enc_msg m))%nat ->
  read_msg {| s_data := firstn k (enc_msg m); s_sched := sch |} = Some (r, s') -> exists e, r = Err e.
Proof. exact read_msg_prefix_rejected. Qed.
Print Assumptions C08_message.

(* dynamic values *)
Theorem C08_value : forall c v k, string_reader_drops_err c = false -> wf_dval v ->
  (k < List.length (enc_dval v))%nat -> fails (new_value parse_opt c (firstn k (enc_dval v))).
Proof. exact new_value_prefix_top. Qed.
Print Assumptions C08_value.

(* typed data of any signature through the signature-driven reader (containers of zero-width
   elements included: their members add nothing to the encoding, so every proper prefix cuts
   a count or a sized member) *)
Theorem C08_sig_read : forall c v t fuel k, string_reader_drops_err c = false ->
  wf_ty t = true -> has_ty v t = true -> (dyn_depth v <= fuel)%nat ->
  (k < List.length (spec_enc v))%nat -> fails (sig_read parse_opt c fuel t (firstn k (spec_enc v))).
Proof. exact sig_read_prefix_top. Qed.
Print Assumptions C08_sig_read.

(* Go values through the reflection decoder *)
Theorem C08_refl_dec : forall c v t k,
  refl_struct_ignores_err c = false -> refl_neg_len_panics c = false -> refl_drop8 c = false ->
  wf_ty t = true -> has_ty v t = true -> refl_domain t = true -> lens_ok v = true ->
  (k < List.length (spec_enc v))%nat -> fails (refl_dec c tval_eqb t (firstn k (spec_enc v))).
Proof. exact refl_dec_prefix_top. Qed.
Print Assumptions C08_refl_dec.

(* generated decoders: meta-object, object reference, service info, any signature without "m" *)
Theorem C08_generated : forall t v k, wf_ty t = true -> has_ty v t = true -> dyn_depth v = 0%nat ->
  (k < List.length (spec_enc v))%nat -> fails (gen_dec parse_opt t (firstn k (spec_enc v))).
Proof. exact gen_dec_prefix. Qed.
Print Assumptions C08_generated.

Theorem C08_refuted_string_reader :
  exists r, sig_read parse_opt only_string_reader 0 (TStruct "A" [("a"%string, TS SStr)]) (firstn 5 (spec_enc hello)) = ROk r.
Proof. exact WireRefute.sig_read_prefix_refuted. Qed.
Print Assumptions C08_refuted_string_reader.
Theorem C08_refuted_struct_errors :
  exists r, refl_dec only_struct_err tval_eqb (TTuple [TS SI32; TS SI32]) (firstn 4 (spec_enc (VTup [VNum 4 1; VNum 4 2]))) = ROk r.
Proof. exact WireRefute.refl_dec_prefix_refuted. Qed.
Print Assumptions C08_refuted_struct_errors.

Example C08_nonvacuous :
  good_ty ex_ty = true /\ has_ty ex_val ex_ty = true /\ dyn_depth ex_val = 1%nat /\ (List.length (spec_enc ex_val) = 39)%nat.
Proof. exact ex_val_ok. Qed.
Example C08_nonvacuous_zero_width :
  wf_ty zw_ty = true /\ wfz zw_ty = false /\ has_ty zw_val zw_ty = true /\ dyn_depth zw_val = 1%nat /\ (List.length (spec_enc zw_val) = 42)%nat.
Proof. exact zw_val_ok. Qed.
