(* C08 — A truncated encoding is never accepted.  Theorems only. *)
From QV Require Import Reader ReaderProofs Message MessageProofs Value ParseOpt WireRefute.
Local Open Scope N_scope.

(* messages: every strict prefix of a valid frame is rejected, for every read schedule *)
Theorem C08_message_prefix : forall m k sch r s', valid_msg m -> (k < List.length (enc_msg m))%nat ->
  read_msg {| s_data := firstn k (enc_msg m); s_sched := sch |} = Some (r, s') -> exists e, r = Err e.
Proof. exact read_msg_prefix_rejected. Qed.
Print Assumptions C08_message_prefix.

Theorem C08_refuted_string_reader :
  exists r, sig_read parse_opt only_string_reader 0 (TStruct "A" [("a"%string, TS SStr)]) (firstn 5 (spec_enc hello)) = ROk r.
Proof. exact sig_read_prefix_refuted. Qed.
Print Assumptions C08_refuted_string_reader.

Theorem C08_refuted_struct_errors :
  exists r, refl_dec only_struct_err tval_eqb (TTuple [TS SI32; TS SI32]) (firstn 4 (spec_enc (VTup [VNum 4 1; VNum 4 2]))) = ROk r.
Proof. exact refl_dec_prefix_refuted. Qed.
Print Assumptions C08_refuted_struct_errors.
