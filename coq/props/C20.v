(* C20 — Structural conversion preserves every value.
   Property theorems only; model in theories/Conv.v, proofs in theories/ConvProofs.v.

   convert c t1 t2 v   : what conversion.ConvertFrom(&x, v) leaves in a fresh x : t2 for v : t1
   compat t1 t2        : integers to integers of the same signedness at least as wide, float32 to
                         float64, strings, booleans, slices, maps, structs matched by field name
                         (case-insensitively, names unambiguous), nested arbitrarily
   agree t1 t2 v v'    : every element, key and field of v' equals the one of v at the same place
   convert_onto c t1 t2 v old : the same for an x : t2 that is not fresh; `old : dval` is what x held
                         (slices: length and whole backing array), e.g. a reply variable used again
   enter e c t1 t2 v old : the same through entry point e — EConvertFrom (the value itself),
                         EDecodeFrom (conversion.DecodeFrom: the bytes of v : t1 and the type t1), ECall2
                         (bus.Proxy.Call2: t1 = type of the return signature advertised in the meta object,
                         t2 = type of the caller's variable; read directly when both have one signature text,
                         same_sigb, handed to DecodeFrom otherwise); old = None: x is fresh
   clean c             : the defect switches map_value_into_key and map_keeps_old_entries are off *)
From Coq Require Import List ZArith String Permutation.
From QV Require Import Conv ConvProofs.
Import ListNotations.

(* first clause: the conversion succeeds, keeps every element, key and field, stays well typed,
   and converting back recovers the source exactly — for all compatible type pairs of any
   nesting and all values of the source type *)
Theorem C20_holds : forall c, clean c -> forall t1 t2 v, compat t1 t2 -> has_type t1 v ->
  exists v', convert c t1 t2 v = COk v' /\ has_type t2 v' /\ agree t1 t2 v v' /\ convert c t2 t1 v' = COk v.
Proof. exact convert_compat. Qed.
Print Assumptions C20_holds.

(* the scalars found in the result (elements, keys, fields, left to right) are exactly the
   scalars of the source; the order may differ only where struct fields are declared in a
   different order, which `agree` above accounts for *)
Theorem C20_leaves : forall c, clean c -> forall t1 t2 v v', compat t1 t2 -> has_type t1 v ->
  convert c t1 t2 v = COk v' -> Permutation (leaves v') (leaves v).
Proof. exact convert_leaves. Qed.
Print Assumptions C20_leaves.

(* the destination need not be fresh: whatever it held before (a longer slice, a map with other
   entries, a struct with set fields, nested), the conversion of a compatible pair leaves exactly
   what it leaves in a fresh variable — no element, entry or field of the previous content
   survives — and the way back recovers the source whatever *its* destination held *)
Theorem C20_destination_irrelevant : forall c, clean c -> forall t1 t2 v old, compat t1 t2 -> has_type t1 v ->
  convert_onto c t1 t2 v old = convert c t1 t2 v.
Proof. exact convert_onto_indep. Qed.
Print Assumptions C20_destination_irrelevant.

Theorem C20_holds_reused_destination : forall c, clean c -> forall t1 t2 v old, compat t1 t2 -> has_type t1 v ->
  exists v', convert_onto c t1 t2 v old = COk v' /\ has_type t2 v' /\ agree t1 t2 v v' /\
             forall old', convert_onto c t2 t1 v' old' = COk v.
Proof. exact convert_onto_compat. Qed.
Print Assumptions C20_holds_reused_destination.

(* a destination holding zero values is a fresh one (any switches, any types) *)
Theorem C20_zero_destination_is_fresh : forall c t1 t2 v, convert_onto c t1 t2 v (dzero t2) = convert c t1 t2 v.
Proof. exact (fun c t1 t2 v => convert_into_fresh c t2 t1 v). Qed.
Print Assumptions C20_zero_destination_is_fresh.

(* second clause: kinds from different classes {bool, string, integer, float, slice, map, struct}
   are refused, whatever the value and whatever the switch *)
Theorem C20_refuses_other_kinds : forall c t1 t2 v, class_of t1 <> class_of t2 -> convert c t1 t2 v = CErr.
Proof. exact convert_class_mismatch. Qed.
Print Assumptions C20_refuses_other_kinds.

(* ... and so is any conversion that meets, at some element, key or matched field the value
   actually holds, kinds of different classes *)
Theorem C20_refuses_other_kinds_nested : forall c, clean c -> forall t1 t2 v,
  other_kind_reached t2 t1 v = true -> convert c t1 t2 v = CErr.
Proof. exact (fun c H t1 t2 v => other_kind_refused c H t2 t1 v). Qed.
Print Assumptions C20_refuses_other_kinds_nested.

(* every entry point: for compatible types ConvertFrom, DecodeFrom and Proxy.Call2 (whether the
   reply is read directly or converted) leave what ConvertFrom leaves in a fresh variable, whatever
   the destination held — so the first clause holds at each of them, and the way back through any
   converting entry point recovers the source.  The model has no state: the outcome of a call is a
   function of its own arguments, which is what the sequences of the correspondence run are
   compared with. *)
Theorem C20_entry_is_conversion : forall c, clean c -> forall e t1 t2 v old, compat t1 t2 -> has_type t1 v ->
  enter e c t1 t2 v old = convert c t1 t2 v.
Proof. exact enter_compat. Qed.
Print Assumptions C20_entry_is_conversion.

Theorem C20_holds_at_every_entry_point : forall c, clean c -> forall e t1 t2 v old, compat t1 t2 -> has_type t1 v ->
  exists v', enter e c t1 t2 v old = COk v' /\ has_type t2 v' /\ agree t1 t2 v v' /\
             forall e' old', e' <> ECall2 -> enter e' c t2 t1 v' old' = COk v.
Proof. exact enter_holds. Qed.
Print Assumptions C20_holds_at_every_entry_point.

(* a reply whose advertised signature is the caller's own is read as it is: for compatible types
   that is the conversion *)
Theorem C20_direct_read_is_conversion : forall c, clean c -> forall t1 t2 v,
  same_sigb t1 t2 = true -> compat t1 t2 -> has_type t1 v -> convert c t1 t2 v = COk v.
Proof. exact same_sig_convert. Qed.
Print Assumptions C20_direct_read_is_conversion.

(* second clause at every entry point: there is no way around the refusal *)
Theorem C20_every_entry_refuses_other_kinds : forall e c t1 t2 v old,
  class_of t1 <> class_of t2 -> enter e c t1 t2 v old = CErr.
Proof. exact enter_class_mismatch. Qed.
Print Assumptions C20_every_entry_refuses_other_kinds.

Theorem C20_every_entry_refuses_other_kinds_nested : forall c, clean c -> forall e t1 t2 v,
  other_kind_reached t2 t1 v = true -> (e = ECall2 -> same_sigb t1 t2 = false) -> enter e c t1 t2 v None = CErr.
Proof. exact enter_other_kind_refused. Qed.
Print Assumptions C20_every_entry_refuses_other_kinds_nested.

(* the pinned convertMap (value converted into the key variable, element never filled) breaks
   the first clause: map[int8]int8{1:5} becomes map[int16]int16{5:0} ... *)
Theorem C20_refuted_map_value_into_key :
  compat wit_t1 wit_t2 /\ has_type wit_t1 wit_v /\
  convert cfg_pinned wit_t1 wit_t2 wit_v = COk (VMap [(VInt 5, VInt 0)]) /\
  ~ (exists v', convert cfg_pinned wit_t1 wit_t2 wit_v = COk v' /\ agree wit_t1 wit_t2 wit_v v').
Proof. exact refuted_map_value_into_key. Qed.
Print Assumptions C20_refuted_map_value_into_key.

(* ... and map[string]int8{"a":1} is refused when converted into its own type *)
Theorem C20_refuted_map_refused :
  compat wit2_t wit2_t /\ has_type wit2_t wit2_v /\ convert cfg_pinned wit2_t wit2_t wit2_v = CErr.
Proof. exact refuted_map_refused. Qed.
Print Assumptions C20_refuted_map_refused.

(* ... and map[int8]int8{1:5} is accepted into map[int16]string *)
Theorem C20_refuted_map_other_kind_accepted :
  other_kind_reached wit3_t2 wit_t1 wit_v = true /\
  convert cfg_pinned wit_t1 wit3_t2 wit_v = COk (VMap [(VInt 5, VStr "")]).
Proof. exact refuted_map_other_kind_accepted. Qed.
Print Assumptions C20_refuted_map_other_kind_accepted.

(* the pinned convertMap stores into the map the destination already holds: map[int8]int8{1:5}
   into a map[int16]int16 holding {7:7} gives {7:7, 1:5}; the entry 7:7 is not the source's and
   converting back yields two entries *)
Theorem C20_refuted_map_keeps_old_entries :
  compat wit_t1 wit_t2 /\ has_type wit_t1 wit_v /\ has_type wit_t2 (visible wit4_old) /\
  convert_onto cfg_keeps wit_t1 wit_t2 wit_v wit4_old = COk (VMap [(VInt 7, VInt 7); (VInt 1, VInt 5)]) /\
  ~ (exists v', convert_onto cfg_keeps wit_t1 wit_t2 wit_v wit4_old = COk v' /\ agree wit_t1 wit_t2 wit_v v') /\
  convert cfg_keeps wit_t2 wit_t1 (VMap [(VInt 7, VInt 7); (VInt 1, VInt 5)]) <> COk wit_v.
Proof. exact refuted_map_keeps_old_entries. Qed.
Print Assumptions C20_refuted_map_keeps_old_entries.

(* the hypotheses are met by a nested instance (struct with permuted, differently-cased fields
   holding an integer, a slice of floats, a map and a boolean) *)
Example C20_nonvacuous :
  compat ex_t1 ex_t2 /\ has_type ex_t1 ex_v /\ convert cfg_clean ex_t1 ex_t2 ex_v = COk ex_v' /\
  convert cfg_clean ex_t2 ex_t1 ex_v' = COk ex_v.
Proof. exact ex_nonvacuous. Qed.
