(* C10 — concurrent senders never corrupt the stream; each message arrives once, in order; each handler
   receives exactly the subsequence its filter selects, in arrival order, while its queue has room.
   Models: theories/Message.v (Message.Write / Read), theories/Endpoint.v (send_run: N senders sharing
   one stream; the handler table and dispatch).  Proofs: theories/MessageProofs.v, EndpointProofs.v. *)
From QV Require Import Reader ReaderProofs Message MessageProofs Endpoint EndpointProofs.
From Coq Require Import Permutation.

(* (a) Send = Message.Write = exactly one Write call on the stream, carrying header ++ payload *)
Theorem C10_write_once : forall m calls, valid_msg m ->
  write_msg m {| w_calls := calls; w_sched := [] |} =
    Some (Ok {| w_calls := calls ++ [enc_msg m]; w_sched := [] |}).
Proof. exact write_msg_once. Qed.
Print Assumptions C10_write_once.

(* (b) any number of senders, any lists of valid messages, any schedule of their Write calls:
   the stream carries one whole frame per message; the sequence the peer reads back - for every
   fragmentation of the byte stream - is that sequence of messages, each intact, each once;
   its projection on sender i followed by what i has not sent yet is i's list, in i's order *)
Theorem C10_concurrent_send_decodes : forall sched ls,
  Forall (Forall valid_msg) ls ->
  exists w' rest tagged,
    send_run sched ls {| w_calls := []; w_sched := [] |} [] = Some (Ok (w', rest, tagged)) /\
    w_calls w' = map enc_msg (map snd tagged) /\
    (forall i, map snd (List.filter (from_sender i) tagged) ++ nth i rest [] = nth i ls []) /\
    (forall rsched, pos_sched rsched -> exists rsched',
        read_all (S (List.length tagged)) {| s_data := List.concat (w_calls w'); s_sched := rsched |} =
          Some (map snd tagged, EEOF, {| s_data := []; s_sched := rsched' |})).
Proof. exact concurrent_send_decodes. Qed.
Print Assumptions C10_concurrent_send_decodes.

(* the documented limit is inclusive: a message whose payload is exactly MaxPayloadSize bytes is a valid message (so
   every statement of this file speaks about it), it is read back whole over every fragmentation; a header
   announcing one byte more is refused after the 28 header bytes, nothing of the payload is consumed.  The harness
   sends both through real endpoints (go/cmd/qv/c10limits.go). *)
Theorem C10_limit_is_inclusive : forall m rest sch,
  valid_header (m_header m) -> h_size (m_header m) = N.of_nat (List.length (m_payload m)) ->
  h_size (m_header m) = MaxPayloadSize -> pos_sched sch ->
  valid_msg m /\
  exists sch', read_msg {| s_data := enc_msg m ++ rest; s_sched := sch |} =
                 Some (Ok m, {| s_data := rest; s_sched := sch' |}) /\ pos_sched sch'.
Proof.
  intros m rest sch Hv Hsz Hmax Hpos.
  assert (Hm : valid_msg m) by (repeat split; try apply Hv; [exact Hsz|rewrite Hmax; apply N.le_refl]).
  split; [exact Hm|]. now apply read_msg_roundtrip.
Qed.
Print Assumptions C10_limit_is_inclusive.

Theorem C10_above_limit_refused : forall h rest sch,
  valid_header h -> (MaxPayloadSize < h_size h)%N -> pos_sched sch ->
  exists sch', read_msg {| s_data := enc_header h ++ rest; s_sched := sch |} =
                 Some (Err EOther, {| s_data := rest; s_sched := sch' |}).
Proof.
  intros h rest sch Hv Hlt Hpos. unfold read_msg, HeaderSize.
  destruct (readN_frag 28 (enc_header h) rest sch Hpos (enc_header_length _)) as [sch1 [Hr1 _]].
  rewrite Hr1, (dec_enc_header _ Hv).
  replace (MaxPayloadSize <? h_size h)%N with true by (symmetry; apply N.ltb_lt; exact Hlt).
  eexists; reflexivity.
Qed.
Print Assumptions C10_above_limit_refused.

Theorem C10_concurrent_send_complete : forall sched ls w' rest tagged,
  Forall (Forall valid_msg) ls ->
  send_run sched ls {| w_calls := []; w_sched := [] |} [] = Some (Ok (w', rest, tagged)) ->
  Forall (fun l => l = []) rest ->
  forall i, map snd (List.filter (from_sender i) tagged) = nth i ls [].
Proof. exact concurrent_send_complete. Qed.
Print Assumptions C10_concurrent_send_complete.

(* (b) stated on plain lists: if the byte stream is the concatenation of the whole frames of l and l is an
   interleaving of the senders' lists, then for every fragmentation the reader returns l - every message
   intact, exactly once (l is a permutation of all the lists together), and there is an assignment of
   senders to positions under which the projection of l on each sender is that sender's list *)
Theorem C10_interleave_decodes : forall ls l sched,
  Forall (Forall valid_msg) ls -> Interleaving ls l -> pos_sched sched ->
  (exists sched', read_all (S (List.length l)) {| s_data := List.concat (map enc_msg l); s_sched := sched |} =
                    Some (l, EEOF, {| s_data := []; s_sched := sched' |})) /\
  Permutation l (List.concat ls) /\
  (exists tags, List.length tags = List.length l /\
     forall i, map snd (List.filter (fun p => Nat.eqb (fst p) i) (combine tags l)) = nth i ls []).
Proof. exact interleave_decodes. Qed.
Print Assumptions C10_interleave_decodes.

(* and every complete run of the sender system produces such an interleaving *)
Theorem C10_send_run_interleaving : forall sched pending calls sent w' rest out,
  Forall (Forall valid_msg) pending ->
  send_run sched pending {| w_calls := calls; w_sched := [] |} sent = Some (Ok (w', rest, out)) ->
  Forall (fun l => l = []) rest ->
  exists more, out = rev sent ++ more /\ Interleaving pending (map snd more).
Proof. exact send_run_interleaving. Qed.
Print Assumptions C10_send_run_interleaving.

(* (c) at every reachable state of the endpoint, for every handler: the messages its filter was
   consulted for are exactly the messages dispatched while it was in the table, in that order; and
   what its consumer has taken plus what waits in its queue is what the filter (shown each of them
   in turn) matched, restricted to those that found room, in that order *)
Theorem C10_queue_is_selected_subsequence : forall ls s rs hid h,
  run ls = RRun s rs -> nth_error (st_hs s) hid = Some h ->
  map fst (events h) = window ls hid /\
  h_recvd h ++ h_buf h = expect (h_filter h) [] (events h).
Proof. exact queue_is_selected_subsequence. Qed.
Print Assumptions C10_queue_is_selected_subsequence.

(* as long as the queue had room every time: exactly the selected subsequence of the incoming messages *)
Theorem C10_queue_with_room : forall ls s rs hid h,
  run ls = RRun s rs -> nth_error (st_hs s) hid = Some h -> forallb snd (events h) = true ->
  h_recvd h ++ h_buf h = selected (h_filter h) [] (window ls hid).
Proof. exact queue_with_room. Qed.
Print Assumptions C10_queue_with_room.

(* (c) the end of a handler's life takes nothing back: in whatever state a run leaves the handler (removed,
   closed by a shutdown of the endpoint, ended by its own filter - its queue may be closed), a consumer that
   goes on receiving obtains everything that waits in the queue; it has then received exactly what the
   filter matched among the messages that found room, in arrival order *)
Theorem C10_end_takes_nothing_back : forall ls s rs hid h,
  run ls = RRun s rs -> nth_error (st_hs s) hid = Some h ->
  exists s' rs' h', run (ls ++ repeat (LRecv hid) (List.length (h_buf h))) = RRun s' rs' /\
    nth_error (st_hs s') hid = Some h' /\ h_buf h' = [] /\ h_closed h' = h_closed h /\
    h_recvd h' = expect (h_filter h) [] (events h).
Proof. exact drain_delivers_selection. Qed.
Print Assumptions C10_end_takes_nothing_back.

Example C10_nonvacuous :
  Forall (Forall valid_msg) ex_senders /\
  exists w' tagged,
    send_run [0; 1; 1; 0] ex_senders {| w_calls := []; w_sched := [] |} [] = Some (Ok (w', [[]; []], tagged)) /\
    map (fun p => (fst p, h_id (m_header (snd p)))) tagged = [(0, 10%N); (1, 20%N); (1, 21%N); (0, 11%N)] /\
    List.length (w_calls w') = 4.
Proof. exact (conj ex_senders_valid ex_send). Qed.
