(* C17 — each connection handler is closed exactly once, whatever races with it.
   Model: theories/Endpoint.v (labelled transition system of bus/net/endpoint.go, one label per
   critical section of handlersMutex, two per `go handler.closeWith` goroutine, one per consumer
   receive).  "Every interleaving" is "every list of labels".  Proofs: theories/EndpointProofs.v. *)
From QV Require Import Reader Message Endpoint EndpointProofs.

(* no interleaving of MakeHandler / RemoveHandler / dispatch (with any filters, keep or not) /
   Close / read error / closeWith goroutines / consumer receives sends on a closed queue or
   closes a queue twice *)
Theorem C17_no_panic : forall ls, match run ls with RPanic _ _ => False | _ => True end.
Proof. exact run_no_panic. Qed.
Print Assumptions C17_no_panic.

(* ... and none deadlocks, provided filters and closers do not call back into the endpoint *)
Theorem C17_no_deadlock : forall ls, Forall contract_label ls -> match run ls with RDeadlock _ => False | _ => True end.
Proof. exact run_no_deadlock. Qed.
Print Assumptions C17_no_deadlock.
(* the proviso is needed *)
Theorem C17_contract_needed : run [LMake never false (Some true) 1; LRemove 0%Z] = RDeadlock 1.
Proof. exact reentrant_closer_deadlocks. Qed.
Print Assumptions C17_contract_needed.

(* at every reachable state the history of every handler is
     made, messages*                        or
     made, messages*, closer?               or
     made, messages*, closer?, close(queue)
   (closer? = the close callback when there is one): the callback at most once, the queue closed at
   most once and only after the callback, and no message once the callback has run *)
Theorem C17_lifecycle : forall ls s rs hid h, run ls = RRun s rs -> nth_error (st_hs s) hid = Some h ->
  lifecycle h /\ closer_calls (h_log h) <= closer_count h /\ queue_closes (h_log h) <= 1.
Proof. exact run_lifecycle. Qed.
Print Assumptions C17_lifecycle.

(* while a handler is in the table its queue is open and its callback has not run *)
Theorem C17_registered_open : forall ls s rs hid h, run ls = RRun s rs -> nth_error (st_hs s) hid = Some h ->
  registered s hid = true -> open_shape h /\ h_closed h = false.
Proof. exact run_registered_open. Qed.
Print Assumptions C17_registered_open.

(* every handler registered before a shutdown (Close, or the read error that ends process) has, once
   its goroutine is through, had its callback called exactly once and then its queue closed exactly once *)
Theorem C17_shutdown_closes_once : forall l1 e b l2 s rs hid h,
  run (l1 ++ LCloseAll e b :: l2) = RRun s rs -> hid < made_count l1 -> ~ In hid (go_hids (st_go s)) ->
  nth_error (st_hs s) hid = Some h -> closed_once h.
Proof. exact shutdown_closes_once. Qed.
Print Assumptions C17_shutdown_closes_once.

(* ... and the goroutines can always get through: from every reachable state their labels alone lead to
   a state where none is pending *)
Theorem C17_goroutines_finish : forall ls s rs, run ls = RRun s rs ->
  exists ls' s' rs', Forall is_go_label ls' /\ run (ls ++ ls') = RRun s' rs' /\ st_go s' = [].
Proof. exact goroutines_finish. Qed.
Print Assumptions C17_goroutines_finish.

(* RemoveHandler: an id that names no registered handler (negative, out of range, never handed out,
   already removed, removed by its own filter, cleared by Close) is an error and changes nothing *)
Theorem C17_remove_unknown_is_error : forall s id, slot_at s id = None -> step s (LRemove id) = Run s RInvalid.
Proof. exact remove_invalid. Qed.
Print Assumptions C17_remove_unknown_is_error.

(* a registered one is closed exactly once on the spot, and removing it again is an error *)
Theorem C17_remove_registered : forall ls s rs id hid, run ls = RRun s rs -> slot_at s id = Some hid ->
  (forall h, nth_error (st_hs s) hid = Some h -> h_closer h <> Some true) ->
  exists s' h', step s (LRemove id) = Run s' ROk /\ slot_at s' id = None /\
                step s' (LRemove id) = Run s' RInvalid /\
                nth_error (st_hs s') hid = Some h' /\ closed_once h'.
Proof. exact run_remove_registered. Qed.
Print Assumptions C17_remove_registered.

(* MakeHandler always succeeds and hands out an id that names no registered handler at that moment;
   every other id keeps its meaning *)
Theorem C17_ids_reused_only_after_removal : forall s f fre cl cap,
  exists s' i, step s (LMake f fre cl cap) = Run s' (RId i) /\
    slot_at s (Z.of_nat i) = None /\ slot_at s' (Z.of_nat i) = Some (List.length (st_hs s)) /\
    (forall j, j <> i -> slot_at s' (Z.of_nat j) = slot_at s (Z.of_nat j)).
Proof. exact make_fresh_id. Qed.
Print Assumptions C17_ids_reused_only_after_removal.

(* a concrete run through every kind of label: ids, dispatch results, the blocked-call reply, final histories *)
Example C17_nonvacuous : exists s rs, run ex_labels = RRun s rs /\
  map hsummary (st_hs s) = [(1, 1, true, [1%N]); (0, 1, true, [1%N]); (0, 0, false, [])] /\
  rs = [RId 0; RId 1; RDisp DNil; RDisp DBlocked; RNone; RNone; RNone; RNone; RInvalid; RId 0] /\
  List.length (st_sent s) = 1.
Proof. exact ex_run. Qed.
