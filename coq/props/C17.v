(* C17 — each connection handler is closed exactly once, whatever races with it. *)
From QV Require Import Reader Message Endpoint EndpointProofs.

Theorem C17_remove_invalid : forall s id, slot_at s id = None -> step s (LRemove id) = Run s RInvalid.
Proof. exact remove_invalid. Qed.
Print Assumptions C17_remove_invalid.
