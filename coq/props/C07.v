(* C07 — Decoders and parsers are total and resource-bounded on arbitrary input.  Theorems only;
   proofs in theories/TotalProofs.v, CostProofs.v, SigParseProofs.v, SigParseMerged.v, DepthCostProofs.v. *)
From QV Require Import Reader Message Wire Value GenDec Cost CostProofs TotalProofs ParseOpt SigParse SigParseProofs SigParseMerged WireRefute WireTop DepthCost DepthCostProofs.
Local Open Scope N_scope.

(* ---- totality on ARBITRARY bytes: a value or an error, never a panic, never stuck ---- *)
Theorem C07_message_total : forall s, read_msg s <> None.
Proof. exact read_msg_total. Qed.
Print Assumptions C07_message_total.
Theorem C07_value_total : forall c bs, new_value parse_opt c bs <> RFuel /\ new_value parse_opt c bs <> RPanic.
Proof. intros c bs. split; [apply new_value_total|apply new_value_no_panic]. Qed.
Print Assumptions C07_value_total.
Theorem C07_sig_read_total : forall c t bs,
  sig_read parse_opt c (S (List.length bs)) t bs <> RFuel /\ sig_read parse_opt c (S (List.length bs)) t bs <> RPanic.
Proof. intros c t bs. split; [apply sig_read_total|apply sig_read_no_panic]. Qed.
Print Assumptions C07_sig_read_total.
Theorem C07_refl_dec_total : forall c t bs, refl_neg_len_panics c = false ->
  refl_dec c tval_eqb t bs <> RFuel /\ refl_dec c tval_eqb t bs <> RPanic.
Proof. intros c t bs H. split; [apply refl_dec_total|now apply refl_dec_no_panic]. Qed.
Print Assumptions C07_refl_dec_total.
Theorem C07_generated_total : forall t bs, plain_m t = true ->
  gen_dec parse_opt t bs <> RFuel /\ gen_dec parse_opt t bs <> RPanic.
Proof. intros t bs H. split; [now apply gen_dec_total|apply gen_dec_no_panic]. Qed.
Print Assumptions C07_generated_total.
Theorem C07_capmap_total : forall c bs, dec_capmap parse_opt c bs <> RFuel /\ dec_capmap parse_opt c bs <> RPanic.
Proof. intros c bs. split; [apply dec_capmap_total|apply dec_capmap_no_panic]. Qed.
Print Assumptions C07_capmap_total.
Theorem C07_parse_total : forall s, parse s <> PFuel.
Proof. exact parse_total. Qed.
Print Assumptions C07_parse_total.

(* ---- resources of the typed decoders (instrumented model), any input, any budget ---- *)
(* reflection decoder: allocation linear in the input; what is not paid for by input read is
   bounded by the documented limits (one failed string, 4096-element containers) *)
Theorem C07_alloc_refl : forall neg t bs budget,
  alloc (snd (cdec PRefl neg t bs budget)) <= len bs + MaxStringSize + (len bs / 4 + 1) * (listValueMaxSize * max_esz t).
Proof. exact cdec_alloc_refl. Qed.
Print Assumptions C07_alloc_refl.
Theorem C07_alloc_sig : forall neg t bs budget, alloc (snd (cdec PSig neg t bs budget)) <= len bs + MaxStringSize.
Proof. exact cdec_alloc_sig. Qed.
Print Assumptions C07_alloc_sig.
(* iterations: linear in the input for every policy when no container has zero-width elements,
   and then a budget above the input length is never what stops the decoder *)
Theorem C07_iters : forall pol neg t bs budget, wfz t = true -> iters (snd (cdec pol neg t bs budget)) <= len bs.
Proof. exact cdec_iters_wfz. Qed.
Print Assumptions C07_iters.
Theorem C07_budget_enough : forall pol neg t bs budget, wfz t = true -> len bs < budget -> fst (cdec pol neg t bs budget) <> CBudget.
Proof. exact cdec_budget_enough. Qed.
Print Assumptions C07_budget_enough.
Theorem C07_iters_refl : forall neg t bs budget,
  iters (snd (cdec PRefl neg t bs budget)) <= (len bs / 4 + 1) * listValueMaxSize + len bs.
Proof. exact cdec_iters_refl. Qed.
Print Assumptions C07_iters_refl.
Theorem C07_no_panic : forall pol t bs budget, fst (cdec pol false t bs budget) <> CPanic.
Proof. exact cdec_no_panic. Qed.
Print Assumptions C07_no_panic.

(* ---- refutations: the three findings of the pinned code, and the repaired panic ---- *)
(* generated decoders allocate from the wire count: 4 bytes of input, unbounded allocation *)
Theorem C07_refuted_gen_alloc : forall k, exists t bs, len bs = 4 /\ k <= alloc (snd (cdec PGen false t bs 1000)).
Proof. exact cdec_gen_alloc_unbounded. Qed.
Print Assumptions C07_refuted_gen_alloc.
(* the signature reader loops count times over elements that read nothing *)
Theorem C07_refuted_sig_spin : fst (cdec PSig false (TList (TS SVoid)) [xff; xff; xff; xff] 1000000) = CBudget.
Proof. exact cdec_sig_spin_refuted. Qed.
Print Assumptions C07_refuted_sig_spin.
(* the signature grammar: n nested parentheses cost at least 2^n parser invocations *)
Theorem C07_refuted_parse_exponential : forall n, 2 ^ N.of_nat n <= parse_steps (nest n).
Proof. exact nest_steps_exponential. Qed.
Print Assumptions C07_refuted_parse_exponential.
(* the pinned reflection decoder panicked on a negative list length (repaired: 7100291) *)
Theorem C07_refuted_neg_len : refl_dec only_neg_len tval_eqb (TList (TS SI32)) [xff; xff; xff; xff] = RPanic.
Proof. exact refl_neg_len_refuted. Qed.
Print Assumptions C07_refuted_neg_len.

(* ---- the repaired signature grammar (design/C07.grammar.fix.diff: "(" list ")" parsed once, the
   struct definition optional; model parse_m, chosen by the observed grammar text, TieC09) ---- *)
(* at most 30 parser invocations per character of the input, plus 24: every string, accepted or not.
   This bounds TIME.  It says nothing about the goroutine STACK, which the Go parser uses in proportion
   to the nesting depth: finding sig_parse_stack_unbounded (a 2 MB signature of nested "[" overflows the
   1 GB stack limit); the nesting depth is bounded and refuted below (C07_parse_depth_bound,
   C07_refuted_parse_depth_constant) and the finding is witnessed by the harness on every run. *)
Theorem C07_parse_merged_linear : forall s, parse_steps_m s <= 30 * N.of_nat (String.length s) + 24.
Proof. exact parse_steps_m_linear. Qed.
Print Assumptions C07_parse_merged_linear.
(* the witness of C07_refuted_parse_exponential costs at most 60 n + 24 *)
Theorem C07_parse_merged_nest_linear : forall n, parse_steps_m (nest n) <= 60 * N.of_nat n + 24.
Proof. exact nest_steps_m_linear. Qed.
Print Assumptions C07_parse_merged_nest_linear.
(* and the repair changes no result: same value or error for every string, so C07_parse_total holds for it *)
Theorem C07_parse_merged_same : forall s, parse_m s = parse s.
Proof. exact parse_m_parse. Qed.
Print Assumptions C07_parse_merged_same.
Theorem C07_parse_merged_total : forall s, parse_m s <> PFuel.
Proof. exact parse_m_total. Qed.
Print Assumptions C07_parse_merged_total.

(* ---- the two resources Cost.v does not count, now inside the model (theories/DepthCost.v) ---- *)
(* BYTES COPIED by the signature-driven reader.  sig_copy is sig_read with a meter: [copied] is the number
   of bytes written into result buffers (every reader returns what it read, every composite reader
   re-buffers what its members returned), [nesting] the deepest nesting of reader invocations reached. *)
(* the meter does not change the reader: same value, rest or error, every input, every fuel *)
Theorem C07_sig_copy_same : forall c fuel t bs, snd (sig_copy parse_opt c fuel t bs) = sig_read parse_opt c fuel t bs.
Proof. intros c fuel t bs. apply sig_copy_read. Qed.
Print Assumptions C07_sig_copy_same.
(* TRUE upper bound, every type, every input, every outcome (errors included): a byte the reader consumed
   is copied at most once per reader it is nested in; so copied <= nesting * |input|.  (Needs the repaired
   stringReader: with the dropped error 4 input bytes make 4004 result bytes, drops_err_copy_unbounded.) *)
Theorem C07_sig_copy_bound : forall c fuel t bs, string_reader_drops_err c = false ->
  copied (fst (sig_copy parse_opt c fuel t bs)) <= nesting (fst (sig_copy parse_opt c fuel t bs)) * used bs (snd (sig_copy parse_opt c fuel t bs)) /\
  copied (fst (sig_copy parse_opt c fuel t bs)) <= nesting (fst (sig_copy parse_opt c fuel t bs)) * len bs.
Proof.
  intros c fuel t bs H. split; [apply sig_copy_bound|apply sig_copy_bound_len]; exact H.
Qed.
Print Assumptions C07_sig_copy_bound.
(* for a type that holds no dynamic value the nesting is the type's own (rdepth t, no input can raise it):
   the reader is linear in the input for each such type, with the type's depth as the constant *)
Theorem C07_sig_copy_static : forall c fuel t bs, string_reader_drops_err c = false -> plain_m t = true ->
  nesting (fst (sig_copy parse_opt c fuel t bs)) <= rdepth t /\
  copied (fst (sig_copy parse_opt c fuel t bs)) <= rdepth t * len bs.
Proof.
  intros c fuel t bs H Ht. split; [apply sig_copy_nest_static; exact Ht|apply sig_copy_static_linear; assumption].
Qed.
Print Assumptions C07_sig_copy_static.
(* CLOSED bound, dynamic values included: the nesting a reader reaches is at most the nesting of its type
   plus twice the input (every dynamic value pays 4 bytes and its signature text, and a signature text
   yields a type at most as deep as it has opening brackets: C07_parse_depth_type), so the reader copies
   at most (rdepth t + 2 |input|) * |input| bytes: quadratic, and by the refutation below not better *)
Theorem C07_sig_copy_quadratic : forall c fuel t bs, string_reader_drops_err c = false ->
  nesting (fst (sig_copy parse_opt c fuel t bs)) <= rdepth t + 2 * len bs /\
  copied (fst (sig_copy parse_opt c fuel t bs)) <= (rdepth t + 2 * len bs) * len bs.
Proof.
  intros c fuel t bs H. split; [apply sig_copy_nl|apply sig_copy_quadratic]; try exact H; exact parse_opt_rdepth.
Qed.
Print Assumptions C07_sig_copy_quadratic.
(* REFUTED: no bound linear in the input alone.  n dynamic values nested in one another (n times the
   string "m", then "v": 5 (n + 1) bytes) are accepted and returned whole by the reader of type "m", which
   copies 5 + 10 + ... + 5 (n + 1) = 5 (n + 1) (n + 2) / 2 bytes: finding sig_reader_depth_quadratic *)
Theorem C07_refuted_sig_copy_linear : forall k : N, exists bs,
  sig_read parse_opt wclean (S (List.length bs)) (TS SValue) bs = ROk (bs, []) /\
  k * len bs < sig_copied wclean (TS SValue) bs.
Proof. exact sig_copy_not_linear. Qed.
Print Assumptions C07_refuted_sig_copy_linear.
Theorem C07_sig_copy_nested_exact : forall n,
  len (nested_m n) = 5 * (N.of_nat n + 1) /\
  2 * sig_copied wclean (TS SValue) (nested_m n) = 5 * (N.of_nat n + 1) * (N.of_nat n + 2) /\
  sig_nest wclean (TS SValue) (nested_m n) = N.of_nat n + 2.
Proof.
  intro n. destruct (sig_copied_nested n) as (_ & Hc & Hn). rewrite Hc, Hn.
  split; [apply nested_m_blen|]. split; [apply copy_m_closed|reflexivity].
Qed.
Print Assumptions C07_sig_copy_nested_exact.

(* RECURSION DEPTH of the signature parser.  The type rule of the model takes a fuel that is the number
   of entries of the rule inside one another it still allows; parse_depth s is the least fuel with which
   the rule answers on s (a node or a refusal, not "out of fuel"): the nesting of entries parsing s makes.
   The Go parser uses more than 500 bytes of goroutine stack per entry; the runtime's limit is 1 GB. *)
(* it is a threshold: any fuel from parse_depth s on gives the same answer, any fuel below gives none *)
Theorem C07_parse_depth_threshold : forall s d,
  (parse_within d s = true <-> (parse_depth s <= d)%nat) /\
  ((parse_depth s <= d)%nat -> fst (decl_m d s) = fst (decl_m (parse_depth s) s)).
Proof. intros s d. split; [apply parse_depth_spec|apply decl_m_stable]. Qed.
Print Assumptions C07_parse_depth_threshold.
(* the type Parse returns is no deeper than the parse that made it (so a deep type needs a deep parse) *)
Theorem C07_parse_depth_type : forall s t, parse_m s = POk t -> (ty_depth t <= parse_depth s)%nat.
Proof. exact parse_depth_ty. Qed.
Print Assumptions C07_parse_depth_type.
(* TRUE bound: at most one entry per opening bracket of the text, and one more; hence at most |s| + 1 *)
Theorem C07_parse_depth_bound : forall s,
  (parse_depth s <= open_count s + 1)%nat /\ (parse_depth s <= String.length s + 1)%nat.
Proof. intro s. split; [apply parse_depth_le_open_count|apply parse_depth_le_length]. Qed.
Print Assumptions C07_parse_depth_bound.
(* REFUTED: no constant bound.  n opening square brackets (refused), and the signature of n lists around
   an int32 (accepted), need exactly n + 1 nested entries: finding sig_parse_stack_unbounded *)
Theorem C07_refuted_parse_depth_constant : forall n,
  parse_depth (brackets n) = (n + 1)%nat /\
  parse_m (nested_list n) = POk (list_ty n) /\ parse_depth (nested_list n) = (n + 1)%nat.
Proof.
  intro n. split; [apply parse_depth_brackets_eq|]. split; [apply parse_m_nested_list|apply parse_depth_nested_list_eq].
Qed.
Print Assumptions C07_refuted_parse_depth_constant.

Example C07_nonvacuous : wfz WireTop.ex_ty = true /\ plain_m ty_MetaObject = true.
Proof. split; vm_compute; reflexivity. Qed.
(* 22 nested parentheses (the witness the harness runs): 1166 invocations against at least 2^22 *)
Example C07_nonvacuous_merged : parse_steps_m (nest 22) = 1166 /\ 2 ^ 22 <= parse_steps (nest 22).
Proof. exact nest22_steps. Qed.
(* 8000 nested dynamic values, the witness the harness runs: 40,005 bytes in, 160,060,005 bytes copied;
   and 200 levels by evaluation of the model itself *)
Example C07_nonvacuous_copy :
  len (nested_m (N.to_nat 8000)) = 40005 /\ sig_copied wclean (TS SValue) (nested_m (N.to_nat 8000)) = 160060005.
Proof. exact sig_copied_8000. Qed.
Example C07_nonvacuous_copy_200 :
  len (nested_m 200) = 1005 /\ sig_copied wclean (TS SValue) (nested_m 200) = 101505 /\ sig_nest wclean (TS SValue) (nested_m 200) = 202.
Proof. exact sig_copied_200. Qed.
(* the parser on "[[[i]]]": four entries of the type rule inside one another *)
Example C07_nonvacuous_depth : parse_depth "[[[i]]]" = 4%nat /\ parse_depth (brackets 300) = 301%nat.
Proof. split; vm_compute; reflexivity. Qed.
