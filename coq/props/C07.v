(* C07 — Decoders and parsers are total and resource-bounded on arbitrary input.  Theorems only. *)
From QV Require Import Wire Value GenDec Cost ParseOpt SigParse SigParseProofs WireRefute.
Local Open Scope N_scope.

(* the signature parser is total: every string is accepted or rejected, never stuck *)
Theorem C07_parse_total : forall s, parse s <> PFuel.
Proof. exact parse_total. Qed.
Print Assumptions C07_parse_total.

(* ... but not resource-bounded on the pinned grammar (finding parse_exponential):
   n nested parentheses cost at least 2^n parser invocations *)
Theorem C07_refuted_parse_exponential : forall n, 2 ^ N.of_nat n <= parse_steps (nest n).
Proof. exact nest_steps_exponential. Qed.
Print Assumptions C07_refuted_parse_exponential.

(* the pinned reflection decoder panics on a negative list length (switch refl_neg_len_panics; repaired) *)
Theorem C07_refuted_neg_len : refl_dec only_neg_len tval_eqb (TList (TS SI32)) [xff; xff; xff; xff] = RPanic.
Proof. exact refl_neg_len_refuted. Qed.
Print Assumptions C07_refuted_neg_len.
