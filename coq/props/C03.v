(* C03 — All serializers agree with each other and with the documented layout.  Theorems only. *)
From QV Require Import Wire ParseOpt WireRefute.
Local Open Scope N_scope.

Theorem C03_refuted_value_reader :
  has_ty dyn5 (TS SValue) = true /\
  exists d, sig_read parse_opt only_value_reader 1 (TS SValue) (spec_enc dyn5) = ROk (d, []) /\ d <> spec_enc dyn5.
Proof. exact sig_read_value_refuted. Qed.
Print Assumptions C03_refuted_value_reader.

Theorem C03_refuted_drop8 :
  has_ty s8 (TTuple [TS SI8; TS SI32]) = true /\ refl_enc only_drop8 s8 <> spec_enc s8.
Proof. exact refl_drop8_refuted. Qed.
Print Assumptions C03_refuted_drop8.
