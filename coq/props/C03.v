(* C03 — All serializers agree with each other and with the documented layout.  Theorems only;
   proofs in theories/WireProofs.v, ReflProofs.v. *)
From QV Require Import Wire WireDefs WireProofs ReflProofs ParseOpt WireTop WireRefute.
Local Open Scope N_scope.

(* spec_enc is the serialization written from doc/about-qimessaging.md.  For every type and
   every well-typed value (maps in whatever order the encoder iterates them): *)
(* No restriction on the widths of container elements: lists of void, of empty tuples, of
   lists of those, maps with zero-width entries ... are covered (the count is then followed by
   nothing, and the decoders return that many copies of the only value of the element type).
   wf_ty only says that struct and field names are identifiers; types nested in dynamic
   values need it for their signature to be parsed back. *)

(* the reflection encoder writes exactly the documented bytes *)
Theorem C03_refl_enc : forall c v t, refl_drop8 c = false -> has_ty v t = true -> refl_domain t = true ->
  refl_enc c v = spec_enc v.
Proof. exact refl_enc_spec. Qed.
Print Assumptions C03_refl_enc.

(* the signature-driven reader accepts exactly those bytes and returns them unchanged *)
Theorem C03_sig_read : forall c v t fuel rest, value_reader_no_len c = false ->
  wf_ty t = true -> has_ty v t = true -> (dyn_depth v <= fuel)%nat ->
  sig_read parse_opt c fuel t (spec_enc v ++ rest) = ROk (spec_enc v, rest).
Proof. exact sig_read_spec_top. Qed.
Print Assumptions C03_sig_read.

(* the reflection decoder recovers the value (lists/maps within its 4096 bound, distinct keys) *)
Theorem C03_refl_dec : forall c v t rest, refl_drop8 c = false ->
  wf_ty t = true -> has_ty v t = true -> refl_domain t = true -> lens_ok v = true -> keys_nodup v ->
  refl_dec c tval_eqb t (spec_enc v ++ rest) = ROk (v, rest).
Proof. exact refl_dec_spec. Qed.
Print Assumptions C03_refl_dec.

(* the typed decoder of the documented format (what generated code implements) is its inverse *)
Theorem C03_spec_dec : forall v t fuel rest, wf_ty t = true -> has_ty v t = true -> (dyn_depth v <= fuel)%nat ->
  spec_dec parse_opt fuel t (spec_enc v ++ rest) = ROk (v, rest).
Proof. exact spec_dec_enc_top. Qed.
Print Assumptions C03_spec_dec.

(* the serializers compose: what the reflection encoder writes, the typed decoder of the
   documented format reads back as the same value, consuming exactly those bytes *)
Theorem C03_refl_enc_spec_dec : forall c v t fuel rest, refl_drop8 c = false -> wf_ty t = true ->
  has_ty v t = true -> refl_domain t = true -> (dyn_depth v <= fuel)%nat ->
  spec_dec parse_opt fuel t (refl_enc c v ++ rest) = ROk (v, rest).
Proof. exact refl_enc_spec_dec. Qed.
Print Assumptions C03_refl_enc_spec_dec.

(* for a fixed signature the documented layout determines the value: two well-typed values
   followed by any bytes that give the same byte string are equal, and so are the trailing bytes *)
Theorem C03_layout_injective : forall t v1 v2 r1 r2, wf_ty t = true -> has_ty v1 t = true -> has_ty v2 t = true ->
  spec_enc v1 ++ r1 = spec_enc v2 ++ r2 -> v1 = v2 /\ r1 = r2.
Proof. exact spec_enc_injective. Qed.
Print Assumptions C03_layout_injective.

Theorem C03_refuted_value_reader :
  has_ty dyn5 (TS SValue) = true /\
  exists d, sig_read parse_opt only_value_reader 1 (TS SValue) (spec_enc dyn5) = ROk (d, []) /\ d <> spec_enc dyn5.
Proof. exact WireRefute.sig_read_value_refuted. Qed.
Print Assumptions C03_refuted_value_reader.
Theorem C03_refuted_drop8 :
  has_ty s8 (TTuple [TS SI8; TS SI32]) = true /\ refl_enc only_drop8 s8 <> spec_enc s8.
Proof. exact WireRefute.refl_drop8_refuted. Qed.
Print Assumptions C03_refuted_drop8.
(* finding refl_list_over_4096: the hypothesis lens_ok of C03_refl_dec is needed — a list of 4097
   bytes is encoded as documented and refused by the decoder *)
Theorem C03_refuted_list_over_4096 :
  has_ty bytes4097 (TList (TS SU8)) = true /\ refl_enc wclean bytes4097 = spec_enc bytes4097 /\
  exists l, refl_dec wclean tval_eqb (TList (TS SU8)) (spec_enc bytes4097) = RErr l.
Proof. exact WireRefute.refl_list_unbounded_refuted. Qed.
Print Assumptions C03_refuted_list_over_4096.

Example C03_nonvacuous :
  good_ty ex_ty = true /\ has_ty ex_val ex_ty = true /\ dyn_depth ex_val = 1%nat /\ (List.length (spec_enc ex_val) = 39)%nat.
Proof. exact ex_val_ok. Qed.
Example C03_nonvacuous_zero_width :
  wf_ty zw_ty = true /\ wfz zw_ty = false /\ has_ty zw_val zw_ty = true /\ dyn_depth zw_val = 1%nat /\ (List.length (spec_enc zw_val) = 42)%nat.
Proof. exact zw_val_ok. Qed.
