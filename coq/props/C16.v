(* C16 — Removed objects are unreachable and terminated exactly once; identifiers are unique
   among live objects; removing one object never affects the others.
   Property theorems only; the model is theories/Service.v, proofs are in theories/ServiceProofs.v.

   Every theorem quantifies over all reachable states of the transition system, i.e. over all
   finite sequences of the labels AddBegin / AddEnd / Remove / Recv / Deliver / Emit — all
   operation sequences and all interleavings of the goroutines at the granularity of the
   model's atomic regions (see Service.v). *)
From Coq Require Import NArith List.
From QV Require Import Service ServiceProofs.
Import ListNotations.
Local Open Scope N_scope.

(* identifiers are unique among live objects *)
Theorem C16_holds_ids_unique : forall c s k1 k2 i, clean c -> reach c s ->
  live s k1 i -> live s k2 i -> k1 = k2.
Proof. exact live_ids_unique. Qed.
Print Assumptions C16_holds_ids_unique.

(* the index Add chooses is held by no live object and by no Add in progress; nothing else moves *)
Theorem C16_holds_add_index_fresh : forall c s k draws s' o, clean c -> reach c s ->
  step c s (LAddBegin k draws) = Some (s', o) ->
  exists i, o = [OIndex i] /\ objects s i = None /\ st s' k = Adding i /\
    (forall k', st s k' <> Live i /\ st s k' <> Adding i) /\
    (forall j, j <> i -> objects s' j = objects s j /\ boxes s' j = boxes s j) /\
    (forall k', k' <> k -> actors s' k' = actors s k').
Proof. exact add_index_fresh. Qed.
Print Assumptions C16_holds_add_index_fresh.

(* objects become callable: a successful Add installs the object and its mailbox under the index,
   a frame for a live object reaches its mailbox, and the mailbox goroutine runs the method once
   and answers the caller *)
Theorem C16_holds_add_makes_live : forall c s k i, clean c -> reach c s -> st s k = Adding i ->
  exists s', step c s (LAddEnd k true) = Some (s', [ORet true]) /\ live s' k i /\
    objects s' i = Some (SObj k) /\ boxes s' i = Some (TObj k) /\
    (forall k', k' <> k -> actors s' k' = actors s k') /\
    (forall j, j <> i -> objects s' j = objects s j /\ boxes s' j = boxes s j).
Proof. exact add_end_live. Qed.
Print Assumptions C16_holds_add_makes_live.

Theorem C16_holds_live_receives : forall c s k i cn f, clean c -> reach c s -> live s k i -> f_obj f = i ->
  step c s (LRecv cn f) =
    Some ({| objects := objects s; boxes := boxes s;
             actors := updA (actors s) k (push_mail (actors s k) (cn, f)); crashed := false |}, []).
Proof. exact live_receives. Qed.
Print Assumptions C16_holds_live_receives.

Theorem C16_deliver_runs_once : forall c s k cn f q, crashed s = false ->
  a_queue (actors s k) = (cn, f) :: q -> f_act f = AHello ->
  exists s', step c s (LDeliver k) = Some (s', answer cn f TReply) /\
    a_execs (actors s' k) = a_execs (actors s k) + 1 /\ a_queue (actors s' k) = q /\
    (forall k', k' <> k -> actors s' k' = actors s k') /\ objects s' = objects s /\ boxes s' = boxes s.
Proof. exact deliver_hello. Qed.
Print Assumptions C16_deliver_runs_once.

(* the termination hook has run exactly once for a removed object and never for any other *)
Theorem C16_holds_hook_exactly_once : forall c s k, clean c -> reach c s ->
  a_hooks (actors s k) = match st s k with Removed => 1 | _ => 0 end.
Proof. exact hooks_exactly_once. Qed.
Print Assumptions C16_holds_hook_exactly_once.

(* Service.Remove of a live object: every subscriber is told (one termination error each, in
   subscription order, to its own connection), the hook has run once, the index is free, the
   mailbox is gone, and no other object and no other index is affected *)
Theorem C16_holds_remove_live : forall c s k i, clean c -> reach c s -> live s k i ->
  exists s', step c s (LRemove i) =
      Some (s', map (term_frame i) (a_subs (actors s k)) ++ [ORet true]) /\
    st s' k = Removed /\ a_hooks (actors s' k) = 1 /\ a_subs (actors s' k) = [] /\
    objects s' i = None /\ boxes s' i = None /\
    a_execs (actors s' k) = a_execs (actors s k) /\ a_queue (actors s' k) = a_queue (actors s k) /\
    (forall k', k' <> k -> actors s' k' = actors s k') /\
    (forall j, j <> i -> objects s' j = objects s j /\ boxes s' j = boxes s j).
Proof. exact remove_live. Qed.
Print Assumptions C16_holds_remove_live.

(* the same when the object terminates itself (terminate action handled by its own mailbox) *)
Theorem C16_holds_terminate_self : forall c s k i cn f q arg, clean c -> reach c s -> live s k i ->
  a_queue (actors s k) = (cn, f) :: q -> f_act f = ATerminate arg -> (arg = 0 \/ arg = i) ->
  exists s', step c s (LDeliver k) =
      Some (s', map (term_frame i) (a_subs (actors s k)) ++ answer cn f TReply) /\
    st s' k = Removed /\ a_hooks (actors s' k) = 1 /\ a_subs (actors s' k) = [] /\
    objects s' i = None /\ boxes s' i = None /\
    a_execs (actors s' k) = a_execs (actors s k) /\ a_queue (actors s' k) = q /\
    (forall k', k' <> k -> actors s' k' = actors s k') /\
    (forall j, j <> i -> objects s' j = objects s j /\ boxes s' j = boxes s j).
Proof. exact terminate_live. Qed.
Print Assumptions C16_holds_terminate_self.

(* a removed object is unreachable: no index leads to it or to its mailbox ... *)
Theorem C16_holds_removed_unreachable : forall c s k, clean c -> reach c s -> st s k = Removed ->
  forall i, boxes s i <> Some (TObj k) /\ objects s i <> Some (SObj k).
Proof. exact removed_unreachable. Qed.
Print Assumptions C16_holds_removed_unreachable.

(* ... a frame for an index without mailbox is answered by exactly one ObjectNotFound error to
   its sender and changes nothing ... *)
Theorem C16_recv_not_found : forall c s cn f, crashed s = false -> boxes s (f_obj f) = None ->
  step c s (LRecv cn f) = Some (s, [OFrame cn (TError ENotFound) (f_obj f) (act_num (f_act f)) (f_id f)]).
Proof. exact recv_not_found. Qed.
Print Assumptions C16_recv_not_found.

(* ... a mailbox found under an index belongs to the object that is live there ... *)
Theorem C16_holds_box_is_live : forall c s i k, clean c -> reach c s -> boxes s i = Some (TObj k) -> live s k i.
Proof. exact box_is_live. Qed.
Print Assumptions C16_holds_box_is_live.

(* ... and whatever happens after the removal (any continuation, any schedule), the removed
   object stays removed and executes nothing except calls that were already in its mailbox
   when it was removed: frames received later never invoke it *)
Theorem C16_holds_removed_never_invoked_again : forall c tr s s' o k, clean c -> reach c s ->
  st s k = Removed -> run c s tr = Some (s', o) ->
  st s' k = Removed /\ potential (actors s' k) = potential (actors s k) /\
  a_execs (actors s' k) <= a_execs (actors s k) + hellos (a_queue (actors s k)).
Proof. exact removed_never_invoked_again. Qed.
Print Assumptions C16_holds_removed_never_invoked_again.

(* frame condition, for every configuration: a step changes only the actors it names *)
Theorem C16_step_frame : forall c s l s' o k', step c s l = Some (s', o) ->
  ~ touched s l k' -> actors s' k' = actors s k'.
Proof. exact step_frame. Qed.
Print Assumptions C16_step_frame.

Theorem C16_holds_terminate_touches_self_only : forall c s k i k', clean c -> reach c s -> live s k i ->
  touched s (LDeliver k) k' -> k' = k.
Proof. exact deliver_live_touches_self. Qed.
Print Assumptions C16_holds_terminate_touches_self_only.

(* with the last switch off a mailbox goroutine changes its own object only, in every state — also
   when it handles the stale terminate of an object removed long ago whose index has a new owner *)
Theorem C16_holds_mailbox_touches_own_object_only : forall c s k s' o k', terminate_by_index c = false ->
  step c s (LDeliver k) = Some (s', o) -> k' <> k -> actors s' k' = actors s k'.
Proof. exact deliver_touches_self. Qed.
Print Assumptions C16_holds_mailbox_touches_own_object_only.

Theorem C16_remove_maps_frame : forall c s i s' o j, step c s (LRemove i) = Some (s', o) -> j <> i ->
  objects s' j = objects s j /\ boxes s' j = boxes s j.
Proof. exact remove_maps_frame. Qed.
Print Assumptions C16_remove_maps_frame.

Theorem C16_remove_outputs : forall c s i s' o, step c s (LRemove i) = Some (s', o) ->
  (exists k r, objects s i = Some (SObj k) /\
     o = map (term_frame (obj_id (actors s k))) (a_subs (actors s k)) ++ [r]) \/
  (exists r, (forall k, objects s i <> Some (SObj k)) /\ o = [r]).
Proof. exact remove_outputs. Qed.
Print Assumptions C16_remove_outputs.

(* ---- the pinned code: each defect switch alone refutes the property (witness by vm_compute) ---- *)

(* Remove leaves the mailbox: a removed object executes a call received after its removal *)
Theorem C16_refuted_keep_box_on_remove : exists s o, run only_keep_box init wit_keep_box = Some (s, o) /\
  st s 1%nat = Removed /\ a_execs (actors s 1%nat) = 1 /\
  o = [OIndex 5; ORet true; ORet true; OFrame 0 TReply 5 act_hello 7].
Proof. exact refuted_keep_box. Qed.
Print Assumptions C16_refuted_keep_box_on_remove.

(* after object 1 is gone every Add returns index 0: two live objects share it, the first is
   unreachable and was never terminated *)
Theorem C16_refuted_zero_index_untested : exists s o, run only_zero_index init wit_zero_index = Some (s, o) /\
  live s 1%nat 0 /\ live s 2%nat 0 /\ a_hooks (actors s 1%nat) = 0 /\ objects s 0 = Some (SObj 2%nat).
Proof. exact refuted_zero_index. Qed.
Print Assumptions C16_refuted_zero_index_untested.

(* a failed activation leaves a nil entry: Remove of that index is a nil dereference *)
Theorem C16_refuted_nil_slot_on_failed_activate : exists s o, run only_nil_slot init wit_nil_slot = Some (s, o) /\
  crashed s = true /\ o = [OIndex 5; ORet false; OPanic].
Proof. exact refuted_nil_slot. Qed.
Print Assumptions C16_refuted_nil_slot_on_failed_activate.

(* Remove succeeds on the placeholder of an Add in progress: two live objects, one identifier *)
Theorem C16_refuted_remove_pending_slot : exists s o, run only_remove_pending init wit_remove_pending = Some (s, o) /\
  live s 1%nat 5 /\ live s 2%nat 5 /\ o = [OIndex 5; ORet true; OIndex 5; ORet true; ORet true].
Proof. exact refuted_remove_pending. Qed.
Print Assumptions C16_refuted_remove_pending_slot.

(* the terminate action removes by index: a terminate still queued when its object is removed by
   Service.Remove later terminates the object that was given the freed index *)
Theorem C16_refuted_terminate_by_index : exists s o, run only_terminate_by_index init wit_terminate_by_index = Some (s, o) /\
  st s 2%nat = Removed /\ a_hooks (actors s 2%nat) = 1 /\ objects s 5 = None /\
  o = [OIndex 5; ORet true; ORet true; OIndex 5; ORet true].
Proof. exact refuted_terminate_by_index. Qed.
Print Assumptions C16_refuted_terminate_by_index.

(* the hypotheses are met by a concrete run: add (first draw collides with object 1), subscribe,
   call, self-terminate by post with a call queued behind it, call again after the removal *)
Example C16_nonvacuous : clean cfg_clean /\ exists s, run cfg_clean init ex_trace =
  Some (s, [OIndex 9; ORet true; OFrame 2 TReply 9 0 3; OFrame 0 TReply 9 act_hello 4;
            OFrame 2 (TError ETerminated) 9 102 3; OFrame 0 (TError ENotFound) 9 act_hello 8;
            OFrame 0 TReply 9 act_hello 6]) /\
  st s 1%nat = Removed /\ a_hooks (actors s 1%nat) = 1 /\ a_execs (actors s 1%nat) = 2 /\ live s 0%nat 1.
Proof. exact (conj clean_cfg_clean ex_run). Qed.
