(* C01 — Message framing is lossless, self-delimiting and matches the documented layout.
   This file holds the property theorems only; proofs live in theories/MessageProofs.v. *)
From QV Require Import Reader ReaderProofs Message MessageProofs.
Local Open Scope N_scope.

(* bytes on the wire = documented 28-byte header ++ payload *)
Theorem C01_layout : forall m, h_magic (m_header m) = Magic ->
  enc_msg m = doc_frame (h_id (m_header m)) (h_size (m_header m)) (h_version (m_header m))
                (h_type (m_header m)) (h_flags (m_header m)) (h_service (m_header m))
                (h_object (m_header m)) (h_action (m_header m)) (m_payload m).
Proof. exact enc_msg_layout. Qed.
Print Assumptions C01_layout.

(* lossless and self-delimiting for every fragmentation with positive chunks,
   including data returned together with io.EOF, and any bytes following the frame *)
Theorem C01_roundtrip_frag : forall m rest sch, valid_msg m -> pos_sched sch ->
  exists sch', read_msg {| s_data := enc_msg m ++ rest; s_sched := sch |} =
                 Some (Ok m, {| s_data := rest; s_sched := sch' |}) /\ pos_sched sch'.
Proof. exact read_msg_roundtrip. Qed.
Print Assumptions C01_roundtrip_frag.

(* lossless: the frame determines the message and where it ends.  Two valid messages, each
   followed by any bytes, that give the same byte string are the same message followed by the
   same bytes; no valid frame is a proper prefix of another *)
Theorem C01_injective : forall m1 m2 r1 r2, valid_msg m1 -> valid_msg m2 ->
  enc_msg m1 ++ r1 = enc_msg m2 ++ r2 -> m1 = m2 /\ r1 = r2.
Proof. exact enc_msg_injective. Qed.
Print Assumptions C01_injective.
Theorem C01_prefix_free : forall m1 m2 r, valid_msg m1 -> valid_msg m2 ->
  enc_msg m1 = enc_msg m2 ++ r -> m1 = m2 /\ r = [].
Proof. exact enc_msg_not_prefix. Qed.
Print Assumptions C01_prefix_free.

(* messages written back to back read back as the same sequence, then io.EOF *)
Theorem C01_sequence : forall ms sch, Forall valid_msg ms -> pos_sched sch ->
  exists sch', read_all (S (List.length ms)) {| s_data := concat (map enc_msg ms); s_sched := sch |} =
                 Some (ms, EEOF, {| s_data := []; s_sched := sch' |}).
Proof. exact read_all_sequence. Qed.
Print Assumptions C01_sequence.

(* self-delimiting at stream level: a byte stream splits into valid frames in at most one way *)
Theorem C01_stream_injective : forall ms1 ms2, Forall valid_msg ms1 -> Forall valid_msg ms2 ->
  concat (map enc_msg ms1) = concat (map enc_msg ms2) -> ms1 = ms2.
Proof. exact enc_stream_injective. Qed.
Print Assumptions C01_stream_injective.

(* a refused header costs exactly the 28 header bytes: the payload is never touched *)
Theorem C01_refuse_before_payload : forall b rest sch,
  List.length b = 28%nat -> header_refused b -> pos_sched sch ->
  exists sch', read_msg {| s_data := b ++ rest; s_sched := sch |} =
                 Some (Err EOther, {| s_data := rest; s_sched := sch' |}).
Proof. exact refuse_before_payload. Qed.
Print Assumptions C01_refuse_before_payload.

Theorem C01_refused_magic : forall h, h_magic h < 2 ^ 32 -> h_magic h <> Magic ->
  exists e, dec_header (enc_header h) = Err e.
Proof. exact refused_magic. Qed.
Print Assumptions C01_refused_magic.
Theorem C01_refused_version : forall h, h_magic h = Magic -> h_version h < 2 ^ 16 -> h_version h <> Version ->
  exists e, dec_header (enc_header h) = Err e.
Proof. exact refused_version. Qed.
Print Assumptions C01_refused_version.
Theorem C01_refused_type : forall h, h_magic h = Magic -> h_version h = Version -> h_type h < 2 ^ 8 ->
  (h_type h = 0 \/ 8 < h_type h) -> exists e, dec_header (enc_header h) = Err e.
Proof. exact refused_type. Qed.
Print Assumptions C01_refused_type.

(* Message.Write: one Write call carrying the whole frame; with short writes the accepted
   bytes concatenate to the frame; a size mismatch writes nothing *)
Theorem C01_write_once : forall m calls, valid_msg m ->
  write_msg m {| w_calls := calls; w_sched := [] |} =
    Some (Ok {| w_calls := calls ++ [enc_msg m]; w_sched := [] |}).
Proof. exact write_msg_once. Qed.
Print Assumptions C01_write_once.
Theorem C01_write_short_writes : forall m calls sch, valid_msg m -> pos_wsched sch ->
  exists w', write_msg m {| w_calls := calls; w_sched := sch |} = Some (Ok w') /\
    exists more, w_calls w' = calls ++ more /\ concat more = enc_msg m.
Proof. exact write_msg_short_writes. Qed.
Print Assumptions C01_write_short_writes.
Theorem C01_write_size_mismatch : forall m w,
  N.of_nat (List.length (m_payload m)) mod 2 ^ 32 <> h_size (m_header m) ->
  write_msg m w = Some (Err EOther).
Proof. exact write_msg_size_mismatch. Qed.
Print Assumptions C01_write_size_mismatch.

(* hypotheses are satisfiable: a concrete frame read over 1-byte reads with EOF glued to the data *)
Example C01_nonvacuous : valid_msg ex_msg /\
  read_msg {| s_data := enc_msg ex_msg ++ [xff]; s_sched := repeat (1%nat, true) 31 |} =
    Some (Ok ex_msg, {| s_data := [xff]; s_sched := [] |}).
Proof. exact (conj ex_msg_valid ex_msg_read). Qed.
