(* C05 — Generated proxy and stub are mutual inverses (the codec half; that generated Go code
   compiles is a statement about the Go type checker and is decided by building generated
   packages in the harness).  Theorems only; proofs in theories/GenCodec.v. *)
From QV Require Import Wire Value GenDec WireDefs ReflProofs ParseOpt WireTop GenCodec GenSeq WireRefute.
From Coq Require Import List.
Import ListNotations.
Local Open Scope N_scope.

(* arguments: reflection encoder in the proxy, generated Unmarshal per parameter in the stub *)
Theorem C05_call_args : forall c args ts rest, refl_drop8 c = false ->
  Forall2 arg_ok args ts -> stub_recv ts (proxy_send c args ++ rest) = ROk (args, rest).
Proof. exact call_args_roundtrip. Qed.
Print Assumptions C05_call_args.

(* result: generated Marshal in the stub, reflection decoder in the proxy *)
Theorem C05_call_result : forall c r t rest, refl_drop8 c = false ->
  good_ty t = true -> has_ty r t = true -> refl_domain t = true -> lens_ok r = true -> keys_nodup r ->
  proxy_recv c t (stub_reply r ++ rest) = ROk (r, rest).
Proof. exact call_result_roundtrip. Qed.
Print Assumptions C05_call_result.

(* signal and property payloads *)
Theorem C05_signal_property : forall v t rest, good_ty t = true -> has_ty v t = true ->
  subscriber_recv t (emit v ++ rest) = ROk (v, rest).
Proof. exact signal_roundtrip. Qed.
Print Assumptions C05_signal_property.

(* sequences on one stub / proxy pair (GenSeq.v): a property read returns the payload the property
   was last given -- through the helper or the proxy -- whatever was done before, and whatever was
   done since for other properties and signals; the generated getter decodes it to that value *)
Theorem C05_sequence_get : forall st before w p v after t,
  (w = SUpdate p v \/ w = SSet p v) ->
  forallb (fun o => negb (writes_to p o)) after = true ->
  good_ty t = true -> has_ty v t = true ->
  last (srun st (before ++ w :: after ++ [SGet p])) None = Some (emit v) /\
  subscriber_recv t (emit v) = ROk (v, []).
Proof. exact get_returns_last_write. Qed.
Print Assumptions C05_sequence_get.

(* ... and every event carries the emitted payload, whatever the object holds *)
Theorem C05_sequence_event : forall st o v t,
  payload_of o = Some v -> good_ty t = true -> has_ty v t = true ->
  snd (sstep st o) = Some (emit v) /\ subscriber_recv t (emit v) = ROk (v, []).
Proof. exact event_carries_payload. Qed.
Print Assumptions C05_sequence_event.

Theorem C05_refuted_drop8 :
  exists r, stub_recv [TTuple [TS SI8; TS SI32]] (proxy_send only_drop8 [s8]) = r /\ r <> ROk ([s8], []).
Proof. exact call_args_refuted_drop8. Qed.
Print Assumptions C05_refuted_drop8.

Example C05_nonvacuous : good_ty ex_ty = true /\ has_ty ex_val ex_ty = true /\ dyn_depth ex_val = 1%nat /\ (List.length (spec_enc ex_val) = 39)%nat.
Proof. exact ex_val_ok. Qed.
