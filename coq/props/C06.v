(* C06 — Only connections that presented accepted credentials reach any service.
   Property theorems only; the model is theories/Auth.v, the proofs theories/AuthProofs.v.
   Every statement is for every authenticator function `auth`, every reader of the value
   signatures the model does not decode itself (`skip`), every message-type filter of the
   connection (`flt`), every table of existing services and
   objects (`ex`), every number of connections (connection names are arbitrary naturals) and
   every list of labels, i.e. every frame sequence on every connection in every interleaving of
   reader, connection and service-0 mailbox goroutines. *)
From QV Require Import Auth AuthProofs.
Local Open Scope N_scope.

(* a message reaches the router for a service other than 0 at position i only if, strictly
   earlier, an authenticate request arrived on the SAME connection whose decoded user/token
   pair the authenticator accepts *)
Theorem C06_no_delivery_without_accepted_authenticate :
  forall skip flt auth ex ls i l outs c f,
  nth_error (trace skip flt auth ex init ls) i = Some (l, outs) -> In (ODeliver c f) outs ->
  f_svc f <> 0 /\
  exists j fa, (j < i)%nat /\ nth_error ls j = Some (LArrive c fa) /\ accepted skip flt auth fa.
Proof. exact no_deliver_without_auth. Qed.
Print Assumptions C06_no_delivery_without_accepted_authenticate.

(* the authentication flag of a connection can only come from an accepted request that
   arrived on that connection: authenticating one connection grants nothing to another *)
Theorem C06_flag_only_from_own_accepted_request :
  forall skip flt auth ex ls c,
  c_authed (get (exec skip flt auth ex init ls) c) = true ->
  exists fa, In (LArrive c fa) ls /\ accepted skip flt auth fa.
Proof. exact authed_only_by_own_accepted_request. Qed.
Print Assumptions C06_flag_only_from_own_accepted_request.

(* a connection whose consumer goroutine meets a frame for another service before being
   authenticated is answered with exactly one error frame, closed, and nothing concerning it
   (frame, close, delivery) ever happens afterwards, whatever is sent or scheduled later *)
Theorem C06_unauthenticated_is_refused_and_closed :
  forall skip flt auth ex pre post c f,
  let st := exec skip flt auth ex init pre in
  refusal_due st c f ->
  exists rest,
    trace skip flt auth ex st (LConn c :: post) =
      (LConn c, if c_closed (get st c) then []
                else [OFrame c T_Error (f_svc f) (f_obj f) (f_act f) (f_id f) (BErr ENotAuth); OClose c]) :: rest /\
    forall l o, In (l, o) rest -> forall e, In e o -> out_conn e <> Some c.
Proof. exact unauthenticated_is_refused_and_closed. Qed.
Print Assumptions C06_unauthenticated_is_refused_and_closed.

(* nothing in the client's map other than the user and token lookups influences the step *)
Theorem C06_only_credentials_matter :
  forall skip flt auth ex st c f f' q,
  s_mbox st = (c, f) :: q ->
  f_type f' = f_type f -> f_svc f' = f_svc f -> f_obj f' = f_obj f -> f_act f' = f_act f -> f_id f' = f_id f ->
  (exists m r m' r', dec_capmap skip (f_payload f) = DOk m r /\
                     dec_capmap skip (f_payload f') = DOk m' r' /\ creds m = creds m') ->
  step skip flt auth ex (set_mbox st ((c, f') :: q)) LMbox = (let '(s, o) := step skip flt auth ex st LMbox in (s, o)).
Proof. exact only_credentials_matter. Qed.
Print Assumptions C06_only_credentials_matter.

Theorem C06_wrongly_typed_credentials_refused :
  forall skip flt auth ex st c f q m r,
  s_mbox st = (c, f) :: q -> f_act f = AuthenticateActionID ->
  dec_capmap skip (f_payload f) = DOk m r -> creds m = None ->
  step skip flt auth ex st LMbox = (set_mbox st q, send_reply (get st c) c f BAuthRefused).
Proof. exact wrongly_typed_credentials_refused. Qed.
Print Assumptions C06_wrongly_typed_credentials_refused.

(* the decoder model never answers "out of fuel" *)
Theorem C06_decoder_fuel_sufficient :
  forall skip fuel b, (List.length b < fuel)%nat -> dec_value skip fuel b <> DFuel.
Proof. exact dec_value_fuel. Qed.
Print Assumptions C06_decoder_fuel_sufficient.

(* the hypotheses are met: an accepted request followed by a delivery; and a forged state entry
   on one connection, next to an authenticated other connection, is refused and closed *)
Example C06_nonvacuous :
  accepted ex_skip pinned_filter_pass ex_auth ex_good /\
  nth_error (trace ex_skip pinned_filter_pass ex_auth ex_exists init [LArrive 0 ex_good; LConn 0; LMbox; LArrive 0 ex_probe; LConn 0]) 4
    = Some (LConn 0, [ODeliver 0 ex_probe]) /\
  nth_error (map snd (trace ex_skip pinned_filter_pass ex_auth ex_exists init
     [LArrive 1 ex_good; LConn 1; LMbox; LArrive 0 ex_forged; LConn 0; LMbox; LArrive 0 ex_probe; LConn 0;
      LArrive 0 ex_good; LConn 0; LMbox])) 7 = Some [OFrame 0 T_Error 1 1 100 4 (BErr ENotAuth); OClose 0].
Proof.
  exact (conj ex_good_accepted (conj (f_equal (fun t => nth_error t 4) ex_run_good)
                                     (f_equal (fun t => nth_error t 7) ex_run_forged))).
Qed.
