(* C18 — MetaObject -> IDL -> MetaObject is the identity; the IDL parser is total.
   Model: theories/Idl.v (GenerateIDL with the TypeSet and its collision renaming; ParseIDL on
   goparsec's combinators of theories/Peg.v; scope resolution; InterfaceType.MetaObject).
   Proofs: theories/IdlProofs.v.

   The round trip is proved in layers.  Layers 1 (type expressions) and 2 (action lines, a whole
   method from generation to the recovered signatures) are theorems.  Layer 3 (whole files) is
   stated as [roundtrip_ok] and is NOT proved in general: the missing composition is named at
   C18_file_roundtrip_partial below and the file layer is covered by the correspondence run.
   [idl_safe] / [safe_name] are the hypotheses the proofs force; each one that the pinned code
   violates has a refutation witness (the C18_refuted theorems), replayed on the implementation by qv C18. *)
From QV Require Import Sig Peg SigParse Idl IdlProofs IdlFile.
From Coq Require Import NArith.
Local Open Scope string_scope.

(* ---------- layer 1: type expressions ---------- *)
(* the IDL name of a safe type, followed by anything that is not part of a name, is read back
   by the type parser as ity_of t ... *)
Theorem C18_type_parse : forall t, idl_safe t = true -> forall f rest, idl_depth t < f -> follow_idl rest = true ->
  fst (itype f (idl_name t ++ rest)) = Ok (NVal (VType (ity_of t))) rest.
Proof. exact itype_name. Qed.
Print Assumptions C18_type_parse.
(* ... whose references resolve, through a scope that declares the structs of t, to the signature of t *)
Theorem C18_type_resolve : forall sc t, idl_safe t = true -> scope_has sc t -> forall f, ty_depth t < f ->
  isig f sc (ity_of t) = Some (print t).
Proof. exact isig_of. Qed.
Print Assumptions C18_type_resolve.
Theorem C18_type_expressions : forall t sc g, idl_safe t = true -> scope_has sc t -> ty_depth t < g ->
  exists i, fst (itype (S (String.length (idl_name t))) (idl_name t)) = Ok (NVal (VType i)) "" /\
            isig g sc i = Some (print t).
Proof. exact idl_type_roundtrip. Qed.
Print Assumptions C18_type_expressions.

(* ---------- layer 2: action lines ---------- *)
(* //uid:<n> is read back as n (fmt.Sscanf "uid:%d" on fmt's %d) *)
Theorem C18_uid_comment : forall n, (n < 2 ^ 32)%N -> scan_uid ("uid:" ++ N_to_string n) = Some n.
Proof. exact scan_uid_print. Qed.
Print Assumptions C18_uid_comment.
Theorem C18_method_line : forall f name sep l rt uid rest,
  is_iident name = true -> (uid < 2 ^ 32)%N -> is_sep sep -> Forall (param_ok f) l -> ret_ok f rt ->
  fst (imethod (itype f) (method_line name (join sep (map param_str l)) (ret_str rt) uid ++ rest)) =
  Ok (NVal (VMethod name uid (ret_ity rt) (iparams l))) (nl ++ rest).
Proof. exact method_line_parses. Qed.
Print Assumptions C18_method_line.
Theorem C18_signal_line : forall f name sep l uid rest,
  is_iident name = true -> (uid < 2 ^ 32)%N -> is_sep sep -> Forall (param_ok f) l ->
  fst (isignal (itype f) (sigprop_line "sig" name (join sep (map param_str l)) uid ++ rest)) =
  Ok (NVal (VSignal name uid (iparams l))) (nl ++ rest).
Proof. exact signal_line_parses. Qed.
Print Assumptions C18_signal_line.
Theorem C18_property_line : forall f name sep l uid rest,
  is_iident name = true -> (uid < 2 ^ 32)%N -> is_sep sep -> Forall (param_ok f) l ->
  fst (iproperty (itype f) (sigprop_line "prop" name (join sep (map param_str l)) uid ++ rest)) =
  Ok (NVal (VProp name uid (iparams l))) (nl ++ rest).
Proof. exact property_line_parses. Qed.
Print Assumptions C18_property_line.
(* one method, end to end: the line GenerateIDL writes for it parses to a method with the same
   id and name whose return and parameter signatures, resolved through a scope declaring its
   structs, are the signatures it was generated from *)
Theorem C18_method_roundtrip : forall m ts rt s sc f g rest,
  mm_params m = print (TTuple ts) -> mm_ret m = print rt -> mm_pnames m = None ->
  wf_ty (TTuple ts) = true -> wf_ty rt = true ->
  is_iident (mm_name m) = true -> (mm_uid m < 2 ^ 32)%N ->
  Forall (fun t => idl_safe t = true /\ idl_depth t < f /\ scope_has sc t /\ ty_depth t < g) ts ->
  (rt = TS SVoid \/ (idl_safe rt = true /\ idl_depth rt < f /\ scope_has sc rt /\ ty_depth rt < g)) -> 0 < g ->
  exists line s' ri pl,
    gen_method m s = Some (line, s') /\
    fst (imethod (itype f) (line ++ rest)) = Ok (NVal (VMethod (mm_name m) (mm_uid m) ri pl)) (nl ++ rest) /\
    isig g sc ri = Some (mm_ret m) /\ tuple_sig g sc pl = Some (mm_params m).
Proof. exact method_roundtrip. Qed.
Print Assumptions C18_method_roundtrip.

(* ---------- layer 3: whole files ---------- *)
(* The hypotheses, stated on meta-objects given by their types (o_of prints the signatures):
   package_ok E P, for a declaration environment E (struct name -> members):
     - every interface, action and parameter name is an identifier (a letter or underscore, then letters, digits, underscores); parameter
       names are those CleanVarName produces (or P0, P1, ... when MetaMethod.Parameters is absent);
     - interface names are pairwise distinct and no struct is named like an interface;
     - within an interface the method uids are pairwise distinct, so are the signal uids and the
       property uids; uids are below 2^32 and non-zero (except the method registerEvent);
     - methods take a tuple of parameters, signals and properties have tuple-shaped signatures;
     - every parameter, return (unless void), signal and property type is well formed, idl_safe (no
       void or empty tuple inside; struct names not beginning with a basic type name, Map<, Tuple<,
       Vec<; member names identifiers) and env_ok E: every struct inside it is the one E declares
       under that name — no two different structs share a name;
   env_safe E: the structs of E are themselves idl_safe; is_pkg_name pkg.
   Then GenerateIDL succeeds and ParseIDL gives back, in order, the same interfaces with the same
   action ids, names and parameter / return / signal / property signatures — struct and member
   names included (norm_o only records, as MetaMethod.Parameters, the parameter names written). *)
Theorem C18_file_roundtrip : forall E pkg P, package_ok E P -> env_safe E -> is_pkg_name pkg = true ->
  exists text, gen_idl pkg (map o_of P) = Some text /\ parse_idl text = IOk (map norm_o P).
Proof. exact idl_file_roundtrip. Qed.
Print Assumptions C18_file_roundtrip.
Theorem C18_file_roundtrip_ok : forall E pkg P, package_ok E P -> env_safe E -> is_pkg_name pkg = true ->
  roundtrip_ok pkg (map o_of P) = true.
Proof. exact idl_roundtrip_ok. Qed.
Print Assumptions C18_file_roundtrip_ok.
(* sequences of conversions in one process: whatever packages were converted before and after
   (arbitrary ones: colliding struct names, other weak inputs, invalid signatures), a package that
   meets the hypotheses comes back — the property is per file, history does not matter *)
Theorem C18_sequence_roundtrip : forall (before after : list (string * list mobject)) E pkg P,
  package_ok E P -> env_safe E -> is_pkg_name pkg = true ->
  exists text, nth_error (convert_seq (before ++ (pkg, map o_of P) :: after)) (List.length before)
               = Some (Some (text, IOk (map norm_o P))).
Proof. exact idl_sequence_roundtrip. Qed.
Print Assumptions C18_sequence_roundtrip.
(* the four pieces of the composition, as theorems of their own *)
(* (a) registration is the identity on names and collects the structs, without name collisions *)
Theorem C18_registration_identity : forall E inames t s,
  set_ok E inames s -> env_ok E t -> (forall d, In d (structs_of t) -> ~ In (fst d) inames) ->
  exists ext, register t s = (t, s ++ ext)%list /\ set_ok E inames (s ++ ext)%list /\
              (forall d, In d (structs_of t) -> lookup (fst d) (s ++ ext)%list <> None).
Proof. exact register_ok. Qed.
Print Assumptions C18_registration_identity.
(* (b) the generated text goes through the package parser block by block *)
Theorem C18_text_parses : forall E pkg P S, package_ok E P -> env_safe E -> is_pkg_name pkg = true ->
  set_ok E (map to_name P) S ->
  fst (parse_package (package_text pkg P S)) = Ok (NVal (VPkg pkg (decl_vals E P S))) nl.
Proof. exact parse_package_ok. Qed.
Print Assumptions C18_text_parses.
(* (c) the scope of the parsed declarations declares every struct of every registered type, and the
   fuel of the signature resolution exceeds the depth of every such type *)
Theorem C18_scope_has : forall E P S t, package_ok E P -> set_ok E (map to_name P) S ->
  env_ok E t -> covers S t -> scope_has (scope_of (decl_vals E P S) []) t.
Proof. exact scope_has_covered. Qed.
Print Assumptions C18_scope_has.
Theorem C18_fuel_adequate : forall E P S, package_ok E P -> env_safe E -> set_ok E (map to_name P) S ->
  forall t i, env_ok E t -> covers S t -> idl_depth t <= ity_depth i ->
  ty_depth t < sig_fuel (scope_of (decl_vals E P S) []) i.
Proof. exact depth_below_fuel. Qed.
Print Assumptions C18_fuel_adequate.
(* (d) nodifyActionList keeps distinct, non-zero ids as they are, in order *)
Theorem C18_action_ids_kept : forall E o, object_ok E o ->
  inodify_action_list (action_nodes o) =
  NVal (VItf "" (map mentry (to_methods o)) (map gentry (to_signals o)) (map gentry (to_props o))).
Proof. exact action_list_object. Qed.
Print Assumptions C18_action_ids_kept.

(* the earlier, concrete instance (kept): one package evaluated inside Coq *)
Definition ex_objs : list mobject :=
  [ {| mo_name := "Motion";
       mo_methods := [ {| mm_uid := 100; mm_name := "moveTo"; mm_params := "((fff)<Pose,x,y,theta>[(fff)<Pose,x,y,theta>])";
                          mm_ret := "b"; mm_pnames := Some ["target"; "via"] |};
                       {| mm_uid := 101; mm_name := "stop"; mm_params := "()"; mm_ret := "v"; mm_pnames := None |} ];
       mo_signals := [ {| ms_uid := 102; ms_name := "moved"; ms_sig := "({s(fff)<Pose,x,y,theta>})" |} ];
       mo_props := [ {| ms_uid := 103; ms_name := "speed"; ms_sig := "(f)" |} ] |};
    {| mo_name := "Log"; mo_methods := [ {| mm_uid := 5; mm_name := "log"; mm_params := "((sI)<Entry<T>,text,level>m)"; mm_ret := "o"; mm_pnames := None |} ];
       mo_signals := []; mo_props := [] |} ].
Theorem C18_file_roundtrip_partial : roundtrip_ok "robot" ex_objs = true.
Proof. vm_compute. reflexivity. Qed.
Print Assumptions C18_file_roundtrip_partial.

(* a sequence evaluated: two services with different structs named Status in one package (the second
   one is renamed Status_0: the recorded weakness colliding_struct_names), then each service alone —
   alone, each keeps the name Status *)
Definition ex_motor : list mobject :=
  [ {| mo_name := "Motor"; mo_methods := [ {| mm_uid := 100; mm_name := "status"; mm_params := "()"; mm_ret := "(fb)<Status,temperature,stiff>"; mm_pnames := None |} ];
       mo_signals := []; mo_props := [] |} ].
Definition ex_battery : list mobject :=
  [ {| mo_name := "Battery"; mo_methods := [ {| mm_uid := 100; mm_name := "level"; mm_params := "()"; mm_ret := "(ib)<Status,charge,plugged>"; mm_pnames := None |} ];
       mo_signals := []; mo_props := [] |} ].
Theorem C18_sequence_example :
  seq_roundtrip_ok [("p", ex_motor ++ ex_battery); ("p", ex_motor); ("p", ex_battery); ("p", ex_battery ++ ex_motor); ("p", ex_motor)]%list
  = [false; true; true; false; true].
Proof. vm_compute. reflexivity. Qed.
Print Assumptions C18_sequence_example.

(* identifiers are identifiers: the words that structure an IDL file, the names of its basic types and
   Go's keywords are names like any other (instances of the file theorem's hypotheses, evaluated):
   a struct Range{begin,end}, a parameter named end, actions named fn / sig / prop, an interface
   named interface, a struct named end with members named struct and int32 *)
Definition ex_vocab : list mobject :=
  [ {| mo_name := "interface";
       mo_methods := [ {| mm_uid := 100; mm_name := "fn"; mm_params := "(ii)"; mm_ret := "(ii)<Range,begin,end>";
                          mm_pnames := Some ["begin"; "end"] |};
                       {| mm_uid := 101; mm_name := "end"; mm_params := "((is)<end,struct,int32>)"; mm_ret := "v"; mm_pnames := Some ["package"] |} ];
       mo_signals := [ {| ms_uid := 102; ms_name := "sig"; ms_sig := "((ii)<Range,begin,end>)" |} ];
       mo_props := [ {| ms_uid := 103; ms_name := "prop"; ms_sig := "([(is)<end,struct,int32>])" |} ] |};
    {| mo_name := "str"; mo_methods := [ {| mm_uid := 1; mm_name := "int32"; mm_params := "(s)"; mm_ret := "s"; mm_pnames := Some ["str"] |} ];
       mo_signals := []; mo_props := [] |} ].
Theorem C18_vocabulary_roundtrip : roundtrip_ok "package" ex_vocab = true.
Proof. vm_compute. reflexivity. Qed.
Print Assumptions C18_vocabulary_roundtrip.

(* ---------- the hypotheses are needed: refutation witnesses on the pinned behaviour ---------- *)
Definition one_method (params ret : string) : list mobject :=
  [ {| mo_name := "I"; mo_methods := [ {| mm_uid := 1; mm_name := "f"; mm_params := params; mm_ret := ret; mm_pnames := None |} ];
       mo_signals := []; mo_props := [] |} ].
Theorem C18_refuted_keyword_prefix_struct_name : roundtrip_ok "p" (one_method "((i)<strange,a>)" "v") = false.
Proof. vm_compute. reflexivity. Qed.
Print Assumptions C18_refuted_keyword_prefix_struct_name.
(* a struct named exactly as a basic IDL type: the word-boundary repair of basicType() does not help,
   "P0: str" is the basic type *)
Theorem C18_refuted_basic_type_struct_name : roundtrip_ok "p" (one_method "((i)<str,a>)" "v") = false.
Proof. vm_compute. reflexivity. Qed.
Print Assumptions C18_refuted_basic_type_struct_name.
Theorem C18_refuted_container_prefix_struct_name : roundtrip_ok "p" (one_method "((i)<Vec<T>,a>)" "v") = false.
Proof. vm_compute. reflexivity. Qed.
Print Assumptions C18_refuted_container_prefix_struct_name.
Theorem C18_refuted_colliding_struct_names :
  roundtrip_ok "p" [ {| mo_name := "I";
                        mo_methods := [ {| mm_uid := 1; mm_name := "f"; mm_params := "((i)<A,a>)"; mm_ret := "v"; mm_pnames := None |};
                                        {| mm_uid := 2; mm_name := "g"; mm_params := "((s)<A,b>)"; mm_ret := "v"; mm_pnames := None |} ];
                        mo_signals := []; mo_props := [] |} ] = false.
Proof. vm_compute. reflexivity. Qed.
Print Assumptions C18_refuted_colliding_struct_names.
Theorem C18_refuted_non_tuple_signal_property :
  roundtrip_ok "p" [ {| mo_name := "I"; mo_methods := []; mo_signals := [ {| ms_uid := 1; ms_name := "s"; ms_sig := "i" |} ]; mo_props := [] |} ] = false.
Proof. vm_compute. reflexivity. Qed.
Print Assumptions C18_refuted_non_tuple_signal_property.
Theorem C18_refuted_uid_zero :
  roundtrip_ok "p" [ {| mo_name := "I"; mo_methods := [ {| mm_uid := 0; mm_name := "f"; mm_params := "()"; mm_ret := "v"; mm_pnames := None |} ];
                        mo_signals := []; mo_props := [] |} ] = false.
Proof. vm_compute. reflexivity. Qed.
Print Assumptions C18_refuted_uid_zero.
Theorem C18_refuted_empty_tuple_or_void_in_container : roundtrip_ok "p" (one_method "(())" "v") = false /\ roundtrip_ok "p" (one_method "()" "[v]") = false.
Proof. vm_compute. split; reflexivity. Qed.
Print Assumptions C18_refuted_empty_tuple_or_void_in_container.

(* ---------- the parser on arbitrary text ---------- *)
(* the model's bounds are never reached: every text gives meta-objects, an error, or the crash below *)
Theorem C18_parser_total : forall s, parse_idl s <> IFuel /\ parse_idl s <> IHang.
Proof. exact parse_idl_total. Qed.
Print Assumptions C18_parser_total.
(* a struct that contains itself: computing the signature never ends (stack overflow in Go) *)
Theorem C18_refuted_self_referential_struct_crash :
  parse_idl "struct A
 a: A
end
interface I
 fn f(x: A)
end" = ICrash.
Proof. vm_compute. reflexivity. Qed.
Print Assumptions C18_refuted_self_referential_struct_crash.

(* the hypotheses of C18_file_roundtrip are met by a package with shared, nested and
   template-named structs, named and unnamed parameters *)
Definition ex_pose := TStruct "Pose" [("x", TS SF32); ("y", TS SF32); ("theta", TS SF32)].
Definition ex_entry := TStruct "Entry<T>" [("text", TS SStr); ("level", TS SU32)].
Definition ex_env : env := [("Pose", [("x", TS SF32); ("y", TS SF32); ("theta", TS SF32)]); ("Entry<T>", [("text", TS SStr); ("level", TS SU32)])].
Definition ex_typed : list tobject :=
  [ {| to_name := "Motion";
       to_methods := [ {| tm_uid := 100; tm_name := "moveTo"; tm_params := [ex_pose; TList ex_pose]; tm_ret := TS SBool; tm_pnames := Some ["target"; "via"] |};
                       {| tm_uid := 101; tm_name := "stop"; tm_params := []; tm_ret := TS SVoid; tm_pnames := None |} ];
       to_signals := [ {| tg_uid := 102; tg_name := "moved"; tg_params := [TMap (TS SStr) ex_pose] |} ];
       to_props := [ {| tg_uid := 103; tg_name := "speed"; tg_params := [TS SF32] |} ] |};
    {| to_name := "Log"; to_methods := [ {| tm_uid := 5; tm_name := "log"; tm_params := [ex_entry; TS SValue]; tm_ret := TS SObject; tm_pnames := None |} ];
       to_signals := []; to_props := [] |} ].
Ltac solve_type_ok := split; [reflexivity|split; [reflexivity|unfold env_ok; cbn; repeat constructor]].
Ltac solve_types := repeat (apply Forall_cons; [solve_type_ok|]); apply Forall_nil.
Ltac solve_method := constructor; [solve_types|(left; reflexivity) || (right; solve_type_ok)|reflexivity|reflexivity|left; discriminate|cbn; repeat constructor].
Ltac solve_signal := constructor; [solve_types|reflexivity|reflexivity|discriminate].
Ltac solve_nodup := repeat (apply NoDup_cons; [cbn; intuition discriminate|]); apply NoDup_nil.
Example C18_file_nonvacuous : package_ok ex_env ex_typed /\ env_safe ex_env /\ is_pkg_name "robot" = true /\ map o_of ex_typed = ex_objs.
Proof.
  split; [|split; [|split; reflexivity]].
  - constructor; [|solve_nodup].
    apply Forall_cons; [|apply Forall_cons; [|apply Forall_nil]].
    + constructor; [reflexivity|reflexivity| | | |solve_nodup|solve_nodup|solve_nodup].
      * apply Forall_cons; [solve_method|apply Forall_cons; [solve_method|apply Forall_nil]].
      * apply Forall_cons; [solve_signal|apply Forall_nil].
      * apply Forall_cons; [solve_signal|apply Forall_nil].
    + constructor; [reflexivity|reflexivity| | | |solve_nodup|solve_nodup|solve_nodup].
      * apply Forall_cons; [solve_method|apply Forall_nil].
      * apply Forall_nil.
      * apply Forall_nil.
  - repeat constructor.
Qed.

Example C18_nonvacuous :
  idl_safe (TMap (TS SStr) (TList (TStruct "Pose" [("x", TS SF32)]))) = true /\
  scope_has [("Pose", ScStruct "Pose" [("x", IBasic SF32)])] (TMap (TS SStr) (TList (TStruct "Pose" [("x", TS SF32)]))) /\
  param_ok 5 ("target", TStruct "Pose" [("x", TS SF32)]) /\
  parse_idl "interface I
	fn f(a: int32) -> str //uid:5
end
" = IOk [{| mo_name := "I"; mo_methods := [{| mm_uid := 5; mm_name := "f"; mm_params := "(i)"; mm_ret := "s"; mm_pnames := Some ["a"] |}];
            mo_signals := []; mo_props := [] |}].
Proof. vm_compute. repeat split; auto. Qed.
