(* C18 — MetaObject -> IDL -> MetaObject is the identity; the IDL parser is total.
   Model: theories/Idl.v (GenerateIDL with the TypeSet and its collision renaming; ParseIDL on
   goparsec's combinators of theories/Peg.v; scope resolution; InterfaceType.MetaObject).
   Proofs: theories/IdlProofs.v.

   The round trip is proved in layers.  Layers 1 (type expressions) and 2 (action lines, a whole
   method from generation to the recovered signatures) are theorems.  Layer 3 (whole files) is
   stated as [roundtrip_ok] and is NOT proved in general: the missing composition is named at
   C18_file_roundtrip_partial below and the file layer is covered by the correspondence run.
   [idl_safe] / [safe_name] are the hypotheses the proofs force; each one that the pinned code
   violates has a refutation witness (the C18_refuted theorems), replayed on the implementation by qv C18. *)
From QV Require Import Sig Peg SigParse Idl IdlProofs.
From Coq Require Import NArith.
Local Open Scope string_scope.

(* ---------- layer 1: type expressions ---------- *)
(* the IDL name of a safe type, followed by anything that is not part of a name, is read back
   by the type parser as ity_of t ... *)
Theorem C18_type_parse : forall t, idl_safe t = true -> forall f rest, idl_depth t < f -> follow_idl rest = true ->
  fst (itype f (idl_name t ++ rest)) = Ok (NVal (VType (ity_of t))) rest.
Proof. exact itype_name. Qed.
Print Assumptions C18_type_parse.
(* ... whose references resolve, through a scope that declares the structs of t, to the signature of t *)
Theorem C18_type_resolve : forall sc t, idl_safe t = true -> scope_has sc t -> forall f, ty_depth t < f ->
  isig f sc (ity_of t) = Some (print t).
Proof. exact isig_of. Qed.
Print Assumptions C18_type_resolve.
Theorem C18_type_expressions : forall t sc g, idl_safe t = true -> scope_has sc t -> ty_depth t < g ->
  exists i, fst (itype (S (String.length (idl_name t))) (idl_name t)) = Ok (NVal (VType i)) "" /\
            isig g sc i = Some (print t).
Proof. exact idl_type_roundtrip. Qed.
Print Assumptions C18_type_expressions.

(* ---------- layer 2: action lines ---------- *)
(* //uid:<n> is read back as n (fmt.Sscanf "uid:%d" on fmt's %d) *)
Theorem C18_uid_comment : forall n, (n < 2 ^ 32)%N -> scan_uid ("uid:" ++ N_to_string n) = Some n.
Proof. exact scan_uid_print. Qed.
Print Assumptions C18_uid_comment.
Theorem C18_method_line : forall f name sep l rt uid rest,
  is_iident name = true -> (uid < 2 ^ 32)%N -> is_sep sep -> Forall (param_ok f) l -> ret_ok f rt ->
  fst (imethod (itype f) (method_line name (join sep (map param_str l)) (ret_str rt) uid ++ rest)) =
  Ok (NVal (VMethod name uid (ret_ity rt) (iparams l))) (nl ++ rest).
Proof. exact method_line_parses. Qed.
Print Assumptions C18_method_line.
Theorem C18_signal_line : forall f name sep l uid rest,
  is_iident name = true -> (uid < 2 ^ 32)%N -> is_sep sep -> Forall (param_ok f) l ->
  fst (isignal (itype f) (sigprop_line "sig" name (join sep (map param_str l)) uid ++ rest)) =
  Ok (NVal (VSignal name uid (iparams l))) (nl ++ rest).
Proof. exact signal_line_parses. Qed.
Print Assumptions C18_signal_line.
Theorem C18_property_line : forall f name sep l uid rest,
  is_iident name = true -> (uid < 2 ^ 32)%N -> is_sep sep -> Forall (param_ok f) l ->
  fst (iproperty (itype f) (sigprop_line "prop" name (join sep (map param_str l)) uid ++ rest)) =
  Ok (NVal (VProp name uid (iparams l))) (nl ++ rest).
Proof. exact property_line_parses. Qed.
Print Assumptions C18_property_line.
(* one method, end to end: the line GenerateIDL writes for it parses to a method with the same
   id and name whose return and parameter signatures, resolved through a scope declaring its
   structs, are the signatures it was generated from *)
Theorem C18_method_roundtrip : forall m ts rt s sc f g rest,
  mm_params m = print (TTuple ts) -> mm_ret m = print rt -> mm_pnames m = None ->
  wf_ty (TTuple ts) = true -> wf_ty rt = true ->
  is_iident (mm_name m) = true -> (mm_uid m < 2 ^ 32)%N ->
  Forall (fun t => idl_safe t = true /\ idl_depth t < f /\ scope_has sc t /\ ty_depth t < g) ts ->
  (rt = TS SVoid \/ (idl_safe rt = true /\ idl_depth rt < f /\ scope_has sc rt /\ ty_depth rt < g)) -> 0 < g ->
  exists line s' ri pl,
    gen_method m s = Some (line, s') /\
    fst (imethod (itype f) (line ++ rest)) = Ok (NVal (VMethod (mm_name m) (mm_uid m) ri pl)) (nl ++ rest) /\
    isig g sc ri = Some (mm_ret m) /\ tuple_sig g sc pl = Some (mm_params m).
Proof. exact method_roundtrip. Qed.
Print Assumptions C18_method_roundtrip.

(* ---------- layer 3: whole files ---------- *)
(* Full statement (not proved):
     forall pkg objs, is_iident pkg -> safe_objects objs -> roundtrip_ok pkg objs = true
   where safe_objects asks: interface, action and member names are identifiers; uids are distinct,
   non-zero (except the method registerEvent) and below 2^32; every signature is the printed form of
   a well-formed type, methods' parameters and all signals/properties are tuples; every type is
   idl_safe; two structs with the same name are the same struct and no struct is named like an
   interface.
   Missing composition: (a) TypeSet registration is the identity on names and collects exactly the
   structs of the objects when names do not collide (register / resolve_collision); (b) Kleene over
   the action lines and struct blocks of gen_idl (the per-line theorems above are its steps);
   (c) scope_of of the parsed declarations satisfies scope_has for every type, and sig_fuel is
   enough for non-self-referential scopes; (d) nodifyActionList's maps hold the actions in order.
   The file layer is covered by the correspondence run (generated packages through the real
   GenerateIDL/ParseIDL and through gen_idl/parse_idl).  What is proved of it here is a concrete
   package evaluated inside Coq: *)
Definition ex_objs : list mobject :=
  [ {| mo_name := "Motion";
       mo_methods := [ {| mm_uid := 100; mm_name := "moveTo"; mm_params := "((fff)<Pose,x,y,theta>[(fff)<Pose,x,y,theta>])";
                          mm_ret := "b"; mm_pnames := Some ["target"; "via"] |};
                       {| mm_uid := 101; mm_name := "stop"; mm_params := "()"; mm_ret := "v"; mm_pnames := None |} ];
       mo_signals := [ {| ms_uid := 102; ms_name := "moved"; ms_sig := "({s(fff)<Pose,x,y,theta>})" |} ];
       mo_props := [ {| ms_uid := 103; ms_name := "speed"; ms_sig := "(f)" |} ] |};
    {| mo_name := "Log"; mo_methods := [ {| mm_uid := 5; mm_name := "log"; mm_params := "((sI)<Entry<T>,text,level>m)"; mm_ret := "o"; mm_pnames := None |} ];
       mo_signals := []; mo_props := [] |} ].
Theorem C18_file_roundtrip_partial : roundtrip_ok "robot" ex_objs = true.
Proof. vm_compute. reflexivity. Qed.
Print Assumptions C18_file_roundtrip_partial.

(* ---------- the hypotheses are needed: refutation witnesses on the pinned behaviour ---------- *)
Definition one_method (params ret : string) : list mobject :=
  [ {| mo_name := "I"; mo_methods := [ {| mm_uid := 1; mm_name := "f"; mm_params := params; mm_ret := ret; mm_pnames := None |} ];
       mo_signals := []; mo_props := [] |} ].
Theorem C18_refuted_keyword_prefix_struct_name : roundtrip_ok "p" (one_method "((i)<strange,a>)" "v") = false.
Proof. vm_compute. reflexivity. Qed.
Print Assumptions C18_refuted_keyword_prefix_struct_name.
Theorem C18_refuted_container_prefix_struct_name : roundtrip_ok "p" (one_method "((i)<Vec<T>,a>)" "v") = false.
Proof. vm_compute. reflexivity. Qed.
Print Assumptions C18_refuted_container_prefix_struct_name.
Theorem C18_refuted_colliding_struct_names :
  roundtrip_ok "p" [ {| mo_name := "I";
                        mo_methods := [ {| mm_uid := 1; mm_name := "f"; mm_params := "((i)<A,a>)"; mm_ret := "v"; mm_pnames := None |};
                                        {| mm_uid := 2; mm_name := "g"; mm_params := "((s)<A,b>)"; mm_ret := "v"; mm_pnames := None |} ];
                        mo_signals := []; mo_props := [] |} ] = false.
Proof. vm_compute. reflexivity. Qed.
Print Assumptions C18_refuted_colliding_struct_names.
Theorem C18_refuted_non_tuple_signal_property :
  roundtrip_ok "p" [ {| mo_name := "I"; mo_methods := []; mo_signals := [ {| ms_uid := 1; ms_name := "s"; ms_sig := "i" |} ]; mo_props := [] |} ] = false.
Proof. vm_compute. reflexivity. Qed.
Print Assumptions C18_refuted_non_tuple_signal_property.
Theorem C18_refuted_uid_zero :
  roundtrip_ok "p" [ {| mo_name := "I"; mo_methods := [ {| mm_uid := 0; mm_name := "f"; mm_params := "()"; mm_ret := "v"; mm_pnames := None |} ];
                        mo_signals := []; mo_props := [] |} ] = false.
Proof. vm_compute. reflexivity. Qed.
Print Assumptions C18_refuted_uid_zero.
Theorem C18_refuted_empty_tuple_or_void_in_container : roundtrip_ok "p" (one_method "(())" "v") = false /\ roundtrip_ok "p" (one_method "()" "[v]") = false.
Proof. vm_compute. split; reflexivity. Qed.
Print Assumptions C18_refuted_empty_tuple_or_void_in_container.

(* ---------- the parser on arbitrary text ---------- *)
(* the model's bounds are never reached: every text gives meta-objects, an error, or the crash below *)
Theorem C18_parser_total : forall s, parse_idl s <> IFuel /\ parse_idl s <> IHang.
Proof. exact parse_idl_total. Qed.
Print Assumptions C18_parser_total.
(* a struct that contains itself: computing the signature never ends (stack overflow in Go) *)
Theorem C18_refuted_self_referential_struct_crash :
  parse_idl "struct A
 a: A
end
interface I
 fn f(x: A)
end" = ICrash.
Proof. vm_compute. reflexivity. Qed.
Print Assumptions C18_refuted_self_referential_struct_crash.

Example C18_nonvacuous :
  idl_safe (TMap (TS SStr) (TList (TStruct "Pose" [("x", TS SF32)]))) = true /\
  scope_has [("Pose", ScStruct "Pose" [("x", IBasic SF32)])] (TMap (TS SStr) (TList (TStruct "Pose" [("x", TS SF32)]))) /\
  param_ok 5 ("target", TStruct "Pose" [("x", TS SF32)]) /\
  parse_idl "interface I
	fn f(a: int32) -> str //uid:5
end
" = IOk [{| mo_name := "I"; mo_methods := [{| mm_uid := 5; mm_name := "f"; mm_params := "(i)"; mm_ret := "s"; mm_pnames := Some ["a"] |}];
            mo_signals := []; mo_props := [] |}].
Proof. vm_compute. repeat split; auto. Qed.
