(* C18 — MetaObject -> IDL -> MetaObject (in progress) *)
From QV Require Import Sig SigParse Idl.
Local Open Scope string_scope.
Example C18_nonvacuous : parse_idl "interface I
	fn f(a: int32) -> str //uid:5
end
" = IOk [{| mo_name := "I"; mo_methods := [{| mm_uid := 5; mm_name := "f"; mm_params := "(i)"; mm_ret := "s"; mm_pnames := Some ["a"] |}];
            mo_signals := []; mo_props := [] |}].
Proof. vm_compute. reflexivity. Qed.
