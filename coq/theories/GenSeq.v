(* GenSeq.v — sequences of operations on ONE generated stub / proxy pair (C05).
   What an object built by generated code keeps between two calls is the value of each of
   its properties: Update<P> (generated helper of the stub) and Set<P> (generated proxy)
   store the payload that the generated Marshal produced and send it to the subscribers,
   Signal<S> only sends, Get<P> returns what is stored.  The store keeps payloads BY VALUE:
   nothing done later for another property or signal changes a stored payload.  The harness
   (qv C05, sequences) compares every event and every getter reply of long drawn sequences
   with [srun]. *)
From QV Require Import Wire Value GenDec WireLemmas ParseOpt GenCodec.
From Coq Require Import List NArith Lia.
Import ListNotations.
Local Open Scope N_scope.

Inductive sop :=
| SUpdate (p : N) (v : tval)   (* Update<P>(v) through the SignalHelper of the stub *)
| SSet (p : N) (v : tval)      (* Set<P>(v) through the proxy *)
| SSignal (s : N) (v : tval)   (* Signal<S>(v) through the SignalHelper *)
| SGet (p : N).                (* Get<P>() through the proxy *)

Definition pstore := list (N * bytes).   (* newest entry first *)

Fixpoint plookup (st : pstore) (p : N) : option bytes :=
  match st with
  | [] => None
  | (q, b) :: r => if q =? p then Some b else plookup r p
  end.

(* one operation: the new store and what the proxy side observes (event payload / reply) *)
Definition sstep (st : pstore) (o : sop) : pstore * option bytes :=
  match o with
  | SUpdate p v => ((p, emit v) :: st, Some (emit v))
  | SSet p v => ((p, emit v) :: st, Some (emit v))
  | SSignal _ v => (st, Some (emit v))
  | SGet p => (st, plookup st p)
  end.

Fixpoint sfinal (st : pstore) (ops : list sop) : pstore :=
  match ops with [] => st | o :: r => sfinal (fst (sstep st o)) r end.

Fixpoint srun (st : pstore) (ops : list sop) : list (option bytes) :=
  match ops with [] => [] | o :: r => snd (sstep st o) :: srun (fst (sstep st o)) r end.

Definition writes_to (p : N) (o : sop) : bool :=
  match o with SUpdate q _ | SSet q _ => q =? p | _ => false end.

Definition payload_of (o : sop) : option tval :=
  match o with SUpdate _ v | SSet _ v | SSignal _ v => Some v | SGet _ => None end.

Lemma sfinal_app : forall a st b, sfinal st (a ++ b) = sfinal (sfinal st a) b.
Proof. induction a as [|o a IH]; intros st b; cbn; [reflexivity|apply IH]. Qed.

Lemma srun_app : forall a st b, srun st (a ++ b) = srun st a ++ srun (sfinal st a) b.
Proof. induction a as [|o a IH]; intros st b; cbn; [reflexivity|f_equal; apply IH]. Qed.

Lemma srun_length : forall ops st, List.length (srun st ops) = List.length ops.
Proof. induction ops as [|o r IH]; intro st; cbn; [reflexivity|f_equal; apply IH]. Qed.

(* operations that do not write p leave what the store holds for p alone *)
Lemma plookup_untouched : forall p ops st,
  forallb (fun o => negb (writes_to p o)) ops = true -> plookup (sfinal st ops) p = plookup st p.
Proof.
  intros p. induction ops as [|o r IH]; intros st H; cbn in *; [reflexivity|].
  apply andb_prop in H as [Ho Hr]. rewrite (IH _ Hr).
  destruct o as [q v|q v|s v|q]; cbn in *; try reflexivity;
    destruct (q =? p); cbn in *; (discriminate || reflexivity).
Qed.

(* Every Get<P> returns the payload P was last given -- by the helper or by the proxy,
   whatever was done before it, and whatever was done since for other properties and
   signals -- and the generated getter decodes it to the value that was written. *)
Theorem get_returns_last_write : forall st before w p v after t,
  (w = SUpdate p v \/ w = SSet p v) ->
  forallb (fun o => negb (writes_to p o)) after = true ->
  good_ty t = true -> has_ty v t = true ->
  last (srun st (before ++ w :: after ++ [SGet p])) None = Some (emit v) /\
  subscriber_recv t (emit v) = ROk (v, []).
Proof.
  intros st before w p v after t Hw Hafter Hg Hv. split.
  - rewrite srun_app. cbn [srun]. rewrite srun_app. cbn [srun sstep snd].
    rewrite !app_comm_cons, app_assoc, last_last.
    rewrite (plookup_untouched p after _ Hafter).
    destruct Hw as [-> | ->]; cbn; rewrite N.eqb_refl; reflexivity.
  - rewrite <- (app_nil_r (emit v)). apply signal_roundtrip; assumption.
Qed.

(* Every event carries the payload that was emitted, whatever the store holds, and the
   generated subscriber decodes it to the emitted value. *)
Theorem event_carries_payload : forall st o v t,
  payload_of o = Some v -> good_ty t = true -> has_ty v t = true ->
  snd (sstep st o) = Some (emit v) /\ subscriber_recv t (emit v) = ROk (v, []).
Proof.
  intros st o v t Ho Hg Hv. split.
  - destruct o; cbn in *; inversion Ho; reflexivity.
  - rewrite <- (app_nil_r (emit v)). apply signal_roundtrip; assumption.
Qed.

(* not vacuous: two properties and a signal interleaved *)
Example seq_example :
  srun [] [SUpdate 101 (VNum 4 21); SUpdate 102 (VStr []); SSignal 103 (VNum 1 7); SGet 101; SSet 101 (VNum 4 19); SGet 102; SGet 101]
  = [Some (emit (VNum 4 21)); Some (emit (VStr [])); Some (emit (VNum 1 7)); Some (emit (VNum 4 21));
     Some (emit (VNum 4 19)); Some (emit (VStr [])); Some (emit (VNum 4 19))].
Proof. reflexivity. Qed.
