(* SessionViewProofs.v — the session's list equals the directory's content whenever nothing is
   in flight (SessionView.v), for every interleaving of directory changes, deliveries, answers
   and loop steps; throwing delivered signals away after a refresh breaks it. *)
From Coq Require Import List Arith Bool Lia.
From QV Require Import SessionView.
Import ListNotations.

(* replies on the wire *)
Fixpoint nrep (w : list msg) : nat :=
  match w with
  | [] => 0
  | MReply _ :: r => S (nrep r)
  | MSignal :: r => nrep r
  end.

(* a signal that will make the loop refresh again is still on its way *)
Definition owed (s : vst) : Prop := v_pending s <> 0 \/ In MSignal (v_wire s).

(* the reply on the wire carries the directory's content, or a signal follows it *)
Fixpoint fresh (d : dir) (w : list msg) : Prop :=
  match w with
  | [] => False
  | MSignal :: r => fresh d r
  | MReply snap :: r => snap = d \/ In MSignal r
  end.

Definition VInv (s : vst) : Prop :=
  match v_call s with
  | CNone => nrep (v_wire s) = 0 /\ (v_pc s = 0 \/ v_pc s = 1) /\ (v_pc s = 0 -> v_list s = v_dir s \/ owed s)
  | CSent => nrep (v_wire s) = 0 /\ v_pc s = 1
  | CAnswered => nrep (v_wire s) = 1 /\ v_pc s = 1 /\ fresh (v_dir s) (v_wire s)
  | CGot snap => nrep (v_wire s) = 0 /\ v_pc s = 2 /\ (snap = v_dir s \/ owed s)
  end.

Lemma nrep_app : forall a b, nrep (a ++ b) = nrep a + nrep b.
Proof. induction a as [|[snap|] a IH]; intros b; simpl; auto. Qed.

Lemma fresh_signal : forall d d' w, fresh d w -> fresh d' (w ++ [MSignal]).
Proof.
  induction w as [|[snap|] w IH]; simpl; intros H.
  - contradiction.
  - right. apply in_or_app. right. left. reflexivity.
  - auto.
Qed.

Lemma fresh_answer : forall d w, nrep w = 0 -> fresh d (w ++ [MReply d]).
Proof.
  induction w as [|[snap|] w IH]; simpl; intros H.
  - left. reflexivity.
  - discriminate.
  - auto.
Qed.

Lemma inv_init : forall d, VInv (vinit d).
Proof. intros d. unfold VInv. simpl. repeat split; auto. Qed.

Lemma inv_step : forall s e s', VInv s -> vstep loop_prog s e = Some s' -> VInv s'.
Proof.
  intros s e s' I H. unfold VInv, owed in *. destruct e as [d| | |]; simpl in H.
  - (* the directory changes *)
    inversion H; subst s'; clear H; simpl.
    assert (Hin : In MSignal (v_wire s ++ [MSignal])) by (apply in_or_app; right; left; reflexivity).
    destruct (v_call s) as [| | |snap].
    + destruct I as (N & P & _). rewrite nrep_app. simpl.
      split; [lia|]. split; [exact P|]. intros _. right. right. exact Hin.
    + destruct I as (N & P). rewrite nrep_app. simpl. split; [lia|exact P].
    + destruct I as (N & P & F). rewrite nrep_app. simpl.
      split; [lia|]. split; [exact P|]. eapply fresh_signal; eauto.
    + destruct I as (N & P & _). rewrite nrep_app. simpl.
      split; [lia|]. split; [exact P|]. right. right. exact Hin.
  - (* the directory answers *)
    destruct (v_call s) as [| | |snap] eqn:C; try discriminate.
    inversion H; subst s'; clear H; simpl. destruct I as (N & P).
    rewrite nrep_app. simpl. split; [lia|]. split; [exact P|]. apply fresh_answer; auto.
  - (* a message is delivered *)
    destruct (v_wire s) as [|[snap|] r] eqn:W; try discriminate.
    + destruct (v_call s) as [| | |snap'] eqn:C; try discriminate.
      inversion H; subst s'; clear H; simpl. destruct I as (N & P & F).
      simpl in N, F. rewrite P. split; [lia|]. split; [reflexivity|].
      destruct F as [F|F]; [left; auto | right; right; auto].
    + inversion H; subst s'; clear H; simpl.
      destruct (v_call s) as [| | |snap'] eqn:C; simpl in I.
      * destruct I as (N & P & Q). split; [exact N|]. split; [exact P|]. intros Z. right. left. lia.
      * destruct I as (N & P). split; auto.
      * destruct I as (N & P & F). split; [lia|]. split; [exact P|]. exact F.
      * destruct I as (N & P & Q). split; [exact N|]. split; [exact P|]. right. left. lia.
  - (* the loop *)
    destruct (nth_error loop_prog (v_pc s)) as [[| | |]|] eqn:E; try discriminate.
    + (* URecv *)
      destruct (v_pending s) as [|n] eqn:Pn; try discriminate.
      inversion H; subst s'; clear H; simpl.
      assert (Pc : v_pc s = 0).
      { destruct (v_pc s) as [|[|[|k]]]; simpl in E; try discriminate; auto. destruct k; discriminate. }
      rewrite Pc. simpl. destruct (v_call s) as [| | |snap]; simpl in *.
      * destruct I as (N & _ & _). split; [exact N|]. split; [right; reflexivity|]. intros Z; discriminate.
      * destruct I as (_ & P). lia.
      * destruct I as (_ & P & _). lia.
      * destruct I as (_ & P & _). lia.
    + (* UCall *)
      destruct (v_call s) as [| | |snap] eqn:C; try discriminate.
      inversion H; subst s'; clear H; simpl.
      assert (Pc : v_pc s = 1).
      { destruct (v_pc s) as [|[|[|k]]]; simpl in E; try discriminate; auto. destruct k; discriminate. }
      destruct I as (N & _ & _). split; auto.
    + (* UStore *)
      destruct (v_call s) as [| | |snap] eqn:C; try discriminate.
      inversion H; subst s'; clear H; simpl. destruct I as (N & P & Q). rewrite P. simpl.
      split; [exact N|]. split; [left; reflexivity|]. intros _. exact Q.
    + (* UDrain is not an instruction of loop_prog *)
      destruct (v_pc s) as [|[|[|k]]]; simpl in E; try discriminate. destruct k; discriminate.
Qed.

Lemma inv_exec : forall es s s', VInv s -> vexec loop_prog s es = Some s' -> VInv s'.
Proof.
  induction es as [|e es IH]; simpl; intros s s' I H.
  - inversion H; subst; auto.
  - destruct (vstep loop_prog s e) as [s1|] eqn:E; try discriminate.
    apply (IH s1 s'); [eapply inv_step; eauto | exact H].
Qed.

(* with the directory quiet and nothing in flight, the session's list IS the directory's content:
   a request for a registered service finds it (and a removed service is gone) — whatever the
   order in which changes, snapshots, deliveries and loop steps were interleaved before *)
Theorem view_quiescent : forall d0 es s,
  vexec loop_prog (vinit d0) es = Some s -> quiet s = true -> v_list s = v_dir s.
Proof.
  intros d0 es s H Q. pose proof (inv_exec es _ _ (inv_init d0) H) as I.
  unfold quiet in Q. unfold VInv in I.
  destruct (v_wire s) eqn:W; try discriminate.
  destruct (v_pending s) eqn:P; try discriminate.
  destruct (v_call s) eqn:C; try discriminate.
  destruct (v_pc s) eqn:Pc; try discriminate.
  destruct I as (_ & _ & I). destruct (I eq_refl) as [L|[O|O]]; auto.
  - rewrite P in O. contradiction.
  - rewrite W in O. contradiction.
Qed.

(* a burst: s1 becomes ready, the loop starts its refresh, the directory answers, s2 and s3 become
   ready behind the reply, everything is delivered before the loop stores its list *)
Definition d1 : dir := [(1, (0, 1))].
Definition d2 : dir := [(1, (0, 1)); (2, (0, 1))].
Definition d3 : dir := [(1, (0, 1)); (2, (0, 1)); (3, (1, 1))].
Definition wit_burst : list vev :=
  [VChange d1; VDeliver; VLoop; VLoop; VAnswer; VChange d2; VChange d3; VDeliver; VDeliver; VDeliver].

(* the burst, then the directory stays silent *)
Definition burst_end (p : list uinstr) : option vst :=
  match vexec p (vinit []) wit_burst with Some s => settle p 40 s | None => None end.

(* the extracted loop refreshes twice more and ends with the three services *)
Lemma wit_burst_settles :
  exists s, burst_end loop_prog = Some s /\ quiet s = true /\ v_list s = d3 /\ v_dir s = d3.
Proof. eexists. split; [vm_compute; reflexivity|]. vm_compute. repeat split; reflexivity. Qed.

(* the same burst when the loop discards the delivered signals after storing its list ("they
   piled up during the refresh, the list just fetched already reflects them"): quiet, and s2, s3
   — registered, ready — are not in the session's list *)
Lemma drain_after_store_loses :
  exists s, burst_end (loop_prog ++ [UDrain]) = Some s /\ quiet s = true /\ v_dir s = d3 /\ v_list s = d1.
Proof. eexists. split; [vm_compute; reflexivity|]. vm_compute. repeat split; reflexivity. Qed.
