(* SignalsInv2.v — conservation of the requests in flight: every call of SubscribeID that waits for
   its answer has exactly one representative on the way (the request not yet taken by the
   object, the answer being written, or the answer not yet dispatched), message ids are never
   reused, and nothing else of that kind is on the way. *)
From QV Require Import Signals SignalsLemmas SignalsStep SignalsInv1.
Local Open Scope N_scope.

Definition uact (f : uframe) : N := match f with UReg _ _ _ => A_register | UUnreg _ _ _ => A_unregister end.
Definition umid (f : uframe) : N := match f with UReg m _ _ | UUnreg m _ _ => m end.
Definition umatch (a m : N) (f : uframe) : bool := (uact f =? a) && (umid f =? m).
Definition is_rep (a m : N) (f : dframe) : bool :=
  match dreply f with Some (a', m') => (a' =? a) && (m' =? m) | None => false end.
Definition n_up (st : state) (c : nat) (a m : N) : nat := cnt (umatch a m) (up st c).
Definition n_pend (st : state) (c : nat) (a m : N) : nat :=
  match pend st with Some (c', f, _) => if Nat.eqb c' c && is_rep a m f then 1 else 0 | None => 0 end.
Definition n_down (st : state) (c : nat) (a m : N) : nat := cnt (is_rep a m) (down st c).
Definition n_wait (st : state) (c : nat) (a m : N) : nat := cnt (waits c a m) (subs st).

Definition Conserve (st : state) : Prop := forall c a m,
  (n_up st c a m + n_pend st c a m + n_down st c a m = n_wait st c a m)%nat /\
  (n_wait st c a m <= 1)%nat /\
  ((n_wait st c a m > 0)%nat -> m <= c_mid (cl st c)).

Lemma Conserve_init : Conserve init.
Proof. intros c a m. cbv. repeat split; lia. Qed.

Lemma waits_false c a m x :
  match s_pc x with PWaitReg _ | PWaitUnreg _ => False | _ => True end -> waits c a m x = false.
Proof. unfold waits. destruct (s_pc x); try contradiction; intros _; apply andb_false_r. Qed.
Lemma waits_same c a m x x' : s_conn x' = s_conn x -> s_pc x' = s_pc x -> waits c a m x' = waits c a m x.
Proof. unfold waits. now intros -> ->. Qed.
Lemma waits_inv c a m x : waits c a m x = true ->
  s_conn x = c /\ ((a = A_register /\ s_pc x = PWaitReg m) \/ (a = A_unregister /\ s_pc x = PWaitUnreg m)).
Proof.
  unfold waits. intro H. apply andb_prop in H as [H1 H2]. apply Nat.eqb_eq in H1. split; [exact H1|].
  destruct (s_pc x); try discriminate; apply andb_prop in H2 as [Ha Hm]; apply N.eqb_eq in Ha, Hm; subst; auto.
Qed.

Lemma waits_reg c a m x mm : s_pc x = PWaitReg mm ->
  waits c a m x = Nat.eqb (s_conn x) c && ((a =? 0) && (mm =? m)).
Proof. unfold waits. now intros ->. Qed.
Lemma waits_unreg c a m x mm : s_pc x = PWaitUnreg mm ->
  waits c a m x = Nat.eqb (s_conn x) c && ((a =? 1) && (mm =? m)).
Proof. unfold waits. now intros ->. Qed.

(* effect of replacing one subscriber on the count of waiting calls *)
Lemma n_wait_set st s x x' c a m :
  nth_error (subs st) s = Some x ->
  (cnt (waits c a m) (set_nth (subs st) s x') + (if waits c a m x then 1 else 0) =
   n_wait st c a m + (if waits c a m x' then 1 else 0))%nat.
Proof. intro H. unfold n_wait. now apply cnt_set_nth. Qed.

Ltac nowait := apply waits_false; cbn; try match goal with H : s_pc _ = _ |- _ => rewrite H end; exact I.

Lemma Conserve_frame st st' :
  (forall c a m, n_up st' c a m = n_up st c a m) ->
  (forall c a m, n_pend st' c a m = n_pend st c a m) ->
  (forall c a m, n_down st' c a m = n_down st c a m) ->
  (forall c a m, n_wait st' c a m = n_wait st c a m) ->
  (forall c, c_mid (cl st c) <= c_mid (cl st' c)) ->
  Conserve st -> Conserve st'.
Proof.
  intros H1 H2 H3 H4 H5 H c a m. destruct (H c a m) as (E & L & B).
  rewrite H1, H2, H3, H4. repeat split; [exact E|exact L|]. intro Hw. specialize (B Hw). specialize (H5 c). lia.
Qed.

Lemma c_mid_fupd (f : nat -> cstate) c0 k c : c_mid (f c0) <= c_mid k -> c_mid (f c) <= c_mid (fupd f c0 k c).
Proof. intro H. unfold fupd. destruct (Nat.eqb c c0) eqn:E; [apply Nat.eqb_eq in E; subst; exact H|lia]. Qed.

(* replacing a subscriber that is not waiting by one that is not waiting *)
Lemma n_wait_set_nowait st s x x' c a m :
  nth_error (subs st) s = Some x ->
  match s_pc x with PWaitReg _ | PWaitUnreg _ => False | _ => True end ->
  match s_pc x' with PWaitReg _ | PWaitUnreg _ => False | _ => True end ->
  cnt (waits c a m) (set_nth (subs st) s x') = n_wait st c a m.
Proof.
  intros H Hx Hx'. pose proof (n_wait_set st s x x' c a m H) as Hc.
  rewrite (waits_false _ _ _ x Hx), (waits_false _ _ _ x' Hx') in Hc. lia.
Qed.

Lemma is_rep_event a m sig mm p : is_rep a m (DEvent sig mm p) = false.
Proof. reflexivity. Qed.

Lemma is_rep_of a0 m0 r a m : dreply r = Some (a, m) -> is_rep a0 m0 r = (a =? a0) && (m =? m0).
Proof. unfold is_rep. now intros ->. Qed.

(* the object takes the head request of connection c and prepares its answer *)
Lemma Conserve_mbox st c f rest t r note :
  up st c = f :: rest -> pend st = None -> dreply r = Some (uact f, umid f) ->
  Conserve st -> Conserve (st_mbox st c rest t (Some (c, r, note))).
Proof.
  intros Hu Hp Hr H c0 a0 m0. destruct (H c0 a0 m0) as (E & L & B).
  unfold n_up, n_pend, n_down, n_wait in *. psimpl. rewrite Hp in E.
  destruct (Nat.eq_dec c0 c) as [->|Ne].
  - rewrite fupd_eq, Nat.eqb_refl. cbn [andb]. rewrite Hu, cnt_cons in E.
    rewrite (is_rep_of _ _ _ _ _ Hr). unfold umatch in E at 1.
    destruct ((uact f =? a0) && (umid f =? m0)); repeat split; try lia; exact B.
  - rewrite fupd_neq by exact Ne. rewrite (proj2 (Nat.eqb_neq c c0)) by congruence. cbn [andb].
    repeat split; try lia; exact B.
Qed.

Lemma Conserve_step g st l st' :
  uid_global g = false -> UidInv st -> Conserve st -> Step g st l st' -> Conserve st'.
Proof.
  intros Hg HU H HS.
  inversion HS; subst; clear HS.
  - (* install *)
    apply (Conserve_frame st); try (intros; reflexivity); [|exact H].
    intros. unfold n_wait. psimpl. rewrite cnt_app, cnt_cons, cnt_nil.
    rewrite (waits_false _ _ _ (new_sub st c sig)) by exact I. lia.
  - (* count first *)
    apply (Conserve_frame st); try (intros; reflexivity); [| |exact H].
    + intros. unfold n_wait at 1. psimpl. eapply n_wait_set_nowait; [eassumption|rewrite H1; exact I|exact I].
    + intro. psimpl. apply c_mid_fupd. cbn. lia.
  - (* count more *)
    apply (Conserve_frame st); try (intros; reflexivity); [| |exact H].
    + intros. unfold n_wait at 1. psimpl. eapply n_wait_set_nowait; [eassumption|rewrite H1; exact I|exact I].
    + intro. psimpl. apply c_mid_fupd. cbn. lia.
  - (* send reg *)
    intros c0 a0 m0. destruct (H c0 a0 m0) as (E & L & B). unfold n_up, n_pend, n_down, n_wait in *. psimpl.
    pose proof (n_wait_set st s x (with_pc x (PWaitReg (c_mid (cl st (s_conn x)) + 2))) c0 a0 m0 H0) as Hc. unfold n_wait in Hc.
    rewrite (waits_false _ _ _ x) in Hc by (rewrite H1; exact I).
    rewrite (waits_reg _ _ _ (with_pc x (PWaitReg (c_mid (cl st (s_conn x)) + 2))) _ eq_refl) in Hc. cbn [with_pc s_conn] in Hc.
    destruct (Nat.eq_dec c0 (s_conn x)) as [->|Ne].
    + rewrite !fupd_eq. cbn [c_mid]. rewrite cnt_app, cnt_cons, cnt_nil.
      rewrite Nat.eqb_refl in Hc. cbn [andb] in Hc.
      unfold umatch at 2. cbn [uact umid]. unfold A_register in *.
      destruct ((0 =? a0) && (c_mid (cl st (s_conn x)) + 2 =? m0)) eqn:Em.
      * apply andb_prop in Em as [Ea Em]. apply N.eqb_eq in Ea, Em. subst a0 m0.
        rewrite !N.eqb_refl in Hc. cbn [andb] in Hc.
        assert (Z : cnt (waits (s_conn x) 0 (c_mid (cl st (s_conn x)) + 2)) (subs st) = O).
        { destruct (cnt (waits (s_conn x) 0 (c_mid (cl st (s_conn x)) + 2)) (subs st)) eqn:Ez; [reflexivity|].
          assert (c_mid (cl st (s_conn x)) + 2 <= c_mid (cl st (s_conn x))) by (apply B; lia). lia. }
        rewrite Z in *. repeat split; try lia.
      * assert (Hw : ((a0 =? 0) && (c_mid (cl st (s_conn x)) + 2 =? m0)) = false).
        { rewrite (N.eqb_sym a0 0). exact Em. }
        rewrite Hw in Hc. repeat split; try lia; intro Hp; assert (m0 <= c_mid (cl st (s_conn x))) by (apply B; lia); lia.
    + rewrite !fupd_neq by exact Ne.
      rewrite (proj2 (Nat.eqb_neq (s_conn x) c0)) in Hc by congruence. cbn [andb] in Hc.
      repeat split; try lia; intro Hp; apply B; lia.
  - (* mbox reg *) eapply Conserve_mbox; try eassumption. reflexivity.
  - (* mbox deadlock: unreachable *) exfalso. eapply clean_no_dup; eassumption.
  - exfalso. eapply clean_no_dup; eassumption.
  - eapply Conserve_mbox; try eassumption. reflexivity.
  - eapply Conserve_mbox; try eassumption. reflexivity.
  - (* reply *)
    intros c0 a0 m0. destruct (H c0 a0 m0) as (E & L & B). unfold n_up, n_pend, n_down, n_wait in *. psimpl.
    rewrite H1 in E. destruct (Nat.eq_dec c0 c) as [->|Ne].
    + rewrite fupd_eq, cnt_app, cnt_cons, cnt_nil. rewrite Nat.eqb_refl in E. cbn [andb] in E.
      destruct (is_rep a0 m0 f); repeat split; try lia; exact B.
    + rewrite fupd_neq by exact Ne. rewrite (proj2 (Nat.eqb_neq c c0)) in E by congruence. cbn [andb] in E.
      repeat split; try lia; exact B.
  - (* emit snap *)
    apply (Conserve_frame st); try (intros; reflexivity); [|exact H].
    intros. unfold n_wait. psimpl. apply cnt_map. intro y. apply waits_same; unfold note_emit;
      destruct ((s_sig y =? sig) && live (s_pc y)); reflexivity.
  - (* emit send *)
    apply (Conserve_frame st); try (intros; reflexivity); [|exact H].
    intros. unfold n_down. psimpl. destruct (Nat.eq_dec c (u_conn u)) as [->|Ne].
    + rewrite fupd_eq, cnt_app, cnt_cons, cnt_nil, is_rep_event. lia.
    + now rewrite fupd_neq by exact Ne.
  - (* recv event *)
    apply (Conserve_frame st); try (intros; reflexivity); [| |exact H].
    + intros. unfold n_down. psimpl. destruct (Nat.eq_dec c0 c) as [->|Ne].
      * rewrite fupd_eq, H0, cnt_cons, is_rep_event. lia.
      * now rewrite fupd_neq by exact Ne.
    + intros. unfold n_wait. psimpl. apply cnt_map. intro y. apply waits_same; unfold enqueue;
        destruct (Nat.eqb (s_conn y) c && (s_sig y =? sig) && live (s_pc y)); try reflexivity;
        destruct (Nat.ltb (List.length (s_queue y)) QueueCap); reflexivity.
  - (* an answer nobody waits for: impossible *)
    exfalso. destruct (H c act m) as (E & L & B). unfold n_up, n_pend, n_down, n_wait in *.
    rewrite (find_idx_none_cnt _ _ H2) in E. rewrite H0, cnt_cons in E. rewrite (is_rep_of _ _ _ _ _ H1), !N.eqb_refl in E.
    cbn [andb] in E. lia.
  - (* answer dispatched *)
    intros c0 a0 m0. destruct (H c0 a0 m0) as (E & L & B). unfold n_up, n_pend, n_down, n_wait in *. psimpl.
    pose proof (n_wait_set st s x (answer_sub x f) c0 a0 m0 H3) as Hc. unfold n_wait in Hc.
    assert (Hx' : waits c0 a0 m0 (answer_sub x f) = false).
    { apply waits_false. unfold answer_sub. destruct (s_pc x), f; exact I. }
    rewrite Hx' in Hc.
    assert (Hm : c_mid (fupd (cl st) c (with_lock (cl st c) (s_sig x) false) c0) = c_mid (cl st c0)).
    { unfold fupd. destruct (Nat.eqb c0 c) eqn:Ec; [apply Nat.eqb_eq in Ec; subst|]; reflexivity. }
    rewrite Hm. destruct (waits_inv _ _ _ _ H4) as [Hcx Hpc].
    destruct (Nat.eq_dec c0 c) as [->|Ne].
    + rewrite fupd_eq. rewrite H0, cnt_cons in E. rewrite (is_rep_of _ _ _ _ _ H1) in E.
      destruct ((act =? a0) && (m =? m0)) eqn:Em.
      * apply andb_prop in Em as [Ea Em]. apply N.eqb_eq in Ea, Em. subst a0 m0. rewrite H4 in Hc.
        repeat split; try lia; intro Hp; apply B; lia.
      * assert (Hw : waits c a0 m0 x = false).
        { destruct (waits c a0 m0 x) eqn:Hw; [|reflexivity]. destruct (waits_inv _ _ _ _ Hw) as [_ Hpc'].
          destruct Hpc as [[-> Hp]|[-> Hp]], Hpc' as [[-> Hp']|[-> Hp']]; rewrite Hp in Hp'; try discriminate;
            injection Hp' as ->; rewrite !N.eqb_refl in Em; discriminate. }
        rewrite Hw in Hc. repeat split; try lia; intro Hp; apply B; lia.
    + rewrite fupd_neq by exact Ne.
      assert (Hw : waits c0 a0 m0 x = false).
      { unfold waits. rewrite Hcx. rewrite (proj2 (Nat.eqb_neq c c0)) by congruence. reflexivity. }
      rewrite Hw in Hc. repeat split; try lia; intro Hp; apply B; lia.
  - (* cancel last *)
    apply (Conserve_frame st); try (intros; reflexivity); [| |exact H].
    + intros. unfold n_wait at 1. psimpl. eapply n_wait_set_nowait; [eassumption|rewrite H1; exact I|exact I].
    + intro. psimpl. apply c_mid_fupd. cbn. lia.
  - apply (Conserve_frame st); try (intros; reflexivity); [| |exact H].
    + intros. unfold n_wait at 1. psimpl. eapply n_wait_set_nowait; [eassumption|rewrite H1; exact I|exact I].
    + intro. psimpl. apply c_mid_fupd. cbn. lia.
  - (* send unreg *)
    intros c0 a0 m0. destruct (H c0 a0 m0) as (E & L & B). unfold n_up, n_pend, n_down, n_wait in *. psimpl.
    pose proof (n_wait_set st s x (with_pc x (PWaitUnreg (c_mid (cl st (s_conn x)) + 2))) c0 a0 m0 H0) as Hc. unfold n_wait in Hc.
    rewrite (waits_false _ _ _ x) in Hc by (rewrite H1; exact I).
    rewrite (waits_unreg _ _ _ (with_pc x (PWaitUnreg (c_mid (cl st (s_conn x)) + 2))) _ eq_refl) in Hc. cbn [with_pc s_conn] in Hc.
    destruct (Nat.eq_dec c0 (s_conn x)) as [->|Ne].
    + rewrite !fupd_eq. cbn [c_mid]. rewrite cnt_app, cnt_cons, cnt_nil.
      rewrite Nat.eqb_refl in Hc. cbn [andb] in Hc.
      unfold umatch at 2. cbn [uact umid]. unfold A_unregister in *.
      destruct ((1 =? a0) && (c_mid (cl st (s_conn x)) + 2 =? m0)) eqn:Em.
      * apply andb_prop in Em as [Ea Em]. apply N.eqb_eq in Ea, Em. subst a0 m0.
        rewrite !N.eqb_refl in Hc. cbn [andb] in Hc.
        assert (Z : cnt (waits (s_conn x) 1 (c_mid (cl st (s_conn x)) + 2)) (subs st) = O).
        { destruct (cnt (waits (s_conn x) 1 (c_mid (cl st (s_conn x)) + 2)) (subs st)) eqn:Ez; [reflexivity|].
          assert (c_mid (cl st (s_conn x)) + 2 <= c_mid (cl st (s_conn x))) by (apply B; lia). lia. }
        rewrite Z in *. repeat split; try lia.
      * assert (Hw : ((a0 =? 1) && (c_mid (cl st (s_conn x)) + 2 =? m0)) = false).
        { rewrite (N.eqb_sym a0 1). exact Em. }
        rewrite Hw in Hc. repeat split; try lia; intro Hp; assert (m0 <= c_mid (cl st (s_conn x))) by (apply B; lia); lia.
    + rewrite !fupd_neq by exact Ne.
      rewrite (proj2 (Nat.eqb_neq (s_conn x) c0)) in Hc by congruence. cbn [andb] in Hc.
      repeat split; try lia; intro Hp; apply B; lia.
  - (* deliver *)
    apply (Conserve_frame st); try (intros; reflexivity); [|exact H].
    intros. unfold n_wait at 1. psimpl.
    pose proof (n_wait_set st s x (sub_deliver x p q) c a m H0) as Hc.
    rewrite (waits_same c a m (sub_deliver x p q) x) in Hc by reflexivity. unfold n_wait in *. lia.
  - (* fan close *)
    apply (Conserve_frame st); try (intros; reflexivity); [|exact H].
    intros. unfold n_wait at 1. psimpl. eapply n_wait_set_nowait; [eassumption|rewrite H1; exact I|exact I].
Qed.
