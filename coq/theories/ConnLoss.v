(* ConnLoss.v — C11: losing the connection fails calls promptly.
   Labelled transition system of ONE client endpoint (bus/net/endpoint.go) under a client
   (bus/client.go) with n calls, m subscriptions and d OnDisconnect callbacks.
   One label = one atomic action of one goroutine (code between two synchronisation points).
   Self-contained on purpose (C17's Endpoint.v is written elsewhere); no proofs in this file.

   Source map
     LCallMake      client.Call: cancel pre-check, nextMessageID, endpoint.MakeHandler      client.go:47-77
     LCallSend/Fail client.Call: endpoint.Send -> Message.Write -> stream.Write             client.go:80
     LCallRemove    client.Call: RemoveHandler(id) after a failed Send, return error        client.go:81-84
     LCallSel       client.Call: one ready branch of the select                             client.go:97-112
     LCallCancelSend client.Call: Send of the Cancel message, return ErrCancelled           client.go:105-111
     LSubscribe     client.Subscribe: MakeHandler(filter, queue(100), nil) + go loop        client.go:140-180
     LSubTake/LSubClosed/LSubRead  the goroutine of Subscribe and the reader of `events`    client.go:162-178
     LOnDisc        client.OnDisconnect: MakeHandler(never-matching filter, unbuffered, cb) client.go:184-192
     LPeerMsg       endPoint.process: msg.Read returned a complete message                  endpoint.go:360-361
     LReadFail      endPoint.process: msg.Read returned an error (EOF, mid-frame, garbage)  endpoint.go:362
     LDispatch      endPoint.dispatch (whole body under handlersMutex)                      endpoint.go:313-352
                    including the Error message ("consumer blocked") it writes itself, through
                    e.Send, for a message of type Call that found the queue of its handler full:
                    the result of that Send is discarded and Send does nothing but the Write, so
                    the label is the same whether that Write succeeds or fails — it is enabled
                    after LConnDie as before it, and a loss that shows up first in that Write is
                    LPeerMsg m; LConnDie; LDispatch; LReadFail.  (A Call is [TOther] for the
                    filters of a client: Subscribe's filter matches whatever the type.)
     LProcClose1/2  endPoint.closeWith(err) from process: stream.Close ; lock, go closeWith endpoint.go:232-246
     LUserClose1/2  endPoint.Close() = closeWith(nil) from a user goroutine                 endpoint.go:249
     LCloserStep    one `go handler.closeWith(err)`: closer(err) ; close(consumer)          endpoint.go:91-96
     LConnDie       the connection is lost (peer close / network failure): from now on every
                    Read fails; a Write may still be accepted by the transport until the
                    stream is closed locally, after which every Write fails.
     LCancel        the caller closes the cancel channel of call c. *)
From Coq Require Import List Arith Bool.
Import ListNotations.

Inductive owner := OCall (c : nat) | OSub (i : nat) | OCb (j : nat).
Inductive mtype := TReply | TError | TEvent | TCancelled | TOther.
(* a message as the filters see it: [MFor o t] carries the key (service, object, action[, id])
   that owner o's filter tests for, with type t; [MNone] is matched by no filter.
   Keys of distinct owners are assumed distinct (the harness chooses them so). *)
Inductive msg := MFor (o : owner) (t : mtype) | MNone.

Definition owner_eqb (a b : owner) : bool :=
  match a, b with
  | OCall x, OCall y | OSub x, OSub y | OCb x, OCb y => Nat.eqb x y
  | _, _ => false
  end.
Definition mtype_eqb (a b : mtype) : bool :=
  match a, b with
  | TReply, TReply | TError, TError | TEvent, TEvent | TCancelled, TCancelled | TOther, TOther => true
  | _, _ => false
  end.

(* program counters *)
Inductive cpc := CIdle | CMade (slot : nat) | CWait | CFailed (slot : nat) | CCancel | CDone (ok : bool).
Inductive spc := SNone | SLoop | SSend | SDone.
Inductive ppc := PRead | PHave (m : msg) | PFail | PClosing | PDone.
Inductive upc := UIdle | UMid | UFin.

Record chan := { q : list mtype; qclosed : bool }.
Definition chan0 := {| q := []; qclosed := false |}.

(* defect switches of the pinned code: none found for C11; the record exists so that the
   harness writes the configuration it observed (all false) next to the cases. *)
Record cfg := { cfg_unused : bool }.
Definition cfg0 := {| cfg_unused := false |}.

Record state := {
  nn : nat; mm : nat; dd : nat;           (* scenario: calls c < nn, subs i < mm, callbacks j < dd *)
  dead : bool;                            (* connection lost *)
  closed : bool;                          (* stream.Close() has been called *)
  table : list (option owner);            (* endPoint.handlers *)
  proc : ppc;                             (* the process goroutine *)
  usr : upc;                              (* a user goroutine calling endpoint.Close() *)
  closers : list (owner * bool * nat);    (* go handler.closeWith(err): owner, err<>nil, phase 0/1/2 *)
  ch : owner -> chan;                     (* the consumer channel of each handler *)
  errs : nat -> bool;                     (* call c: `errors` (cap 1) holds a value *)
  cp : nat -> cpc;
  cancelled : nat -> bool;
  sp : nat -> spc;
  delivered : nat -> nat;                 (* sub i: payloads handed to the reader of events *)
  evclosed : nat -> bool;                 (* sub i: close(events) done *)
  cbreg : nat -> bool;
  cbcount : nat -> nat;                   (* callback j: number of invocations *)
  panicked : bool                         (* close of closed channel / send on closed channel *)
}.

Definition init (n m d : nat) : state :=
  {| nn := n; mm := m; dd := d; dead := false; closed := false; table := repeat None 10;
     proc := PRead; usr := UIdle; closers := []; ch := fun _ => chan0; errs := fun _ => false;
     cp := fun _ => CIdle; cancelled := fun _ => false; sp := fun _ => SNone;
     delivered := fun _ => 0; evclosed := fun _ => false; cbreg := fun _ => false;
     cbcount := fun _ => 0; panicked := false |}.

Definition upd {A} (f : nat -> A) (k : nat) (v : A) : nat -> A :=
  fun x => if Nat.eqb x k then v else f x.
Definition updo {A} (f : owner -> A) (k : owner) (v : A) : owner -> A :=
  fun x => if owner_eqb x k then v else f x.

(* field setters (generated once, kept by hand) *)
Definition set_dead (s : state) (v : bool) : state :=
  {| nn := nn s; mm := mm s; dd := dd s; dead := v; closed := closed s; table := table s; proc := proc s; usr := usr s; closers := closers s; ch := ch s; errs := errs s; cp := cp s; cancelled := cancelled s; sp := sp s; delivered := delivered s; evclosed := evclosed s; cbreg := cbreg s; cbcount := cbcount s; panicked := panicked s |}.
Definition set_closed (s : state) (v : bool) : state :=
  {| nn := nn s; mm := mm s; dd := dd s; dead := dead s; closed := v; table := table s; proc := proc s; usr := usr s; closers := closers s; ch := ch s; errs := errs s; cp := cp s; cancelled := cancelled s; sp := sp s; delivered := delivered s; evclosed := evclosed s; cbreg := cbreg s; cbcount := cbcount s; panicked := panicked s |}.
Definition set_table (s : state) (v : list (option owner)) : state :=
  {| nn := nn s; mm := mm s; dd := dd s; dead := dead s; closed := closed s; table := v; proc := proc s; usr := usr s; closers := closers s; ch := ch s; errs := errs s; cp := cp s; cancelled := cancelled s; sp := sp s; delivered := delivered s; evclosed := evclosed s; cbreg := cbreg s; cbcount := cbcount s; panicked := panicked s |}.
Definition set_proc (s : state) (v : ppc) : state :=
  {| nn := nn s; mm := mm s; dd := dd s; dead := dead s; closed := closed s; table := table s; proc := v; usr := usr s; closers := closers s; ch := ch s; errs := errs s; cp := cp s; cancelled := cancelled s; sp := sp s; delivered := delivered s; evclosed := evclosed s; cbreg := cbreg s; cbcount := cbcount s; panicked := panicked s |}.
Definition set_usr (s : state) (v : upc) : state :=
  {| nn := nn s; mm := mm s; dd := dd s; dead := dead s; closed := closed s; table := table s; proc := proc s; usr := v; closers := closers s; ch := ch s; errs := errs s; cp := cp s; cancelled := cancelled s; sp := sp s; delivered := delivered s; evclosed := evclosed s; cbreg := cbreg s; cbcount := cbcount s; panicked := panicked s |}.
Definition set_closers (s : state) (v : list (owner * bool * nat)) : state :=
  {| nn := nn s; mm := mm s; dd := dd s; dead := dead s; closed := closed s; table := table s; proc := proc s; usr := usr s; closers := v; ch := ch s; errs := errs s; cp := cp s; cancelled := cancelled s; sp := sp s; delivered := delivered s; evclosed := evclosed s; cbreg := cbreg s; cbcount := cbcount s; panicked := panicked s |}.
Definition set_ch (s : state) (v : owner -> chan) : state :=
  {| nn := nn s; mm := mm s; dd := dd s; dead := dead s; closed := closed s; table := table s; proc := proc s; usr := usr s; closers := closers s; ch := v; errs := errs s; cp := cp s; cancelled := cancelled s; sp := sp s; delivered := delivered s; evclosed := evclosed s; cbreg := cbreg s; cbcount := cbcount s; panicked := panicked s |}.
Definition set_errs (s : state) (v : nat -> bool) : state :=
  {| nn := nn s; mm := mm s; dd := dd s; dead := dead s; closed := closed s; table := table s; proc := proc s; usr := usr s; closers := closers s; ch := ch s; errs := v; cp := cp s; cancelled := cancelled s; sp := sp s; delivered := delivered s; evclosed := evclosed s; cbreg := cbreg s; cbcount := cbcount s; panicked := panicked s |}.
Definition set_cp (s : state) (v : nat -> cpc) : state :=
  {| nn := nn s; mm := mm s; dd := dd s; dead := dead s; closed := closed s; table := table s; proc := proc s; usr := usr s; closers := closers s; ch := ch s; errs := errs s; cp := v; cancelled := cancelled s; sp := sp s; delivered := delivered s; evclosed := evclosed s; cbreg := cbreg s; cbcount := cbcount s; panicked := panicked s |}.
Definition set_cancelled (s : state) (v : nat -> bool) : state :=
  {| nn := nn s; mm := mm s; dd := dd s; dead := dead s; closed := closed s; table := table s; proc := proc s; usr := usr s; closers := closers s; ch := ch s; errs := errs s; cp := cp s; cancelled := v; sp := sp s; delivered := delivered s; evclosed := evclosed s; cbreg := cbreg s; cbcount := cbcount s; panicked := panicked s |}.
Definition set_sp (s : state) (v : nat -> spc) : state :=
  {| nn := nn s; mm := mm s; dd := dd s; dead := dead s; closed := closed s; table := table s; proc := proc s; usr := usr s; closers := closers s; ch := ch s; errs := errs s; cp := cp s; cancelled := cancelled s; sp := v; delivered := delivered s; evclosed := evclosed s; cbreg := cbreg s; cbcount := cbcount s; panicked := panicked s |}.
Definition set_delivered (s : state) (v : nat -> nat) : state :=
  {| nn := nn s; mm := mm s; dd := dd s; dead := dead s; closed := closed s; table := table s; proc := proc s; usr := usr s; closers := closers s; ch := ch s; errs := errs s; cp := cp s; cancelled := cancelled s; sp := sp s; delivered := v; evclosed := evclosed s; cbreg := cbreg s; cbcount := cbcount s; panicked := panicked s |}.
Definition set_evclosed (s : state) (v : nat -> bool) : state :=
  {| nn := nn s; mm := mm s; dd := dd s; dead := dead s; closed := closed s; table := table s; proc := proc s; usr := usr s; closers := closers s; ch := ch s; errs := errs s; cp := cp s; cancelled := cancelled s; sp := sp s; delivered := delivered s; evclosed := v; cbreg := cbreg s; cbcount := cbcount s; panicked := panicked s |}.
Definition set_cbreg (s : state) (v : nat -> bool) : state :=
  {| nn := nn s; mm := mm s; dd := dd s; dead := dead s; closed := closed s; table := table s; proc := proc s; usr := usr s; closers := closers s; ch := ch s; errs := errs s; cp := cp s; cancelled := cancelled s; sp := sp s; delivered := delivered s; evclosed := evclosed s; cbreg := v; cbcount := cbcount s; panicked := panicked s |}.
Definition set_cbcount (s : state) (v : nat -> nat) : state :=
  {| nn := nn s; mm := mm s; dd := dd s; dead := dead s; closed := closed s; table := table s; proc := proc s; usr := usr s; closers := closers s; ch := ch s; errs := errs s; cp := cp s; cancelled := cancelled s; sp := sp s; delivered := delivered s; evclosed := evclosed s; cbreg := cbreg s; cbcount := v; panicked := panicked s |}.
Definition set_panicked (s : state) (v : bool) : state :=
  {| nn := nn s; mm := mm s; dd := dd s; dead := dead s; closed := closed s; table := table s; proc := proc s; usr := usr s; closers := closers s; ch := ch s; errs := errs s; cp := cp s; cancelled := cancelled s; sp := sp s; delivered := delivered s; evclosed := evclosed s; cbreg := cbreg s; cbcount := cbcount s; panicked := v |}.

(* ---------- endpoint operations ---------- *)

(* MakeHandler: first free slot, else append; returns the slot.  The table has no bound: the
   handler is registered whatever the number of live handlers ([alloc_slot], C11_always_registered) *)
Fixpoint alloc (tb : list (option owner)) (o : owner) : list (option owner) * nat :=
  match tb with
  | [] => ([Some o], 0)
  | None :: r => (Some o :: r, 0)
  | Some x :: r => let '(r', k) := alloc r o in (Some x :: r', S k)
  end.

Fixpoint setnth {A} (k : nat) (v : A) (l : list A) : list A :=
  match l, k with
  | [], _ => []
  | _ :: r, 0 => v :: r
  | x :: r, S k' => x :: setnth k' v r
  end.

(* closer(err) of owner o.  Call: `if err != nil { errors <- err }` (blocks when the
   one-place buffer is full: None); Subscribe registers a nil closer; OnDisconnect's closer
   is the user's callback, invoked whatever err is. *)
Definition run_closer (s : state) (o : owner) (e : bool) : option state :=
  match o with
  | OCall c => if e then (if errs s c then None else Some (set_errs s (upd (errs s) c true))) else Some s
  | OSub _ => Some s
  | OCb j => Some (set_cbcount s (upd (cbcount s) j (S (cbcount s j))))
  end.

(* close(consumer); closing a closed channel panics *)
Definition close_chan (s : state) (o : owner) : state :=
  if qclosed (ch s o) then set_panicked s true
  else set_ch s (updo (ch s) o {| q := q (ch s o); qclosed := true |}).

(* Handler.closeWith(nil) called synchronously (dispatch, RemoveHandler) *)
Definition close_sync (s : state) (o : owner) : state :=
  match run_closer s o false with Some s1 => close_chan s1 o | None => s end.

Definition matches (o : owner) (m : msg) : bool :=
  match m, o with
  | MNone, _ => false
  | MFor _ _, OCb _ => false
  | MFor o' _, _ => owner_eqb o o'
  end.
Definition keeps (o : owner) (m : msg) : bool :=
  if matches o m then
    match o, m with
    | OCall _, _ => false
    | OSub _, MFor _ TError => false
    | _, _ => true
    end
  else true.
Definition capacity (o : owner) : nat := match o with OCall _ => 1 | OSub _ => 100 | OCb _ => 0 end.

(* `select { case h.consumer <- msg: default: }`; sending on a closed channel panics *)
Definition enqueue (s : state) (o : owner) (t : mtype) : state :=
  if qclosed (ch s o) then set_panicked s true
  else if length (q (ch s o)) <? capacity o
       then set_ch s (updo (ch s) o {| q := q (ch s o) ++ [t]; qclosed := false |})
       else s.

(* the loop of endPoint.dispatch over the handler table *)
Fixpoint disp (m : msg) (tb : list (option owner)) (s : state) : list (option owner) * state :=
  match tb with
  | [] => ([], s)
  | None :: r => let '(r', s') := disp m r s in (None :: r', s')
  | Some o :: r =>
      let s1 := if matches o m then match m with MFor _ t => enqueue s o t | MNone => s end else s in
      if keeps o m then let '(r', s') := disp m r s1 in (Some o :: r', s')
      else let '(r', s') := disp m r (close_sync s1 o) in (None :: r', s')
  end.

(* closeWith, second half: under the mutex, `go handler.closeWith(err)` for every handler *)
Definition spawned (tb : list (option owner)) (e : bool) : list (owner * bool * nat) :=
  flat_map (fun x => match x with Some o => [(o, e, 0)] | None => [] end) tb.
Definition spawn_all (s : state) (e : bool) : state :=
  set_table (set_closers s (closers s ++ spawned (table s) e)) (map (fun _ => None) (table s)).

(* RemoveHandler(k): the error for an empty slot is ignored by both callers *)
Definition remove_handler (s : state) (k : nat) : state :=
  match nth_error (table s) k with
  | Some (Some o) => set_table (close_sync s o) (setnth k None (table s))
  | _ => s
  end.

(* ---------- labels and step ---------- *)
Inductive branch := BErr | BReply | BCancel.
Inductive label :=
| LConnDie | LCancel (c : nat)
| LCallMake (c : nat) | LCallSend (c : nat) | LCallSendFail (c : nat) | LCallRemove (c : nat)
| LCallSel (c : nat) (b : branch) | LCallCancelSend (c : nat)
| LSubscribe (i : nat) | LSubTake (i : nat) | LSubClosed (i : nat) | LSubRead (i : nat)
| LOnDisc (j : nat)
| LPeerMsg (m : msg) | LReadFail | LDispatch | LProcClose1 | LProcClose2
| LUserClose1 | LUserClose2
| LCloserStep (k : nat).

Definition lost (s : state) : bool := dead s || closed s.

Definition step_call (s : state) (l : label) : option state :=
  match l with
  | LCancel c =>
      if (c <? nn s) && negb (cancelled s c) then Some (set_cancelled s (upd (cancelled s) c true)) else None
  | LCallMake c =>
      if c <? nn s then
        match cp s c with
        | CIdle =>
            if cancelled s c then Some (set_cp s (upd (cp s) c (CDone false)))
            else let '(tb, k) := alloc (table s) (OCall c) in
                 Some (set_cp (set_table s tb) (upd (cp s) c (CMade k)))
        | _ => None
        end
      else None
  | LCallSend c =>
      match cp s c with
      | CMade _ => if closed s then None else Some (set_cp s (upd (cp s) c CWait))
      | _ => None
      end
  | LCallSendFail c =>
      match cp s c with
      | CMade k => if lost s then Some (set_cp s (upd (cp s) c (CFailed k))) else None
      | _ => None
      end
  | LCallRemove c =>
      match cp s c with
      | CFailed k => let s1 := remove_handler s k in Some (set_cp s1 (upd (cp s1) c (CDone false)))
      | _ => None
      end
  | LCallSel c b =>
      match cp s c with
      | CWait =>
          match b with
          | BErr => if errs s c
                    then Some (set_cp (set_errs s (upd (errs s) c false)) (upd (cp s) c (CDone false)))
                    else None
          | BReply =>
              match q (ch s (OCall c)) with
              | t :: r => Some (set_cp (set_ch s (updo (ch s) (OCall c) {| q := r; qclosed := qclosed (ch s (OCall c)) |}))
                                       (upd (cp s) c (CDone (mtype_eqb t TReply))))
              | [] => if qclosed (ch s (OCall c)) then Some (set_cp s (upd (cp s) c (CDone false))) else None
              end
          | BCancel => if cancelled s c then Some (set_cp s (upd (cp s) c CCancel)) else None
          end
      | _ => None
      end
  | LCallCancelSend c =>
      match cp s c with
      | CCancel => Some (set_cp s (upd (cp s) c (CDone false)))
      | _ => None
      end
  | _ => None
  end.

Definition step_sub (s : state) (l : label) : option state :=
  match l with
  | LSubscribe i =>
      if i <? mm s then
        match sp s i with
        | SNone => let '(tb, _) := alloc (table s) (OSub i) in Some (set_sp (set_table s tb) (upd (sp s) i SLoop))
        | _ => None
        end
      else None
  | LSubTake i =>
      match sp s i, q (ch s (OSub i)) with
      | SLoop, t :: r =>
          Some (set_sp (set_ch s (updo (ch s) (OSub i) {| q := r; qclosed := qclosed (ch s (OSub i)) |}))
                       (upd (sp s) i (if mtype_eqb t TEvent then SSend else SLoop)))
      | _, _ => None
      end
  | LSubClosed i =>
      match sp s i, q (ch s (OSub i)) with
      | SLoop, [] =>
          if qclosed (ch s (OSub i)) then
            if evclosed s i then Some (set_panicked s true)
            else Some (set_sp (set_evclosed s (upd (evclosed s) i true)) (upd (sp s) i SDone))
          else None
      | _, _ => None
      end
  | LSubRead i =>
      match sp s i with
      | SSend => Some (set_sp (set_delivered s (upd (delivered s) i (S (delivered s i)))) (upd (sp s) i SLoop))
      | _ => None
      end
  | LOnDisc j =>
      if (j <? dd s) && negb (cbreg s j) then
        let '(tb, _) := alloc (table s) (OCb j) in Some (set_cbreg (set_table s tb) (upd (cbreg s) j true))
      else None
  | _ => None
  end.

Definition step_ep (s : state) (l : label) : option state :=
  match l with
  | LConnDie => if dead s then None else Some (set_dead s true)
  | LPeerMsg m => match proc s with PRead => if lost s then None else Some (set_proc s (PHave m)) | _ => None end
  | LReadFail => match proc s with PRead => if lost s then Some (set_proc s PFail) else None | _ => None end
  | LDispatch =>
      match proc s with
      | PHave m => let '(tb, s') := disp m (table s) s in Some (set_proc (set_table s' tb) PRead)
      | _ => None
      end
  | LProcClose1 => match proc s with PFail => Some (set_proc (set_closed s true) PClosing) | _ => None end
  | LProcClose2 => match proc s with PClosing => Some (set_proc (spawn_all s true) PDone) | _ => None end
  | LUserClose1 => match usr s with UIdle => Some (set_usr (set_closed s true) UMid) | _ => None end
  | LUserClose2 => match usr s with UMid => Some (set_usr (spawn_all s false) UFin) | _ => None end
  | LCloserStep k =>
      match nth_error (closers s) k with
      | Some (o, e, 0) =>
          match run_closer s o e with
          | Some s1 => Some (set_closers s1 (setnth k (o, e, 1) (closers s1)))
          | None => None
          end
      | Some (o, e, 1) => let s1 := close_chan s o in Some (set_closers s1 (setnth k (o, e, 2) (closers s1)))
      | _ => None
      end
  | _ => None
  end.

Definition step (s : state) (l : label) : option state :=
  if panicked s then None else
  match l with
  | LCancel _ | LCallMake _ | LCallSend _ | LCallSendFail _ | LCallRemove _ | LCallSel _ _ | LCallCancelSend _ =>
      step_call s l
  | LSubscribe _ | LSubTake _ | LSubClosed _ | LSubRead _ | LOnDisc _ => step_sub s l
  | _ => step_ep s l
  end.

Fixpoint run (tr : list label) (s : state) : option state :=
  match tr with
  | [] => Some s
  | l :: r => match step s l with Some s' => run r s' | None => None end
  end.

(* ---------- enumeration of the labels that can be enabled, and a fair scheduler ---------- *)
Definition all_labels (s : state) : list label :=
  flat_map (fun c => [LCallMake c; LCallSend c; LCallSendFail c; LCallRemove c; LCallSel c BErr; LCallSel c BReply;
                      LCallSel c BCancel; LCallCancelSend c]) (seq 0 (nn s)) ++
  flat_map (fun i => [LSubscribe i; LSubTake i; LSubClosed i; LSubRead i]) (seq 0 (mm s)) ++
  map LOnDisc (seq 0 (dd s)) ++
  [LReadFail; LDispatch; LProcClose1; LProcClose2; LUserClose2] ++
  map LCloserStep (seq 0 (length (closers s))).

(* internal labels only: no new message, no fault, no cancel, no user Close *)
Definition first_enabled (s : state) (ls : list label) : option (label * state) :=
  fold_right (fun l acc => match step s l with Some s' => Some (l, s') | None => acc end) None ls.

(* labels a goroutine that has already started may take (no spontaneous LCallMake/LSubscribe/LOnDisc):
   used to complete an observed run after the fault *)
Definition is_start (l : label) : bool :=
  match l with LCallMake _ | LSubscribe _ | LOnDisc _ => true | _ => false end.
Definition drain_labels (s : state) : list label := filter (fun l => negb (is_start l)) (all_labels s).

Fixpoint drain (fuel : nat) (s : state) : state :=
  match fuel with
  | 0 => s
  | S f => match first_enabled s (drain_labels s) with Some (_, s') => drain f s' | None => s end
  end.

(* the same scheduler, also returning the labels it fired *)
Fixpoint drain_tr (fuel : nat) (s : state) : list label * state :=
  match fuel with
  | 0 => ([], s)
  | S f => match first_enabled s (drain_labels s) with
           | Some (l, s') => let '(tr, s'') := drain_tr f s' in (l :: tr, s'')
           | None => ([], s)
           end
  end.
