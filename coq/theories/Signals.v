(* Signals.v — model of the signal subscription protocol of qiloop:
     server side   bus/signal.go   (signalHandler: addSignalUser / removeSignalUser / UpdateSignal)
     client side   bus/proxy.go    (proxy.SubscribeID and its cancel function, Client.State counters)
                   bus/client.go   (client.Subscribe fan-out goroutine, client.Call for the two remote calls)
                   bus/net/endpoint.go (dispatch of an incoming frame to the handlers, in order)
   as a labelled transition system: one label per atomic action of one goroutine.  Executable;
   no proofs here (SignalsProofs.v).

   Universe: one object of one service; connections c : nat (one `client` value per connection,
   shared by every proxy built on it); signals sig : N; every call of SubscribeID is a subscriber
   s : nat (index in [subs]); one emitter (calls of UpdateSignal do not overlap).
   Payloads are opaque to the code (it only moves them): N. *)
From Coq Require Export List NArith Lia Bool Arith.
Export ListNotations.
Local Open Scope N_scope.

(* ---- defect switches: behaviours of the pinned tree that violate C13 (observed on the real code
        by the harness; [clean] = all off) ---- *)
Record scfg := {
  uid_global : bool;       (* addSignalUser compares user ids only, not (id, connection) *)
  snapshot_send : bool;    (* UpdateSignal sends from a snapshot after releasing signalsMutex *)
  sub_unserialised : bool; (* SubscribeID / cancel: counter change and remote call are not one critical section *)
  dup_relock : bool        (* addSignalUser on a known id: RemoveHandler -> closer -> RemoveHandler on the held mutex *)
}.
Definition clean (g : scfg) : Prop :=
  uid_global g = false /\ snapshot_send g = false /\ sub_unserialised g = false.
Definition pinned : scfg := {| uid_global := true; snapshot_send := true; sub_unserialised := true; dup_relock := true |}.
Definition cfg0 : scfg := {| uid_global := false; snapshot_send := false; sub_unserialised := false; dup_relock := false |}.

(* ---- frames ---- *)
Definition A_register : N := 0.
Definition A_unregister : N := 1.
Definition QueueCap : nat := 100.   (* client.Subscribe: make(chan *net.Message, 100) *)

Inductive uframe :=            (* client -> server: the two calls SubscribeID makes *)
| UReg (mid sig uid : N)
| UUnreg (mid sig uid : N).
Inductive dframe :=            (* server -> client *)
| DReply (act mid : N)
| DError (act mid : N)
| DEvent (sig mid p : N).      (* Event frame: action = signal id, message id = id of the register call *)

(* ---- server table: signalHandler.signals ---- *)
Record user := { u_uid : N; u_sig : N; u_mid : N; u_conn : nat }.

Definition same_user (g : scfg) (c : nat) (uid : N) (u : user) : bool :=
  (u_uid u =? uid) && (uid_global g || Nat.eqb (u_conn u) c).

(* removeSignalUser: first entry with this id on this endpoint; o.signals[i] = o.signals[last]; truncate *)
Fixpoint find_idx {A} (f : A -> bool) (l : list A) : option nat :=
  match l with
  | [] => None
  | x :: r => if f x then Some O else option_map S (find_idx f r)
  end.
Fixpoint set_nth {A} (l : list A) (i : nat) (x : A) : list A :=
  match l, i with
  | [], _ => []
  | _ :: r, O => x :: r
  | y :: r, S i' => y :: set_nth r i' x
  end.
Definition swap_remove {A} (l : list A) (i : nat) : list A :=
  match nth_error l (Nat.pred (List.length l)) with
  | None => l
  | Some lastx => removelast (set_nth l i lastx)
  end.
Definition is_user (c : nat) (uid : N) (u : user) : bool := (u_uid u =? uid) && Nat.eqb (u_conn u) c.

(* ---- client side ---- *)
Inductive pc :=
| PInstalled          (* client.Subscribe done: local handler registered, fan-out goroutine running *)
| PNeedReg            (* State(key,+1) returned 1 *)
| PWaitReg (mid : N)  (* registerEvent call sent *)
| PAcked              (* SubscribeID returned (nil error) *)
| PNeedUnreg          (* cancel: State(key,-1) returned 0 *)
| PWaitUnreg (mid : N)
| PAborting           (* close(abort) done; fan-out goroutine has not yet seen it *)
| PClosed             (* handler removed, events channel closed *)
| PFailed.            (* SubscribeID returned an error (count and handler are left behind, as the code does) *)

Record sub := {
  s_conn : nat; s_sig : N; s_pc : pc;
  s_queue : list N;     (* the handler's queue (capacity QueueCap) *)
  s_got : list N;       (* what the reader has read from the events channel *)
  (* ghost (never read by a transition): *)
  s_skip : list N;      (* events already on their way to this connection when the handler was installed *)
  s_all : list N;       (* emissions of s_sig since then, taken while the connection was registered *)
  s_pre : list N;       (* value of s_all at the acknowledgement *)
  s_win : list N;       (* emissions of s_sig between acknowledgement and cancel request: the window *)
  s_ackd : bool         (* SubscribeID has returned nil *)
}.

Record cstate := {
  c_count : N -> nat;   (* Client.State("svc.obj.sig") *)
  c_hid : N -> N;       (* Client.State("svc.obj.sig.handler") *)
  c_lock : N -> bool;   (* the critical section a repaired SubscribeID/cancel would hold; only read when sub_unserialised = false *)
  c_mid : N;            (* client.messageID *)
  c_drawn : list N      (* ghost: handler ids drawn so far by this process (rand.Int()) *)
}.
Definition cinit : cstate := {| c_count := fun _ => O; c_hid := fun _ => 0; c_lock := fun _ => false; c_mid := 1; c_drawn := [] |}.

Record state := {
  subs : list sub;
  cl : nat -> cstate;
  up : nat -> list uframe;       (* frames sent by the client, not yet processed by the object's mailbox goroutine *)
  down : nat -> list dframe;     (* frames written by the server, not yet dispatched by the client's endpoint *)
  table : list user;
  pend : option (nat * dframe * option N); (* the mailbox goroutine between the table operation and the answer;
                                              third component (ghost): message id of the registration it removed *)
  emit : option (N * N * list user);       (* the emitter between snapshot and the last send *)
  dead : bool;                   (* the object's mailbox goroutine is blocked for ever (Deadlock) *)
  stuck : nat -> bool;           (* handlersMutex of this connection's server endpoint is held for ever *)
  overflow : bool;               (* some event met a full queue (outside "within the queue capacity") *)
  nconn : nat;
  (* observation logs (ghost) *)
  dlog : nat -> list (dframe * option N);
  ulog : nat -> list uframe;
  elog : list (N * N);
  race17 : bool                  (* ghost: a counter transition happened inside another one's critical section *)
}.

Definition init : state := {|
  subs := []; cl := fun _ => cinit; up := fun _ => []; down := fun _ => []; table := [];
  pend := None; emit := None; dead := false; stuck := fun _ => false; overflow := false; nconn := O;
  dlog := fun _ => []; ulog := fun _ => []; elog := []; race17 := false |}.

Definition fupd {A} (f : nat -> A) (k : nat) (v : A) : nat -> A := fun k' => if Nat.eqb k' k then v else f k'.
Definition nupd {A} (f : N -> A) (k : N) (v : A) : N -> A := fun k' => if k' =? k then v else f k'.

Inductive label :=
| LInstall (c : nat) (sig : N)  (* SubscribeID: client.Subscribe (MakeHandler + fan-out goroutine) *)
| LCount (s : nat)              (* SubscribeID: State(key, +1) *)
| LSendReg (s : nat) (h : N)    (* handler := rand.Int(); State(hkey, handler); Call registerEvent: frame written *)
| LMbox (c : nat)               (* the object's mailbox goroutine takes the next request of connection c: table operation *)
| LReply                        (* ... and writes the answer *)
| LEmitSnap (sig p : N)         (* UpdateSignal: snapshot under RLock *)
| LEmitSend                     (* UpdateSignal: replyEvent to the next user of the snapshot *)
| LCliRecv (c : nat)            (* client endpoint: process() reads one frame and dispatch()es it *)
| LCancel (s : nat)             (* cancel function: State(key, -1) *)
| LSendUnreg (s : nat)          (* State(hkey, 0); State(hkey, -handler); Call unregisterEvent: frame written *)
| LDeliver (s : nat)            (* fan-out goroutine: queue -> events channel -> reader *)
| LFanClose (s : nat).          (* fan-out goroutine: <-abort: RemoveHandler, close(events) *)

(* ---- helpers ---- *)
Definition evs (sig : N) (fs : list dframe) : list N :=
  flat_map (fun f => match f with DEvent sg _ p => if sg =? sig then [p] else [] | _ => [] end) fs.
Definition pending_for (e : option (N * N * list user)) (c : nat) (sig : N) : list N :=
  match e with
  | Some (sg, p, us) => if sg =? sig then map (fun _ => p) (filter (fun u => Nat.eqb (u_conn u) c) us) else []
  | None => []
  end.
Definition inflight (st : state) (c : nat) (sig : N) : list N :=
  evs sig (down st c) ++ pending_for (emit st) c sig.

Definition live (p : pc) : bool := match p with PClosed | PFailed => false | _ => true end.
Definition registered (st : state) (c : nat) (sig : N) : bool :=
  existsb (fun u => Nat.eqb (u_conn u) c && (u_sig u =? sig)) (table st).

Definition set_sub (st : state) (i : nat) (x : sub) : state :=
  {| subs := set_nth (subs st) i x; cl := cl st; up := up st; down := down st; table := table st; pend := pend st;
     emit := emit st; dead := dead st; stuck := stuck st; overflow := overflow st; nconn := nconn st;
     dlog := dlog st; ulog := ulog st; elog := elog st; race17 := race17 st |}.
Definition set_cl (st : state) (c : nat) (x : cstate) : state :=
  {| subs := subs st; cl := fupd (cl st) c x; up := up st; down := down st; table := table st; pend := pend st;
     emit := emit st; dead := dead st; stuck := stuck st; overflow := overflow st; nconn := nconn st;
     dlog := dlog st; ulog := ulog st; elog := elog st; race17 := race17 st |}.
Definition set_race (st : state) (b : bool) : state :=
  {| subs := subs st; cl := cl st; up := up st; down := down st; table := table st; pend := pend st;
     emit := emit st; dead := dead st; stuck := stuck st; overflow := overflow st; nconn := nconn st;
     dlog := dlog st; ulog := ulog st; elog := elog st; race17 := race17 st || b |}.
Definition push_up (st : state) (c : nat) (f : uframe) : state :=
  {| subs := subs st; cl := cl st; up := fupd (up st) c (up st c ++ [f]); down := down st; table := table st; pend := pend st;
     emit := emit st; dead := dead st; stuck := stuck st; overflow := overflow st; nconn := nconn st;
     dlog := dlog st; ulog := fupd (ulog st) c (ulog st c ++ [f]); elog := elog st; race17 := race17 st |}.
Definition push_down (st : state) (c : nat) (f : dframe) (note : option N) : state :=
  {| subs := subs st; cl := cl st; up := up st; down := fupd (down st) c (down st c ++ [f]); table := table st; pend := pend st;
     emit := emit st; dead := dead st; stuck := stuck st; overflow := overflow st; nconn := nconn st;
     dlog := fupd (dlog st) c (dlog st c ++ [(f, note)]); ulog := ulog st; elog := elog st; race17 := race17 st |}.

Definition with_count (x : cstate) (sig : N) (n : nat) : cstate :=
  {| c_count := nupd (c_count x) sig n; c_hid := c_hid x; c_lock := c_lock x; c_mid := c_mid x; c_drawn := c_drawn x |}.
Definition with_lock (x : cstate) (sig : N) (b : bool) : cstate :=
  {| c_count := c_count x; c_hid := c_hid x; c_lock := nupd (c_lock x) sig b; c_mid := c_mid x; c_drawn := c_drawn x |}.
Definition with_pc (x : sub) (p : pc) : sub :=
  {| s_conn := s_conn x; s_sig := s_sig x; s_pc := p; s_queue := s_queue x; s_got := s_got x;
     s_skip := s_skip x; s_all := s_all x; s_pre := s_pre x; s_win := s_win x; s_ackd := s_ackd x |}.
(* the acknowledgement: SubscribeID returns nil *)
Definition acked (x : sub) : sub :=
  {| s_conn := s_conn x; s_sig := s_sig x; s_pc := PAcked; s_queue := s_queue x; s_got := s_got x;
     s_skip := s_skip x; s_all := s_all x; s_pre := s_all x; s_win := []; s_ackd := true |}.

(* the counter transitions are allowed when the section is free (repaired code) or always (pinned code) *)
Definition may_enter (g : scfg) (x : cstate) (sig : N) : bool := sub_unserialised g || negb (c_lock x sig).

Definition mk_emit (sig p : N) (us : list user) : option (N * N * list user) :=
  match us with [] => None | _ => Some (sig, p, us) end.

(* dispatch of an Event frame on connection c: every installed handler of that signal, in order *)
Definition enqueue (c : nat) (sig p : N) (x : sub) : sub * bool :=
  if Nat.eqb (s_conn x) c && (s_sig x =? sig) && live (s_pc x) then
    if Nat.ltb (List.length (s_queue x)) QueueCap then
      ({| s_conn := s_conn x; s_sig := s_sig x; s_pc := s_pc x; s_queue := s_queue x ++ [p]; s_got := s_got x;
          s_skip := s_skip x; s_all := s_all x; s_pre := s_pre x; s_win := s_win x; s_ackd := s_ackd x |}, false)
    else (x, true)
  else (x, false).
Definition dispatch_event (c : nat) (sig p : N) (l : list sub) : list sub * bool :=
  (map (fun x => fst (enqueue c sig p x)) l, existsb (fun x => snd (enqueue c sig p x)) l).

(* the call waiting for (act, mid) on connection c *)
Definition waits (c : nat) (act mid : N) (x : sub) : bool :=
  Nat.eqb (s_conn x) c &&
  match s_pc x with
  | PWaitReg m => (act =? A_register) && (m =? mid)
  | PWaitUnreg m => (act =? A_unregister) && (m =? mid)
  | _ => false
  end.

(* ghost bookkeeping at an emission *)
Definition note_emit (st : state) (sig p : N) (x : sub) : sub :=
  if (s_sig x =? sig) && live (s_pc x) then
    {| s_conn := s_conn x; s_sig := s_sig x; s_pc := s_pc x; s_queue := s_queue x; s_got := s_got x;
       s_skip := s_skip x;
       s_all := if registered st (s_conn x) sig then s_all x ++ [p] else s_all x;
       s_pre := s_pre x;
       s_win := match s_pc x with PAcked => s_win x ++ [p] | _ => s_win x end;
       s_ackd := s_ackd x |}
  else x.

Definition release (g : scfg) (st : state) (c : nat) (sig : N) : state :=
  set_cl st c (with_lock (cl st c) sig false).

(* ---- the state after each kind of transition (guards are in [step]) ---- *)
Definition no_user : user := {| u_uid := 0; u_sig := 0; u_mid := 0; u_conn := O |}.
Definition new_sub (st : state) (c : nat) (sig : N) : sub :=
  {| s_conn := c; s_sig := sig; s_pc := PInstalled; s_queue := []; s_got := [];
     s_skip := inflight st c sig; s_all := []; s_pre := []; s_win := []; s_ackd := false |}.
Definition st_install (st : state) (c : nat) (sig : N) : state :=
  {| subs := subs st ++ [new_sub st c sig]; cl := cl st; up := up st; down := down st; table := table st; pend := pend st;
     emit := emit st; dead := dead st; stuck := stuck st; overflow := overflow st;
     nconn := Nat.max (nconn st) (S c);
     dlog := dlog st; ulog := ulog st; elog := elog st; race17 := race17 st |}.
(* State(key,+1) = 1: the caller must register remotely *)
Definition st_count_first (st : state) (s : nat) (x : sub) : state :=
  let c := s_conn x in let sig := s_sig x in let k := cl st c in
  set_sub (set_cl (set_race st (c_lock k sig)) c (with_lock (with_count k sig 1) sig true)) s (with_pc x PNeedReg).
(* State(key,+1) > 1: SubscribeID returns at once *)
Definition st_count_more (st : state) (s : nat) (x : sub) : state :=
  let c := s_conn x in let sig := s_sig x in let k := cl st c in
  set_sub (set_cl (set_race st (c_lock k sig)) c (with_count k sig (S (c_count k sig)))) s (acked x).
Definition st_send_reg (st : state) (s : nat) (x : sub) (h : N) : state :=
  let c := s_conn x in let sig := s_sig x in let k := cl st c in
  let m := c_mid k + 2 in
  let k' := {| c_count := c_count k; c_hid := nupd (c_hid k) sig (c_hid k sig + h); c_lock := c_lock k;
               c_mid := m; c_drawn := h :: c_drawn k |} in
  set_sub (push_up (set_cl st c k') c (UReg m sig h)) s (with_pc x (PWaitReg m)).
(* the mailbox goroutine has taken the head of up c and done its table operation *)
Definition st_mbox (st : state) (c : nat) (rest : list uframe) (t : list user) (p : option (nat * dframe * option N)) : state :=
  {| subs := subs st; cl := cl st; up := fupd (up st) c rest; down := down st; table := t;
     pend := p; emit := emit st; dead := dead st; stuck := stuck st; overflow := overflow st;
     nconn := nconn st; dlog := dlog st; ulog := ulog st; elog := elog st; race17 := race17 st |}.
(* RemoveHandler(existing) holds that endpoint's mutex; its closer removes the existing entry and
   calls RemoveHandler again: the mailbox goroutine never returns *)
Definition st_mbox_deadlock (st : state) (c : nat) (rest : list uframe) (i : nat) : state :=
  {| subs := subs st; cl := cl st; up := fupd (up st) c rest; down := down st;
     table := swap_remove (table st) i; pend := None; emit := emit st; dead := true;
     stuck := fupd (stuck st) (u_conn (nth i (table st) no_user)) true; overflow := overflow st; nconn := nconn st;
     dlog := dlog st; ulog := ulog st; elog := elog st; race17 := race17 st |}.
Definition st_reply (st : state) (c : nat) (f : dframe) (note : option N) : state :=
  let st1 := push_down st c f note in
  {| subs := subs st1; cl := cl st1; up := up st1; down := down st1; table := table st1; pend := None;
     emit := emit st1; dead := dead st1; stuck := stuck st1; overflow := overflow st1; nconn := nconn st1;
     dlog := dlog st1; ulog := ulog st1; elog := elog st1; race17 := race17 st1 |}.
Definition st_emit_snap (st : state) (sig p : N) : state :=
  {| subs := map (note_emit st sig p) (subs st); cl := cl st; up := up st; down := down st; table := table st;
     pend := pend st; emit := mk_emit sig p (filter (fun u => u_sig u =? sig) (table st));
     dead := dead st; stuck := stuck st; overflow := overflow st; nconn := nconn st;
     dlog := dlog st; ulog := ulog st; elog := elog st ++ [(sig, p)]; race17 := race17 st |}.
Definition st_emit_send (st : state) (sig p : N) (u : user) (us : list user) : state :=
  let st1 := push_down st (u_conn u) (DEvent sig (u_mid u) p) None in
  {| subs := subs st1; cl := cl st1; up := up st1; down := down st1; table := table st1; pend := pend st1;
     emit := mk_emit sig p us; dead := dead st1; stuck := stuck st1; overflow := overflow st1;
     nconn := nconn st1; dlog := dlog st1; ulog := ulog st1; elog := elog st1; race17 := race17 st1 |}.
(* the client endpoint has read the head of down c *)
Definition st_pop_down (st : state) (c : nat) (rest : list dframe) : state :=
  {| subs := subs st; cl := cl st; up := up st; down := fupd (down st) c rest; table := table st;
     pend := pend st; emit := emit st; dead := dead st; stuck := stuck st; overflow := overflow st;
     nconn := nconn st; dlog := dlog st; ulog := ulog st; elog := elog st; race17 := race17 st |}.
Definition st_recv_event (st : state) (c : nat) (rest : list dframe) (sig p : N) : state :=
  let st1 := st_pop_down st c rest in
  {| subs := fst (dispatch_event c sig p (subs st)); cl := cl st1; up := up st1; down := down st1; table := table st1;
     pend := pend st1; emit := emit st1; dead := dead st1; stuck := stuck st1;
     overflow := overflow st1 || snd (dispatch_event c sig p (subs st));
     nconn := nconn st1; dlog := dlog st1; ulog := ulog st1; elog := elog st1; race17 := race17 st1 |}.
(* the answer to a call of subscriber s has been dispatched: the call returns *)
Definition st_recv_answer (g : scfg) (st : state) (c : nat) (rest : list dframe) (s : nat) (x : sub) (x' : sub) : state :=
  set_sub (release g (st_pop_down st c rest) c (s_sig x)) s x'.
Definition st_cancel_last (st : state) (s : nat) (x : sub) : state :=
  let c := s_conn x in let sig := s_sig x in let k := cl st c in
  set_sub (set_cl (set_race st (c_lock k sig)) c (with_lock (with_count k sig 0) sig true)) s (with_pc x PNeedUnreg).
Definition st_cancel_more (st : state) (s : nat) (x : sub) : state :=
  let c := s_conn x in let sig := s_sig x in let k := cl st c in
  set_sub (set_cl (set_race st (c_lock k sig)) c (with_count k sig (Nat.pred (c_count k sig)))) s (with_pc x PAborting).
Definition st_send_unreg (st : state) (s : nat) (x : sub) : state :=
  let c := s_conn x in let sig := s_sig x in let k := cl st c in
  let m := c_mid k + 2 in
  let k' := {| c_count := c_count k; c_hid := nupd (c_hid k) sig 0; c_lock := c_lock k;
               c_mid := m; c_drawn := c_drawn k |} in
  set_sub (push_up (set_cl st c k') c (UUnreg m sig (c_hid k sig))) s (with_pc x (PWaitUnreg m)).
Definition sub_deliver (x : sub) (p : N) (q : list N) : sub :=
  {| s_conn := s_conn x; s_sig := s_sig x; s_pc := s_pc x; s_queue := q; s_got := s_got x ++ [p];
     s_skip := s_skip x; s_all := s_all x; s_pre := s_pre x; s_win := s_win x; s_ackd := s_ackd x |}.
Definition sub_close (x : sub) : sub :=
  {| s_conn := s_conn x; s_sig := s_sig x; s_pc := PClosed; s_queue := []; s_got := s_got x;
     s_skip := s_skip x; s_all := s_all x; s_pre := s_pre x; s_win := s_win x; s_ackd := s_ackd x |}.

Definition emitting (st : state) : bool := match emit st with Some _ => true | None => false end.

Definition step (g : scfg) (st : state) (l : label) : option state :=
  match l with
  | LInstall c sig => Some (st_install st c sig)
  | LCount s =>
      match nth_error (subs st) s with
      | Some x =>
          match s_pc x with
          | PInstalled =>
              if may_enter g (cl st (s_conn x)) (s_sig x) then
                if Nat.eqb (c_count (cl st (s_conn x)) (s_sig x)) 0
                then Some (st_count_first st s x)
                else Some (st_count_more st s x)
              else None
          | _ => None
          end
      | None => None
      end
  | LSendReg s h =>
      match nth_error (subs st) s with
      | Some x =>
          match s_pc x with
          | PNeedReg =>
              if negb (h =? 0) && negb (existsb (N.eqb h) (c_drawn (cl st (s_conn x))))
              then Some (st_send_reg st s x h) else None
          | _ => None
          end
      | None => None
      end
  | LMbox c =>
      if dead st || stuck st c then None else
      match pend st, up st c with
      | None, f :: rest =>
          if negb (snapshot_send g) && emitting st then None else
          match f with
          | UReg m sig uid =>
              match find_idx (same_user g c uid) (table st) with
              | None => Some (st_mbox st c rest (table st ++ [{| u_uid := uid; u_sig := sig; u_mid := m; u_conn := c |}])
                                      (Some (c, DReply A_register m, None)))
              | Some i =>
                  if dup_relock g then Some (st_mbox_deadlock st c rest i)
                  else Some (st_mbox st c rest (table st) (Some (c, DError A_register m, None)))
              end
          | UUnreg m sig uid =>
              match find_idx (is_user c uid) (table st) with
              | Some i => Some (st_mbox st c rest (swap_remove (table st) i)
                                        (Some (c, DReply A_unregister m, Some (u_mid (nth i (table st) no_user)))))
              | None => Some (st_mbox st c rest (table st) (Some (c, DError A_unregister m, None)))
              end
          end
      | _, _ => None
      end
  | LReply =>
      if dead st then None else
      match pend st with
      | Some (c, f, note) => Some (st_reply st c f note)
      | None => None
      end
  | LEmitSnap sig p => if emitting st then None else Some (st_emit_snap st sig p)
  | LEmitSend =>
      match emit st with
      | Some (sig, p, u :: us) => Some (st_emit_send st sig p u us)
      | _ => None
      end
  | LCliRecv c =>
      match down st c with
      | f :: rest =>
          match f with
          | DEvent sig _ p => Some (st_recv_event st c rest sig p)
          | DReply act m | DError act m =>
              match find_idx (waits c act m) (subs st) with
              | None => Some (st_pop_down st c rest)
              | Some s =>
                  match nth_error (subs st) s with
                  | None => Some (st_pop_down st c rest)
                  | Some x =>
                      match s_pc x, f with
                      | PWaitReg _, DReply _ _ => Some (st_recv_answer g st c rest s x (acked x))
                      | PWaitReg _, _ => Some (st_recv_answer g st c rest s x (with_pc x PFailed))
                      | _, _ => Some (st_recv_answer g st c rest s x (with_pc x PAborting))
                      end
                  end
              end
          end
      | [] => None
      end
  | LCancel s =>
      match nth_error (subs st) s with
      | Some x =>
          match s_pc x with
          | PAcked =>
              if may_enter g (cl st (s_conn x)) (s_sig x) then
                if Nat.eqb (Nat.pred (c_count (cl st (s_conn x)) (s_sig x))) 0
                then Some (st_cancel_last st s x)
                else Some (st_cancel_more st s x)
              else None
          | _ => None
          end
      | None => None
      end
  | LSendUnreg s =>
      match nth_error (subs st) s with
      | Some x =>
          match s_pc x with
          | PNeedUnreg => Some (st_send_unreg st s x)
          | _ => None
          end
      | None => None
      end
  | LDeliver s =>
      match nth_error (subs st) s with
      | Some x =>
          match live (s_pc x), s_queue x with
          | true, p :: q => Some (set_sub st s (sub_deliver x p q))
          | _, _ => None
          end
      | None => None
      end
  | LFanClose s =>
      match nth_error (subs st) s with
      | Some x =>
          match s_pc x with
          | PAborting => Some (set_sub st s (sub_close x))
          | _ => None
          end
      | None => None
      end
  end.

Fixpoint run (g : scfg) (st : state) (tr : list label) : option state :=
  match tr with
  | [] => Some st
  | l :: r => match step g st l with Some st' => run g st' r | None => None end
  end.

(* ---- internal progress: everything that happens without a new request from the harness.
        [quiesce] applies enabled internal labels in a fixed order until none is enabled. ---- *)
Definition internal_labels (st : state) : list label :=
  [LReply; LEmitSend] ++ map LMbox (seq 0 (nconn st)) ++ map LCliRecv (seq 0 (nconn st)) ++
  map LDeliver (seq 0 (List.length (subs st))) ++ map LFanClose (seq 0 (List.length (subs st))).
Fixpoint first_enabled (g : scfg) (st : state) (ls : list label) : option (label * state) :=
  match ls with
  | [] => None
  | l :: r => match step g st l with Some st' => Some (l, st') | None => first_enabled g st r end
  end.
Fixpoint quiesce (fuel : nat) (g : scfg) (st : state) : state * list label :=
  match fuel with
  | O => (st, [])
  | S f => match first_enabled g st (internal_labels st) with
           | Some (l, st') => let '(st'', tr) := quiesce f g st' in (st'', l :: tr)
           | None => (st, [])
           end
  end.
Definition quiescent (g : scfg) (st : state) : bool :=
  match first_enabled g st (internal_labels st) with None => true | Some _ => false end.

(* ---- operation sequences of the sequential correspondence runs: each operation is the request
        followed by everything it causes ---- *)
Inductive op :=
| OSub (c : nat) (sig h : N)     (* SubscribeID on connection c; h = the id rand.Int() yields if it is drawn *)
| OCancel (s : nat)
| OEmit (sig p : N).

Definition try (g : scfg) (st : state) (l : label) : state :=
  match step g st l with Some st' => st' | None => st end.
Definition exec_op (fuel : nat) (g : scfg) (st : state) (o : op) : state :=
  match o with
  | OSub c sig h =>
      let s := List.length (subs st) in
      let st1 := try g (try g (try g st (LInstall c sig)) (LCount s)) (LSendReg s h) in
      fst (quiesce fuel g st1)
  | OCancel s => fst (quiesce fuel g (try g (try g st (LCancel s)) (LSendUnreg s)))
  | OEmit sig p => fst (quiesce fuel g (try g st (LEmitSnap sig p)))
  end.
Definition exec_ops (fuel : nat) (g : scfg) (st : state) (os : list op) : state :=
  fold_left (exec_op fuel g) os st.
