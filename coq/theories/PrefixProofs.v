(* PrefixProofs.v — truncation is never accepted (C08): every proper prefix of a valid
   encoding is refused with an error by the typed decoder of the documented format
   (spec_dec), by the signature driven reader (sig_read), by the reflection decoder
   (refl_dec) and by NewValue (new_value), in configurations without the corresponding
   defect switches; each switch is refuted by a concrete witness. *)
From Coq Require Import ZifyN ZifyNat ZifyBool.
From QV Require Import WireDefs WireProofs PrefixLemmas.
Local Open Scope nat_scope.

Section P.
  Variable parse : string -> option ty.
  Hypothesis parse_print : forall t, wf_ty t = true -> parse (print t) = Some t.
  Variable c : wcfg.

  (* ---------- spec_dec, one equation per shape of type ---------- *)
  Lemma spec_dec_num fuel s w bs :
    scalar_width s = Some w ->
    spec_dec parse fuel (TS s) bs = (do '(n, r) <- read_num w bs; ROk (VNum w n, r)).
  Proof.
    intro Hw. destruct fuel; destruct s; cbn [scalar_width] in Hw; try discriminate;
      injection Hw as Hw; subst w; reflexivity.
  Qed.

  Lemma spec_dec_bool fuel bs :
    spec_dec parse fuel (TS SBool) bs = (do '(n, r) <- read_num 1 bs; ROk (VBool (negb (n =? 0)%N), r)).
  Proof. destruct fuel; reflexivity. Qed.

  Lemma spec_dec_str fuel bs :
    spec_dec parse fuel (TS SStr) bs = (do '(s, r) <- read_str bs; ROk (VStr s, r)).
  Proof. destruct fuel; reflexivity. Qed.

  Lemma spec_dec_list fuel t' bs :
    spec_dec parse fuel (TList t') bs =
    (do '(n, r) <- read_num 4 bs; do '(l, r') <- rep (spec_dec parse fuel t') n r; ROk (VList l, r')).
  Proof. destruct fuel; reflexivity. Qed.

  Lemma spec_dec_map fuel tk tv bs :
    spec_dec parse fuel (TMap tk tv) bs =
    (do '(n, r) <- read_num 4 bs;
     do '(l, r') <- rep (pair_with (spec_dec parse fuel tk) (spec_dec parse fuel tv)) n r;
     ROk (VMap l, r')).
  Proof. destruct fuel; reflexivity. Qed.

  Lemma spec_dec_tuple fuel ts bs :
    spec_dec parse fuel (TTuple ts) bs =
    (do '(l, r) <- seq_with (map (spec_dec parse fuel) ts) bs; ROk (VTup l, r)).
  Proof. destruct fuel; reflexivity. Qed.

  Lemma spec_dec_struct fuel n fs bs :
    spec_dec parse fuel (TStruct n fs) bs =
    (do '(l, r) <- seq_with (map (fun f => spec_dec parse fuel (snd f)) fs) bs; ROk (VTup l, r)).
  Proof. destruct fuel; reflexivity. Qed.

  Lemma spec_dec_obj fuel bs :
    spec_dec parse fuel (TS SObject) bs = spec_dec parse fuel ty_ObjectReference bs.
  Proof. destruct fuel; reflexivity. Qed.

  Lemma spec_dec_dyn f bs :
    spec_dec parse (S f) (TS SValue) bs =
    (do '(sg, r) <- read_str bs;
     match parse (string_of_bytes sg) with
     | None => RErr r
     | Some t' => do '(v, r') <- spec_dec parse f t' r; ROk (VDyn t' v, r')
     end).
  Proof. reflexivity. Qed.

  Lemma spec_eats fuel B x t :
    has_ty x t = true -> Nat.min (dyn_depth x) B <= fuel ->
    eats B (spec_dec parse fuel t) (spec_enc x).
  Proof.
    intros Hty Hd rest Hlen. exists x.
    apply (spec_dec_exact parse parse_print fuel x t Hty).
    pose proof (dyn_depth_le_len_any x) as Hdl. rewrite app_length in Hlen. lia.
  Qed.

  (* ---------- spec_dec refuses proper prefixes ---------- *)
  (* B bounds the length of the input: a decoder run on fewer than B bytes cannot meet more
     than B nested dynamic values, so fuel >= min (dyn_depth v) B is enough *)
  Definition SP (v : tval) : Prop :=
    forall t fuel B, has_ty v t = true -> Nat.min (dyn_depth v) B <= fuel ->
      strict B (spec_dec parse fuel t) (spec_enc v).

  Lemma spec_members {T} (proj : T -> ty) fuel B l (ts : list T) :
    Forall SP l -> Forall2 (fun x t => has_ty x (proj t) = true) l ts ->
    Nat.min (fold_right (fun y a => Nat.max (dyn_depth y) a) 0 l) B <= fuel ->
    all2 B (map (fun t => spec_dec parse fuel (proj t)) ts) (map spec_enc l).
  Proof.
    intros IH HF Hd. apply all2_of_Forall2.
    apply (Forall2_Forall_l _ _ _ _ (dyn_depth_members l)) in HF.
    revert HF. apply Forall2_mp. eapply Forall_impl; [|exact IH].
    intros x Hx t [Hdx Hty]. split.
    - apply spec_eats; [exact Hty|lia].
    - apply Hx; [exact Hty|lia].
  Qed.

  Lemma spec_dec_strict : forall v, SP v.
  Proof.
    induction v as [w b|b|s|l IH|kvs IH|l IH|t' v IH] using tval_ind2;
      intros t fuel B Hty Hd k Hk HB.
    - apply has_ty_VNum in Hty as (s & Ht & Hw & Hb). subst t. rewrite (spec_dec_num fuel s w _ Hw).
      apply fails_bind. exact (read_num_strict B w b k Hk HB).
    - apply has_ty_VBool in Hty. subst t. rewrite spec_dec_bool. apply fails_bind.
      cbn [spec_enc List.length] in Hk. rewrite read_num_fail; [apply fails_err|].
      rewrite firstn_length. lia.
    - apply has_ty_VStr in Hty as [Ht Hs]. subst t. rewrite spec_dec_str. apply fails_bind.
      exact (read_str_strict B s Hs k Hk HB).
    - apply has_ty_VList in Hty as (t' & Ht & Hn & HF). subst t.
      rewrite spec_dec_list. cbn [spec_enc] in Hk |- *.
      destruct (read_u32_trunc _ _ k (lt31_32 _ Hn) Hk) as [[Hlt Hr]|[Hge [Hk' Hr]]];
        rewrite Hr; cbn [bind]; [apply fails_err|].
      apply fails_bind. rewrite flat_map_concat_map in Hk' |- *.
      rewrite <- (map_length spec_enc l).
      apply (rep_strict B _ (map spec_enc l)); [|exact (uniform_elems t' l HF)|exact Hk'|lia].
      apply Forall_map. apply Forall_forall. intros x Hin. rewrite Forall_forall in IH, HF.
      pose proof (dyn_depth_in x l Hin) as Hdx. cbn [dyn_depth] in Hd.
      split.
      + apply spec_eats; [exact (HF x Hin)|lia].
      + apply (IH x Hin); [exact (HF x Hin)|lia].
    - apply has_ty_VMap in Hty as (tk & tv & Ht & Hn & HF). subst t.
      rewrite spec_dec_map. cbn [spec_enc] in Hk |- *.
      destruct (read_u32_trunc _ _ k (lt31_32 _ Hn) Hk) as [[Hlt Hr]|[Hge [Hk' Hr]]];
        rewrite Hr; cbn [bind]; [apply fails_err|].
      apply fails_bind. rewrite flat_map_concat_map in Hk' |- *.
      rewrite <- (map_length (fun kv : tval * tval => spec_enc (fst kv) ++ spec_enc (snd kv)) kvs).
      apply (rep_strict B _ (map (fun kv : tval * tval => spec_enc (fst kv) ++ spec_enc (snd kv)) kvs));
        [|exact (uniform_entries tk tv kvs HF)|exact Hk'|lia].
      apply Forall_map. apply Forall_forall. intros kv Hin. rewrite Forall_forall in IH, HF.
      destruct (IH kv Hin) as [IHk IHv]. destruct (HF kv Hin) as [Htk Htv].
      pose proof (dyn_depth_in_map kv kvs Hin) as Hdx. cbn [dyn_depth] in Hd.
      assert (Hek : eats B (spec_dec parse fuel tk) (spec_enc (fst kv)))
        by (apply spec_eats; [exact Htk|lia]).
      assert (Hev : eats B (spec_dec parse fuel tv) (spec_enc (snd kv)))
        by (apply spec_eats; [exact Htv|lia]).
      split.
      + apply pair_with_eats; assumption.
      + apply pair_with_strict; [exact Hek|apply IHk|apply IHv]; try assumption; lia.
    - assert (Hstruct : forall n fs, Forall2 (fun x f => has_ty x (snd f) = true) l fs ->
                fails (spec_dec parse fuel (TStruct n fs) (firstn k (spec_enc (VTup l))))).
      { intros n fs HF. rewrite spec_dec_struct. apply fails_bind.
        cbn [spec_enc] in Hk |- *. rewrite flat_map_concat_map in Hk |- *.
        exact (seq_with_strict B _ _ (spec_members (@snd string ty) fuel B l fs IH HF Hd) k Hk HB). }
      apply has_ty_VTup in Hty as [(ts & Ht & HF)|[(n & fs & Ht & HF)|[[Ht Hl]|[Ht Ho]]]]; subst t.
      + rewrite spec_dec_tuple. apply fails_bind.
        cbn [spec_enc] in Hk |- *. rewrite flat_map_concat_map in Hk |- *.
        exact (seq_with_strict B _ _ (spec_members (fun t => t) fuel B l ts IH HF Hd) k Hk HB).
      + apply Hstruct; assumption.
      + subst l. cbn in Hk. lia.
      + rewrite spec_dec_obj. unfold ty_ObjectReference. apply Hstruct.
        apply has_ty_struct_iff with (n := "ObjectReference"%string). exact Ho.
    - apply has_ty_VDyn in Hty as (Ht & Hg & Hlen & Hv). subst t.
      cbn [dyn_depth] in Hd. destruct fuel as [|f]; [lia|].
      rewrite spec_dec_dyn. cbn [spec_enc] in Hk |- *.
      assert (Hs : (N.of_nat (List.length (bytes_of_string (print t'))) <= MaxStringSize)%N)
        by (rewrite length_bytes_of_string; exact Hlen).
      destruct (read_str_trunc B _ _ k Hs Hk HB) as [Hf|[Hge [Hk' Hr]]].
      + apply fails_bind. exact Hf.
      + rewrite Hr. cbn [bind]. rewrite string_of_bytes_of_string, (parse_print t' Hg).
        apply fails_bind. rewrite enc_str_length in Hge, Hk' |- *.
        apply (IH t' f (B - 1) Hv); [lia|exact Hk'|lia].
  Qed.

  Theorem spec_dec_prefix : forall v t fuel k,
    wf_ty t = true -> has_ty v t = true -> dyn_depth v <= fuel ->
    k < List.length (spec_enc v) -> fails (spec_dec parse fuel t (firstn k (spec_enc v))).
  Proof.
    intros v t fuel k Hg Hty Hd Hk.
    apply (spec_dec_strict v t fuel (S k) Hty); [lia|exact Hk|lia].
  Qed.

  (* ---------- sig_read, one equation per shape of type ---------- *)
  Lemma sig_read_num fuel s w bs :
    scalar_width s = Some w -> sig_read parse c fuel (TS s) bs = take_n w bs.
  Proof.
    intro Hw. destruct fuel; destruct s; cbn [scalar_width] in Hw; try discriminate;
      injection Hw as Hw; subst w; reflexivity.
  Qed.

  Lemma sig_read_bool fuel bs : sig_read parse c fuel (TS SBool) bs = take_n 1 bs.
  Proof. destruct fuel; reflexivity. Qed.

  Lemma sig_read_str fuel bs : sig_read parse c fuel (TS SStr) bs = string_reader c bs.
  Proof. destruct fuel; reflexivity. Qed.

  Lemma sig_read_list fuel t' bs :
    sig_read parse c fuel (TList t') bs =
    (do '(n, r) <- read_num 4 bs;
     do '(d, r') <- cat_res (rep (sig_read parse c fuel t') n r); ROk (enc_u32 n ++ d, r')).
  Proof. destruct fuel; reflexivity. Qed.

  Definition sig_pair fuel tk tv : bytes -> res (bytes * bytes) :=
    fun b => do '(kv, r2) <- pair_with (sig_read parse c fuel tk) (sig_read parse c fuel tv) b;
             ROk (fst kv ++ snd kv, r2).

  Lemma sig_read_map fuel tk tv bs :
    sig_read parse c fuel (TMap tk tv) bs =
    (do '(n, r) <- read_num 4 bs;
     do '(d, r') <- cat_res (rep (sig_pair fuel tk tv) n r); ROk (enc_u32 n ++ d, r')).
  Proof. destruct fuel; reflexivity. Qed.

  Lemma sig_read_tuple fuel ts bs :
    sig_read parse c fuel (TTuple ts) bs = cat_res (seq_with (map (sig_read parse c fuel) ts) bs).
  Proof. destruct fuel; reflexivity. Qed.

  Lemma sig_read_struct fuel n fs bs :
    sig_read parse c fuel (TStruct n fs) bs =
    cat_res (seq_with (map (fun f => sig_read parse c fuel (snd f)) fs) bs).
  Proof. destruct fuel; reflexivity. Qed.

  Lemma sig_read_obj fuel bs :
    sig_read parse c fuel (TS SObject) bs = sig_read parse c fuel ty_ObjectReference bs.
  Proof. destruct fuel; reflexivity. Qed.

  Lemma sig_read_dyn f bs :
    sig_read parse c (S f) (TS SValue) bs =
    (do '(sg, r) <- read_str bs;
     match parse (string_of_bytes sg) with
     | None => RErr r
     | Some t' =>
         do '(d, r') <- sig_read parse c f t' r;
         ROk ((if value_reader_no_len c then sg else enc_str sg) ++ d, r')
     end).
  Proof. reflexivity. Qed.

  (* ---------- sig_read consumes exactly an encoding and refuses its proper prefixes ---------- *)
  (* consumption is proved here and not taken from sig_read_spec, which needs
     value_reader_no_len = false: that switch changes the bytes returned, not those consumed *)
  Section SigStrict.
    Hypothesis Hdrop : string_reader_drops_err c = false.

    Lemma take_n_eats B e : eats B (take_n (List.length e)) e.
    Proof. intros rest Hlen. exists e. apply take_n_app. Qed.

    Lemma string_reader_eats B s :
      (N.of_nat (List.length s) <= MaxStringSize)%N -> eats B (string_reader c) (enc_str s).
    Proof.
      intros Hs rest Hlen. exists (enc_str s). unfold string_reader. rewrite (read_str_enc s rest Hs).
      reflexivity.
    Qed.

    Lemma string_reader_strict B s :
      (N.of_nat (List.length s) <= MaxStringSize)%N -> strict B (string_reader c) (enc_str s).
    Proof.
      intros Hs k Hk HB. destruct (read_str_strict B s Hs k Hk HB) as [l Hl].
      unfold string_reader. rewrite Hl, Hdrop. apply fails_err.
    Qed.

    Definition SQ (v : tval) : Prop :=
      forall t fuel B, has_ty v t = true -> Nat.min (dyn_depth v) B <= fuel ->
        eats B (sig_read parse c fuel t) (spec_enc v) /\ strict B (sig_read parse c fuel t) (spec_enc v).

    Lemma sig_members {T} (proj : T -> ty) fuel B l (ts : list T) :
      Forall SQ l -> Forall2 (fun x t => has_ty x (proj t) = true) l ts ->
      Nat.min (fold_right (fun y a => Nat.max (dyn_depth y) a) 0 l) B <= fuel ->
      all2 B (map (fun t => sig_read parse c fuel (proj t)) ts) (map spec_enc l).
    Proof.
      intros IH HF Hd. apply all2_of_Forall2.
      apply (Forall2_Forall_l _ _ _ _ (dyn_depth_members l)) in HF.
      revert HF. apply Forall2_mp. eapply Forall_impl; [|exact IH].
      intros x Hx t [Hdx Hty]. apply Hx; [exact Hty|lia].
    Qed.

    Lemma cat_seq_eats_strict B ps es :
      all2 B ps es ->
      eats B (fun bs => cat_res (seq_with ps bs)) (concat es) /\
      strict B (fun bs => cat_res (seq_with ps bs)) (concat es).
    Proof.
      intro Hall. split.
      - exact (eats_map B (seq_with ps) (@concat byte) _ (seq_with_eats B ps es Hall)).
      - exact (strict_map B (seq_with ps) (@concat byte) _ (seq_with_strict B ps es Hall)).
    Qed.

    Lemma sig_counted B (p : bytes -> res (bytes * bytes)) n es :
      n = N.of_nat (List.length es) -> (n < 2 ^ 32)%N -> Forall (elem_ok B p) es -> uniform es ->
      let q := fun bs => do '(m, r) <- read_num 4 bs;
                         do '(d, r') <- cat_res (rep p m r); ROk (enc_u32 m ++ d, r') in
      eats B q (enc_u32 n ++ concat es) /\ strict B q (enc_u32 n ++ concat es).
    Proof.
      intros Hn Hlt Hes Hu q. subst q. split.
      - intros rest Hlen. cbv beta. rewrite <- app_assoc, (read_u32_enc n _ Hlt). cbn [bind].
        destruct (rep_eats B p es Hes Hu rest) as [xs Hxs].
        { rewrite !app_length in Hlen. rewrite app_length. lia. }
        subst n. rewrite Hxs. unfold cat_res. cbn [bind]. eexists. reflexivity.
      - intros k Hk HB. cbv beta.
        destruct (read_u32_trunc n _ k Hlt Hk) as [[Hlt4 Hr]|[Hge [Hk' Hr]]];
          rewrite Hr; cbn [bind]; [apply fails_err|].
        apply fails_bind. unfold cat_res. apply fails_bind. subst n.
        apply (rep_strict B p es Hes Hu); [exact Hk'|lia].
    Qed.

    Lemma sig_read_strict : forall v, SQ v.
    Proof.
      induction v as [w b|b|s|l IH|kvs IH|l IH|t' v IH] using tval_ind2;
        intros t fuel B Hty Hd.
      - apply has_ty_VNum in Hty as (s & Ht & Hw & Hb). subst t.
        apply (both_ext B _ _ _ (fun bs => sig_read_num fuel s w bs Hw)).
        cbn [spec_enc]. rewrite <- (le_length w b) at 1 3.
        split; [apply take_n_eats|apply take_n_strict].
      - apply has_ty_VBool in Hty. subst t.
        apply (both_ext B _ _ _ (sig_read_bool fuel)).
        split; [apply (take_n_eats B [_])|apply (take_n_strict B [_])].
      - apply has_ty_VStr in Hty as [Ht Hs]. subst t.
        apply (both_ext B _ _ _ (sig_read_str fuel)).
        split; [apply string_reader_eats|apply string_reader_strict]; exact Hs.
      - apply has_ty_VList in Hty as (t' & Ht & Hn & HF). subst t.
        apply (both_ext B _ _ _ (sig_read_list fuel t')).
        cbn [spec_enc]. rewrite flat_map_concat_map.
        apply sig_counted; [now rewrite map_length|exact (lt31_32 _ Hn)| |exact (uniform_elems t' l HF)].
        apply Forall_map. apply Forall_forall. intros x Hin. rewrite Forall_forall in IH, HF.
        pose proof (dyn_depth_in x l Hin) as Hdx. cbn [dyn_depth] in Hd.
        destruct (IH x Hin t' fuel B (HF x Hin)) as [He Hs]; [lia|].
        split; [exact He|exact Hs].
      - apply has_ty_VMap in Hty as (tk & tv & Ht & Hn & HF). subst t.
        apply (both_ext B _ _ _ (sig_read_map fuel tk tv)).
        cbn [spec_enc]. rewrite flat_map_concat_map.
        apply sig_counted; [now rewrite map_length|exact (lt31_32 _ Hn)| |exact (uniform_entries tk tv kvs HF)].
        apply Forall_map. apply Forall_forall. intros kv Hin. rewrite Forall_forall in IH, HF.
        destruct (IH kv Hin) as [IHk IHv]. destruct (HF kv Hin) as [Htk Htv].
        pose proof (dyn_depth_in_map kv kvs Hin) as Hdx. cbn [dyn_depth] in Hd.
        destruct (IHk tk fuel B Htk) as [Hek Hsk]; [lia|].
        destruct (IHv tv fuel B Htv) as [Hev Hsv]; [lia|].
        split.
        + unfold sig_pair. apply (eats_map B _ (fun kv' : bytes * bytes => fst kv' ++ snd kv')).
          apply pair_with_eats; assumption.
        + unfold sig_pair. apply (strict_map B _ (fun kv' : bytes * bytes => fst kv' ++ snd kv')).
          apply pair_with_strict; assumption.
      - assert (Hstruct : forall n fs, Forall2 (fun x f => has_ty x (snd f) = true) l fs ->
                  eats B (sig_read parse c fuel (TStruct n fs)) (spec_enc (VTup l)) /\
                  strict B (sig_read parse c fuel (TStruct n fs)) (spec_enc (VTup l))).
        { intros n fs HF. apply (both_ext B _ _ _ (sig_read_struct fuel n fs)).
          cbn [spec_enc]. rewrite flat_map_concat_map.
          apply cat_seq_eats_strict. exact (sig_members (@snd string ty) fuel B l fs IH HF Hd). }
        apply has_ty_VTup in Hty as [(ts & Ht & HF)|[(n & fs & Ht & HF)|[[Ht Hl]|[Ht Ho]]]]; subst t.
        + apply (both_ext B _ _ _ (sig_read_tuple fuel ts)).
          cbn [spec_enc]. rewrite flat_map_concat_map.
          apply cat_seq_eats_strict. exact (sig_members (fun t => t) fuel B l ts IH HF Hd).
        + apply Hstruct; assumption.
        + subst l. split.
          * intros rest Hlen. exists []. destruct fuel; reflexivity.
          * intros k Hk HB. cbn in Hk. lia.
        + apply (both_ext B _ _ _ (sig_read_obj fuel)). unfold ty_ObjectReference.
          apply Hstruct.
          apply has_ty_struct_iff with (n := "ObjectReference"%string). exact Ho.
      - apply has_ty_VDyn in Hty as (Ht & Hg & Hlen & Hv). subst t.
        cbn [dyn_depth] in Hd.
        assert (Hs : (N.of_nat (List.length (bytes_of_string (print t'))) <= MaxStringSize)%N)
          by (rewrite length_bytes_of_string; exact Hlen).
        split.
        + intros rest Hlen'. cbn [spec_enc] in Hlen' |- *.
          rewrite !app_length, enc_str_length in Hlen'.
          destruct fuel as [|f]; [lia|].
          rewrite sig_read_dyn, <- app_assoc, (read_str_enc _ _ Hs). cbn [bind].
          rewrite string_of_bytes_of_string, (parse_print t' Hg).
          destruct (IH t' f (B - 1) Hv) as [He _]; [lia|].
          destruct (He rest) as [d Hd']; [rewrite app_length; lia|].
          rewrite Hd'. cbn [bind]. eexists. reflexivity.
        + intros k Hk HB. destruct fuel as [|f]; [lia|].
          rewrite sig_read_dyn. cbn [spec_enc] in Hk |- *.
          destruct (read_str_trunc B _ _ k Hs Hk HB) as [Hf|[Hge [Hk' Hr]]].
          * apply fails_bind. exact Hf.
          * rewrite Hr. cbn [bind]. rewrite string_of_bytes_of_string, (parse_print t' Hg).
            apply fails_bind. rewrite enc_str_length in Hge, Hk' |- *.
            destruct (IH t' f (B - 1) Hv) as [_ Hst]; [lia|].
            apply Hst; [exact Hk'|lia].
    Qed.

    Lemma sig_read_prefix_gen : forall v t fuel k,
      wf_ty t = true -> has_ty v t = true -> Nat.min (dyn_depth v) (S k) <= fuel ->
      k < List.length (spec_enc v) -> fails (sig_read parse c fuel t (firstn k (spec_enc v))).
    Proof.
      intros v t fuel k Hg Hty Hd Hk.
      destruct (sig_read_strict v t fuel (S k) Hty Hd) as [_ Hst].
      apply Hst; [exact Hk|lia].
    Qed.
  End SigStrict.

  Theorem sig_read_prefix : forall v t fuel k,
    string_reader_drops_err c = false ->
    wf_ty t = true -> has_ty v t = true -> dyn_depth v <= fuel ->
    k < List.length (spec_enc v) -> fails (sig_read parse c fuel t (firstn k (spec_enc v))).
  Proof.
    intros v t fuel k Hdrop Hg Hty Hd Hk. apply sig_read_prefix_gen; try assumption. lia.
  Qed.

  (* ---------- refl_dec ---------- *)
  Section ReflStrict.
    Variable eqb : tval -> tval -> bool.
    Hypothesis Hign : refl_struct_ignores_err c = false.
    Hypothesis Hd8 : refl_drop8 c = false.

    Lemma refl_dec_num s w bs :
      scalar_width s = Some w ->
      refl_dec c eqb (TS s) bs = (do '(n, r) <- read_num w bs; ROk (VNum w n, r)).
    Proof.
      intro Hw. destruct s; cbn [scalar_width] in Hw; try discriminate; injection Hw as Hw; subst w;
        unfold refl_dec; cbn [refl_body scalar_width]; try rewrite Hd8; reflexivity.
    Qed.

    Lemma fields_with_seq ps bs : fields_with c ps bs = seq_with (map fst ps) bs.
    Proof.
      revert bs. induction ps as [|[p z] ps IH]; intro bs; [reflexivity|].
      cbn [fields_with map fst seq_with]. rewrite Hign.
      destruct (p bs) as [[x r]|l| |]; try reflexivity. rewrite IH. reflexivity.
    Qed.

    Lemma refl_dec_tuple ts bs :
      refl_dec c eqb (TTuple ts) bs =
      (do '(l, r) <- seq_with (map (refl_dec c eqb) ts) bs; ROk (VTup l, r)).
    Proof.
      unfold refl_dec. cbn [refl_body]. rewrite fields_with_seq, map_map. cbn [fst]. reflexivity.
    Qed.

    Lemma refl_dec_struct n fs bs :
      refl_dec c eqb (TStruct n fs) bs =
      (do '(l, r) <- seq_with (map (fun f => refl_dec c eqb (snd f)) fs) bs; ROk (VTup l, r)).
    Proof.
      unfold refl_dec. cbn [refl_body]. rewrite fields_with_seq, map_map. cbn [fst]. reflexivity.
    Qed.

    Lemma as_int32_small n :
      (n <= listValueMaxSize)%N ->
      (Z.of_N listValueMaxSize <? as_int32 n)%Z = false /\ (as_int32 n <? 0)%Z = false.
    Proof.
      intro Hn. unfold as_int32, listValueMaxSize in *.
      replace (n <? 2 ^ 31)%N with true
        by (symmetry; apply N.ltb_lt; change (2 ^ 31)%N with 2147483648%N; lia).
      split; [apply Z.ltb_ge|apply Z.ltb_ge]; lia.
    Qed.

    Lemma refl_counted {A} B (p : bytes -> res (A * bytes)) (K : list A -> tval)
        (neg : bytes -> res (tval * bytes)) n es :
      n = N.of_nat (List.length es) -> (n <= listValueMaxSize)%N -> Forall (elem_ok B p) es -> uniform es ->
      let q := fun bs =>
        do '(m, r) <- read_num 4 bs;
        let l := as_int32 m in
        if (Z.of_N listValueMaxSize <? l)%Z then RErr r
        else if (l <? 0)%Z then neg r
        else do '(xs, r') <- rep p m r; ROk (K xs, r') in
      eats B q (enc_u32 n ++ concat es) /\ strict B q (enc_u32 n ++ concat es).
    Proof.
      intros Hn Hle Hes Hu q. subst q. destruct (as_int32_small n Hle) as [Hbig Hneg].
      assert (Hlt : (n < 2 ^ 32)%N)
        by (unfold listValueMaxSize in Hle; change (2 ^ 32)%N with 4294967296%N; lia).
      split.
      - intros rest Hlen. cbv beta. rewrite <- app_assoc, (read_u32_enc n _ Hlt). cbn [bind]. cbv zeta.
        rewrite Hbig, Hneg.
        destruct (rep_eats B p es Hes Hu rest) as [xs Hxs].
        { rewrite !app_length in Hlen. rewrite app_length. lia. }
        subst n. rewrite Hxs. cbn [bind]. eexists. reflexivity.
      - intros k Hk HB. cbv beta.
        destruct (read_u32_trunc n _ k Hlt Hk) as [[Hlt4 Hr]|[Hge [Hk' Hr]]];
          rewrite Hr; cbn [bind]; [apply fails_err|]. cbv zeta. rewrite Hbig, Hneg.
        apply fails_bind. subst n. apply (rep_strict B p es Hes Hu); [exact Hk'|lia].
    Qed.

    Definition RQ (v : tval) : Prop :=
      forall t B, has_ty v t = true -> refl_domain t = true -> lens_ok v = true ->
        eats B (refl_dec c eqb t) (spec_enc v) /\ strict B (refl_dec c eqb t) (spec_enc v).

    Lemma refl_members {T} (proj : T -> ty) B l (ts : list T) :
      Forall RQ l -> Forall2 (fun x t => has_ty x (proj t) = true) l ts ->
      forallb (fun t => refl_domain (proj t)) ts = true ->
      forallb lens_ok l = true ->
      all2 B (map (fun t => refl_dec c eqb (proj t)) ts) (map spec_enc l).
    Proof.
      intros IH HF Hdom Hlens. apply all2_of_Forall2.
      apply (forallb_Forall2_r _ _ _ _ Hdom) in HF.
      assert (HL : Forall (fun x => lens_ok x = true) l)
        by (apply Forall_forall; exact (proj1 (forallb_forall lens_ok l) Hlens)).
      apply (Forall2_Forall_l _ _ _ _ HL) in HF.
      revert HF. apply Forall2_mp. eapply Forall_impl; [|exact IH].
      intros x Hx t [Hlx [Hty Hdm]]. apply Hx; assumption.
    Qed.

    Lemma num_leaf {C} B w b (g : N -> C) :
      (b < 2 ^ (8 * N.of_nat w))%N ->
      let q := fun bs => do '(n, r) <- read_num w bs; ROk (g n, r) in
      eats B q (le w b) /\ strict B q (le w b).
    Proof.
      intros Hb q. subst q. split.
      - apply (eats_map B (read_num w) g). intros rest Hlen. exists b. apply read_num_le. exact Hb.
      - apply (strict_map B (read_num w) g). apply read_num_strict.
    Qed.

    Lemma refl_dec_strict : forall v, RQ v.
    Proof.
      clear parse_print.
      induction v as [w b|b|s|l IH|kvs IH|l IH|t' v IH] using tval_ind2;
        intros t B Hty Hdom Hlens.
      - apply has_ty_VNum in Hty as (s & Ht & Hw & Hb). subst t.
        apply (both_ext B _ _ _ (fun bs => refl_dec_num s w bs Hw)).
        exact (num_leaf B w b (VNum w) Hb).
      - apply has_ty_VBool in Hty. subst t.
        destruct b; [exact (num_leaf B 1 1 (fun n => VBool (negb (n =? 0)%N)) eq_refl)
                    |exact (num_leaf B 1 0 (fun n => VBool (negb (n =? 0)%N)) eq_refl)].
      - apply has_ty_VStr in Hty as [Ht Hs]. subst t. split.
        + apply (eats_map B read_str VStr). apply (exact_eats B read_str s). apply read_str_exact. exact Hs.
        + apply (strict_map B read_str VStr). apply read_str_strict. exact Hs.
      - apply has_ty_VList in Hty as (t' & Ht & Hn & HF). subst t.
        cbn [refl_domain] in Hdom. cbn [lens_ok] in Hlens. apply andb_true_iff in Hlens as [Hle Hl].
        apply N.leb_le in Hle. cbn [spec_enc]. rewrite flat_map_concat_map.
        refine (refl_counted B (refl_dec c eqb t') VList
                  (fun r => if refl_neg_len_panics c then RPanic else RErr r)
                  _ (map spec_enc l) _ Hle _ (uniform_elems t' l HF)); [now rewrite map_length|].
        apply Forall_map. apply Forall_forall. intros x Hin. rewrite Forall_forall in IH, HF.
        destruct (IH x Hin t' B (HF x Hin) Hdom (proj1 (forallb_forall lens_ok l) Hl x Hin)) as [He Hs].
        split; [exact He|exact Hs].
      - apply has_ty_VMap in Hty as (tk & tv & Ht & Hn & HF). subst t.
        cbn [refl_domain] in Hdom. apply andb_true_iff in Hdom as [Hdk Hdv].
        cbn [lens_ok] in Hlens. apply andb_true_iff in Hlens as [Hle Hl]. apply N.leb_le in Hle.
        cbn [spec_enc]. rewrite flat_map_concat_map.
        refine (refl_counted B (pair_with (refl_dec c eqb tk) (refl_dec c eqb tv))
                  (fun kvs' => VMap (map_of eqb kvs')) (fun r => ROk (VMap [], r))
                  _ (map (fun kv : tval * tval => spec_enc (fst kv) ++ spec_enc (snd kv)) kvs) _ Hle _
                  (uniform_entries tk tv kvs HF));
          [now rewrite map_length|].
        apply Forall_map. apply Forall_forall. intros kv Hin. rewrite Forall_forall in IH, HF.
        destruct (IH kv Hin) as [IHk IHv]. destruct (HF kv Hin) as [Htk Htv].
        pose proof (proj1 (forallb_forall _ kvs) Hl kv Hin) as Hlkv. apply andb_true_iff in Hlkv as [Hlk Hlv].
        destruct (IHk tk B Htk Hdk Hlk) as [Hek Hsk].
        destruct (IHv tv B Htv Hdv Hlv) as [Hev Hsv].
        split.
        + apply pair_with_eats; assumption.
        + apply pair_with_strict; assumption.
      - cbn [lens_ok] in Hlens.
        assert (Hstruct : forall n fs, refl_domain (TStruct n fs) = true ->
                  Forall2 (fun x f => has_ty x (snd f) = true) l fs ->
                  eats B (refl_dec c eqb (TStruct n fs)) (spec_enc (VTup l)) /\
                  strict B (refl_dec c eqb (TStruct n fs)) (spec_enc (VTup l))).
        { intros n fs Hdom' HF. apply (both_ext B _ _ _ (refl_dec_struct n fs)).
          cbn [spec_enc]. rewrite flat_map_concat_map. cbn [refl_domain] in Hdom'.
          pose proof (refl_members (@snd string ty) B l fs IH HF Hdom' Hlens) as Hall. split.
          - exact (eats_map B _ VTup _ (seq_with_eats B _ _ Hall)).
          - exact (strict_map B _ VTup _ (seq_with_strict B _ _ Hall)). }
        apply has_ty_VTup in Hty as [(ts & Ht & HF)|[(n & fs & Ht & HF)|[[Ht Hl]|[Ht Ho]]]]; subst t.
        + apply (both_ext B _ _ _ (refl_dec_tuple ts)).
          cbn [spec_enc]. rewrite flat_map_concat_map. cbn [refl_domain] in Hdom.
          pose proof (refl_members (fun t => t) B l ts IH HF Hdom Hlens) as Hall. split.
          * exact (eats_map B _ VTup _ (seq_with_eats B _ _ Hall)).
          * exact (strict_map B _ VTup _ (seq_with_strict B _ _ Hall)).
        + apply Hstruct; assumption.
        + subst l. split.
          * intros rest Hlen. exists (VTup []). reflexivity.
          * intros k Hk HB. cbn in Hk. lia.
        + change (refl_dec c eqb (TS SObject)) with (refl_dec c eqb ty_ObjectReference).
          unfold ty_ObjectReference. apply Hstruct; [reflexivity|].
          apply has_ty_struct_iff with (n := "ObjectReference"%string). exact Ho.
      - apply has_ty_VDyn in Hty as (Ht & _). subst t. cbn in Hdom. discriminate.
    Qed.
  End ReflStrict.

  (* refl_neg_len_panics is not used: with the count intact the length is never negative;
     keys_nodup is not needed either (the decoded map is irrelevant to what is consumed) *)
  Theorem refl_dec_prefix : forall v t k,
    refl_struct_ignores_err c = false -> refl_neg_len_panics c = false -> refl_drop8 c = false ->
    wf_ty t = true -> has_ty v t = true -> refl_domain t = true -> lens_ok v = true ->
    k < List.length (spec_enc v) -> fails (refl_dec c tval_eqb t (firstn k (spec_enc v))).
  Proof.
    intros v t k Hign _ Hd8 Hg Hty Hdom Hlens Hk.
    destruct (refl_dec_strict tval_eqb Hign Hd8 v t (S k) Hty Hdom Hlens) as [_ Hst].
    apply Hst; [exact Hk|lia].
  Qed.

  (* ---------- new_value ---------- *)
  (* what NewValue does once the signature string is read *)
  Definition dval_body (f : nat) (sg r : bytes) : res (dval * bytes) :=
    match lookup (string_of_bytes sg) dispatch_table with
    | DKind KBool => do '(n, r') <- read_num 1 r; ROk (DNum KBool (if (n =? 0)%N then 0%N else 1%N), r')
    | DKind k => do '(n, r') <- read_num (dkind_width k) r; ROk (DNum k n, r')
    | DString => do '(s, r') <- read_str r; ROk (DStr s, r')
    | DListM =>
        do '(n, r') <- read_num 4 r;
        if (listValueMaxSize <? n)%N then RErr r'
        else do '(l, r'') <- rep (dec_dval parse c f) n r'; ROk (DList l, r'')
    | DRawD =>
        do '(n, r') <- read_num 4 r;
        if (rawValueMaxSize <? n)%N then RErr r'
        else do '(b, r'') <- take_n (N.to_nat n) r'; ROk (DRaw b, r'')
    | DVoidD => ROk (DVoid, r)
    | DNested => dec_dval parse c f r
    | DOther =>
        let sg' := if String.eqb (string_of_bytes sg) "o" then bytes_of_string (print ty_ObjectReference) else sg in
        match parse (string_of_bytes sg') with
        | None => RErr r
        | Some t => do '(d, r') <- sig_read parse c (S (List.length r)) t r; ROk (DOpaque sg' d, r')
        end
    end.

  Lemma dec_dval_S f bs :
    dec_dval parse c (S f) bs = (do '(sg, r) <- read_str bs; dval_body f sg r).
  Proof. reflexivity. Qed.

  Lemma hdr_both {A} B sg (K : bytes -> bytes -> res (A * bytes)) body :
    (N.of_nat (List.length sg) <= MaxStringSize)%N ->
    eats (B - 4) (K sg) body /\ strict (B - 4) (K sg) body ->
    let p := fun bs => do '(s, r) <- read_str bs; K s r in
    eats B p (enc_str sg ++ body) /\ strict B p (enc_str sg ++ body).
  Proof.
    intros Hs [He Hst] p. subst p. split.
    - intros rest Hlen. cbv beta. rewrite <- app_assoc, (read_str_enc sg _ Hs). cbn [bind].
      apply He. rewrite <- app_assoc, app_length, enc_str_length in Hlen. lia.
    - intros k Hk HB. cbv beta.
      destruct (read_str_trunc B sg body k Hs Hk HB) as [Hf|[Hge [Hk' Hr]]].
      + apply fails_bind. exact Hf.
      + rewrite Hr. cbn [bind]. rewrite enc_str_length in Hge, Hk' |- *. apply Hst; [exact Hk'|lia].
  Qed.

  Lemma enc_dval_len v : 4 <= List.length (enc_dval v).
  Proof.
    destruct v as [k b|s|l|b| |sg d]; cbn [enc_dval]; unfold sig_bytes;
      rewrite ?app_length, enc_str_length; lia.
  Qed.

  Lemma enc_dval_len_pos v : 1 <= List.length (enc_dval v).
  Proof. pose proof (enc_dval_len v) as H. lia. Qed.

  Lemma dval_body_num f k r :
    dval_body f (bytes_of_string (dkind_letter k)) r =
    (do '(n, r') <- read_num (dkind_width k) r;
     ROk (DNum k (match k with KBool => if (n =? 0)%N then 0%N else 1%N | _ => n end), r')).
  Proof. unfold dval_body. rewrite string_of_bytes_of_string. destruct k; reflexivity. Qed.

  Lemma dval_body_str f r :
    dval_body f (bytes_of_string "s") r = (do '(s, r') <- read_str r; ROk (DStr s, r')).
  Proof. reflexivity. Qed.

  Lemma dval_body_list f r :
    dval_body f (bytes_of_string "[m]") r =
    (do '(n, r') <- read_num 4 r;
     if (listValueMaxSize <? n)%N then RErr r'
     else do '(l, r'') <- rep (dec_dval parse c f) n r'; ROk (DList l, r'')).
  Proof. reflexivity. Qed.

  Lemma dval_body_raw f r :
    dval_body f (bytes_of_string "r") r =
    (do '(n, r') <- read_num 4 r;
     if (rawValueMaxSize <? n)%N then RErr r'
     else do '(b, r'') <- take_n (N.to_nat n) r'; ROk (DRaw b, r'')).
  Proof. reflexivity. Qed.

  Lemma dval_body_void f r : dval_body f (bytes_of_string "v") r = ROk (DVoid, r).
  Proof. reflexivity. Qed.

  Lemma dval_body_other f t r :
    lookup (print t) dispatch_table = DOther -> print t <> "o"%string -> wf_ty t = true ->
    dval_body f (bytes_of_string (print t)) r =
    (do '(d, r') <- sig_read parse c (S (List.length r)) t r;
     ROk (DOpaque (bytes_of_string (print t)) d, r')).
  Proof.
    intros Hlk Hno Hwf. unfold dval_body. rewrite string_of_bytes_of_string, Hlk.
    replace (String.eqb (print t) "o") with false by (symmetry; apply String.eqb_neq; exact Hno).
    rewrite string_of_bytes_of_string, (parse_print t Hwf). reflexivity.
  Qed.

  Lemma dval_counted B (p : bytes -> res (dval * bytes)) n es :
    n = N.of_nat (List.length es) -> (n <= listValueMaxSize)%N -> Forall (elem_ok B p) es -> uniform es ->
    let q := fun r =>
      do '(m, r') <- read_num 4 r;
      if (listValueMaxSize <? m)%N then RErr r'
      else do '(l, r'') <- rep p m r'; ROk (DList l, r'') in
    eats B q (enc_u32 n ++ concat es) /\ strict B q (enc_u32 n ++ concat es).
  Proof.
    intros Hn Hle Hes Hu q. subst q.
    assert (Hlt : (n < 2 ^ 32)%N)
      by (unfold listValueMaxSize in Hle; change (2 ^ 32)%N with 4294967296%N; lia).
    assert (Hbig : (listValueMaxSize <? n)%N = false) by (apply N.ltb_ge; exact Hle).
    split.
    - intros rest Hlen. cbv beta. rewrite <- app_assoc, (read_u32_enc n _ Hlt). cbn [bind]. rewrite Hbig.
      destruct (rep_eats B p es Hes Hu rest) as [xs Hxs].
      { rewrite !app_length in Hlen. rewrite app_length. lia. }
      subst n. rewrite Hxs. cbn [bind]. eexists. reflexivity.
    - intros k Hk HB. cbv beta.
      destruct (read_u32_trunc n _ k Hlt Hk) as [[Hlt4 Hr]|[Hge [Hk' Hr]]];
        rewrite Hr; cbn [bind]; [apply fails_err|]. rewrite Hbig.
      apply fails_bind. subst n. apply (rep_strict B p es Hes Hu); [exact Hk'|lia].
  Qed.

  Lemma dval_raw B b :
    (N.of_nat (List.length b) <= rawValueMaxSize)%N ->
    let q := fun r =>
      do '(m, r') <- read_num 4 r;
      if (rawValueMaxSize <? m)%N then RErr r'
      else do '(b', r'') <- take_n (N.to_nat m) r'; ROk (DRaw b', r'') in
    eats B q (enc_u32 (N.of_nat (List.length b)) ++ b) /\
    strict B q (enc_u32 (N.of_nat (List.length b)) ++ b).
  Proof.
    intros Hle q. subst q.
    assert (Hlt : (N.of_nat (List.length b) < 2 ^ 32)%N)
      by (unfold rawValueMaxSize in Hle; change (2 ^ 32)%N with 4294967296%N; lia).
    assert (Hbig : (rawValueMaxSize <? N.of_nat (List.length b))%N = false) by (apply N.ltb_ge; exact Hle).
    split.
    - intros rest Hlen. cbv beta. rewrite <- app_assoc, (read_u32_enc _ _ Hlt). cbn [bind]. rewrite Hbig.
      rewrite Nat2N.id, take_n_app. cbn [bind]. eexists. reflexivity.
    - intros k Hk HB. cbv beta.
      destruct (read_u32_trunc _ _ k Hlt Hk) as [[Hlt4 Hr]|[Hge [Hk' Hr]]];
        rewrite Hr; cbn [bind]; [apply fails_err|]. rewrite Hbig.
      apply fails_bind. rewrite Nat2N.id, take_n_fail; [apply fails_err|]. rewrite firstn_length. lia.
  Qed.

  Lemma short_sig s :
    String.length s <= 3 -> (N.of_nat (List.length (bytes_of_string s)) <= MaxStringSize)%N.
  Proof. intro Hs. rewrite length_bytes_of_string. unfold MaxStringSize. lia. Qed.

  Lemma vacuous0 {A} (p : bytes -> res (A * bytes)) e : eats 0 p e /\ strict 0 p e.
  Proof. split; [intros rest Hlen|intros k Hk HB]; lia. Qed.

  Section ValueStrict.
    Hypothesis Hdrop : string_reader_drops_err c = false.

    (* fuel at least the bound on the input length is enough: every level of nesting
       consumes its signature *)
    Definition DQ (v : dval) : Prop :=
      wf_dval v -> forall f B, B <= f ->
        eats B (dec_dval parse c f) (enc_dval v) /\ strict B (dec_dval parse c f) (enc_dval v).

    Lemma dec_dval_strict : forall v, DQ v.
    Proof.
      induction v as [k b|s|l IH|b| |sg d] using dval_ind2; intros Hwf f B HBf;
        (destruct f as [|f]; [replace B with 0 by lia; apply vacuous0|]);
        apply (both_ext B _ _ _ (dec_dval_S f)).
      - inversion Hwf as [k' b' Hb Hbool| | | | |]; subst. cbn [enc_dval]. unfold sig_bytes.
        apply hdr_both; [apply short_sig; destruct k; cbn; lia|].
        apply (both_ext _ _ _ _ (dval_body_num f k)).
        exact (num_leaf (B - 4) (dkind_width k) b _ Hb).
      - inversion Hwf as [|s' Hs| | | |]; subst. cbn [enc_dval]. unfold sig_bytes.
        apply hdr_both; [apply short_sig; cbn; lia|].
        apply (both_ext _ _ _ _ (dval_body_str f)). split.
        + apply (eats_map _ read_str DStr). apply (exact_eats _ read_str s). apply read_str_exact. exact Hs.
        + apply (strict_map _ read_str DStr). apply read_str_strict. exact Hs.
      - inversion Hwf as [| |l' Hlen HF| | |]; subst. cbn [enc_dval]. unfold sig_bytes.
        rewrite flat_map_concat_map.
        apply hdr_both; [apply short_sig; cbn; lia|].
        apply (both_ext _ _ _ _ (dval_body_list f)).
        refine (dval_counted (B - 4) (dec_dval parse c f) _ (map enc_dval l) _ Hlen _ _);
          [now rewrite map_length| |].
        + apply Forall_map. apply Forall_forall. intros x Hin. rewrite Forall_forall in IH, HF.
          destruct (IH x Hin (HF x Hin) f (B - 4)) as [He Hs]; [lia|].
          split; [exact He|exact Hs].
        + left. apply Forall_map. apply Forall_forall. intros x _. exact (enc_dval_len_pos x).
      - inversion Hwf as [| | |b' Hlen| |]; subst. cbn [enc_dval]. unfold sig_bytes.
        apply hdr_both; [apply short_sig; cbn; lia|].
        apply (both_ext _ _ _ _ (dval_body_raw f)).
        exact (dval_raw (B - 4) b Hlen).
      - cbn [enc_dval]. unfold sig_bytes. rewrite <- (app_nil_r (enc_str (bytes_of_string "v"))).
        apply hdr_both; [apply short_sig; cbn; lia|].
        apply (both_ext _ _ _ _ (dval_body_void f)). split.
        + intros rest Hlen. exists DVoid. reflexivity.
        + intros k Hk HB. cbn in Hk. lia.
      - inversion Hwf as [| | | | |t v Hg Hlk Hno Hlen Hty]; subst. cbn [enc_dval].
        apply hdr_both; [rewrite length_bytes_of_string; exact Hlen|].
        apply (both_ext _ _ _ _ (fun r => dval_body_other f t r Hlk Hno Hg)). split.
        + intros rest Hlen'.
          destruct (sig_read_strict Hdrop v t (S (List.length (spec_enc v ++ rest)))
                      (S (List.length (spec_enc v ++ rest))) Hty) as [He _]; [lia|].
          destruct (He rest) as [x Hx]; [lia|]. rewrite Hx. cbn [bind]. eexists. reflexivity.
        + intros k Hk HB. apply fails_bind. rewrite (firstn_len_lt k _ Hk).
          apply (sig_read_prefix_gen Hdrop); [exact Hg|exact Hty|lia|exact Hk].
    Qed.
  End ValueStrict.

  Theorem new_value_prefix : forall v k, string_reader_drops_err c = false -> wf_dval v ->
    k < List.length (enc_dval v) -> fails (new_value parse c (firstn k (enc_dval v))).
  Proof.
    intros v k Hdrop Hwf Hk. unfold new_value. rewrite (firstn_len_lt k _ Hk).
    destruct (dec_dval_strict Hdrop v Hwf (S k) (S k) (le_n _)) as [_ Hst].
    apply Hst; [exact Hk|lia].
  Qed.
End P.

(* ---------- the switches are necessary: concrete witnesses ---------- *)
Definition wcfg_drops_err : wcfg :=
  {| value_reader_no_len := false; string_reader_drops_err := true; refl_drop8 := false;
     refl_struct_ignores_err := false; refl_neg_len_panics := false |}.
Definition wcfg_ignores_err : wcfg :=
  {| value_reader_no_len := false; string_reader_drops_err := false; refl_drop8 := false;
     refl_struct_ignores_err := true; refl_neg_len_panics := false |}.

(* reader.go stringReader: the struct (s)<A,a> holding "hello", cut after 5 of its 9 bytes,
   is read as a struct holding the empty string *)
Example sig_read_prefix_refuted :
  forall parse,
  let t := TStruct "A" [("a"%string, TS SStr)] in
  let v := VTup [VStr (bytes_of_string "hello")] in
  good_ty t = true /\ has_ty v t = true /\ dyn_depth v <= 0 /\ 5 < List.length (spec_enc v) /\
  sig_read parse wcfg_drops_err 0 t (firstn 5 (spec_enc v)) = ROk (enc_str [], []) /\
  sig_read parse wpinned 0 t (firstn 5 (spec_enc v)) = ROk (enc_str [], []).
Proof. intro parse. vm_compute. repeat split; try reflexivity; lia. Qed.

(* encoding.go qiDecoder.value: the struct (ii) = (1, 2) cut after 4 of its 8 bytes is
   decoded as (1, 0) *)
Example refl_dec_prefix_refuted :
  let t := TTuple [TS SI32; TS SI32] in
  let v := VTup [VNum 4 1; VNum 4 2] in
  good_ty t = true /\ has_ty v t = true /\ refl_domain t = true /\ lens_ok v = true /\
  4 < List.length (spec_enc v) /\
  refl_dec wcfg_ignores_err tval_eqb t (firstn 4 (spec_enc v)) = ROk (VTup [VNum 4 1; VNum 4 0], []) /\
  refl_dec wpinned tval_eqb t (firstn 4 (spec_enc v)) = ROk (VTup [VNum 4 1; VNum 4 0], []).
Proof. vm_compute. repeat split; try reflexivity; lia. Qed.

Print Assumptions spec_dec_prefix.
Print Assumptions sig_read_prefix.
Print Assumptions refl_dec_prefix.
Print Assumptions new_value_prefix.
Print Assumptions sig_read_prefix_refuted.
Print Assumptions refl_dec_prefix_refuted.
