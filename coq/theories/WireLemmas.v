(* WireLemmas.v — generic lemmas about the parser combinators of Wire.v (take_n, read_num,
   read_str, seq_with, rep_nat, rep, pair_with), the notion of a decoder being *exact* on an
   encoding, and inversion lemmas for has_ty.  Shared by WireProofs.v, ReflProofs.v,
   PrefixProofs.v. *)
From QV Require Import Wire.
From Coq Require Import ZifyN ZifyNat ZifyBool Lia.
Local Open Scope nat_scope.

Definition exact {A} (p : bytes -> res (A * bytes)) (x : A) (e : bytes) : Prop :=
  forall rest, p (e ++ rest) = ROk (x, rest).
Definition fails {A} (r : res A) : Prop := exists l, r = RErr l.

(* ---------- primitive readers ---------- *)
Lemma take_n_app_len : forall n (a rest : bytes),
  List.length a = n -> take_n n (a ++ rest) = ROk (a, rest).
Proof.
  intros n a rest Hn. subst n. unfold take_n.
  assert (Hlt : Nat.ltb (List.length (a ++ rest)) (List.length a) = false)
    by (apply Nat.ltb_ge; rewrite app_length; lia).
  rewrite Hlt, firstn_app_exact, skipn_app_exact. reflexivity.
Qed.

Lemma take_n_app : forall (a rest : bytes), take_n (List.length a) (a ++ rest) = ROk (a, rest).
Proof. intros a rest. now apply take_n_app_len. Qed.

Lemma take_n_exact : forall (a : bytes), exact (take_n (List.length a)) a a.
Proof. intros a rest. apply take_n_app. Qed.

Lemma read_num_le : forall w x rest,
  (x < 2 ^ (8 * N.of_nat w))%N -> read_num w (le w x ++ rest) = ROk (x, rest).
Proof.
  intros w x rest Hx. unfold read_num.
  rewrite (take_n_app_len w (le w x) rest (le_length w x)). cbn [bind].
  now rewrite unle_le_small.
Qed.

Lemma read_u32_enc : forall n rest,
  (n < 2 ^ 32)%N -> read_num 4 (enc_u32 n ++ rest) = ROk (n, rest).
Proof. intros n rest Hn. unfold enc_u32. apply read_num_le. exact Hn. Qed.

Lemma MaxStringSize_lt : (MaxStringSize < 2 ^ 32)%N.
Proof. reflexivity. Qed.

Lemma read_str_enc : forall s rest,
  (N.of_nat (List.length s) <= MaxStringSize)%N -> read_str (enc_str s ++ rest) = ROk (s, rest).
Proof.
  intros s rest Hs. unfold read_str, enc_str. rewrite <- app_assoc.
  pose proof MaxStringSize_lt as HM.
  rewrite read_u32_enc by lia. cbn [bind].
  destruct (N.of_nat (List.length s) =? 0)%N eqn:Hz.
  - destruct s as [|b s']; [reflexivity|]. cbn [List.length] in Hz. lia.
  - assert (Hle : (MaxStringSize <? N.of_nat (List.length s))%N = false) by lia.
    rewrite Hle. apply take_n_app_len. now rewrite Nat2N.id.
Qed.

Lemma read_str_exact : forall s,
  (N.of_nat (List.length s) <= MaxStringSize)%N -> exact read_str s (enc_str s).
Proof. intros s Hs rest. now apply read_str_enc. Qed.

Lemma enc_u32_length : forall n, List.length (enc_u32 n) = 4.
Proof. intro n. apply le_length. Qed.

Lemma enc_str_length : forall s, List.length (enc_str s) = 4 + List.length s.
Proof. intro s. unfold enc_str. now rewrite app_length, enc_u32_length. Qed.

(* ---------- sequencing combinators ---------- *)
Lemma bind_exact : forall {A B} (p : bytes -> res (A * bytes)) (g : A -> B) x e,
  exact p x e -> exact (fun bs => do '(a, r) <- p bs; ROk (g a, r)) (g x) e.
Proof. intros A B p g x e Hp rest. rewrite (Hp rest). reflexivity. Qed.

Lemma pair_with_exact : forall {A B} (pk : bytes -> res (A * bytes)) (pv : bytes -> res (B * bytes)) k v ek ev,
  exact pk k ek -> exact pv v ev -> exact (pair_with pk pv) (k, v) (ek ++ ev).
Proof.
  intros A B pk pv k v ek ev Hk Hv rest. unfold pair_with.
  rewrite <- app_assoc, (Hk (ev ++ rest)), (Hv rest). reflexivity.
Qed.

(* general form: the parsers return [f v] on the encoding [enc v] *)
Lemma seq_with_exact_gen : forall {A B} (f : B -> A) (enc : B -> bytes) ps (l : list B),
  Forall2 (fun p v => exact p (f v) (enc v)) ps l ->
  exact (seq_with ps) (map f l) (flat_map enc l).
Proof.
  intros A B f enc ps l HF. induction HF as [|p v ps' l' Hp HF' IH]; intro rest.
  - reflexivity.
  - cbn [seq_with map flat_map]. rewrite <- app_assoc, (Hp (flat_map enc l' ++ rest)), (IH rest).
    reflexivity.
Qed.

Lemma seq_with_exact : forall {A} (enc : A -> bytes) ps (l : list A),
  Forall2 (fun p v => exact p v (enc v)) ps l -> exact (seq_with ps) l (flat_map enc l).
Proof.
  intros A enc ps l HF. rewrite <- (map_id l) at 1.
  apply (seq_with_exact_gen (fun v => v) enc ps l HF).
Qed.

Lemma rep_nat_exact_gen : forall {A B} (f : B -> A) (enc : B -> bytes) p (l : list B),
  Forall (fun v => exact p (f v) (enc v)) l ->
  exact (rep_nat p (List.length l)) (map f l) (flat_map enc l).
Proof.
  intros A B f enc p l HF. induction HF as [|v l' Hp HF' IH]; intro rest.
  - reflexivity.
  - cbn [rep_nat List.length map flat_map].
    rewrite <- app_assoc, (Hp (flat_map enc l' ++ rest)), (IH rest). reflexivity.
Qed.

Lemma rep_nat_exact : forall {A} (enc : A -> bytes) p (l : list A),
  Forall (fun v => exact p v (enc v)) l -> exact (rep_nat p (List.length l)) l (flat_map enc l).
Proof.
  intros A enc p l HF. rewrite <- (map_id l) at 2.
  apply (rep_nat_exact_gen (fun v => v) enc p l HF).
Qed.

Lemma flat_map_length_ge : forall {B} (enc : B -> bytes) (l : list B),
  Forall (fun v => 1 <= List.length (enc v)) l -> List.length l <= List.length (flat_map enc l).
Proof.
  intros B enc l HF. induction HF as [|v l' Hv HF' IH]; [reflexivity|].
  cbn [flat_map List.length]. rewrite app_length. lia.
Qed.

(* the encodings of the members of one container: all of at least one byte (the count fits
   in the input, [rep] is the plain loop), or all empty (zero-width elements: lists of void,
   of empty tuples ...; [rep] may take either branch) *)
Definition uniform (es : list bytes) : Prop :=
  Forall (fun e => 1 <= List.length e) es \/ Forall (fun e => e = []) es.

Lemma flat_map_nil : forall {B} (enc : B -> bytes) (l : list B),
  Forall (fun e => e = []) (map enc l) -> flat_map enc l = [].
Proof.
  intros B enc l HF. apply Forall_map in HF. induction HF as [|v l' Hv HF' IH]; [reflexivity|].
  cbn [flat_map]. rewrite Hv, IH. reflexivity.
Qed.

Lemma map_const_repeat : forall {A B} (f : B -> A) (l : list B) z,
  Forall (fun v => f v = z) l -> map f l = repeat z (List.length l).
Proof.
  intros A B f l z HF. induction HF as [|v l' Hv HF' IH]; [reflexivity|].
  cbn [map List.length repeat]. rewrite Hv, IH. reflexivity.
Qed.

(* a parser that is exact on the empty encoding returns one and the same result *)
Lemma exact_nil_unique : forall {A} (p : bytes -> res (A * bytes)) x y,
  exact p x [] -> exact p y [] -> x = y.
Proof.
  intros A p x y Hx Hy. specialize (Hx []). specialize (Hy []). rewrite Hx in Hy. now injection Hy.
Qed.

(* zero-width elements: whichever branch [rep] takes, the result is the count followed by
   nothing, decoded as that many copies of the one value the element parser returns *)
Lemma rep_exact_nil : forall {A B} (f : B -> A) (enc : B -> bytes) p (l : list B) n,
  n = N.of_nat (List.length l) ->
  Forall (fun v => exact p (f v) (enc v)) l ->
  Forall (fun e => e = []) (map enc l) ->
  exact (rep p n) (map f l) (flat_map enc l).
Proof.
  intros A B f enc p l n Hn HF Hnil rest. rewrite (flat_map_nil enc l Hnil). cbn [app].
  unfold rep. destruct (N.of_nat (List.length rest) <? n)%N eqn:Hlt.
  - destruct l as [|v l'].
    + subst n. reflexivity.
    + cbn [rep_slow]. assert (Hnz : (n =? 0)%N = false) by (cbn [List.length] in Hn; lia).
      rewrite Hnz.
      apply Forall_map in Hnil.
      assert (Hv : exact p (f v) []).
      { inversion HF as [|v0 l0 Hv0 HF0]; subst. inversion Hnil as [|v1 l1 Hv1 Hn1]; subst.
        rewrite Hv1 in Hv0. exact Hv0. }
      pose proof (Hv rest) as Hp. cbn [app] in Hp. rewrite Hp.
      assert (Hlt' : Nat.ltb (List.length rest) (List.length rest) = false) by (apply Nat.ltb_ge; lia).
      rewrite Hlt'. cbn [rev app]. subst n. rewrite Nat2N.id.
      rewrite (map_const_repeat f (v :: l') (f v)); [reflexivity|].
      rewrite Forall_forall in HF, Hnil |- *. intros x Hin.
      pose proof (HF x Hin) as Hx. rewrite (Hnil x Hin) in Hx. exact (exact_nil_unique p _ _ Hx Hv).
  - subst n. rewrite Nat2N.id.
    pose proof (rep_nat_exact_gen f enc p l HF rest) as Hr.
    rewrite (flat_map_nil enc l Hnil) in Hr. exact Hr.
Qed.

Lemma rep_exact_gen : forall {A B} (f : B -> A) (enc : B -> bytes) p (l : list B) n,
  n = N.of_nat (List.length l) ->
  Forall (fun v => exact p (f v) (enc v)) l ->
  uniform (map enc l) ->
  exact (rep p n) (map f l) (flat_map enc l).
Proof.
  intros A B f enc p l n Hn HF [Hsz|Hnil]; [|now apply rep_exact_nil].
  intro rest. unfold rep.
  apply (proj1 (Forall_map enc (fun e => 1 <= List.length e) l)) in Hsz. cbv beta in Hsz.
  assert (Hlen : List.length l <= List.length (flat_map enc l ++ rest)).
  { rewrite app_length. pose proof (flat_map_length_ge enc l Hsz) as Hge. lia. }
  assert (Hlt : (N.of_nat (List.length (flat_map enc l ++ rest)) <? n)%N = false) by lia.
  rewrite Hlt. subst n. rewrite Nat2N.id.
  apply rep_nat_exact_gen. exact HF.
Qed.

Lemma rep_exact : forall {A} (enc : A -> bytes) p (l : list A) n,
  n = N.of_nat (List.length l) ->
  Forall (fun v => exact p v (enc v)) l ->
  uniform (map enc l) ->
  exact (rep p n) l (flat_map enc l).
Proof.
  intros A enc p l n Hn HF Hu. rewrite <- (map_id l) at 1.
  apply (rep_exact_gen (fun v => v) enc p l n Hn HF Hu).
Qed.

(* ---------- has_ty: unfolding equations and inversion per value constructor ---------- *)
Lemma has_ty_obj : forall v, has_ty v (TS SObject) = has_ty v ty_ObjectReference.
Proof. intro v. destruct v; reflexivity. Qed.

Lemma has_ty_expand1 : forall v t, has_ty v (expand1 t) = has_ty v t.
Proof.
  intros v t. destruct t as [s| | | |]; try reflexivity.
  destruct s; try reflexivity. cbn [expand1]. symmetry. apply has_ty_obj.
Qed.

Lemma expand1_cases : forall t, t = TS SObject \/ expand1 t = t.
Proof. intro t. destruct t as [[]| | | |]; auto. Qed.

Lemma has_ty_tuple_cons : forall x l t ts,
  has_ty (VTup (x :: l)) (TTuple (t :: ts)) = has_ty x t && has_ty (VTup l) (TTuple ts).
Proof. intros x l t ts. destruct l; reflexivity. Qed.

Lemma has_ty_struct_cons : forall x l n f fs,
  has_ty (VTup (x :: l)) (TStruct n (f :: fs)) = has_ty x (snd f) && has_ty (VTup l) (TStruct n fs).
Proof. intros x l n f fs. destruct l; reflexivity. Qed.

Lemma has_ty_tuple_iff : forall l ts,
  has_ty (VTup l) (TTuple ts) = true <-> Forall2 (fun x t => has_ty x t = true) l ts.
Proof.
  induction l as [|x l IH]; intros [|t ts]; split; intro H;
    try (constructor; fail); try (cbn in H; discriminate); try (inversion H; fail); try reflexivity.
  - rewrite has_ty_tuple_cons in H. apply andb_true_iff in H as [Hx Hl].
    constructor; [exact Hx|]. now apply IH.
  - inversion H as [|x' t' l' ts' Hx Hl]; subst. rewrite has_ty_tuple_cons, Hx. cbn [andb]. now apply IH.
Qed.

Lemma has_ty_struct_iff : forall n l fs,
  has_ty (VTup l) (TStruct n fs) = true <-> Forall2 (fun x f => has_ty x (snd f) = true) l fs.
Proof.
  intro n. induction l as [|x l IH]; intros [|f fs]; split; intro H;
    try (constructor; fail); try (cbn in H; discriminate); try (inversion H; fail); try reflexivity.
  - rewrite has_ty_struct_cons in H. apply andb_true_iff in H as [Hx Hl].
    constructor; [exact Hx|]. now apply IH.
  - inversion H as [|x' t' l' ts' Hx Hl]; subst. rewrite has_ty_struct_cons, Hx. cbn [andb]. now apply IH.
Qed.

Lemma has_ty_VNum : forall w b t, has_ty (VNum w b) t = true ->
  exists s, t = TS s /\ scalar_width s = Some w /\ (b < 2 ^ (8 * N.of_nat w))%N.
Proof.
  intros w b t H. destruct t as [s| | | |]; try (cbn in H; discriminate).
  destruct s; try (cbn in H; discriminate);
    cbn [has_ty expand1 scalar_width] in H; apply andb_true_iff in H as [Hw Hb];
    apply Nat.eqb_eq in Hw; subst w; eexists; (split; [reflexivity|]); (split; [reflexivity|]);
    apply N.ltb_lt; exact Hb.
Qed.

Lemma has_ty_VBool : forall b t, has_ty (VBool b) t = true -> t = TS SBool.
Proof.
  intros b t H. destruct t as [s| | | |]; try (cbn in H; discriminate).
  destruct s; try (cbn in H; discriminate). reflexivity.
Qed.

Lemma has_ty_VStr : forall s t, has_ty (VStr s) t = true ->
  t = TS SStr /\ (N.of_nat (List.length s) <= MaxStringSize)%N.
Proof.
  intros s t H. destruct t as [s0| | | |]; try (cbn in H; discriminate).
  destruct s0; try (cbn in H; discriminate). cbn [has_ty expand1] in H.
  split; [reflexivity|]. apply N.leb_le. exact H.
Qed.

Lemma has_ty_VList : forall l t, has_ty (VList l) t = true ->
  exists t', t = TList t' /\ (N.of_nat (List.length l) < 2 ^ 31)%N /\ Forall (fun x => has_ty x t' = true) l.
Proof.
  intros l t H. destruct t as [s|t'| | |]; try (cbn in H; discriminate).
  - destruct s; cbn in H; discriminate.
  - cbn [has_ty expand1] in H. apply andb_true_iff in H as [Hn Hl].
    exists t'. split; [reflexivity|]. split; [apply N.ltb_lt; exact Hn|].
    apply Forall_forall. intros x Hx. exact (proj1 (forallb_forall _ _) Hl x Hx).
Qed.

Lemma has_ty_VMap : forall kvs t, has_ty (VMap kvs) t = true ->
  exists tk tv, t = TMap tk tv /\ (N.of_nat (List.length kvs) < 2 ^ 31)%N /\
    Forall (fun kv => has_ty (fst kv) tk = true /\ has_ty (snd kv) tv = true) kvs.
Proof.
  intros kvs t H. destruct t as [s| |tk tv| |]; try (cbn in H; discriminate).
  - destruct s; cbn in H; discriminate.
  - cbn [has_ty expand1] in H. apply andb_true_iff in H as [Hn Hl].
    exists tk, tv. split; [reflexivity|]. split; [apply N.ltb_lt; exact Hn|].
    apply Forall_forall. intros kv Hkv.
    pose proof (proj1 (forallb_forall _ _) Hl kv Hkv) as Hb. cbv beta in Hb.
    apply andb_true_iff in Hb. exact Hb.
Qed.

Lemma has_ty_VTup : forall l t, has_ty (VTup l) t = true ->
  (exists ts, t = TTuple ts /\ Forall2 (fun x t' => has_ty x t' = true) l ts) \/
  (exists n fs, t = TStruct n fs /\ Forall2 (fun x f => has_ty x (snd f) = true) l fs) \/
  (t = TS SVoid /\ l = []) \/
  (t = TS SObject /\ has_ty (VTup l) ty_ObjectReference = true).
Proof.
  intros l t H. destruct t as [s| | |ts|n fs].
  - destruct s; try (destruct l; cbn in H; discriminate).
    + right; right; right. split; [reflexivity|]. rewrite <- has_ty_obj. exact H.
    + right; right; left. split; [reflexivity|]. destruct l as [|x l']; [reflexivity|cbn in H; discriminate].
  - destruct l; cbn in H; discriminate.
  - destruct l; cbn in H; discriminate.
  - left. exists ts. split; [reflexivity|]. now apply has_ty_tuple_iff.
  - right; left. exists n, fs. split; [reflexivity|]. now apply (has_ty_struct_iff n).
Qed.

(* the same with "o" read as its structure *)
Lemma has_ty_VTup_expand : forall l t, has_ty (VTup l) t = true ->
  (exists ts, t = TTuple ts /\ Forall2 (fun x t' => has_ty x t' = true) l ts) \/
  (exists n fs, expand1 t = TStruct n fs /\ Forall2 (fun x f => has_ty x (snd f) = true) l fs) \/
  (t = TS SVoid /\ l = []).
Proof.
  intros l t H. destruct (has_ty_VTup l t H) as [Ht|[(n & fs & Ht & HF)|[Hv|[Ho Hl]]]].
  - left; exact Ht.
  - right; left. exists n, fs. subst t. split; [reflexivity|exact HF].
  - right; right; exact Hv.
  - right; left. subst t. cbn [expand1]. unfold ty_ObjectReference in *.
    eexists _, _. split; [reflexivity|]. eapply has_ty_struct_iff. exact Hl.
Qed.

Lemma has_ty_VDyn_eq : forall t' v',
  has_ty (VDyn t' v') (TS SValue) =
  wf_ty t' && (N.of_nat (String.length (print t')) <=? MaxStringSize)%N && has_ty v' t'.
Proof. reflexivity. Qed.

Lemma has_ty_VDyn : forall t' v' t, has_ty (VDyn t' v') t = true ->
  t = TS SValue /\ wf_ty t' = true /\
  (N.of_nat (String.length (print t')) <= MaxStringSize)%N /\ has_ty v' t' = true.
Proof.
  intros t' v' t H. destruct t as [s| | | |]; try (cbn in H; discriminate).
  destruct s; try (cbn in H; discriminate). rewrite has_ty_VDyn_eq in H.
  apply andb_true_iff in H as [H Hv]. apply andb_true_iff in H as [Hg Hn].
  split; [reflexivity|]. split; [exact Hg|]. split; [apply N.leb_le; exact Hn|exact Hv].
Qed.

Lemma good_ty_wf : forall t, good_ty t = true -> wf_ty t = true.
Proof. intros t H. unfold good_ty in H. now apply andb_true_iff in H as [H _]. Qed.
Lemma good_ty_wfz : forall t, good_ty t = true -> wfz t = true.
Proof. intros t H. unfold good_ty in H. now apply andb_true_iff in H as [_ H]. Qed.

(* the signature string of a dynamic value, on the wire and back *)
Lemma length_bytes_of_string : forall s, List.length (bytes_of_string s) = String.length s.
Proof.
  intro s. unfold bytes_of_string, list_byte_of_string. rewrite map_length.
  induction s as [|a s' IH]; [reflexivity|]. cbn [list_ascii_of_string List.length String.length]. now rewrite IH.
Qed.
Lemma string_of_bytes_of_string : forall s, string_of_bytes (bytes_of_string s) = s.
Proof. intro s. unfold string_of_bytes, bytes_of_string. apply string_of_list_byte_of_string. Qed.

(* ---------- plain types: no "m" and no "o" anywhere ---------- *)
Fixpoint plain (t : ty) : bool :=
  match t with
  | TS SValue | TS SObject => false
  | TS _ => true
  | TList t' => plain t'
  | TMap k v => plain k && plain v
  | TTuple ts => forallb plain ts
  | TStruct _ fs => forallb (fun f => plain (snd f)) fs
  end.

Lemma plain_ObjectReference : plain ty_ObjectReference = true.
Proof. reflexivity. Qed.
Lemma wfz_ObjectReference : wfz ty_ObjectReference = true.
Proof. reflexivity. Qed.
Lemma good_ObjectReference : good_ty ty_ObjectReference = true.
Proof. vm_compute. reflexivity. Qed.

Lemma min_width_expand1 : forall t, min_width (expand1 t) = min_width t.
Proof. intro t. destruct t as [[]| | | |]; reflexivity. Qed.

Lemma plain_expand1 : forall t, plain t = true -> expand1 t = t.
Proof. intros t H. destruct t as [[]| | | |]; try reflexivity. cbn in H; discriminate. Qed.

(* Forall2 over a typed tuple against forallb of a property of the types *)
Lemma forallb_Forall2_r : forall {A B} (q : B -> bool) (R : A -> B -> Prop) (l : list A) (ts : list B),
  forallb q ts = true -> Forall2 R l ts -> Forall2 (fun x t => R x t /\ q t = true) l ts.
Proof.
  intros A B q R l ts Hq HF. induction HF as [|x t l' ts' Hx HF' IH]; [constructor|].
  cbn [forallb] in Hq. apply andb_true_iff in Hq as [Hq1 Hq2]. constructor; [split; assumption|]. now apply IH.
Qed.
