(* ReflProofs.v — the reflection codec (type/encoding/encoding.go) against the documented
   serialization: structural equality is equality, the encoder writes the documented bytes,
   the decoder reads them back exactly (design/WIRE_THEOREMS.md, section ReflProofs.v). *)
From Coq Require Import ZifyN ZifyNat ZifyBool.
From QV Require Import Wire WireLemmas WireProofs.
Local Open Scope N_scope.

(* ---------- structural equality ---------- *)
Lemma scalar_eqb_eq : forall a b, scalar_eqb a b = true <-> a = b.
Proof. intros a b; split; intro H; [destruct a, b; (reflexivity || discriminate)| subst b; destruct a; reflexivity]. Qed.

Lemma ty_eqb_refl : forall t, ty_eqb t t = true.
Proof.
  induction t as [s|t IHt|k v IHk IHv|ts IHts|n fs IHfs] using ty_ind2; cbn [ty_eqb].
  - now apply scalar_eqb_eq.
  - exact IHt.
  - now rewrite IHk, IHv.
  - induction IHts as [|x r Hx Hr IH]; [reflexivity|]. now rewrite Hx, IH.
  - rewrite String.eqb_refl. cbn [andb].
    induction IHfs as [|[a x] r Hx Hr IH]; [reflexivity|]. cbn [snd] in Hx.
    now rewrite String.eqb_refl, Hx, IH.
Qed.

Lemma ty_eqb_true : forall a b, ty_eqb a b = true -> a = b.
Proof.
  induction a as [s|t IHt|k v IHk IHv|ts IHts|n fs IHfs] using ty_ind2; intros b H;
    destruct b as [s'|t'|k' v'|ts'|n' fs']; cbn [ty_eqb] in H; try discriminate.
  - f_equal. now apply scalar_eqb_eq.
  - f_equal. now apply IHt.
  - apply andb_true_iff in H as [H1 H2]. f_equal; [now apply IHk|now apply IHv].
  - f_equal. revert ts' H.
    induction IHts as [|x r Hx Hr IH]; intros [|y r'] H; try discriminate; [reflexivity|].
    apply andb_true_iff in H as [H1 H2]. f_equal; [now apply Hx|now apply IH].
  - apply andb_true_iff in H as [Hn H]. apply String.eqb_eq in Hn. subst n'. f_equal.
    revert fs' H.
    induction IHfs as [|[a x] r Hx Hr IH]; intros [|[b y] r'] H; try discriminate; [reflexivity|].
    cbn [snd] in Hx.
    apply andb_true_iff in H as [H12 H3]. apply andb_true_iff in H12 as [H1 H2].
    apply String.eqb_eq in H1. subst b. f_equal; [f_equal; now apply Hx|now apply IH].
Qed.

Lemma ty_eqb_eq : forall a b, ty_eqb a b = true <-> a = b.
Proof. intros a b; split; [apply ty_eqb_true|intro H; subst b; apply ty_eqb_refl]. Qed.

Lemma tval_eqb_refl : forall a, tval_eqb a a = true.
Proof.
  induction a as [w b|b|s|l IHl|kvs IHkvs|l IHl|t v IHv] using tval_ind2; cbn [tval_eqb].
  - now rewrite Nat.eqb_refl, N.eqb_refl.
  - now destruct b.
  - now apply eqb_bytes_eq.
  - induction IHl as [|x r Hx Hr IH]; [reflexivity|]. now rewrite Hx, IH.
  - induction IHkvs as [|[k v] r [Hk Hv] Hr IH]; [reflexivity|]. cbn [fst snd] in Hk, Hv.
    now rewrite Hk, Hv, IH.
  - induction IHl as [|x r Hx Hr IH]; [reflexivity|]. now rewrite Hx, IH.
  - now rewrite ty_eqb_refl, IHv.
Qed.

Lemma tval_eqb_true : forall a b, tval_eqb a b = true -> a = b.
Proof.
  induction a as [w x|x|s|l IHl|kvs IHkvs|l IHl|t v IHv] using tval_ind2; intros b H;
    destruct b as [w' y|y|s'|l'|kvs'|l'|t' v']; cbn [tval_eqb] in H; try discriminate.
  - apply andb_true_iff in H as [H1 H2]. apply Nat.eqb_eq in H1. apply N.eqb_eq in H2. now subst.
  - f_equal. now apply Bool.eqb_prop.
  - f_equal. now apply eqb_bytes_eq.
  - f_equal. revert l' H.
    induction IHl as [|x r Hx Hr IH]; intros [|y r'] H; try discriminate; [reflexivity|].
    apply andb_true_iff in H as [H1 H2]. f_equal; [now apply Hx|now apply IH].
  - f_equal. revert kvs' H.
    induction IHkvs as [|[k v] r [Hk Hv] Hr IH]; intros [|[k' v'] r'] H; try discriminate; [reflexivity|].
    cbn [fst snd] in Hk, Hv.
    apply andb_true_iff in H as [H12 H3]. apply andb_true_iff in H12 as [H1 H2].
    f_equal; [f_equal; [now apply Hk|now apply Hv]|now apply IH].
  - f_equal. revert l' H.
    induction IHl as [|x r Hx Hr IH]; intros [|y r'] H; try discriminate; [reflexivity|].
    apply andb_true_iff in H as [H1 H2]. f_equal; [now apply Hx|now apply IH].
  - apply andb_true_iff in H as [H1 H2]. apply ty_eqb_true in H1. apply IHv in H2. now subst.
Qed.

Lemma tval_eqb_eq : forall a b, tval_eqb a b = true <-> a = b.
Proof. intros a b; split; [apply tval_eqb_true|intro H; subst b; apply tval_eqb_refl]. Qed.

Lemma refl_domain_expand1_r : forall t, refl_domain t = true -> refl_domain (expand1 t) = true.
Proof. intros t H. destruct t as [[]| | | |]; exact H. Qed.

Lemma flat_map_ext_Forall {A B} (f g : A -> list B) (l : list A) :
  Forall (fun x => f x = g x) l -> flat_map f l = flat_map g l.
Proof. intro H. induction H as [|x r Hx Hr IH]; [reflexivity|]. cbn [flat_map]. now rewrite Hx, IH. Qed.

(* the reflection codec never parses a signature: of the variables of the common Section P
   only the configuration is needed here *)
Section P.
  Variable c : wcfg.

  (* ---------- the encoder writes the documented bytes ---------- *)
  Theorem refl_enc_spec : forall v t,
    refl_drop8 c = false -> has_ty v t = true -> refl_domain t = true -> refl_enc c v = spec_enc v.
  Proof.
    intros v t Hd8. revert t.
    induction v as [w b|b|s|l IHl|kvs IHkvs|l IHl|t' v' IHv] using tval_ind2; intros t Hty Hdom;
      cbn [refl_enc spec_enc].
    - now rewrite Hd8, andb_false_r.
    - reflexivity.
    - reflexivity.
    - apply has_ty_VList in Hty as [t' [Et [Hlen Hall]]]. subst t. cbn [refl_domain] in Hdom.
      unfold enc_u32. f_equal. apply flat_map_ext_Forall.
      rewrite Forall_forall in IHl, Hall |- *. intros x Hx. apply (IHl x Hx t'); auto.
    - apply has_ty_VMap in Hty as [tk [tv [Et [Hlen Hall]]]]. subst t. cbn [refl_domain] in Hdom.
      apply andb_true_iff in Hdom as [Hdk Hdv].
      unfold enc_u32. f_equal. apply flat_map_ext_Forall.
      rewrite Forall_forall in IHkvs, Hall |- *. intros kv Hkv.
      destruct (IHkvs kv Hkv) as [IHk IHv]. destruct (Hall kv Hkv) as [Hk Hv].
      now rewrite (IHk tk), (IHv tv).
    - apply flat_map_ext_Forall.
      apply has_ty_VTup_expand in Hty as [[ts [Et Hall]]|[[n [fs [Et Hall]]]|[Et El]]].
      + subst t. cbn [refl_domain] in Hdom. rewrite forallb_forall in Hdom.
        induction Hall as [|x t l ts Hx Hr IH]; [constructor|].
        inversion IHl as [|x' l' IHx IHr]; subst.
        constructor; [apply (IHx t); [exact Hx|apply Hdom; now left]|].
        apply IH; [exact IHr|]. intros t0 Ht0. apply Hdom. now right.
      + apply refl_domain_expand1_r in Hdom. rewrite Et in Hdom. cbn [refl_domain] in Hdom.
        rewrite forallb_forall in Hdom.
        clear Et. induction Hall as [|x f l fs Hx Hr IH]; [constructor|].
        inversion IHl as [|x' l' IHx IHr]; subst.
        constructor; [apply (IHx (snd f)); [exact Hx|apply (Hdom f); now left]|].
        apply IH; [exact IHr|]. intros f0 Hf0. apply Hdom. now right.
      + subst l. constructor.
    - apply has_ty_VDyn in Hty as [Et _]. subst t. discriminate Hdom.
  Qed.

  (* ---------- struct fields read in sequence ---------- *)
  Lemma fields_with_exact : forall (ps : list ((bytes -> res (tval * bytes)) * tval)) (l : list tval),
    Forall2 (fun pz x => exact (fst pz) x (spec_enc x)) ps l ->
    exact (fields_with c ps) l (flat_map spec_enc l).
  Proof.
    intros ps l H. induction H as [|[p z] x ps l Hx Hr IH]; intro rest; [reflexivity|].
    cbn [fst] in Hx. cbn [fields_with flat_map]. rewrite <- app_assoc, Hx, IH. reflexivity.
  Qed.

  (* ---------- side conditions of the decoder theorem ---------- *)
  (* every list and map has at most listValueMaxSize entries *)
  Fixpoint lens_ok (v : tval) : bool :=
    match v with
    | VList l => (N.of_nat (List.length l) <=? listValueMaxSize) && forallb lens_ok l
    | VMap kvs => (N.of_nat (List.length kvs) <=? listValueMaxSize)
                  && forallb (fun kv => lens_ok (fst kv) && lens_ok (snd kv)) kvs
    | VTup l => forallb lens_ok l
    | VDyn _ v' => lens_ok v'
    | _ => true
    end.

  (* map keys pairwise distinct, at every map *)
  Fixpoint keys_nodup (v : tval) : Prop :=
    match v with
    | VList l | VTup l => fold_right (fun x a => keys_nodup x /\ a) True l
    | VMap kvs => NoDup (map fst kvs)
                  /\ fold_right (fun kv a => (keys_nodup (fst kv) /\ keys_nodup (snd kv)) /\ a) True kvs
    | VDyn _ v' => keys_nodup v'
    | _ => True
    end.

  Lemma fold_right_and_Forall {A} (P : A -> Prop) (l : list A) :
    fold_right (fun x a => P x /\ a) True l <-> Forall P l.
  Proof.
    induction l as [|x l IH]; cbn [fold_right]; split; intro H.
    - constructor.
    - exact I.
    - destruct H as [Hx Hl]. constructor; [exact Hx|now apply IH].
    - inversion H as [|x' l' Hx Hl]; subst. split; [exact Hx|now apply IH].
  Qed.

  Lemma keys_nodup_VList : forall l, keys_nodup (VList l) <-> Forall keys_nodup l.
  Proof. intro l. cbn [keys_nodup]. apply fold_right_and_Forall. Qed.
  Lemma keys_nodup_VTup : forall l, keys_nodup (VTup l) <-> Forall keys_nodup l.
  Proof. intro l. cbn [keys_nodup]. apply fold_right_and_Forall. Qed.
  Lemma keys_nodup_VMap : forall kvs, keys_nodup (VMap kvs) <->
    NoDup (map fst kvs) /\ Forall (fun kv => keys_nodup (fst kv) /\ keys_nodup (snd kv)) kvs.
  Proof.
    intro kvs. cbn [keys_nodup].
    rewrite (fold_right_and_Forall (fun kv => keys_nodup (fst kv) /\ keys_nodup (snd kv))). reflexivity.
  Qed.

  (* ---------- insertion into a map whose keys are distinct keeps the order ---------- *)
  Lemma map_insert_fresh : forall m k v, ~ In k (map fst m) -> map_insert tval_eqb m k v = m ++ [(k, v)].
  Proof.
    induction m as [|[k' v'] m IH]; intros k v Hnin; [reflexivity|].
    cbn [map_insert app]. cbn [map fst In] in Hnin.
    destruct (tval_eqb k k') eqn:E.
    - apply tval_eqb_eq in E. subst k'. elim Hnin. now left.
    - rewrite IH; [reflexivity|]. intro Hin. apply Hnin. now right.
  Qed.

  Lemma map_of_acc_nodup : forall kvs acc, NoDup (map fst (acc ++ kvs)) ->
    fold_left (fun m kv => map_insert tval_eqb m (fst kv) (snd kv)) kvs acc = acc ++ kvs.
  Proof.
    induction kvs as [|[k v] kvs IH]; intros acc Hnd; [now rewrite app_nil_r|].
    cbn [fold_left fst snd].
    rewrite map_insert_fresh.
    - rewrite IH; [now rewrite <- app_assoc|]. now rewrite <- app_assoc.
    - rewrite map_app in Hnd. cbn [map fst] in Hnd. apply NoDup_remove_2 in Hnd.
      intro Hin. apply Hnd. apply in_or_app. now left.
  Qed.

  Lemma map_of_nodup : forall kvs, NoDup (map fst kvs) -> map_of tval_eqb kvs = kvs.
  Proof. intros kvs Hnd. unfold map_of. now rewrite map_of_acc_nodup. Qed.

  (* ---------- typing read from the type side ---------- *)
  Lemma has_ty_TList_inv : forall v t', has_ty v (TList t') = true ->
    exists l, v = VList l /\ N.of_nat (List.length l) < 2 ^ 31 /\ Forall (fun x => has_ty x t' = true) l.
  Proof.
    intros v t' H. destruct v as [w b|b|s|l|kvs|l|t0 v0]; try discriminate H; try (destruct l; discriminate H).
    apply has_ty_VList in H as [t1 [Et [Hlen Hall]]]. injection Et as <-. exists l. auto.
  Qed.

  Lemma has_ty_TMap_inv : forall v tk tv, has_ty v (TMap tk tv) = true ->
    exists kvs, v = VMap kvs /\ N.of_nat (List.length kvs) < 2 ^ 31 /\
      Forall (fun kv => has_ty (fst kv) tk = true /\ has_ty (snd kv) tv = true) kvs.
  Proof.
    intros v tk tv H. destruct v as [w b|b|s|l|kvs|l|t0 v0]; try discriminate H; try (destruct l; discriminate H).
    apply has_ty_VMap in H as [tk1 [tv1 [Et [Hlen Hall]]]]. injection Et as <- <-. exists kvs. auto.
  Qed.

  Lemma has_ty_TTuple_inv : forall v ts, has_ty v (TTuple ts) = true ->
    exists l, v = VTup l /\ Forall2 (fun x t => has_ty x t = true) l ts.
  Proof.
    intros v ts H. destruct v as [w b|b|s|l|kvs|l|t0 v0]; try discriminate H.
    exists l. split; [reflexivity|]. now apply has_ty_tuple_iff.
  Qed.

  Lemma has_ty_TStruct_inv : forall v n fs, has_ty v (TStruct n fs) = true ->
    exists l, v = VTup l /\ Forall2 (fun x f => has_ty x (snd f) = true) l fs.
  Proof.
    intros v n fs H. destruct v as [w b|b|s|l|kvs|l|t0 v0]; try discriminate H.
    exists l. split; [reflexivity|]. now apply (has_ty_struct_iff n).
  Qed.

  Lemma Forall2_flip_map {A B C} (R : A -> B -> Prop) (S : C -> A -> Prop) (g : B -> C) (l : list A) (ts : list B) :
    Forall2 R l ts -> (forall x t, In x l -> In t ts -> R x t -> S (g t) x) -> Forall2 S (map g ts) l.
  Proof.
    intro H. induction H as [|x t l ts Hxt Hr IH]; intro Hs; [constructor|].
    cbn [map]. constructor.
    - apply Hs; [now left|now left|exact Hxt].
    - apply IH. intros y u Hy Hu. apply Hs; now right.
  Qed.

  Lemma as_int32_small : forall n, n <= listValueMaxSize ->
    (Z.of_N listValueMaxSize <? as_int32 n)%Z = false /\ (as_int32 n <? 0)%Z = false.
  Proof.
    intros n Hn. unfold as_int32, listValueMaxSize in *.
    replace (n <? 2 ^ 31) with true by (symmetry; apply N.ltb_lt; lia).
    split; apply Z.ltb_ge; lia.
  Qed.

  (* no object reference anywhere in the type *)
  Fixpoint noobj (t : ty) : bool :=
    match t with
    | TS SObject => false
    | TS _ => true
    | TList t' => noobj t'
    | TMap k v => noobj k && noobj v
    | TTuple ts => forallb noobj ts
    | TStruct _ fs => forallb (fun f => noobj (snd f)) fs
    end.

  (* ---------- the decoder reads a valid encoding back, exactly ---------- *)
  Section Body.
    Variable obj : bytes -> res (tval * bytes).
    Variable Q : Prop.
    Hypothesis Hd8 : refl_drop8 c = false.
    Hypothesis Hobj : Q -> forall v, has_ty v ty_ObjectReference = true -> lens_ok v = true -> keys_nodup v ->
      exact obj v (spec_enc v).

    Definition body_exact (t : ty) : Prop := forall v,
      (noobj t = true \/ Q) -> refl_domain t = true ->
      has_ty v t = true -> lens_ok v = true -> keys_nodup v ->
      exact (refl_body c tval_eqb obj t) v (spec_enc v).

    Lemma body_exact_TS : forall s, body_exact (TS s).
    Proof.
      intros s v HQ Hdom Hty Hlen Hkey rest.
      destruct v as [w b|b|s0|l|kvs|l|t0 v0].
      - apply has_ty_VNum in Hty as [s' [Es [Hw Hb]]]. injection Es as <-.
        destruct s; cbn [scalar_width] in Hw; try discriminate Hw; injection Hw as <-;
          cbn [refl_body spec_enc scalar_width]; rewrite ?Hd8; rewrite read_num_le by exact Hb; reflexivity.
      - apply has_ty_VBool in Hty. injection Hty as ->. destruct b; reflexivity.
      - apply has_ty_VStr in Hty as [Es Hs]. injection Es as ->.
        cbn [refl_body spec_enc]. rewrite read_str_enc by exact Hs. reflexivity.
      - apply has_ty_VList in Hty as [t1 [Et _]]. discriminate Et.
      - apply has_ty_VMap in Hty as [tk1 [tv1 [Et _]]]. discriminate Et.
      - pose proof Hty as Hty'.
        apply has_ty_VTup_expand in Hty as [[ts [Et _]]|[[n [fs [Et _]]]|[Et El]]].
        + discriminate Et.
        + destruct s; try discriminate Et. destruct HQ as [HQ|HQ]; [discriminate HQ|].
          cbn [refl_body]. apply (Hobj HQ); [now rewrite <- has_ty_obj|exact Hlen|exact Hkey].
        + injection Et as ->. subst l. reflexivity.
      - apply has_ty_VDyn in Hty as [Et _]. injection Et as ->. discriminate Hdom.
    Qed.

    Lemma body_exact_TList : forall t', body_exact t' -> body_exact (TList t').
    Proof.
      intros t' IH v HQ Hdom Hty Hlen Hkey rest.
      apply has_ty_TList_inv in Hty as [l [Ev [_ Hall]]]. subst v.
      cbn [noobj] in HQ.
      cbn [refl_domain] in Hdom. cbn [lens_ok] in Hlen. apply andb_true_iff in Hlen as [Hn Hlen].
      apply N.leb_le in Hn. apply keys_nodup_VList in Hkey.
      rewrite forallb_forall in Hlen. rewrite Forall_forall in Hall, Hkey.
      cbn [refl_body spec_enc]. rewrite <- app_assoc.
      rewrite read_u32_enc by (unfold listValueMaxSize in Hn; lia). cbn [bind]. cbv zeta.
      destruct (as_int32_small _ Hn) as [E1 E2]. rewrite E1, E2.
      rewrite (rep_exact spec_enc (refl_body c tval_eqb obj t') l _ eq_refl);
        [reflexivity| |apply (uniform_elems t' l); apply Forall_forall; exact Hall].
      apply Forall_forall. intros x Hx. apply IH; auto.
    Qed.

    Lemma body_exact_TMap : forall tk tv, body_exact tk -> body_exact tv -> body_exact (TMap tk tv).
    Proof.
      intros tk tv IHk IHv v HQ Hdom Hty Hlen Hkey rest.
      apply has_ty_TMap_inv in Hty as [kvs [Ev [_ Hall]]]. subst v.
      assert (HQk : noobj tk = true \/ Q)
        by (destruct HQ as [HQ|HQ]; [cbn [noobj] in HQ; apply andb_true_iff in HQ as [HQ _]; now left|now right]).
      assert (HQv : noobj tv = true \/ Q)
        by (destruct HQ as [HQ|HQ]; [cbn [noobj] in HQ; apply andb_true_iff in HQ as [_ HQ]; now left|now right]).
      cbn [refl_domain] in Hdom. apply andb_true_iff in Hdom as [Hdk Hdv].
      cbn [lens_ok] in Hlen. apply andb_true_iff in Hlen as [Hn Hlen].
      apply N.leb_le in Hn. apply keys_nodup_VMap in Hkey as [Hnd Hkey].
      rewrite forallb_forall in Hlen. rewrite Forall_forall in Hall, Hkey.
      cbn [refl_body spec_enc]. rewrite <- app_assoc.
      rewrite read_u32_enc by (unfold listValueMaxSize in Hn; lia). cbn [bind]. cbv zeta.
      destruct (as_int32_small _ Hn) as [E1 E2]. rewrite E1, E2.
      rewrite (rep_exact (fun kv => spec_enc (fst kv) ++ spec_enc (snd kv))
                 (pair_with (refl_body c tval_eqb obj tk) (refl_body c tval_eqb obj tv)) kvs _ eq_refl).
      - cbn [bind]. now rewrite map_of_nodup.
      - apply Forall_forall. intros [k x] Hkv. cbn [fst snd].
        destruct (Hall _ Hkv) as [Htk Htv]. destruct (Hkey _ Hkv) as [Hkk Hkx]. cbn [fst snd] in Htk, Htv, Hkk, Hkx.
        pose proof (Hlen _ Hkv) as Hl. cbn [fst snd] in Hl. apply andb_true_iff in Hl as [Hlk Hlx].
        apply pair_with_exact; [apply IHk|apply IHv]; auto.
      - apply (uniform_entries tk tv kvs). apply Forall_forall. exact Hall.
    Qed.

    Lemma body_exact_TTuple : forall ts, Forall body_exact ts -> body_exact (TTuple ts).
    Proof.
      intros ts IH v HQ Hdom Hty Hlen Hkey rest.
      apply has_ty_TTuple_inv in Hty as [l [Ev Hall]]. subst v.
      cbn [refl_domain] in Hdom. cbn [lens_ok] in Hlen. apply keys_nodup_VTup in Hkey.
      rewrite forallb_forall in Hdom, Hlen. rewrite Forall_forall in IH, Hkey.
      cbn [refl_body spec_enc].
      rewrite (fields_with_exact (map (fun t' => (refl_body c tval_eqb obj t', zero_val t')) ts) l); [reflexivity|].
      apply (Forall2_flip_map (fun x t => has_ty x t = true)); [exact Hall|].
      intros x t Hx Ht Hxt. cbn [fst]. apply (IH t Ht); auto.
      destruct HQ as [HQ|HQ]; [left|now right]. cbn [noobj] in HQ. rewrite forallb_forall in HQ. now apply HQ.
    Qed.

    Lemma body_exact_TStruct : forall n fs, Forall (fun f => body_exact (snd f)) fs -> body_exact (TStruct n fs).
    Proof.
      intros n fs IH v HQ Hdom Hty Hlen Hkey rest.
      apply has_ty_TStruct_inv in Hty as [l [Ev Hall]]. subst v.
      cbn [refl_domain] in Hdom. cbn [lens_ok] in Hlen. apply keys_nodup_VTup in Hkey.
      rewrite forallb_forall in Hdom, Hlen. rewrite Forall_forall in IH, Hkey.
      cbn [refl_body spec_enc].
      rewrite (fields_with_exact (map (fun f => (refl_body c tval_eqb obj (snd f), zero_val (snd f))) fs) l); [reflexivity|].
      apply (Forall2_flip_map (fun x f => has_ty x (snd f) = true)); [exact Hall|].
      intros x f Hx Hf Hxf. cbn [fst]. apply (IH f Hf); auto.
      destruct HQ as [HQ|HQ]; [left|now right]. cbn [noobj] in HQ. rewrite forallb_forall in HQ. now apply HQ.
    Qed.

    Lemma refl_body_exact : forall t, body_exact t.
    Proof.
      induction t as [s|t' IHt|k v IHk IHv|ts IHts|n fs IHfs] using ty_ind2.
      - apply body_exact_TS.
      - now apply body_exact_TList.
      - now apply body_exact_TMap.
      - now apply body_exact_TTuple.
      - now apply body_exact_TStruct.
    Qed.
  End Body.

  Lemma refl_obj_exact : refl_drop8 c = false ->
    forall v, has_ty v ty_ObjectReference = true -> lens_ok v = true -> keys_nodup v ->
    exact (refl_body c tval_eqb no_dyn ty_ObjectReference) v (spec_enc v).
  Proof.
    intros Hd8 v Hty Hlen Hkey.
    apply (refl_body_exact no_dyn False Hd8 (fun F : False => False_ind _ F));
      [left; reflexivity|reflexivity|exact Hty|exact Hlen|exact Hkey].
  Qed.

  Theorem refl_dec_spec : forall v t rest,
    refl_drop8 c = false ->
    wf_ty t = true -> has_ty v t = true -> refl_domain t = true -> lens_ok v = true -> keys_nodup v ->
    refl_dec c tval_eqb t (spec_enc v ++ rest) = ROk (v, rest).
  Proof.
    intros v t rest Hd8 Hgood Hty Hdom Hlen Hkey. unfold refl_dec.
    apply (refl_body_exact (refl_body c tval_eqb no_dyn ty_ObjectReference) True Hd8 (fun _ => refl_obj_exact Hd8));
      [right; exact I|exact Hdom|exact Hty|exact Hlen|exact Hkey].
  Qed.

  (* ---------- refutation: with the 8-bit cases missing the encoder loses the field ---------- *)
  Example refl_drop8_refuted :
    let v := VTup [VNum 1 127; VNum 4 1] in
    let t := TStruct "S"%string [("a"%string, TS SI8); ("b"%string, TS SI32)] in
    good_ty t = true /\ has_ty v t = true /\ refl_domain t = true /\ refl_enc wpinned v <> spec_enc v.
  Proof. vm_compute. repeat split; discriminate. Qed.
End P.

Print Assumptions tval_eqb_eq.
Print Assumptions refl_enc_spec.
Print Assumptions refl_dec_spec.
Print Assumptions refl_drop8_refuted.
