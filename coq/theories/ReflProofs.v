(* ReflProofs.v — the reflection codec (type/encoding/encoding.go) against the documented
   serialization: structural equality is equality, the encoder writes the documented bytes,
   the decoder reads them back exactly (design/WIRE_THEOREMS.md, section ReflProofs.v). *)
From Coq Require Import ZifyN ZifyNat ZifyBool.
From QV Require Import Wire.
Local Open Scope N_scope.

(* ---------- structural equality ---------- *)
Lemma scalar_eqb_eq : forall a b, scalar_eqb a b = true <-> a = b.
Proof. intros a b; split; intro H; [destruct a, b; (reflexivity || discriminate)| subst b; destruct a; reflexivity]. Qed.

Lemma ty_eqb_refl : forall t, ty_eqb t t = true.
Proof.
  induction t as [s|t IHt|k v IHk IHv|ts IHts|n fs IHfs] using ty_ind2; cbn [ty_eqb].
  - now apply scalar_eqb_eq.
  - exact IHt.
  - now rewrite IHk, IHv.
  - induction IHts as [|x r Hx Hr IH]; [reflexivity|]. now rewrite Hx, IH.
  - rewrite String.eqb_refl. cbn [andb].
    induction IHfs as [|[a x] r Hx Hr IH]; [reflexivity|]. cbn [snd] in Hx.
    now rewrite String.eqb_refl, Hx, IH.
Qed.

Lemma ty_eqb_true : forall a b, ty_eqb a b = true -> a = b.
Proof.
  induction a as [s|t IHt|k v IHk IHv|ts IHts|n fs IHfs] using ty_ind2; intros b H;
    destruct b as [s'|t'|k' v'|ts'|n' fs']; cbn [ty_eqb] in H; try discriminate.
  - f_equal. now apply scalar_eqb_eq.
  - f_equal. now apply IHt.
  - apply andb_true_iff in H as [H1 H2]. f_equal; [now apply IHk|now apply IHv].
  - f_equal. revert ts' H.
    induction IHts as [|x r Hx Hr IH]; intros [|y r'] H; try discriminate; [reflexivity|].
    apply andb_true_iff in H as [H1 H2]. f_equal; [now apply Hx|now apply IH].
  - apply andb_true_iff in H as [Hn H]. apply String.eqb_eq in Hn. subst n'. f_equal.
    revert fs' H.
    induction IHfs as [|[a x] r Hx Hr IH]; intros [|[b y] r'] H; try discriminate; [reflexivity|].
    cbn [snd] in Hx.
    apply andb_true_iff in H as [H12 H3]. apply andb_true_iff in H12 as [H1 H2].
    apply String.eqb_eq in H1. subst b. f_equal; [f_equal; now apply Hx|now apply IH].
Qed.

Lemma ty_eqb_eq : forall a b, ty_eqb a b = true <-> a = b.
Proof. intros a b; split; [apply ty_eqb_true|intro H; subst b; apply ty_eqb_refl]. Qed.

Lemma tval_eqb_refl : forall a, tval_eqb a a = true.
Proof.
  induction a as [w b|b|s|l IHl|kvs IHkvs|l IHl|t v IHv] using tval_ind2; cbn [tval_eqb].
  - now rewrite Nat.eqb_refl, N.eqb_refl.
  - now destruct b.
  - now apply eqb_bytes_eq.
  - induction IHl as [|x r Hx Hr IH]; [reflexivity|]. now rewrite Hx, IH.
  - induction IHkvs as [|[k v] r [Hk Hv] Hr IH]; [reflexivity|]. cbn [fst snd] in Hk, Hv.
    now rewrite Hk, Hv, IH.
  - induction IHl as [|x r Hx Hr IH]; [reflexivity|]. now rewrite Hx, IH.
  - now rewrite ty_eqb_refl, IHv.
Qed.

Lemma tval_eqb_true : forall a b, tval_eqb a b = true -> a = b.
Proof.
  induction a as [w x|x|s|l IHl|kvs IHkvs|l IHl|t v IHv] using tval_ind2; intros b H;
    destruct b as [w' y|y|s'|l'|kvs'|l'|t' v']; cbn [tval_eqb] in H; try discriminate.
  - apply andb_true_iff in H as [H1 H2]. apply Nat.eqb_eq in H1. apply N.eqb_eq in H2. now subst.
  - f_equal. now apply Bool.eqb_prop.
  - f_equal. now apply eqb_bytes_eq.
  - f_equal. revert l' H.
    induction IHl as [|x r Hx Hr IH]; intros [|y r'] H; try discriminate; [reflexivity|].
    apply andb_true_iff in H as [H1 H2]. f_equal; [now apply Hx|now apply IH].
  - f_equal. revert kvs' H.
    induction IHkvs as [|[k v] r [Hk Hv] Hr IH]; intros [|[k' v'] r'] H; try discriminate; [reflexivity|].
    cbn [fst snd] in Hk, Hv.
    apply andb_true_iff in H as [H12 H3]. apply andb_true_iff in H12 as [H1 H2].
    f_equal; [f_equal; [now apply Hk|now apply Hv]|now apply IH].
  - f_equal. revert l' H.
    induction IHl as [|x r Hx Hr IH]; intros [|y r'] H; try discriminate; [reflexivity|].
    apply andb_true_iff in H as [H1 H2]. f_equal; [now apply Hx|now apply IH].
  - apply andb_true_iff in H as [H1 H2]. apply ty_eqb_true in H1. apply IHv in H2. now subst.
Qed.

Lemma tval_eqb_eq : forall a b, tval_eqb a b = true <-> a = b.
Proof. intros a b; split; [apply tval_eqb_true|intro H; subst b; apply tval_eqb_refl]. Qed.
