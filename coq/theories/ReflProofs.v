(* ReflProofs.v — the reflection codec (type/encoding/encoding.go) against the documented
   serialization: structural equality is equality, the encoder writes the documented bytes,
   the decoder reads them back exactly (design/WIRE_THEOREMS.md, section ReflProofs.v). *)
From Coq Require Import ZifyN ZifyNat ZifyBool.
From QV Require Import Wire.
Local Open Scope N_scope.

(* ---------- structural equality ---------- *)
Lemma scalar_eqb_eq : forall a b, scalar_eqb a b = true <-> a = b.
Proof. intros a b; split; intro H; [destruct a, b; (reflexivity || discriminate)| subst b; destruct a; reflexivity]. Qed.

Lemma ty_eqb_refl : forall t, ty_eqb t t = true.
Proof.
  induction t as [s|t IHt|k v IHk IHv|ts IHts|n fs IHfs] using ty_ind2; cbn [ty_eqb].
  - now apply scalar_eqb_eq.
  - exact IHt.
  - now rewrite IHk, IHv.
  - induction IHts as [|x r Hx Hr IH]; [reflexivity|]. now rewrite Hx, IH.
  - rewrite String.eqb_refl. cbn [andb].
    induction IHfs as [|[a x] r Hx Hr IH]; [reflexivity|]. cbn [snd] in Hx.
    now rewrite String.eqb_refl, Hx, IH.
Qed.

Lemma ty_eqb_true : forall a b, ty_eqb a b = true -> a = b.
Proof.
  induction a as [s|t IHt|k v IHk IHv|ts IHts|n fs IHfs] using ty_ind2; intros b H;
    destruct b as [s'|t'|k' v'|ts'|n' fs']; cbn [ty_eqb] in H; try discriminate.
  - f_equal. now apply scalar_eqb_eq.
  - f_equal. now apply IHt.
  - apply andb_true_iff in H as [H1 H2]. f_equal; [now apply IHk|now apply IHv].
  - f_equal. revert ts' H.
    induction IHts as [|x r Hx Hr IH]; intros [|y r'] H; try discriminate; [reflexivity|].
    apply andb_true_iff in H as [H1 H2]. f_equal; [now apply Hx|now apply IH].
  - apply andb_true_iff in H as [Hn H]. apply String.eqb_eq in Hn. subst n'. f_equal.
    revert fs' H.
    induction IHfs as [|[a x] r Hx Hr IH]; intros [|[b y] r'] H; try discriminate; [reflexivity|].
    cbn [snd] in Hx.
    apply andb_true_iff in H as [H12 H3]. apply andb_true_iff in H12 as [H1 H2].
    apply String.eqb_eq in H1. subst b. f_equal; [f_equal; now apply Hx|now apply IH].
Qed.

Lemma ty_eqb_eq : forall a b, ty_eqb a b = true <-> a = b.
Proof. intros a b; split; [apply ty_eqb_true|intro H; subst b; apply ty_eqb_refl]. Qed.

Lemma tval_eqb_refl : forall a, tval_eqb a a = true.
Proof.
  induction a as [w b|b|s|l IHl|kvs IHkvs|l IHl|t v IHv] using tval_ind2; cbn [tval_eqb].
  - now rewrite Nat.eqb_refl, N.eqb_refl.
  - now destruct b.
  - now apply eqb_bytes_eq.
  - induction IHl as [|x r Hx Hr IH]; [reflexivity|]. now rewrite Hx, IH.
  - induction IHkvs as [|[k v] r [Hk Hv] Hr IH]; [reflexivity|]. cbn [fst snd] in Hk, Hv.
    now rewrite Hk, Hv, IH.
  - induction IHl as [|x r Hx Hr IH]; [reflexivity|]. now rewrite Hx, IH.
  - now rewrite ty_eqb_refl, IHv.
Qed.

Lemma tval_eqb_true : forall a b, tval_eqb a b = true -> a = b.
Proof.
  induction a as [w x|x|s|l IHl|kvs IHkvs|l IHl|t v IHv] using tval_ind2; intros b H;
    destruct b as [w' y|y|s'|l'|kvs'|l'|t' v']; cbn [tval_eqb] in H; try discriminate.
  - apply andb_true_iff in H as [H1 H2]. apply Nat.eqb_eq in H1. apply N.eqb_eq in H2. now subst.
  - f_equal. now apply Bool.eqb_prop.
  - f_equal. now apply eqb_bytes_eq.
  - f_equal. revert l' H.
    induction IHl as [|x r Hx Hr IH]; intros [|y r'] H; try discriminate; [reflexivity|].
    apply andb_true_iff in H as [H1 H2]. f_equal; [now apply Hx|now apply IH].
  - f_equal. revert kvs' H.
    induction IHkvs as [|[k v] r [Hk Hv] Hr IH]; intros [|[k' v'] r'] H; try discriminate; [reflexivity|].
    cbn [fst snd] in Hk, Hv.
    apply andb_true_iff in H as [H12 H3]. apply andb_true_iff in H12 as [H1 H2].
    f_equal; [f_equal; [now apply Hk|now apply Hv]|now apply IH].
  - f_equal. revert l' H.
    induction IHl as [|x r Hx Hr IH]; intros [|y r'] H; try discriminate; [reflexivity|].
    apply andb_true_iff in H as [H1 H2]. f_equal; [now apply Hx|now apply IH].
  - apply andb_true_iff in H as [H1 H2]. apply ty_eqb_true in H1. apply IHv in H2. now subst.
Qed.

Lemma tval_eqb_eq : forall a b, tval_eqb a b = true <-> a = b.
Proof. intros a b; split; [apply tval_eqb_true|intro H; subst b; apply tval_eqb_refl]. Qed.

(* ---------- typing: inversion per value constructor (local copies, suffix _r) ---------- *)
Lemma expand1_obj_r : expand1 (TS SObject) = ty_ObjectReference.
Proof. reflexivity. Qed.

Lemma expand1_not_obj_r : forall t, t <> TS SObject -> expand1 t = t.
Proof. intros t H. destruct t as [[]| | | |]; try reflexivity. now elim H. Qed.

Lemma has_ty_obj_r : forall v, has_ty v (TS SObject) = has_ty v ty_ObjectReference.
Proof. intro v. destruct v; reflexivity. Qed.

Lemma has_ty_num_inv_r : forall w b t, has_ty (VNum w b) t = true ->
  exists s, t = TS s /\ scalar_width s = Some w /\ b < 2 ^ (8 * N.of_nat w).
Proof.
  intros w b t H. destruct t as [s| | | |]; [|discriminate H..].
  exists s. destruct s; cbn [has_ty expand1 scalar_width ty_ObjectReference] in H; try discriminate H;
    apply andb_true_iff in H as [H1 H2]; apply Nat.eqb_eq in H1; apply N.ltb_lt in H2; subst w; auto.
Qed.

Lemma has_ty_bool_inv_r : forall b t, has_ty (VBool b) t = true -> t = TS SBool.
Proof. intros b t H. destruct t as [[]| | | |]; try discriminate H. reflexivity. Qed.

Lemma has_ty_str_inv_r : forall s t, has_ty (VStr s) t = true ->
  t = TS SStr /\ N.of_nat (List.length s) <= MaxStringSize.
Proof.
  intros s t H. destruct t as [[]| | | |]; try discriminate H.
  cbn [has_ty expand1] in H. apply N.leb_le in H. auto.
Qed.

Lemma has_ty_list_inv_r : forall l t, has_ty (VList l) t = true ->
  exists t', t = TList t' /\ N.of_nat (List.length l) < 2 ^ 31 /\ Forall (fun x => has_ty x t' = true) l.
Proof.
  intros l t H. destruct t as [[]|t'| | |]; try discriminate H.
  cbn [has_ty expand1] in H. apply andb_true_iff in H as [H1 H2]. apply N.ltb_lt in H1.
  exists t'. repeat split; [exact H1|]. apply Forall_forall. intros x Hx.
  rewrite forallb_forall in H2. now apply H2.
Qed.

Lemma has_ty_map_inv_r : forall kvs t, has_ty (VMap kvs) t = true ->
  exists tk tv, t = TMap tk tv /\ N.of_nat (List.length kvs) < 2 ^ 31 /\
    Forall (fun kv => has_ty (fst kv) tk = true /\ has_ty (snd kv) tv = true) kvs.
Proof.
  intros kvs t H. destruct t as [[]| |tk tv| |]; try discriminate H.
  cbn [has_ty expand1] in H. apply andb_true_iff in H as [H1 H2]. apply N.ltb_lt in H1.
  exists tk, tv. repeat split; [exact H1|]. apply Forall_forall. intros x Hx.
  rewrite forallb_forall in H2. apply andb_true_iff. now apply H2.
Qed.

Lemma has_ty_tuple_r : forall l ts, has_ty (VTup l) (TTuple ts) = true ->
  Forall2 (fun x t => has_ty x t = true) l ts.
Proof.
  induction l as [|x l IH]; intros [|t ts] H; cbn [has_ty expand1] in H; try discriminate H; [constructor|].
  apply andb_true_iff in H as [H1 H2]. constructor; [exact H1|]. apply IH. destruct l; exact H2.
Qed.

Lemma has_ty_struct_r : forall l n fs, has_ty (VTup l) (TStruct n fs) = true ->
  Forall2 (fun x f => has_ty x (snd f) = true) l fs.
Proof.
  induction l as [|x l IH]; intros n [|f fs] H; cbn [has_ty expand1] in H; try discriminate H; [constructor|].
  apply andb_true_iff in H as [H1 H2]. constructor; [exact H1|]. apply (IH n). destruct l; exact H2.
Qed.

Lemma has_ty_tup_inv_r : forall l t, has_ty (VTup l) t = true ->
  (exists ts, t = TTuple ts /\ Forall2 (fun x t' => has_ty x t' = true) l ts)
  \/ (exists n fs, expand1 t = TStruct n fs /\ Forall2 (fun x f => has_ty x (snd f) = true) l fs)
  \/ (t = TS SVoid /\ l = []).
Proof.
  intros l t H. destruct t as [s| | |ts|n fs]; try (destruct l; discriminate H).
  - destruct s; try (destruct l; discriminate H).
    + right; left. rewrite has_ty_obj_r in H. unfold ty_ObjectReference in H |- *.
      eexists; eexists; split; [reflexivity|]. eapply has_ty_struct_r. exact H.
    + right; right. split; [reflexivity|]. destruct l as [|x l]; [reflexivity|discriminate H].
  - left. exists ts. split; [reflexivity|]. now apply has_ty_tuple_r.
  - right; left. exists n, fs. split; [reflexivity|]. now apply (has_ty_struct_r l n).
Qed.

Lemma has_ty_dyn_inv_r : forall t' v' t, has_ty (VDyn t' v') t = true ->
  t = TS SValue /\ good_ty t' = true /\ N.of_nat (String.length (print t')) <= MaxStringSize /\ has_ty v' t' = true.
Proof.
  intros t' v' t H. destruct t as [[]| | | |]; try discriminate H.
  cbn [has_ty expand1] in H. apply andb_true_iff in H as [H12 H3]. apply andb_true_iff in H12 as [H1 H2].
  apply N.leb_le in H2. auto.
Qed.
