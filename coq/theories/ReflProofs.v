(* ReflProofs.v — the reflection codec (type/encoding/encoding.go) against the documented
   serialization: structural equality is equality, the encoder writes the documented bytes,
   the decoder reads them back exactly (design/WIRE_THEOREMS.md, section ReflProofs.v). *)
From Coq Require Import ZifyN ZifyNat ZifyBool.
From QV Require Import Wire.
Local Open Scope N_scope.

(* ---------- structural equality ---------- *)
Lemma scalar_eqb_eq : forall a b, scalar_eqb a b = true <-> a = b.
Proof. intros a b; split; intro H; [destruct a, b; (reflexivity || discriminate)| subst b; destruct a; reflexivity]. Qed.

Lemma ty_eqb_refl : forall t, ty_eqb t t = true.
Proof.
  induction t as [s|t IHt|k v IHk IHv|ts IHts|n fs IHfs] using ty_ind2; cbn [ty_eqb].
  - now apply scalar_eqb_eq.
  - exact IHt.
  - now rewrite IHk, IHv.
  - induction IHts as [|x r Hx Hr IH]; [reflexivity|]. now rewrite Hx, IH.
  - rewrite String.eqb_refl. cbn [andb].
    induction IHfs as [|[a x] r Hx Hr IH]; [reflexivity|]. cbn [snd] in Hx.
    now rewrite String.eqb_refl, Hx, IH.
Qed.

Lemma ty_eqb_true : forall a b, ty_eqb a b = true -> a = b.
Proof.
  induction a as [s|t IHt|k v IHk IHv|ts IHts|n fs IHfs] using ty_ind2; intros b H;
    destruct b as [s'|t'|k' v'|ts'|n' fs']; cbn [ty_eqb] in H; try discriminate.
  - f_equal. now apply scalar_eqb_eq.
  - f_equal. now apply IHt.
  - apply andb_true_iff in H as [H1 H2]. f_equal; [now apply IHk|now apply IHv].
  - f_equal. revert ts' H.
    induction IHts as [|x r Hx Hr IH]; intros [|y r'] H; try discriminate; [reflexivity|].
    apply andb_true_iff in H as [H1 H2]. f_equal; [now apply Hx|now apply IH].
  - apply andb_true_iff in H as [Hn H]. apply String.eqb_eq in Hn. subst n'. f_equal.
    revert fs' H.
    induction IHfs as [|[a x] r Hx Hr IH]; intros [|[b y] r'] H; try discriminate; [reflexivity|].
    cbn [snd] in Hx.
    apply andb_true_iff in H as [H12 H3]. apply andb_true_iff in H12 as [H1 H2].
    apply String.eqb_eq in H1. subst b. f_equal; [f_equal; now apply Hx|now apply IH].
Qed.

Lemma ty_eqb_eq : forall a b, ty_eqb a b = true <-> a = b.
Proof. intros a b; split; [apply ty_eqb_true|intro H; subst b; apply ty_eqb_refl]. Qed.

Lemma tval_eqb_refl : forall a, tval_eqb a a = true.
Proof.
  induction a as [w b|b|s|l IHl|kvs IHkvs|l IHl|t v IHv] using tval_ind2; cbn [tval_eqb].
  - now rewrite Nat.eqb_refl, N.eqb_refl.
  - now destruct b.
  - now apply eqb_bytes_eq.
  - induction IHl as [|x r Hx Hr IH]; [reflexivity|]. now rewrite Hx, IH.
  - induction IHkvs as [|[k v] r [Hk Hv] Hr IH]; [reflexivity|]. cbn [fst snd] in Hk, Hv.
    now rewrite Hk, Hv, IH.
  - induction IHl as [|x r Hx Hr IH]; [reflexivity|]. now rewrite Hx, IH.
  - now rewrite ty_eqb_refl, IHv.
Qed.

Lemma tval_eqb_true : forall a b, tval_eqb a b = true -> a = b.
Proof.
  induction a as [w x|x|s|l IHl|kvs IHkvs|l IHl|t v IHv] using tval_ind2; intros b H;
    destruct b as [w' y|y|s'|l'|kvs'|l'|t' v']; cbn [tval_eqb] in H; try discriminate.
  - apply andb_true_iff in H as [H1 H2]. apply Nat.eqb_eq in H1. apply N.eqb_eq in H2. now subst.
  - f_equal. now apply Bool.eqb_prop.
  - f_equal. now apply eqb_bytes_eq.
  - f_equal. revert l' H.
    induction IHl as [|x r Hx Hr IH]; intros [|y r'] H; try discriminate; [reflexivity|].
    apply andb_true_iff in H as [H1 H2]. f_equal; [now apply Hx|now apply IH].
  - f_equal. revert kvs' H.
    induction IHkvs as [|[k v] r [Hk Hv] Hr IH]; intros [|[k' v'] r'] H; try discriminate; [reflexivity|].
    cbn [fst snd] in Hk, Hv.
    apply andb_true_iff in H as [H12 H3]. apply andb_true_iff in H12 as [H1 H2].
    f_equal; [f_equal; [now apply Hk|now apply Hv]|now apply IH].
  - f_equal. revert l' H.
    induction IHl as [|x r Hx Hr IH]; intros [|y r'] H; try discriminate; [reflexivity|].
    apply andb_true_iff in H as [H1 H2]. f_equal; [now apply Hx|now apply IH].
  - apply andb_true_iff in H as [H1 H2]. apply ty_eqb_true in H1. apply IHv in H2. now subst.
Qed.

Lemma tval_eqb_eq : forall a b, tval_eqb a b = true <-> a = b.
Proof. intros a b; split; [apply tval_eqb_true|intro H; subst b; apply tval_eqb_refl]. Qed.

(* ---------- typing: inversion per value constructor (local copies, suffix _r) ---------- *)
Lemma expand1_obj_r : expand1 (TS SObject) = ty_ObjectReference.
Proof. reflexivity. Qed.

Lemma expand1_not_obj_r : forall t, t <> TS SObject -> expand1 t = t.
Proof. intros t H. destruct t as [[]| | | |]; try reflexivity. now elim H. Qed.

Lemma has_ty_obj_r : forall v, has_ty v (TS SObject) = has_ty v ty_ObjectReference.
Proof. intro v. destruct v; reflexivity. Qed.

Lemma has_ty_num_inv_r : forall w b t, has_ty (VNum w b) t = true ->
  exists s, t = TS s /\ scalar_width s = Some w /\ b < 2 ^ (8 * N.of_nat w).
Proof.
  intros w b t H. destruct t as [s| | | |]; [|discriminate H..].
  exists s. destruct s; cbn [has_ty expand1 scalar_width ty_ObjectReference] in H; try discriminate H;
    apply andb_true_iff in H as [H1 H2]; apply Nat.eqb_eq in H1; apply N.ltb_lt in H2; subst w; auto.
Qed.

Lemma has_ty_bool_inv_r : forall b t, has_ty (VBool b) t = true -> t = TS SBool.
Proof. intros b t H. destruct t as [[]| | | |]; try discriminate H. reflexivity. Qed.

Lemma has_ty_str_inv_r : forall s t, has_ty (VStr s) t = true ->
  t = TS SStr /\ N.of_nat (List.length s) <= MaxStringSize.
Proof.
  intros s t H. destruct t as [[]| | | |]; try discriminate H.
  cbn [has_ty expand1] in H. apply N.leb_le in H. auto.
Qed.

Lemma has_ty_list_inv_r : forall l t, has_ty (VList l) t = true ->
  exists t', t = TList t' /\ N.of_nat (List.length l) < 2 ^ 31 /\ Forall (fun x => has_ty x t' = true) l.
Proof.
  intros l t H. destruct t as [[]|t'| | |]; try discriminate H.
  cbn [has_ty expand1] in H. apply andb_true_iff in H as [H1 H2]. apply N.ltb_lt in H1.
  exists t'. repeat split; [exact H1|]. apply Forall_forall. intros x Hx.
  rewrite forallb_forall in H2. now apply H2.
Qed.

Lemma has_ty_map_inv_r : forall kvs t, has_ty (VMap kvs) t = true ->
  exists tk tv, t = TMap tk tv /\ N.of_nat (List.length kvs) < 2 ^ 31 /\
    Forall (fun kv => has_ty (fst kv) tk = true /\ has_ty (snd kv) tv = true) kvs.
Proof.
  intros kvs t H. destruct t as [[]| |tk tv| |]; try discriminate H.
  cbn [has_ty expand1] in H. apply andb_true_iff in H as [H1 H2]. apply N.ltb_lt in H1.
  exists tk, tv. repeat split; [exact H1|]. apply Forall_forall. intros x Hx.
  rewrite forallb_forall in H2. apply andb_true_iff. now apply H2.
Qed.

Lemma has_ty_tuple_r : forall l ts, has_ty (VTup l) (TTuple ts) = true ->
  Forall2 (fun x t => has_ty x t = true) l ts.
Proof.
  induction l as [|x l IH]; intros [|t ts] H; cbn [has_ty expand1] in H; try discriminate H; [constructor|].
  apply andb_true_iff in H as [H1 H2]. constructor; [exact H1|]. apply IH. destruct l; exact H2.
Qed.

Lemma has_ty_struct_r : forall l n fs, has_ty (VTup l) (TStruct n fs) = true ->
  Forall2 (fun x f => has_ty x (snd f) = true) l fs.
Proof.
  induction l as [|x l IH]; intros n [|f fs] H; cbn [has_ty expand1] in H; try discriminate H; [constructor|].
  apply andb_true_iff in H as [H1 H2]. constructor; [exact H1|]. apply (IH n). destruct l; exact H2.
Qed.

Lemma has_ty_tup_inv_r : forall l t, has_ty (VTup l) t = true ->
  (exists ts, t = TTuple ts /\ Forall2 (fun x t' => has_ty x t' = true) l ts)
  \/ (exists n fs, expand1 t = TStruct n fs /\ Forall2 (fun x f => has_ty x (snd f) = true) l fs)
  \/ (t = TS SVoid /\ l = []).
Proof.
  intros l t H. destruct t as [s| | |ts|n fs]; try (destruct l; discriminate H).
  - destruct s; try (destruct l; discriminate H).
    + right; left. rewrite has_ty_obj_r in H. unfold ty_ObjectReference in H |- *.
      eexists; eexists; split; [reflexivity|]. eapply has_ty_struct_r. exact H.
    + right; right. split; [reflexivity|]. destruct l as [|x l]; [reflexivity|discriminate H].
  - left. exists ts. split; [reflexivity|]. now apply has_ty_tuple_r.
  - right; left. exists n, fs. split; [reflexivity|]. now apply (has_ty_struct_r l n).
Qed.

Lemma has_ty_dyn_inv_r : forall t' v' t, has_ty (VDyn t' v') t = true ->
  t = TS SValue /\ good_ty t' = true /\ N.of_nat (String.length (print t')) <= MaxStringSize /\ has_ty v' t' = true.
Proof.
  intros t' v' t H. destruct t as [[]| | | |]; try discriminate H.
  cbn [has_ty expand1] in H. apply andb_true_iff in H as [H12 H3]. apply andb_true_iff in H12 as [H1 H2].
  apply N.leb_le in H2. auto.
Qed.

Lemma refl_domain_expand1_r : forall t, refl_domain t = true -> refl_domain (expand1 t) = true.
Proof. intros t H. destruct t as [[]| | | |]; exact H. Qed.

Lemma flat_map_ext_Forall {A B} (f g : A -> list B) (l : list A) :
  Forall (fun x => f x = g x) l -> flat_map f l = flat_map g l.
Proof. intro H. induction H as [|x r Hx Hr IH]; [reflexivity|]. cbn [flat_map]. now rewrite Hx, IH. Qed.

Section P.
  Variable parse : string -> option ty.
  Hypothesis parse_print : forall t, wf_ty t = true -> parse (print t) = Some t.
  Variable c : wcfg.

  (* ---------- the encoder writes the documented bytes ---------- *)
  Theorem refl_enc_spec : forall v t,
    refl_drop8 c = false -> has_ty v t = true -> refl_domain t = true -> refl_enc c v = spec_enc v.
  Proof.
    intros v t Hd8. revert t.
    induction v as [w b|b|s|l IHl|kvs IHkvs|l IHl|t' v' IHv] using tval_ind2; intros t Hty Hdom;
      cbn [refl_enc spec_enc].
    - now rewrite Hd8, andb_false_r.
    - reflexivity.
    - reflexivity.
    - apply has_ty_list_inv_r in Hty as [t' [Et [Hlen Hall]]]. subst t. cbn [refl_domain] in Hdom.
      unfold enc_u32. f_equal. apply flat_map_ext_Forall.
      rewrite Forall_forall in IHl, Hall |- *. intros x Hx. apply (IHl x Hx t'); auto.
    - apply has_ty_map_inv_r in Hty as [tk [tv [Et [Hlen Hall]]]]. subst t. cbn [refl_domain] in Hdom.
      apply andb_true_iff in Hdom as [Hdk Hdv].
      unfold enc_u32. f_equal. apply flat_map_ext_Forall.
      rewrite Forall_forall in IHkvs, Hall |- *. intros kv Hkv.
      destruct (IHkvs kv Hkv) as [IHk IHv]. destruct (Hall kv Hkv) as [Hk Hv].
      now rewrite (IHk tk), (IHv tv).
    - apply flat_map_ext_Forall.
      apply has_ty_tup_inv_r in Hty as [[ts [Et Hall]]|[[n [fs [Et Hall]]]|[Et El]]].
      + subst t. cbn [refl_domain] in Hdom. rewrite forallb_forall in Hdom.
        induction Hall as [|x t l ts Hx Hr IH]; [constructor|].
        inversion IHl as [|x' l' IHx IHr]; subst.
        constructor; [apply (IHx t); [exact Hx|apply Hdom; now left]|].
        apply IH; [exact IHr|]. intros t0 Ht0. apply Hdom. now right.
      + apply refl_domain_expand1_r in Hdom. rewrite Et in Hdom. cbn [refl_domain] in Hdom.
        rewrite forallb_forall in Hdom.
        clear Et. induction Hall as [|x f l fs Hx Hr IH]; [constructor|].
        inversion IHl as [|x' l' IHx IHr]; subst.
        constructor; [apply (IHx (snd f)); [exact Hx|apply (Hdom f); now left]|].
        apply IH; [exact IHr|]. intros f0 Hf0. apply Hdom. now right.
      + subst l. constructor.
    - apply has_ty_dyn_inv_r in Hty as [Et _]. subst t. discriminate Hdom.
  Qed.

  (* ---------- generic decoding lemmas (local copies, suffix _r) ---------- *)
  Lemma take_n_app_r : forall (a rest : bytes), take_n (List.length a) (a ++ rest) = ROk (a, rest).
  Proof.
    intros a rest. unfold take_n.
    replace (Nat.ltb (List.length (a ++ rest)) (List.length a)) with false
      by (symmetry; apply Nat.ltb_ge; rewrite app_length; lia).
    now rewrite firstn_app_exact, skipn_app_exact.
  Qed.

  Lemma read_num_le_r : forall w x rest, x < 2 ^ (8 * N.of_nat w) -> read_num w (le w x ++ rest) = ROk (x, rest).
  Proof.
    intros w x rest Hx. unfold read_num.
    rewrite <- (le_length w x) at 1. rewrite take_n_app_r. cbn [bind].
    now rewrite unle_le_small.
  Qed.

  Lemma enc_str_length_r : forall s, List.length (enc_str s) = (4 + List.length s)%nat.
  Proof. intro s. unfold enc_str, enc_u32. now rewrite app_length, le_length. Qed.

  Lemma read_str_enc_r : forall s rest, N.of_nat (List.length s) <= MaxStringSize ->
    read_str (enc_str s ++ rest) = ROk (s, rest).
  Proof.
    intros s rest Hs. unfold read_str, enc_str, enc_u32. rewrite <- app_assoc.
    unfold MaxStringSize in Hs.
    rewrite read_num_le_r by (change (2 ^ (8 * N.of_nat 4)) with 4294967296; lia).
    cbn [bind].
    destruct (N.eqb_spec (N.of_nat (List.length s)) 0) as [E0|N0].
    - destruct s as [|x s]; [reflexivity|cbn [List.length] in E0; lia].
    - replace (MaxStringSize <? N.of_nat (List.length s)) with false
        by (symmetry; apply N.ltb_ge; unfold MaxStringSize; lia).
      rewrite Nat2N.id. apply take_n_app_r.
  Qed.

  Section LoopsExact.
    Context {A : Type}.
    Variable p : bytes -> res (A * bytes).
    Variable enc : A -> bytes.

    Lemma rep_nat_exact_r : forall (l : list A) rest,
      (forall x, In x l -> forall r, p (enc x ++ r) = ROk (x, r)) ->
      rep_nat p (List.length l) (flat_map enc l ++ rest) = ROk (l, rest).
    Proof.
      induction l as [|x l IH]; intros rest Hp; [reflexivity|].
      cbn [List.length rep_nat flat_map]. rewrite <- app_assoc.
      rewrite (Hp x (or_introl eq_refl)).
      rewrite IH by (intros y Hy; apply Hp; now right). reflexivity.
    Qed.

    Lemma flat_map_length_ge_r : forall (l : list A),
      (forall x, In x l -> (1 <= List.length (enc x))%nat) ->
      (List.length l <= List.length (flat_map enc l))%nat.
    Proof.
      induction l as [|x l IH]; intro Hn; [cbn; lia|].
      cbn [flat_map List.length]. rewrite app_length.
      pose proof (Hn x (or_introl eq_refl)) as H1.
      assert (H2 : (List.length l <= List.length (flat_map enc l))%nat)
        by (apply IH; intros y Hy; apply Hn; now right).
      lia.
    Qed.

    Lemma rep_exact_r : forall (l : list A) rest,
      (forall x, In x l -> forall r, p (enc x ++ r) = ROk (x, r)) ->
      (forall x, In x l -> (1 <= List.length (enc x))%nat) ->
      rep p (N.of_nat (List.length l)) (flat_map enc l ++ rest) = ROk (l, rest).
    Proof.
      intros l rest Hp Hn. unfold rep.
      pose proof (flat_map_length_ge_r l Hn) as Hlen.
      replace (N.of_nat (List.length (flat_map enc l ++ rest)) <? N.of_nat (List.length l)) with false
        by (symmetry; apply N.ltb_ge; rewrite app_length; lia).
      rewrite Nat2N.id. now apply rep_nat_exact_r.
    Qed.
  End LoopsExact.

  Lemma pair_with_exact_r : forall {A B} (pk : bytes -> res (A * bytes)) (pv : bytes -> res (B * bytes))
      (ek ev : bytes) (k : A) (v : B) rest,
    (forall r, pk (ek ++ r) = ROk (k, r)) -> (forall r, pv (ev ++ r) = ROk (v, r)) ->
    pair_with pk pv ((ek ++ ev) ++ rest) = ROk ((k, v), rest).
  Proof.
    intros A B pk pv ek ev k v rest Hk Hv. unfold pair_with.
    now rewrite <- app_assoc, Hk, Hv.
  Qed.

  Lemma fields_with_exact_r : forall (ps : list ((bytes -> res (tval * bytes)) * tval)) (l : list tval),
    Forall2 (fun pz x => forall r, fst pz (spec_enc x ++ r) = ROk (x, r)) ps l ->
    forall rest, fields_with c ps (flat_map spec_enc l ++ rest) = ROk (l, rest).
  Proof.
    intros ps l H. induction H as [|[p z] x ps l Hx Hr IH]; intro rest; [reflexivity|].
    cbn [fst] in Hx. cbn [fields_with flat_map]. rewrite <- app_assoc, Hx, IH. reflexivity.
  Qed.
