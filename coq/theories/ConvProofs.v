(* ConvProofs.v — proofs about the model in Conv.v (property C20). *)
From Coq Require Import List ZArith NArith Bool String Ascii Lia Permutation ZifyN ZifyNat.
From QV Require Import Conv.
Import ListNotations.
Local Open Scope Z_scope.

(* ---------- induction principles for the nested types ---------- *)

Section GotypeInd.
  Variable P : gotype -> Prop.
  Hypothesis HBool : P TBool.
  Hypothesis HString : P TString.
  Hypothesis HInt : forall k, P (TInt k).
  Hypothesis HF32 : P TFloat32.
  Hypothesis HF64 : P TFloat64.
  Hypothesis HSlice : forall e, P e -> P (TSlice e).
  Hypothesis HMap : forall k e, P k -> P e -> P (TMap k e).
  Hypothesis HStruct : forall fs, Forall (fun nt => P (snd nt)) fs -> P (TStruct fs).
  Fixpoint gotype_ind2 (t : gotype) : P t :=
    match t with
    | TBool => HBool | TString => HString | TInt k => HInt k | TFloat32 => HF32 | TFloat64 => HF64
    | TSlice e => HSlice e (gotype_ind2 e)
    | TMap k e => HMap k e (gotype_ind2 k) (gotype_ind2 e)
    | TStruct fs =>
        HStruct fs ((fix go (l : list (string * gotype)) : Forall (fun nt => P (snd nt)) l :=
                       match l with
                       | [] => Forall_nil _
                       | nt :: r => Forall_cons nt (gotype_ind2 (snd nt)) (go r)
                       end) fs)
    end.
End GotypeInd.

Section ValInd.
  Variable P : val -> Prop.
  Hypothesis HB : forall b, P (VBool b).
  Hypothesis HS : forall s, P (VStr s).
  Hypothesis HI : forall z, P (VInt z).
  Hypothesis HF : forall b, P (VFloat b).
  Hypothesis HSl : forall l, Forall P l -> P (VSlice l).
  Hypothesis HM : forall m, Forall (fun kv => P (fst kv) /\ P (snd kv)) m -> P (VMap m).
  Hypothesis HSt : forall l, Forall P l -> P (VStruct l).
  Fixpoint val_ind2 (v : val) : P v :=
    match v with
    | VBool b => HB b | VStr s => HS s | VInt z => HI z | VFloat b => HF b
    | VSlice l => HSl l ((fix go (l : list val) : Forall P l :=
                            match l with [] => Forall_nil _ | x :: r => Forall_cons x (val_ind2 x) (go r) end) l)
    | VMap m => HM m ((fix go (m : list (val * val)) : Forall (fun kv => P (fst kv) /\ P (snd kv)) m :=
                         match m with
                         | [] => Forall_nil _
                         | kv :: r => Forall_cons kv (conj (val_ind2 (fst kv)) (val_ind2 (snd kv))) (go r)
                         end) m)
    | VStruct l => HSt l ((fix go (l : list val) : Forall P l :=
                             match l with [] => Forall_nil _ | x :: r => Forall_cons x (val_ind2 x) (go r) end) l)
    end.
End ValInd.

(* ---------- val_eqb decides equality ---------- *)

Lemma list_eqb_spec {A} (eqb : A -> A -> bool) (l : list A) :
  Forall (fun x => forall y, eqb x y = true <-> x = y) l ->
  forall l', list_eqb eqb l l' = true <-> l = l'.
Proof.
  induction 1 as [|x l Hx _ IH]; intros [|y l']; cbn [list_eqb]; try solve [split; intro E; (reflexivity || discriminate E)].
  rewrite andb_true_iff, Hx, IH. split; [intros [-> ->]; reflexivity | intros E; inversion E; auto].
Qed.

Lemma val_eqb_spec : forall a b, val_eqb a b = true <-> a = b.
Proof.
  induction a as [x|x|x|x|l IH|m IH|l IH] using val_ind2; intros [y|y|y|y|l'|m'|l']; cbn [val_eqb];
    try solve [split; intro E; (discriminate E || inversion E)].
  - rewrite Bool.eqb_true_iff. split; [intros ->; reflexivity | intro E; inversion E; reflexivity].
  - rewrite String.eqb_eq. split; [intros ->; reflexivity | intro E; inversion E; reflexivity].
  - rewrite Z.eqb_eq. split; [intros ->; reflexivity | intro E; inversion E; reflexivity].
  - rewrite N.eqb_eq. split; [intros ->; reflexivity | intro E; inversion E; reflexivity].
  - rewrite (list_eqb_spec val_eqb l IH). split; [intros ->; reflexivity | intro E; inversion E; reflexivity].
  - revert m'. induction IH as [|[k e] m [Hk He] _ IHm]; intros [|[k' e'] m']; try solve [split; intro E; (reflexivity || discriminate E)].
    cbn [fst snd] in *. rewrite !andb_true_iff, Hk, He, IHm.
    split; [intros [[-> ->] E]; inversion E; reflexivity | intro E; inversion E; auto].
  - rewrite (list_eqb_spec val_eqb l IH). split; [intros ->; reflexivity | intro E; inversion E; reflexivity].
Qed.

Lemma val_eqb_refl a : val_eqb a a = true.
Proof. now apply val_eqb_spec. Qed.
Lemma val_eqb_neq a b : a <> b -> val_eqb a b = false.
Proof. intro H. destruct (val_eqb a b) eqn:E; [|reflexivity]. apply val_eqb_spec in E. contradiction. Qed.

(* ---------- integers ---------- *)

Ltac pow_consts :=
  repeat match goal with
         | |- context [2 ^ ?n] => let v := eval vm_compute in (2 ^ n) in change (2 ^ n) with v
         | H : context [2 ^ ?n] |- _ => let v := eval vm_compute in (2 ^ n) in change (2 ^ n) with v in H
         end.

Lemma int_widen k1 k2 z :
  isigned k1 = isigned k2 -> ibits k1 <= ibits k2 -> in_rangeb k1 z = true ->
  set_int k2 (as_int64 z) = z /\ in_rangeb k2 z = true /\ set_int k1 (as_int64 z) = z.
Proof.
  intros Hs Hb Hr. unfold in_rangeb in *.
  destruct k1, k2; cbn [isigned ibits] in *; unfold int_size in *; try discriminate Hs; try lia;
    apply andb_true_iff in Hr; destruct Hr as [H1 H2]; apply Z.leb_le in H1; apply Z.ltb_lt in H2;
    unfold set_int, as_int64, wrap_s, wrap_u; cbn [isigned ibits]; unfold int_size;
    rewrite ?andb_true_iff, ?Z.leb_le, ?Z.ltb_lt; pow_consts;
    (split; [|split]; try lia;
     repeat match goal with |- context [?a mod ?b] => rewrite (Z.mod_small a b) by lia end; lia).
Qed.

(* ---------- small list facts ---------- *)

Lemma nodupb_spec {A} (eqb : A -> A -> bool) (l : list A) :
  (forall x y, eqb x y = true <-> x = y) -> (nodupb eqb l = true <-> NoDup l).
Proof.
  intro Heq. induction l as [|x r IH]; cbn [nodupb].
  - split; [constructor | reflexivity].
  - rewrite andb_true_iff, negb_true_iff, IH. split.
    + intros [Hn Hr]. constructor; [|exact Hr]. intro Hin.
      assert (existsb (eqb x) r = true) as E by (apply existsb_exists; exists x; split; [exact Hin | now apply Heq]).
      congruence.
    + intro H. inversion H as [|? ? Hn Hr]; subst. split; [|exact Hr].
      destruct (existsb (eqb x) r) eqn:E; [|reflexivity].
      apply existsb_exists in E. destruct E as [y [Hy Hxy]]. apply Heq in Hxy. subst y. contradiction.
Qed.

Lemma Forall_exists_Forall2 {A B} (P : A -> B -> Prop) (l : list A) :
  Forall (fun a => exists b, P a b) l -> exists l', Forall2 P l l'.
Proof.
  induction 1 as [|a l [b Hb] _ [l' IH]]; [exists []; constructor | exists (b :: l'); now constructor].
Qed.

Lemma Forall2_combine {A B} (P : A -> B -> Prop) (l : list A) (l' : list B) :
  List.length l = List.length l' -> (forall a b, In (a, b) (combine l l') -> P a b) -> Forall2 P l l'.
Proof.
  revert l'. induction l as [|a l IH]; intros [|b l'] Hlen H; try discriminate Hlen; constructor.
  - apply H. now left.
  - apply IH; [now inversion Hlen | intros a' b' Hin; apply H; now right].
Qed.

Lemma Forall2_In_combine {A B} (P : A -> B -> Prop) (l : list A) (l' : list B) a b :
  Forall2 P l l' -> In (a, b) (combine l l') -> P a b.
Proof.
  induction 1 as [|x y l l' Hxy _ IH]; cbn [combine In]; [tauto|].
  intros [E|Hin]; [inversion E; subst; exact Hxy | now apply IH].
Qed.

Lemma Forall2_len {A B} (P : A -> B -> Prop) l l' : Forall2 P l l' -> List.length l = List.length l'.
Proof. induction 1; cbn [List.length]; congruence. Qed.

Lemma Forall2_In_l {A B} (P : A -> B -> Prop) (l : list A) (l' : list B) a :
  Forall2 P l l' -> In a l -> exists b, In (a, b) (combine l l') /\ P a b.
Proof.
  induction 1 as [|x y l l' Hxy _ IH]; cbn [combine In]; [tauto|].
  intros [E|Hin]; [subst; exists y; auto | destruct (IH Hin) as [b [Hb Hp]]; exists b; auto].
Qed.

(* ---------- names and field lookup ---------- *)

Lemma name_eqb_iff a b : name_eqb a b = true <-> lower a = lower b.
Proof. unfold name_eqb. apply String.eqb_eq. Qed.
Lemma name_eqb_refl a : name_eqb a a = true.
Proof. now apply name_eqb_iff. Qed.

Fixpoint fields_typed (fs : list (string * gotype)) (vs : list val) : bool :=
  match fs, vs with
  | [], [] => true
  | (_, t) :: fs', v :: vs' => has_typeb t v && fields_typed fs' vs'
  | _, _ => false
  end.
Lemma has_typeb_struct fs vs : has_typeb (TStruct fs) (VStruct vs) = fields_typed fs vs.
Proof. reflexivity. Qed.

Lemma fields_typed_length fs vs : fields_typed fs vs = true -> List.length fs = List.length vs.
Proof.
  revert vs. induction fs as [|[n t] fs IH]; intros [|v vs]; cbn [fields_typed]; try discriminate; [reflexivity|].
  rewrite andb_true_iff. intros [_ H]. cbn [List.length]. now rewrite (IH vs H).
Qed.

Lemma fields_typed_In fs vs n t x :
  fields_typed fs vs = true -> In ((n, t), x) (combine fs vs) -> has_typeb t x = true.
Proof.
  revert vs. induction fs as [|[n0 t0] fs IH]; intros [|v vs]; cbn [fields_typed combine In]; try tauto; try discriminate.
  rewrite andb_true_iff. intros [H0 Hr] [E|Hin]; [inversion E; subst; exact H0 | now apply (IH vs)].
Qed.

Lemma fields_typed_of_Forall2 fs vs :
  Forall2 (fun (nt : string * gotype) x => has_typeb (snd nt) x = true) fs vs -> fields_typed fs vs = true.
Proof.
  induction 1 as [|[n t] x fs vs Hx _ IH]; [reflexivity|]. cbn [fields_typed]. cbn [snd] in Hx. now rewrite Hx, IH.
Qed.

Lemma find_field_In n fs vs t x :
  find_field n fs vs = Some (t, x) -> exists n', In ((n', t), x) (combine fs vs) /\ name_eqb n n' = true.
Proof.
  revert vs. induction fs as [|[n0 t0] fs IH]; intros [|v vs]; cbn [find_field combine In]; try discriminate.
  destruct (name_eqb n n0) eqn:E.
  - intro H. inversion H; subst. exists n0. auto.
  - intro H. destruct (IH vs H) as [n' [Hin Hn]]. exists n'. auto.
Qed.

Lemma in_combine_lname (fs : list (string * gotype)) (vs : list val) n t x :
  In ((n, t), x) (combine fs vs) -> In (lower n) (lnames fs).
Proof.
  intro H. apply in_combine_l in H. unfold lnames. apply in_map_iff. exists (n, t). auto.
Qed.

Lemma find_field_unique n n' fs vs t x :
  NoDup (lnames fs) -> In ((n', t), x) (combine fs vs) -> name_eqb n n' = true -> find_field n fs vs = Some (t, x).
Proof.
  revert vs. induction fs as [|[n0 t0] fs IH]; intros [|v vs]; cbn [find_field combine In lnames map fst]; try tauto.
  intros Hnd Hin Hn. inversion Hnd as [|? ? Hnotin Hnd']; subst.
  destruct (name_eqb n n0) eqn:E.
  - destruct Hin as [Eq|Hin]; [inversion Eq; reflexivity|].
    exfalso. apply Hnotin. apply name_eqb_iff in E. apply name_eqb_iff in Hn.
    rewrite <- E, Hn. exact (in_combine_lname _ _ _ _ _ Hin).
  - destruct Hin as [Eq|Hin]; [inversion Eq; subst; congruence|]. now apply IH.
Qed.

Lemma find_field_some n n1 fs vs :
  List.length fs = List.length vs -> In n1 (map fst fs) -> name_eqb n n1 = true ->
  exists t x, find_field n fs vs = Some (t, x).
Proof.
  revert vs. induction fs as [|[n0 t0] fs IH]; intros [|v vs] Hlen; cbn [map fst In find_field]; try tauto; try discriminate Hlen.
  intros Hin Hn. destruct (name_eqb n n0) eqn:E; [eauto|].
  destruct Hin as [->|Hin]; [congruence|]. apply IH; auto.
Qed.

Lemma field_type_In n fs t : field_type n fs = Some t -> exists n', In (n', t) fs /\ name_eqb n n' = true.
Proof.
  induction fs as [|[n0 t0] fs IH]; cbn [field_type In]; [discriminate|].
  destruct (name_eqb n n0) eqn:E.
  - intro H. inversion H; subst. exists n0. auto.
  - intro H. destruct (IH H) as [n' [Hin Hn]]. exists n'. auto.
Qed.

Lemma field_type_unique n n' fs t :
  NoDup (lnames fs) -> In (n', t) fs -> name_eqb n n' = true -> field_type n fs = Some t.
Proof.
  induction fs as [|[n0 t0] fs IH]; cbn [field_type In lnames map fst]; [tauto|].
  intros Hnd Hin Hn. inversion Hnd as [|? ? Hnotin Hnd']; subst.
  destruct (name_eqb n n0) eqn:E.
  - destruct Hin as [Eq|Hin]; [inversion Eq; reflexivity|].
    exfalso. apply Hnotin. apply name_eqb_iff in E. apply name_eqb_iff in Hn.
    rewrite <- E, Hn. unfold lnames. apply in_map_iff. exists (n', t). auto.
  - destruct Hin as [Eq|Hin]; [inversion Eq; subst; congruence|]. now apply IH.
Qed.

Lemma conv_fields_of_Forall2 cv ffs ws tfs xs :
  Forall2 (fun (nt : string * gotype) x =>
             exists ft fw, find_field (fst nt) ffs ws = Some (ft, fw) /\ cv (snd nt) ft fw = COk x) tfs xs ->
  conv_fields cv ffs ws tfs = COk xs.
Proof.
  induction 1 as [|[n t] x tfs xs [ft [fw [Hf Hc]]] _ IH]; [reflexivity|].
  cbn [conv_fields]. cbn [fst snd] in *. now rewrite Hf, Hc, IH.
Qed.

(* ---------- the round-trip statement, per pair of types ---------- *)

Definition Q (c : cfg) (t1 t2 : gotype) (x1 x2 : val) : Prop :=
  convert_to c t2 t1 x1 = COk x2 /\ has_type t2 x2 /\ agree t1 t2 x1 x2 /\ convert_to c t1 t2 x2 = COk x1.
Definition IHP (c : cfg) (t1 : gotype) : Prop :=
  forall t2 v, compat t1 t2 -> has_type t1 v -> exists v', Q c t1 t2 v v'.

(* slices *)
Lemma slice_conv c e1 e2 l :
  IHP c e1 -> compat e1 e2 -> forallb (has_typeb e1) l = true ->
  exists l', map_res (convert_to c e2 e1) l = COk l' /\ forallb (has_typeb e2) l' = true /\
             Forall2 (agree e1 e2) l l' /\ map_res (convert_to c e1 e2) l' = COk l.
Proof.
  intros IH Hc. induction l as [|x l IHl]; cbn [forallb map_res].
  - intros _. exists []. repeat split; constructor.
  - rewrite andb_true_iff. intros [Hx Hl].
    destruct (IH e2 x Hc Hx) as [x' [F [T [A B]]]]. destruct (IHl Hl) as [l' [F' [T' [A' B']]]].
    exists (x' :: l'). cbn [forallb map_res]. rewrite F, F', B, B'. unfold has_type in T. rewrite T, T'.
    repeat split. now constructor.
Qed.

(* maps *)

(* key lists without two keys that Go's == identifies *)
Definition kfresh (k : val) (l : list val) : Prop := Forall (fun k' => key_eqb k k' = false) l.
Fixpoint KND (l : list val) : Prop :=
  match l with [] => True | k :: r => kfresh k r /\ KND r end.

Lemma nodupb_KND l : nodupb key_eqb l = true <-> KND l.
Proof.
  induction l as [|k r IH]; cbn [nodupb KND]; [tauto|].
  rewrite andb_true_iff, negb_true_iff, IH. unfold kfresh. rewrite Forall_forall.
  split; intros [H1 H2]; (split; [|exact H2]).
  - intros k' Hin. destruct (key_eqb k k') eqn:E; [|reflexivity].
    assert (existsb (key_eqb k) r = true) by (apply existsb_exists; eauto). congruence.
  - destruct (existsb (key_eqb k) r) eqn:E; [|reflexivity].
    apply existsb_exists in E. destruct E as [k' [Hin Hk]]. rewrite (H1 _ Hin) in Hk. discriminate.
Qed.

Lemma key_eqb_refl a : key_eqb a a = true.
Proof. destruct a; cbn [key_eqb]; try apply val_eqb_refl. now rewrite N.eqb_refl. Qed.

Lemma key_eqb_sym a b : key_eqb a b = key_eqb b a.
Proof.
  destruct a, b; cbn [key_eqb]; try reflexivity;
    try (match goal with |- val_eqb ?x ?y = val_eqb ?y ?x =>
           destruct (val_eqb x y) eqn:E1; destruct (val_eqb y x) eqn:E2; try reflexivity;
           [apply val_eqb_spec in E1; rewrite E1, val_eqb_refl in E2; discriminate
           |apply val_eqb_spec in E2; rewrite E2, val_eqb_refl in E1; discriminate] end).
  rewrite N.eqb_sym. now rewrite (andb_comm (fzero bits)).
Qed.

Lemma KND_app_fresh acc k l : KND (acc ++ k :: l) -> kfresh k acc.
Proof.
  induction acc as [|a acc IH]; cbn [app KND]; [constructor|].
  intros [Ha Hr]. constructor; [|now apply IH].
  unfold kfresh in Ha. rewrite Forall_forall in Ha. rewrite key_eqb_sym. apply Ha. apply in_or_app. right. now left.
Qed.

Lemma map_set_fresh k e acc : kfresh k (map fst acc) -> map_set k e acc = acc ++ [(k, e)].
Proof.
  induction acc as [|[k' e'] acc IH]; cbn [map fst map_set app]; [reflexivity|].
  intro H. inversion H as [|? ? Hk Hr]; subst. rewrite Hk. now rewrite IH.
Qed.

Lemma conv_map_clean c ck ce cek z m m' :
  map_value_into_key c = false ->
  Forall2 (fun kv kv' : val * val => ck (fst kv) = COk (fst kv') /\ ce (snd kv) = COk (snd kv')) m m' ->
  forall acc, KND (map fst (acc ++ m')) -> conv_map c ck ce cek z m acc = COk (acc ++ m').
Proof.
  intro Hc. induction 1 as [|[k e] [k' e'] m m' [Hk He] _ IH]; intros acc Hnd; cbn [conv_map].
  - now rewrite app_nil_r.
  - cbn [fst snd] in *. rewrite Hk, Hc, He.
    assert (Hfresh : kfresh k' (map fst acc)).
    { rewrite map_app in Hnd. cbn [map fst] in Hnd. exact (KND_app_fresh _ _ _ Hnd). }
    rewrite (map_set_fresh k' e' acc Hfresh). rewrite IH; rewrite <- app_assoc; [reflexivity | exact Hnd].
Qed.

Lemma Forall2_In_r {A B} (P : A -> B -> Prop) l l' b :
  Forall2 P l l' -> In b l' -> exists a, In a l /\ P a b.
Proof.
  induction 1 as [|x y l l' Hxy _ IH]; cbn [In]; [tauto|].
  intros [->|Hin]; [exists x; auto | destruct (IH Hin) as [a [Ha Hp]]; exists a; auto].
Qed.

(* a conversion sends keys that Go identifies to keys that Go identifies *)
Definition respects_keys (g : val -> cres val) : Prop :=
  forall x y x' y', key_eqb x y = true -> g x = COk x' -> g y = COk y' -> key_eqb x' y' = true.

Lemma round32_zero b : fzero b = true -> round32 b = b.
Proof.
  unfold fzero. rewrite orb_true_iff, !N.eqb_eq. intros [->| ->]; vm_compute; reflexivity.
Qed.

Lemma convert_respects_keys c to from : respects_keys (convert_to c to from).
Proof.
  intros x y x' y' Hk Hx Hy.
  assert (Hcase : x = y \/ exists a b, x = VFloat a /\ y = VFloat b /\ fzero a = true /\ fzero b = true).
  { destruct x, y; cbn [key_eqb] in Hk; try (left; now apply val_eqb_spec).
    apply orb_true_iff in Hk. destruct Hk as [Hk|Hk].
    - apply N.eqb_eq in Hk. left. now subst.
    - apply andb_true_iff in Hk. right. eauto. }
  destruct Hcase as [->|[a [b [-> [-> [Ha Hb]]]]]].
  - rewrite Hx in Hy. inversion Hy; subst. apply key_eqb_refl.
  - destruct to, from; cbn [convert_to] in Hx, Hy; try discriminate Hx;
      inversion Hx; inversion Hy; subst; rewrite ?(round32_zero _ Ha), ?(round32_zero _ Hb);
      cbn [key_eqb]; rewrite Ha, Hb; now rewrite orb_true_r.
Qed.

Lemma KND_back (g : val -> cres val) l l' :
  respects_keys g -> Forall2 (fun a b => g b = COk a) l l' -> KND l -> KND l'.
Proof.
  intro Hg. induction 1 as [|a b l l' Hab H IH]; intro Hnd; [exact I|].
  cbn [KND] in *. destruct Hnd as [Hf Hnd']. split; [|now apply IH].
  unfold kfresh in *. rewrite Forall_forall in *. intros b2 Hin.
  destruct (Forall2_In_r _ _ _ _ H Hin) as [a2 [Ha2 Hg2]].
  destruct (key_eqb b b2) eqn:E; [|reflexivity].
  rewrite <- (Hf _ Ha2). symmetry. exact (Hg _ _ _ _ E Hab Hg2).
Qed.

Lemma map_conv c k1 e1 k2 e2 m :
  clean c -> IHP c k1 -> IHP c e1 -> compat k1 k2 -> compat e1 e2 ->
  has_type (TMap k1 e1) (VMap m) -> exists v', Q c (TMap k1 e1) (TMap k2 e2) (VMap m) v'.
Proof.
  intros Hclean IHk IHe Hck Hce Ht. unfold has_type in Ht. cbn [has_typeb] in Ht.
  apply andb_true_iff in Ht. destruct Ht as [Hall Hnd].
  apply nodupb_KND in Hnd.
  assert (Hex : exists m', Forall2 (fun kv kv' : val * val =>
                  Q c k1 k2 (fst kv) (fst kv') /\ Q c e1 e2 (snd kv) (snd kv')) m m').
  { apply Forall_exists_Forall2. apply Forall_forall. intros [k e] Hin.
    rewrite forallb_forall in Hall. specialize (Hall _ Hin). cbn [fst snd] in *.
    apply andb_true_iff in Hall. destruct Hall as [Hk He].
    destruct (IHk k2 k Hck Hk) as [k' Qk]. destruct (IHe e2 e Hce He) as [e' Qe].
    exists (k', e'). auto. }
  destruct Hex as [m' HF].
  assert (Hnd' : KND (map fst m')).
  { apply (KND_back (convert_to c k1 k2) (map fst m)); [apply convert_respects_keys| |exact Hnd].
    clear -HF. induction HF as [|kv kv' m m' [[_ [_ [_ Hb]]] _] _ IH]; cbn [map]; constructor; auto. }
  exists (VMap m'). unfold Q. cbn [convert_to].
  rewrite (conv_map_clean c _ _ _ _ m m' (proj1 Hclean)) with (acc := []).
  2:{ clear -HF. induction HF as [|kv kv' m m' [[Hk _] [He _]] _ IH]; constructor; auto. }
  2:{ exact Hnd'. }
  rewrite (conv_map_clean c _ _ _ _ m' m (proj1 Hclean)) with (acc := []).
  2:{ clear -HF. induction HF as [|kv kv' m m' [[_ [_ [_ Hk]]] [_ [_ [_ He]]]] _ IH]; constructor; auto. }
  2:{ exact Hnd. }
  cbn [app]. repeat split.
  - unfold has_type. cbn [has_typeb]. apply andb_true_iff. split.
    + clear -HF. induction HF as [|kv kv' m m' [[_ [Hk _]] [_ [He _]]] _ IH]; [reflexivity|].
      cbn [forallb]. unfold has_type in Hk, He. now rewrite Hk, He, IH.
    + now apply nodupb_KND.
  - cbn [agree]. clear -HF. induction HF as [|kv kv' m m' [[_ [_ [Hk _]]] [_ [_ [He _]]]] _ IH]; constructor; auto.
Qed.

(* structs *)
Section FieldsAgree.
  Variable fs2 : list (string * gotype).
  Variable vs' : list val.
  Fixpoint fields_agree (fs : list (string * gotype)) (vs : list val) : Prop :=
    match fs, vs with
    | [], [] => True
    | (n, t) :: fs', x :: vs'' =>
        (exists t' x', find_field n fs2 vs' = Some (t', x') /\ agree t t' x x') /\ fields_agree fs' vs''
    | _, _ => False
    end.
End FieldsAgree.
Lemma agree_struct fs1 fs2 vs vs' :
  agree (TStruct fs1) (TStruct fs2) (VStruct vs) (VStruct vs') =
  (List.length vs' = List.length fs2 /\ fields_agree fs2 vs' fs1 vs).
Proof. reflexivity. Qed.

Lemma name_eqb_sym a b : name_eqb a b = true -> name_eqb b a = true.
Proof. rewrite !name_eqb_iff. auto. Qed.

Lemma string_nodupb l : nodupb String.eqb l = true <-> NoDup l.
Proof. apply nodupb_spec. intros x y. apply String.eqb_eq. Qed.

Lemma struct_conv c fs1 fs2 vs1 :
  Forall (fun nt : string * gotype => IHP c (snd nt)) fs1 ->
  compat (TStruct fs1) (TStruct fs2) -> has_type (TStruct fs1) (VStruct vs1) ->
  exists v', Q c (TStruct fs1) (TStruct fs2) (VStruct vs1) v'.
Proof.
  intros IH Hc Ht. unfold compat in Hc. cbn [compatb] in Hc.
  apply andb_true_iff in Hc. destruct Hc as [Hc F21].
  apply andb_true_iff in Hc. destruct Hc as [Hc F12].
  apply andb_true_iff in Hc. destruct Hc as [ND1 ND2].
  apply string_nodupb in ND1. apply string_nodupb in ND2.
  rewrite forallb_forall in F12, F21. rewrite Forall_forall in IH.
  unfold has_type in Ht. rewrite has_typeb_struct in Ht.
  pose proof (fields_typed_length _ _ Ht) as Hlen.
  set (P2 := fun (nt2 : string * gotype) (x2 : val) =>
               exists t1 x1 n1, find_field (fst nt2) fs1 vs1 = Some (t1, x1) /\
                                In ((n1, t1), x1) (combine fs1 vs1) /\
                                name_eqb (fst nt2) n1 = true /\ Q c t1 (snd nt2) x1 x2).
  assert (Hex : exists vs2, Forall2 P2 fs2 vs2).
  { apply Forall_exists_Forall2. apply Forall_forall. intros [n2 t2] Hin2.
    specialize (F21 _ Hin2). cbn [fst] in F21. apply existsb_exists in F21. destruct F21 as [n1' [Hn1' Hn21']].
    destruct (find_field_some n2 n1' fs1 vs1 Hlen Hn1' Hn21') as [t1 [x1 Hfind]].
    destruct (find_field_In _ _ _ _ _ Hfind) as [n1 [Hin1 Hn21]].
    pose proof (in_combine_l _ _ _ _ Hin1) as Hin1f.
    pose proof (F12 _ Hin1f) as H12. cbn beta iota in H12.
    destruct (field_type n1 fs2) as [t'|] eqn:Eft; [|discriminate].
    rewrite (field_type_unique n1 n2 fs2 t2 ND2 Hin2 (name_eqb_sym _ _ Hn21)) in Eft. inversion Eft; subst t'.
    destruct (IH _ Hin1f t2 x1 H12 (fields_typed_In _ _ _ _ _ Ht Hin1)) as [x2 HQ].
    exists x2, t1, x1, n1. cbn [fst snd]. auto. }
  destruct Hex as [vs2 HF2].
  assert (Hstar : forall n1 t1 x1, In ((n1, t1), x1) (combine fs1 vs1) ->
                  exists t2 x2, find_field n1 fs2 vs2 = Some (t2, x2) /\ Q c t1 t2 x1 x2).
  { intros n1 t1 x1 Hin1. pose proof (in_combine_l _ _ _ _ Hin1) as Hin1f.
    pose proof (F12 _ Hin1f) as H12. cbn beta iota in H12.
    destruct (field_type n1 fs2) as [t2|] eqn:Eft; [|discriminate].
    destruct (field_type_In _ _ _ Eft) as [n2 [Hin2 Hn12]].
    destruct (Forall2_In_l _ _ _ _ HF2 Hin2) as [x2 [Hin2c [t1' [x1' [n1' [Hf [_ [_ HQ]]]]]]]].
    cbn [fst snd] in *.
    rewrite (find_field_unique n2 n1 fs1 vs1 t1 x1 ND1 Hin1 (name_eqb_sym _ _ Hn12)) in Hf.
    inversion Hf; subst t1' x1'.
    exists t2, x2. split; [|exact HQ].
    exact (find_field_unique n1 n2 fs2 vs2 t2 x2 ND2 Hin2c Hn12). }
  assert (HF1 : Forall2 (fun (nt1 : string * gotype) x1 =>
                  exists t2 x2, find_field (fst nt1) fs2 vs2 = Some (t2, x2) /\ Q c (snd nt1) t2 x1 x2) fs1 vs1).
  { apply Forall2_combine; [exact Hlen|]. intros [n1 t1] x1 Hin. cbn [fst snd]. now apply Hstar. }
  exists (VStruct vs2). unfold Q at 1. cbn [convert_to].
  rewrite (conv_fields_of_Forall2 _ fs1 vs1 fs2 vs2).
  2:{ clear -HF2. induction HF2 as [|nt x l l' [t1 [x1 [n1 [Hf [_ [_ [HQ _]]]]]]] _ IHl]; constructor; eauto. }
  rewrite (conv_fields_of_Forall2 _ fs2 vs2 fs1 vs1).
  2:{ clear -HF1. induction HF1 as [|nt x l l' [t2 [x2 [Hf [_ [_ [_ HQ]]]]]] _ IHl]; constructor; eauto. }
  repeat split.
  - unfold has_type. rewrite has_typeb_struct. apply fields_typed_of_Forall2.
    clear -HF2. induction HF2 as [|nt x l l' [t1 [x1 [n1 [_ [_ [_ [_ [HT _]]]]]]]] _ IHl]; constructor; auto.
  - symmetry. exact (Forall2_len _ _ _ HF2).
  - clear -HF1. induction HF1 as [|[n t] x l l' [t2 [x2 [Hf [_ [_ [HA _]]]]]] _ IHl]; cbn [fields_agree]; [exact I|].
    cbn [fst snd] in *. split; [eauto | exact IHl].
Qed.

(* ---------- C20, first clause ---------- *)

Lemma float32_typed b : has_typeb TFloat32 (VFloat b) = true -> float_ok b = true /\ round32 b = b.
Proof. cbn [has_typeb]. rewrite andb_true_iff, N.eqb_eq. auto. Qed.

Theorem convert_compat_to : forall c, clean c -> forall t1, IHP c t1.
Proof.
  intros c Hclean. unfold IHP.
  induction t1 as [| |k1| | |e1 IHe|k1 e1 IHk IHe|fs1 IHfs] using gotype_ind2; intros t2 v Hc Ht.
  - destruct t2; try discriminate Hc. destruct v; try discriminate Ht.
    exists (VBool b). repeat split.
  - destruct t2; try discriminate Hc. destruct v; try discriminate Ht.
    exists (VStr s). repeat split.
  - destruct t2 as [| |k2| | | | |]; try discriminate Hc. destruct v; try discriminate Ht.
    unfold compat in Hc. cbn [compatb] in Hc. apply andb_true_iff in Hc. destruct Hc as [Hs Hb].
    apply Bool.eqb_prop in Hs. apply Z.leb_le in Hb. unfold has_type in Ht. cbn [has_typeb] in Ht.
    destruct (int_widen k1 k2 z Hs Hb Ht) as [H1 [H2 H3]].
    exists (VInt z). unfold Q. cbn [convert_to]. rewrite H1, H3. repeat split. exact H2.
  - destruct t2; try discriminate Hc; destruct v; try discriminate Ht;
      apply float32_typed in Ht; destruct Ht as [Hok Hr]; exists (VFloat bits); unfold Q, has_type;
      cbn [convert_to has_typeb agree]; rewrite ?Hr, ?Hok, ?N.eqb_refl; repeat split.
  - destruct t2; try discriminate Hc. destruct v; try discriminate Ht.
    exists (VFloat bits). repeat split. exact Ht.
  - destruct t2 as [| | | | |e2| |]; try discriminate Hc. destruct v; try discriminate Ht.
    unfold has_type in Ht. cbn [has_typeb] in Ht.
    destruct (slice_conv c e1 e2 l IHe Hc Ht) as [l' [F [T [A B]]]].
    exists (VSlice l'). unfold Q, has_type. cbn [convert_to has_typeb agree]. rewrite F, B. repeat split; assumption.
  - destruct t2 as [| | | | | |k2 e2|]; try discriminate Hc. destruct v; try discriminate Ht.
    unfold compat in Hc. cbn [compatb] in Hc. apply andb_true_iff in Hc. destruct Hc as [Hck Hce].
    exact (map_conv c k1 e1 k2 e2 m Hclean IHk IHe Hck Hce Ht).
  - destruct t2 as [| | | | | | |fs2]; try discriminate Hc. destruct v; try discriminate Ht.
    exact (struct_conv c fs1 fs2 fs IHfs Hc Ht).
Qed.

Theorem convert_compat : forall c, clean c -> forall t1 t2 v, compat t1 t2 -> has_type t1 v ->
  exists v', convert c t1 t2 v = COk v' /\ has_type t2 v' /\ agree t1 t2 v v' /\ convert c t2 t1 v' = COk v.
Proof. intros c Hc t1 t2 v H1 H2. exact (convert_compat_to c Hc t1 t2 v H1 H2). Qed.

(* ---------- C20, second clause: kinds of different classes are refused ---------- *)

Theorem convert_class_mismatch : forall c t1 t2 v, class_of t1 <> class_of t2 -> convert c t1 t2 v = CErr.
Proof.
  intros c t1 t2 v H. unfold convert.
  destruct t2, t1; cbn [class_of] in H; try congruence; cbn [convert_to]; try reflexivity; destruct v; reflexivity.
Qed.

(* ... at any depth: an element, key or matched field of another class makes the whole
   conversion fail (clean configuration: the pinned convertMap never converts the element
   into the element type) *)
Lemma map_res_err {A B} (f : A -> cres B) l x : In x l -> f x = CErr -> map_res f l = CErr.
Proof.
  induction l as [|a l IH]; cbn [In map_res]; [tauto|].
  intros [->|Hin] He; [now rewrite He|]. destruct (f a); [|reflexivity]. now rewrite (IH Hin He).
Qed.

Lemma conv_map_err c ck ce cek z m kv :
  map_value_into_key c = false -> In kv m -> ck (fst kv) = CErr \/ ce (snd kv) = CErr ->
  forall acc, conv_map c ck ce cek z m acc = CErr.
Proof.
  intros Hc. induction m as [|[k e] m IH]; cbn [In conv_map]; [tauto|].
  intros [E|Hin] He acc; [subst kv|]; cbn [fst snd] in *.
  - destruct He as [He|He]; [now rewrite He|]. destruct (ck k); [|reflexivity]. now rewrite Hc, He.
  - destruct (ck k); [|reflexivity]. rewrite Hc. destruct (ce e); [|reflexivity]. now apply IH.
Qed.

Lemma conv_fields_err cv ffs ws tfs n t ft fw :
  In (n, t) tfs -> find_field n ffs ws = Some (ft, fw) -> cv t ft fw = CErr -> conv_fields cv ffs ws tfs = CErr.
Proof.
  induction tfs as [|[n0 t0] tfs IH]; cbn [In conv_fields]; [tauto|].
  intros [E|Hin] Hf He.
  - inversion E; subst. now rewrite Hf, He.
  - rewrite (IH Hin Hf He). destruct (find_field n0 ffs ws) as [[ft0 fw0]|]; [destruct (cv t0 ft0 fw0)|]; reflexivity.
Qed.

Lemma class_eqb_true a b : class_eqb a b = true -> a = b.
Proof. destruct a, b; cbn; congruence. Qed.

Theorem other_kind_refused : forall c, clean c -> forall to from w,
  other_kind_reached to from w = true -> convert_to c to from w = CErr.
Proof.
  intros c Hclean.
  induction to as [| |k| | |te IHe|tk te IHk IHe|tfs IHfs] using gotype_ind2; intros from w H;
    cbn [other_kind_reached] in H; apply orb_true_iff in H;
    (destruct H as [H|H];
     [ apply negb_true_iff in H; match goal with |- convert_to c ?t from w = CErr => apply (convert_class_mismatch c from t w) end; intro E; rewrite E in H;
       destruct (class_of from); discriminate H | ]); try discriminate H.
  - destruct from; try discriminate H. destruct w; try discriminate H.
    apply existsb_exists in H. destruct H as [x [Hin Hx]]. cbn [convert_to].
    now rewrite (map_res_err _ _ x Hin (IHe _ _ Hx)).
  - destruct from; try discriminate H. destruct w; try discriminate H.
    apply existsb_exists in H. destruct H as [kv [Hin Hx]]. cbn [convert_to].
    rewrite (conv_map_err c _ _ _ _ m kv (proj1 Hclean) Hin); [reflexivity|].
    apply orb_true_iff in Hx. destruct Hx as [Hx|Hx]; [left; now apply IHk | right; now apply IHe].
  - destruct from; try discriminate H. destruct w; try discriminate H.
    apply existsb_exists in H. destruct H as [[n t] [Hin Hx]]. cbn [convert_to].
    destruct (find_field n fs fs0) as [[ft fw]|] eqn:Hf; [|discriminate Hx].
    rewrite Forall_forall in IHfs. specialize (IHfs _ Hin ft fw Hx). cbn [snd] in IHfs.
    now rewrite (conv_fields_err (fun t f x => convert_to c t f x) fs fs0 tfs n t ft fw Hin Hf IHfs).
Qed.

(* ---------- leaves: the scalars of the result are the scalars of the source ---------- *)

Lemma flat_map_perm_pointwise {A} (f : A -> list val) l l' :
  Forall2 (fun a b => Permutation (f a) (f b)) l l' -> Permutation (flat_map f l) (flat_map f l').
Proof. induction 1; cbn [flat_map]; [constructor | now apply Permutation_app]. Qed.

Lemma flat_map_perm {A} (f : A -> list val) l l' : Permutation l l' -> Permutation (flat_map f l) (flat_map f l').
Proof.
  induction 1; cbn [flat_map]; try reflexivity.
  - now apply Permutation_app_head.
  - rewrite !app_assoc. apply Permutation_app_tail. apply Permutation_app_comm.
  - etransitivity; eassumption.
Qed.

Lemma in_combine_lnames (fs : list (string * gotype)) (vs : list val) n t y :
  In ((n, t), y) (combine fs vs) -> In (lower n, y) (combine (lnames fs) vs).
Proof.
  revert vs. induction fs as [|[n0 t0] fs IH]; intros [|v vs]; cbn [combine lnames map fst In]; try tauto.
  intros [E|Hin]; [inversion E; subst; now left | right; now apply IH].
Qed.

Lemma NoDup_combine_l {A B} (l : list A) (l' : list B) : NoDup l -> NoDup (combine l l').
Proof.
  revert l'. induction l as [|a l IH]; intros [|b l'] H; cbn [combine]; try constructor.
  - inversion H; subst. intro Hin. apply in_combine_l in Hin. contradiction.
  - inversion H; subst. now apply IH.
Qed.

Lemma map_snd_combine {A B} (l : list A) (l' : list B) : List.length l = List.length l' -> map snd (combine l l') = l'.
Proof.
  revert l'. induction l as [|a l IH]; intros [|b l'] H; cbn [combine map snd]; try discriminate H; [reflexivity|].
  f_equal. apply IH. now inversion H.
Qed.

Lemma lnames_length fs : List.length (lnames fs) = List.length fs.
Proof. unfold lnames. apply map_length. Qed.

Lemma found_perm fs1 fs2 vs2 ys :
  NoDup (lnames fs1) -> List.length vs2 = List.length fs2 -> List.length fs1 = List.length fs2 ->
  Forall2 (fun (nt1 : string * gotype) y => exists t', find_field (fst nt1) fs2 vs2 = Some (t', y)) fs1 ys ->
  Permutation ys vs2.
Proof.
  intros ND1 Hl2 Hl12 HF.
  pose proof (Forall2_len _ _ _ HF) as Hl1.
  assert (Hperm : Permutation (combine (lnames fs1) ys) (combine (lnames fs2) vs2)).
  { apply NoDup_Permutation_bis.
    - now apply NoDup_combine_l.
    - rewrite !combine_length, !lnames_length. lia.
    - intros [ln y] Hin.
      assert (Hex : exists n1 t1, In ((n1, t1), y) (combine fs1 ys) /\ ln = lower n1).
      { clear -Hin. revert ys Hin. induction fs1 as [|[n0 t0] fs1 IH]; intros [|y0 ys]; cbn [combine lnames map fst In]; try tauto.
        intros [E|Hin]; [inversion E; subst; exists n0, t0; auto|].
        destruct (IH ys Hin) as [n1 [t1 [H1 H2]]]. exists n1, t1. auto. }
      destruct Hex as [n1 [t1 [Hin1 ->]]].
      destruct (Forall2_In_combine _ _ _ _ _ HF Hin1) as [t' Hf]. cbn [fst] in Hf.
      destruct (find_field_In _ _ _ _ _ Hf) as [n2 [Hin2 Hn]].
      apply name_eqb_iff in Hn. rewrite Hn. exact (in_combine_lnames _ _ _ _ _ Hin2). }
  apply (Permutation_map snd) in Hperm.
  rewrite !map_snd_combine in Hperm by (rewrite lnames_length; lia). exact Hperm.
Qed.

Lemma find_field_type n fs vs t x : find_field n fs vs = Some (t, x) -> field_type n fs = Some t.
Proof.
  revert vs. induction fs as [|[n0 t0] fs IH]; intros [|v vs]; cbn [find_field field_type]; try discriminate.
  destruct (name_eqb n n0); [intro H; now inversion H | apply IH].
Qed.

Lemma compat_struct_facts fs1 fs2 :
  compat (TStruct fs1) (TStruct fs2) ->
  NoDup (lnames fs1) /\ NoDup (lnames fs2) /\ List.length fs1 = List.length fs2 /\
  (forall n t, In (n, t) fs1 -> exists t', field_type n fs2 = Some t' /\ compat t t').
Proof.
  intro Hc. unfold compat in Hc. cbn [compatb] in Hc.
  apply andb_true_iff in Hc. destruct Hc as [Hc F21].
  apply andb_true_iff in Hc. destruct Hc as [Hc F12].
  apply andb_true_iff in Hc. destruct Hc as [ND1 ND2].
  apply string_nodupb in ND1. apply string_nodupb in ND2.
  rewrite forallb_forall in F12, F21.
  assert (H12 : forall n t, In (n, t) fs1 -> exists t', field_type n fs2 = Some t' /\ compat t t').
  { intros n t Hin. specialize (F12 _ Hin). cbn beta iota in F12.
    destruct (field_type n fs2) as [t'|]; [eauto | discriminate]. }
  repeat split; try assumption.
  assert (I12 : incl (lnames fs1) (lnames fs2)).
  { intros ln Hin. unfold lnames in Hin. apply in_map_iff in Hin. destruct Hin as [[n t] [<- Hin]].
    destruct (H12 n t Hin) as [t' [Hf _]]. destruct (field_type_In _ _ _ Hf) as [n' [Hin' Hn]].
    apply name_eqb_iff in Hn. cbn [fst]. rewrite Hn. unfold lnames. apply in_map_iff. exists (n', t'). auto. }
  assert (I21 : incl (lnames fs2) (lnames fs1)).
  { intros ln Hin. unfold lnames in Hin. apply in_map_iff in Hin. destruct Hin as [[n t] [<- Hin]].
    specialize (F21 _ Hin). cbn [fst] in *. apply existsb_exists in F21. destruct F21 as [n1 [Hin1 Hn]].
    apply name_eqb_iff in Hn. rewrite Hn. apply in_map_iff in Hin1. destruct Hin1 as [[n1' t1] [E Hin1]].
    cbn [fst] in E. subst n1'. unfold lnames. apply in_map_iff. exists (n1, t1). auto. }
  pose proof (NoDup_incl_length ND1 I12) as L1. pose proof (NoDup_incl_length ND2 I21) as L2.
  rewrite !lnames_length in L1, L2. lia.
Qed.

Lemma fields_agree_Forall2 fs2 vs2 fs1 vs1 :
  fields_agree fs2 vs2 fs1 vs1 ->
  Forall2 (fun (nt1 : string * gotype) x1 =>
             exists t' x', find_field (fst nt1) fs2 vs2 = Some (t', x') /\ agree (snd nt1) t' x1 x') fs1 vs1.
Proof.
  revert vs1. induction fs1 as [|[n t] fs1 IH]; intros [|x vs1]; cbn [fields_agree]; try tauto; [constructor|].
  intros [H Hr]. constructor; [exact H | now apply IH].
Qed.

Theorem agree_leaves : forall t1 t2 v v', compat t1 t2 -> agree t1 t2 v v' -> Permutation (leaves v) (leaves v').
Proof.
  induction t1 as [| |k1| | |e1 IHe|k1 e1 IHk IHe|fs1 IHfs] using gotype_ind2; intros t2 v v' Hc Ha;
    destruct t2 as [| |k2| | |e2|k2 e2|gs2]; try discriminate Hc;
    destruct v as [b|s|z|b|l|m|vs1]; try contradiction Ha;
    destruct v' as [b'|s'|z'|b'|l'|m'|vs2]; try contradiction Ha;
    cbn [agree] in Ha; try (subst; reflexivity).
  - cbn [leaves]. unfold compat in Hc. cbn [compatb] in Hc. apply flat_map_perm_pointwise.
    induction Ha as [|x y l1 l2 Hxy _ IH]; constructor; [eapply IHe; [exact Hc | exact Hxy] | exact IH].
  - cbn [leaves]. unfold compat in Hc. cbn [compatb] in Hc. apply andb_true_iff in Hc. destruct Hc as [Hck Hce].
    apply flat_map_perm_pointwise.
    induction Ha as [|kv kv' m m' [Hk He] _ IH]; constructor; [|exact IH].
    apply Permutation_app; [now apply (IHk k2) | now apply (IHe e2)].
  - cbn [leaves]. destruct Ha as [Hlen HA].
    destruct (compat_struct_facts _ _ Hc) as [ND1 [ND2 [Hl12 H12]]].
    apply fields_agree_Forall2 in HA. rewrite Forall_forall in IHfs.
    assert (Hex : exists ys, Forall2 (fun x1 y => Permutation (leaves x1) (leaves y)) vs1 ys /\
                             Forall2 (fun (nt1 : string * gotype) y => exists t', find_field (fst nt1) gs2 vs2 = Some (t', y)) fs1 ys).
    { clear -HA IHfs H12. induction HA as [|[n t] x1 l l' [t' [x' [Hf Hag]]] _ IH].
      - exists []. split; constructor.
      - destruct IH as [ys [P1 P2]].
        + intros nt Hin. apply IHfs. now right.
        + intros n0 t0 Hin. apply H12. now right.
        + exists (x' :: ys). cbn [fst snd] in *. split; constructor; eauto.
          apply (IHfs (n, t) (or_introl eq_refl) t'); [|exact Hag].
          destruct (H12 n t (or_introl eq_refl)) as [t'' [Hft Hct]].
          rewrite (find_field_type _ _ _ _ _ Hf) in Hft. inversion Hft; subst. exact Hct. }
    destruct Hex as [ys [P1 P2]].
    etransitivity; [exact (flat_map_perm_pointwise leaves _ _ P1)|].
    apply flat_map_perm. exact (found_perm fs1 gs2 vs2 ys ND1 Hlen Hl12 P2).
Qed.

Theorem convert_leaves : forall c, clean c -> forall t1 t2 v v', compat t1 t2 -> has_type t1 v ->
  convert c t1 t2 v = COk v' -> Permutation (leaves v') (leaves v).
Proof.
  intros c Hc t1 t2 v v' H1 H2 H3. destruct (convert_compat c Hc t1 t2 v H1 H2) as [v'' [E [_ [A _]]]].
  rewrite H3 in E. inversion E; subst v''. symmetry. exact (agree_leaves t1 t2 v v' H1 A).
Qed.


(* ---------- destinations that are not fresh ---------- *)

Lemma conv_slice_into_eq (cv : dval -> val -> cres val) (f : val -> cres val) z l :
  (forall x o, In x l -> cv o x = f x) -> forall olds, conv_slice_into cv z olds l = map_res f l.
Proof.
  induction l as [|x l IH]; intros H olds; cbn [conv_slice_into map_res]; [reflexivity|].
  rewrite (H x _ (or_introl eq_refl)). rewrite IH; [reflexivity|]. intros y o Hin. apply H. now right.
Qed.

Lemma conv_slice_into_nil (cv : dval -> val -> cres val) (f : val -> cres val) z l :
  (forall x, cv z x = f x) -> conv_slice_into cv z [] l = map_res f l.
Proof.
  intro H. induction l as [|x l IH]; cbn [conv_slice_into map_res tl]; [reflexivity|]. now rewrite H, IH.
Qed.

Lemma conv_fields_into_eq cvi cv ffs ws tfs :
  Forall (fun nt : string * gotype =>
            match find_field (fst nt) ffs ws with
            | Some (ft, fw) => forall o, cvi (snd nt) ft fw o = cv (snd nt) ft fw
            | None => False
            end) tfs ->
  forall olds, conv_fields_into cvi ffs ws tfs olds = conv_fields cv ffs ws tfs.
Proof.
  induction 1 as [|[n t] tfs H _ IH]; intros olds; cbn [conv_fields_into conv_fields]; [reflexivity|].
  cbn [fst snd] in H. destruct (find_field n ffs ws) as [[ft fw]|]; [|contradiction].
  now rewrite H, IH.
Qed.

Lemma visible_dzero t : visible (dzero t) = zero t.
Proof.
  induction t as [| |k| | |e IHe|k e IHk IHe|fs IHfs] using gotype_ind2; try reflexivity.
  cbn [dzero visible zero]. f_equal. rewrite map_map.
  induction IHfs as [|nt l H _ IH]; [reflexivity|]. cbn [map]. now rewrite H, IH.
Qed.

Lemma conv_fields_into_zero cvi cv ffs ws tfs :
  Forall (fun nt : string * gotype => forall ft fw, cvi (snd nt) ft fw (dzero (snd nt)) = cv (snd nt) ft fw) tfs ->
  conv_fields_into cvi ffs ws tfs (map (fun nt : string * gotype => dzero (snd nt)) tfs) = conv_fields cv ffs ws tfs.
Proof.
  induction 1 as [|[n t] tfs H _ IH]; cbn [conv_fields_into conv_fields map tl]; [reflexivity|].
  cbn [snd] in *. rewrite IH. destruct (find_field n ffs ws) as [[ft fw]|]; [now rewrite H | now rewrite visible_dzero].
Qed.

(* a destination that holds zero values is a fresh destination, whatever the switches *)
Theorem convert_into_fresh : forall c to from w, convert_into c to from w (dzero to) = convert_to c to from w.
Proof.
  intro c. induction to as [| |k| | |te IHe|tk te IHk IHe|tfs IHfs] using gotype_ind2; intros from w; try reflexivity.
  - cbn [convert_into convert_to dzero]. destruct from; try reflexivity. destruct w; try reflexivity.
    cbn [List.length]. replace (if Nat.ltb 0 (List.length l) then @nil dval else []) with (@nil dval) by (destruct (Nat.ltb _ _); reflexivity).
    rewrite (conv_slice_into_nil _ (convert_to c te from) (dzero te) l); [reflexivity|]. intro x. apply IHe.
  - cbn [convert_into convert_to dzero visible map]. destruct from; try reflexivity. destruct w; try reflexivity.
    destruct (map_keeps_old_entries c); reflexivity.
  - cbn [convert_into convert_to dzero]. destruct from; try reflexivity. destruct w; try reflexivity.
    rewrite (conv_fields_into_zero _ (fun t f x => convert_to c t f x)); [reflexivity|].
    clear -IHfs. induction IHfs as [|nt l H _ IH]; constructor; [|exact IH]. intros ft fw. apply H.
Qed.

(* covered to from: every struct field of the target (outside map keys and elements, which are
   converted into fresh variables) has a source field of the same lower-cased name, recursively.
   Holds in both directions for compatible types; it is all that independence needs. *)
Fixpoint coveredb (to from : gotype) {struct to} : bool :=
  match to, from with
  | TSlice te, TSlice fe => coveredb te fe
  | TStruct tfs, TStruct ffs =>
      forallb (fun nt : string * gotype =>
                 match field_type (fst nt) ffs with Some ft => coveredb (snd nt) ft | None => false end) tfs
  | _, _ => true
  end.

Lemma find_field_of_type n ffs ws ft :
  fields_typed ffs ws = true -> field_type n ffs = Some ft ->
  exists fw, find_field n ffs ws = Some (ft, fw) /\ has_typeb ft fw = true.
Proof.
  revert ws. induction ffs as [|[n0 t0] ffs IH]; intros [|w ws]; cbn [fields_typed field_type find_field]; try discriminate.
  rewrite andb_true_iff. intros [H0 Hr]. destruct (name_eqb n n0).
  - intro E. inversion E; subst. eauto.
  - intro E. exact (IH ws Hr E).
Qed.

(* with the switches off, what a conversion leaves in the destination does not depend on what
   the destination held, provided every target field has a source field *)
Theorem convert_into_covered : forall c, clean c -> forall to from w old,
  coveredb to from = true -> has_type from w -> convert_into c to from w old = convert_to c to from w.
Proof.
  intros c Hclean.
  induction to as [| |k| | |te IHe|tk te IHk IHe|tfs IHfs] using gotype_ind2; intros from w old Hc Ht; try reflexivity.
  - cbn [convert_into convert_to]. destruct from as [| | | | |fe| |]; try reflexivity. destruct w; try reflexivity.
    unfold has_type in Ht. cbn [has_typeb] in Ht. rewrite forallb_forall in Ht. cbn [coveredb] in Hc.
    rewrite (conv_slice_into_eq _ (convert_to c te fe) (dzero te) l); [reflexivity|].
    intros x o Hin. apply IHe; [exact Hc | exact (Ht _ Hin)].
  - cbn [convert_into convert_to]. destruct from; try reflexivity. destruct w; try reflexivity.
    now rewrite (proj2 Hclean).
  - cbn [convert_into convert_to]. destruct from as [| | | | | | |ffs]; try reflexivity. destruct w as [| | | | | |ws]; try reflexivity.
    unfold has_type in Ht. rewrite has_typeb_struct in Ht. cbn [coveredb] in Hc. rewrite forallb_forall in Hc.
    rewrite (conv_fields_into_eq _ (fun t f x => convert_to c t f x)); [reflexivity|].
    rewrite Forall_forall in IHfs |- *. intros [n2 t2] Hin2. cbn [fst snd].
    specialize (Hc _ Hin2). cbn [fst snd] in Hc.
    destruct (field_type n2 ffs) as [ft|] eqn:Eft; [|discriminate Hc].
    destruct (find_field_of_type n2 ffs ws ft Ht Eft) as [fw [Hf Hw]].
    rewrite Hf. intro o. exact (IHfs _ Hin2 ft fw o Hc Hw).
Qed.

Lemma compat_covered : forall t1 t2, compat t1 t2 -> coveredb t2 t1 = true /\ coveredb t1 t2 = true.
Proof.
  induction t1 as [| |k1| | |e1 IHe|k1 e1 IHk IHe|fs1 IHfs] using gotype_ind2; intros t2 Hc;
    destruct t2 as [| |k2| | |e2|k2 e2|fs2]; try discriminate Hc; try (split; reflexivity).
  - cbn [coveredb]. apply IHe. exact Hc.
  - destruct (compat_struct_facts fs1 fs2 Hc) as [ND1 [ND2 [_ H12]]].
    unfold compat in Hc. cbn [compatb] in Hc. apply andb_true_iff in Hc. destruct Hc as [_ F21].
    rewrite forallb_forall in F21. rewrite Forall_forall in IHfs.
    cbn [coveredb]. split; apply forallb_forall.
    + intros [n2 t2] Hin2. cbn [fst snd].
      specialize (F21 _ Hin2). cbn [fst] in F21. apply existsb_exists in F21. destruct F21 as [n1' [Hn1' Hn21']].
      apply in_map_iff in Hn1'. destruct Hn1' as [[n1'' t1'] [E Hin1']]. cbn [fst] in E. subst n1''.
      destruct (field_type n2 fs1) as [t1|] eqn:Eft.
      2:{ exfalso. clear -Eft Hin1' Hn21'. induction fs1 as [|[n0 t0] fs1 IH]; [exact Hin1'|].
          cbn [field_type] in Eft. destruct (name_eqb n2 n0) eqn:E0; [discriminate|].
          destruct Hin1' as [E|Hin]; [inversion E; subst; congruence | exact (IH Hin Eft)]. }
      destruct (field_type_In _ _ _ Eft) as [n1 [Hin1 Hn21]].
      destruct (H12 n1 t1 Hin1) as [t' [Hf Hct]].
      rewrite (field_type_unique n1 n2 fs2 t2 ND2 Hin2 (name_eqb_sym _ _ Hn21)) in Hf. inversion Hf; subst t'.
      exact (proj1 (IHfs _ Hin1 t2 Hct)).
    + intros [n1 t1] Hin1. cbn [fst snd]. destruct (H12 n1 t1 Hin1) as [t' [Hf Hct]]. rewrite Hf.
      exact (proj2 (IHfs _ Hin1 t' Hct)).
Qed.

Theorem convert_onto_indep : forall c, clean c -> forall t1 t2 v old, compat t1 t2 -> has_type t1 v ->
  convert_onto c t1 t2 v old = convert c t1 t2 v.
Proof.
  intros c Hc t1 t2 v old H1 H2.
  exact (convert_into_covered c Hc t2 t1 v old (proj1 (compat_covered t1 t2 H1)) H2).
Qed.

(* ... hence the first clause holds whatever the destination held, on the way there and back *)
Theorem convert_onto_compat : forall c, clean c -> forall t1 t2 v old, compat t1 t2 -> has_type t1 v ->
  exists v', convert_onto c t1 t2 v old = COk v' /\ has_type t2 v' /\ agree t1 t2 v v' /\
             forall old', convert_onto c t2 t1 v' old' = COk v.
Proof.
  intros c Hc t1 t2 v old H1 H2. destruct (convert_compat c Hc t1 t2 v H1 H2) as [v' [E [T [A B]]]].
  exists v'. rewrite (convert_onto_indep c Hc t1 t2 v old H1 H2). repeat split; try assumption.
  intro old'. unfold convert_onto. unfold convert in B. rewrite <- B.
  exact (convert_into_covered c Hc t1 t2 v' old' (proj2 (compat_covered t1 t2 H1)) T).
Qed.

(* ---------- the entry points: ConvertFrom, DecodeFrom, Proxy.Call2 ---------- *)

Fixpoint same_sig_fields (fs1 fs2 : list (string * gotype)) : bool :=
  match fs1, fs2 with
  | [], [] => true
  | (n1, t1) :: r1, (n2, t2) :: r2 => String.eqb n1 n2 && same_sigb t1 t2 && same_sig_fields r1 r2
  | _, _ => false
  end.
Lemma same_sigb_struct fs1 fs2 : same_sigb (TStruct fs1) (TStruct fs2) = same_sig_fields fs1 fs2.
Proof. reflexivity. Qed.

Lemma same_sig_class t1 t2 : same_sigb t1 t2 = true -> class_of t1 = class_of t2.
Proof. destruct t1, t2; cbn [same_sigb class_of]; try discriminate; reflexivity. Qed.

Lemma convert_onto_class_mismatch c t1 t2 v old : class_of t1 <> class_of t2 -> convert_onto c t1 t2 v old = CErr.
Proof.
  intro H. unfold convert_onto.
  destruct t2, t1; cbn [class_of] in H; try congruence; cbn [convert_into convert_to]; try reflexivity; destruct v; reflexivity.
Qed.

(* second clause at every entry point: kinds of different classes are refused, whatever the value,
   whatever the destination held, whatever the switches *)
Theorem enter_class_mismatch : forall e c t1 t2 v old, class_of t1 <> class_of t2 -> enter e c t1 t2 v old = CErr.
Proof.
  intros e c t1 t2 v old H. unfold enter.
  assert (Hconv : match old with None => convert c t1 t2 v | Some d => convert_onto c t1 t2 v d end = CErr).
  { destruct old; [now apply convert_onto_class_mismatch | now apply convert_class_mismatch]. }
  destruct e; try exact Hconv.
  destruct (same_sigb t1 t2) eqn:E; [|exact Hconv]. apply same_sig_class in E. contradiction.
Qed.

(* the fields of two struct types with the same signature, position by position *)
Lemma same_sig_fields_Forall2 fs1 fs2 :
  same_sig_fields fs1 fs2 = true ->
  Forall2 (fun a b : string * gotype => fst a = fst b /\ same_sigb (snd a) (snd b) = true) fs1 fs2.
Proof.
  revert fs2. induction fs1 as [|[n1 t1] fs1 IH]; intros [|[n2 t2] fs2]; cbn [same_sig_fields]; try discriminate.
  - constructor.
  - rewrite !andb_true_iff. intros [[Hn Ht] Hr]. apply String.eqb_eq in Hn. constructor; [cbn [fst snd]; auto | now apply IH].
Qed.

Lemma Forall2_combine_shift {A B} (R : A -> A -> Prop) (l1 l2 : list A) (vs : list B) b x :
  Forall2 R l1 l2 -> In (b, x) (combine l2 vs) -> exists a, In (a, x) (combine l1 vs) /\ R a b.
Proof.
  intro H. revert vs. induction H as [|a1 a2 l1 l2 HR _ IH]; intros [|v vs]; cbn [combine In]; try tauto.
  intros [E|Hin].
  - inversion E; subst. exists a1. auto.
  - destruct (IH vs Hin) as [a [Ha HRa]]. exists a. auto.
Qed.

(* a reply whose advertised signature is the caller's own is read directly; for compatible types
   that is the conversion: converting into a type with the same signature gives the value itself *)
Theorem same_sig_convert : forall c, clean c -> forall t1 t2 v,
  same_sigb t1 t2 = true -> compat t1 t2 -> has_type t1 v -> convert c t1 t2 v = COk v.
Proof.
  intros c Hclean. unfold convert.
  induction t1 as [| |k1| | |e1 IHe|k1 e1 IHk IHe|fs1 IHfs] using gotype_ind2; intros t2 v Hs Hc Ht.
  - destruct t2; try discriminate Hc. destruct v; try discriminate Ht. reflexivity.
  - destruct t2; try discriminate Hc. destruct v; try discriminate Ht. reflexivity.
  - destruct t2 as [| |k2| | | | |]; try discriminate Hc. destruct v; try discriminate Ht.
    unfold compat in Hc. cbn [compatb] in Hc. apply andb_true_iff in Hc. destruct Hc as [Hsg Hb].
    apply Bool.eqb_prop in Hsg. apply Z.leb_le in Hb. unfold has_type in Ht. cbn [has_typeb] in Ht.
    destruct (int_widen k1 k2 z Hsg Hb Ht) as [H1 _]. cbn [convert_to]. now rewrite H1.
  - destruct t2; try discriminate Hs. destruct v; try discriminate Ht.
    apply float32_typed in Ht. destruct Ht as [_ Hr]. cbn [convert_to]. now rewrite Hr.
  - destruct t2; try discriminate Hs. destruct v; try discriminate Ht. reflexivity.
  - destruct t2 as [| | | | |e2| |]; try discriminate Hc. destruct v; try discriminate Ht.
    cbn [same_sigb] in Hs. unfold compat in Hc. cbn [compatb] in Hc. unfold has_type in Ht. cbn [has_typeb] in Ht.
    cbn [convert_to].
    assert (E : map_res (convert_to c e2 e1) l = COk l).
    { induction l as [|x l IHl]; cbn [map_res forallb] in *; [reflexivity|].
      apply andb_true_iff in Ht. destruct Ht as [Hx Hl]. rewrite (IHe e2 x Hs Hc Hx), (IHl Hl). reflexivity. }
    now rewrite E.
  - destruct t2 as [| | | | | |k2 e2|]; try discriminate Hc. destruct v; try discriminate Ht.
    cbn [same_sigb] in Hs. apply andb_true_iff in Hs. destruct Hs as [Hsk Hse].
    unfold compat in Hc. cbn [compatb] in Hc. apply andb_true_iff in Hc. destruct Hc as [Hck Hce].
    unfold has_type in Ht. cbn [has_typeb] in Ht. apply andb_true_iff in Ht. destruct Ht as [Hall Hnd].
    apply nodupb_KND in Hnd. cbn [convert_to].
    rewrite (conv_map_clean c _ _ _ _ m m (proj1 Hclean)) with (acc := []); [reflexivity| |exact Hnd].
    rewrite forallb_forall in Hall. clear Hnd.
    induction m as [|[k e] m IHm]; constructor.
    + pose proof (Hall (k, e) (or_introl eq_refl)) as H. cbn [fst snd] in *. apply andb_true_iff in H. destruct H as [Hk He].
      split; [exact (IHk k2 k Hsk Hck Hk) | exact (IHe e2 e Hse Hce He)].
    + apply IHm. intros kv Hin. apply Hall. now right.
  - destruct t2 as [| | | | | | |fs2]; try discriminate Hc. destruct v as [| | | | | |vs]; try discriminate Ht.
    rewrite same_sigb_struct in Hs. pose proof (same_sig_fields_Forall2 _ _ Hs) as HF.
    unfold compat in Hc. cbn [compatb] in Hc.
    apply andb_true_iff in Hc. destruct Hc as [Hc _].
    apply andb_true_iff in Hc. destruct Hc as [Hc F12].
    apply andb_true_iff in Hc. destruct Hc as [ND1 ND2].
    apply string_nodupb in ND1. apply string_nodupb in ND2.
    rewrite forallb_forall in F12. rewrite Forall_forall in IHfs.
    unfold has_type in Ht. rewrite has_typeb_struct in Ht.
    pose proof (fields_typed_length _ _ Ht) as Hlen.
    cbn [convert_to].
    rewrite (conv_fields_of_Forall2 _ fs1 vs fs2 vs); [reflexivity|].
    apply Forall2_combine; [rewrite <- (Forall2_len _ _ _ HF); exact Hlen|].
    intros [n2 t2] x Hin2. cbn [fst snd].
    destruct (Forall2_combine_shift _ _ _ _ _ _ HF Hin2) as [[n1 t1] [Hin1 [Hn Hst]]]. cbn [fst snd] in Hn, Hst. subst n2.
    exists t1, x. split.
    + exact (find_field_unique n1 n1 fs1 vs t1 x ND1 Hin1 (name_eqb_refl n1)).
    + pose proof (in_combine_l _ _ _ _ Hin1) as Hin1f. pose proof (in_combine_l _ _ _ _ Hin2) as Hin2f.
      pose proof (F12 _ Hin1f) as H12. cbn beta iota in H12.
      rewrite (field_type_unique n1 n1 fs2 t2 ND2 Hin2f (name_eqb_refl n1)) in H12.
      exact (IHfs _ Hin1f t2 x Hst H12 (fields_typed_In _ _ _ _ _ Ht Hin1)).
Qed.

(* first clause at every entry point: for compatible types each of them leaves what ConvertFrom
   leaves in a fresh variable — whatever the destination held and whether the reply was read
   directly or converted *)
Theorem enter_compat : forall c, clean c -> forall e t1 t2 v old, compat t1 t2 -> has_type t1 v ->
  enter e c t1 t2 v old = convert c t1 t2 v.
Proof.
  intros c Hc e t1 t2 v old H1 H2. unfold enter.
  assert (Hconv : match old with None => convert c t1 t2 v | Some d => convert_onto c t1 t2 v d end = convert c t1 t2 v).
  { destruct old; [now apply convert_onto_indep | reflexivity]. }
  destruct e; try exact Hconv.
  destruct (same_sigb t1 t2) eqn:E; [|exact Hconv]. symmetry. now apply same_sig_convert.
Qed.

Theorem enter_holds : forall c, clean c -> forall e t1 t2 v old, compat t1 t2 -> has_type t1 v ->
  exists v', enter e c t1 t2 v old = COk v' /\ has_type t2 v' /\ agree t1 t2 v v' /\
             forall e' old', e' <> ECall2 -> enter e' c t2 t1 v' old' = COk v.
Proof.
  intros c Hc e t1 t2 v old H1 H2. destruct (convert_compat c Hc t1 t2 v H1 H2) as [v' [E [T [A B]]]].
  exists v'. rewrite (enter_compat c Hc e t1 t2 v old H1 H2). repeat split; try assumption.
  intros e' old' He. unfold enter.
  assert (Hconv : match old' with None => convert c t2 t1 v' | Some d => convert_onto c t2 t1 v' d end = COk v).
  { destruct old' as [d|]; [|exact B]. unfold convert_onto. unfold convert in B. rewrite <- B.
    exact (convert_into_covered c Hc t1 t2 v' d (proj2 (compat_covered t1 t2 H1)) T). }
  destruct e'; try exact Hconv. contradiction.
Qed.

(* ... and an element, key or matched field of another class is refused at every entry point
   that converts (a reply read directly has the caller's own signature) *)
Theorem enter_other_kind_refused : forall c, clean c -> forall e t1 t2 v,
  other_kind_reached t2 t1 v = true -> (e = ECall2 -> same_sigb t1 t2 = false) -> enter e c t1 t2 v None = CErr.
Proof.
  intros c Hc e t1 t2 v H Hd. unfold enter. pose proof (other_kind_refused c Hc t2 t1 v H) as Hr. fold (convert c t1 t2 v) in Hr.
  destruct e; try exact Hr. now rewrite (Hd eq_refl).
Qed.

(* ---------- witnesses ---------- *)
Local Open Scope string_scope.

(* map[int8]int8{1: 5} into map[int16]int16 *)
Definition wit_t1 : gotype := TMap (TInt I8) (TInt I8).
Definition wit_t2 : gotype := TMap (TInt I16) (TInt I16).
Definition wit_v : val := VMap [(VInt 1, VInt 5)].
(* map[string]int8{"a": 1} into its own type *)
Definition wit2_t : gotype := TMap TString (TInt I8).
Definition wit2_v : val := VMap [(VStr "a", VInt 1)].

(* with the pinned convertMap the converted map holds the element as key and a zero element *)
Lemma refuted_map_value_into_key :
  compat wit_t1 wit_t2 /\ has_type wit_t1 wit_v /\
  convert cfg_pinned wit_t1 wit_t2 wit_v = COk (VMap [(VInt 5, VInt 0)]) /\
  ~ (exists v', convert cfg_pinned wit_t1 wit_t2 wit_v = COk v' /\ agree wit_t1 wit_t2 wit_v v').
Proof.
  split; [reflexivity|]. split; [reflexivity|]. split; [vm_compute; reflexivity|].
  intros [v' [H A]]. vm_compute in H. inversion H; subst v'. cbn in A.
  inversion A as [|? ? ? ? [Hk _] _]; subst. cbn in Hk. discriminate Hk.
Qed.

(* and a map whose element kind differs from its key kind is refused although the types are identical *)
Lemma refuted_map_refused :
  compat wit2_t wit2_t /\ has_type wit2_t wit2_v /\ convert cfg_pinned wit2_t wit2_t wit2_v = CErr.
Proof. split; [reflexivity|]. split; [reflexivity|]. vm_compute. reflexivity. Qed.

(* and an element of another class goes unnoticed: map[int8]int8{1:5} into map[int16]string *)
Definition wit3_t2 : gotype := TMap (TInt I16) TString.
Lemma refuted_map_other_kind_accepted :
  other_kind_reached wit3_t2 wit_t1 wit_v = true /\
  convert cfg_pinned wit_t1 wit3_t2 wit_v = COk (VMap [(VInt 5, VStr "")]).
Proof. split; vm_compute; reflexivity. Qed.

(* a nested instance of the first clause: permuted fields, names differing in case, widening at the leaves *)
Definition ex_t1 : gotype :=
  TStruct [("A", TInt I8); ("Bc", TSlice TFloat32); ("M", TMap TString (TInt U16)); ("Ok", TBool)].
Definition ex_t2 : gotype :=
  TStruct [("M", TMap TString (TInt U32)); ("OK", TBool); ("BC", TSlice TFloat64); ("A", TInt I64)].
Definition ex_v : val :=
  VStruct [VInt (-128); VSlice [VFloat 4609434218613702656%N; VFloat 0%N];
           VMap [(VStr "x", VInt 65535); (VStr "", VInt 0)]; VBool true].
Definition ex_v' : val :=
  VStruct [VMap [(VStr "x", VInt 65535); (VStr "", VInt 0)]; VBool true;
           VSlice [VFloat 4609434218613702656%N; VFloat 0%N]; VInt (-128)].
Lemma ex_nonvacuous :
  compat ex_t1 ex_t2 /\ has_type ex_t1 ex_v /\ convert cfg_clean ex_t1 ex_t2 ex_v = COk ex_v' /\
  convert cfg_clean ex_t2 ex_t1 ex_v' = COk ex_v.
Proof. repeat split; vm_compute; reflexivity. Qed.

(* map[int8]int8{1: 5} into a map[int16]int16 that already holds {7: 7}: with the pinned convertMap
   the old entry stays, the result has an entry the source does not have, and converting it
   back (into a fresh variable) gives a map of two entries instead of the source *)
Definition wit4_old : dval := DMap [(VInt 7, DVal (VInt 7))].
Lemma refuted_map_keeps_old_entries :
  compat wit_t1 wit_t2 /\ has_type wit_t1 wit_v /\ has_type wit_t2 (visible wit4_old) /\
  convert_onto cfg_keeps wit_t1 wit_t2 wit_v wit4_old = COk (VMap [(VInt 7, VInt 7); (VInt 1, VInt 5)]) /\
  ~ (exists v', convert_onto cfg_keeps wit_t1 wit_t2 wit_v wit4_old = COk v' /\ agree wit_t1 wit_t2 wit_v v') /\
  convert cfg_keeps wit_t2 wit_t1 (VMap [(VInt 7, VInt 7); (VInt 1, VInt 5)]) <> COk wit_v.
Proof.
  split; [reflexivity|]. split; [reflexivity|]. split; [reflexivity|]. split; [vm_compute; reflexivity|]. split.
  - intros [v' [H A]]. vm_compute in H. inversion H; subst v'. cbn in A.
    inversion A as [|? ? ? ? _ A']; subst. inversion A'.
  - vm_compute. discriminate.
Qed.
