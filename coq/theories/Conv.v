(* Conv.v — executable model of /repo/type/conversion/conversion.go
   (convertFrom / AsInt64 / convertSlice / convertMap / convertStruct).

   Go types are a small universe `gotype`; values are trees `val` that hold what a value
   *denotes*: integers as Z, floats as the IEEE-754 binary64 bit pattern of their numerical
   value (a float32 is held as the bits of float64(x): widening is exact, so equality of
   patterns is equality of numbers), strings, booleans, element lists, association lists,
   field lists in declaration order.

   `convert c from to w` is what `ConvertFrom(&x, w)` leaves in a freshly allocated x of type
   `to` when w has type `from`: COk x, or CErr when convertFrom returns an error.
   The defect of the pinned tree (convertMap converts the map value into the `key` variable
   and never fills the element) is behind the switch `map_value_into_key`.
   No proofs in this file.  Stdlib only. *)
From Coq Require Import List ZArith NArith Bool String Ascii.
Import ListNotations.
Local Open Scope Z_scope.

(* ---------- types ---------- *)

Inductive ikind := I8 | I16 | I32 | I64 | IInt | U8 | U16 | U32 | U64 | UInt.

Inductive gotype :=
| TBool | TString | TInt (k : ikind) | TFloat32 | TFloat64
| TSlice (e : gotype)
| TMap (k e : gotype)
| TStruct (fs : list (string * gotype)).

Inductive val :=
| VBool (b : bool)
| VStr (s : string)
| VInt (z : Z)
| VFloat (bits : N)
| VSlice (l : list val)
| VMap (m : list (val * val))
| VStruct (fs : list val).

Inductive cres (A : Type) := COk (a : A) | CErr.
Arguments COk {A} a.
Arguments CErr {A}.

(* defect switches of the pinned tree.
   map_value_into_key: convertMap converts the map value into the `key` variable (repaired in
     /repo by ff3ad01; the switch stays so that the check describes either tree).
   map_keeps_old_entries: convertMap stores into the map the destination already holds: entries
     that were there before the conversion stay (only visible when the destination is not fresh,
     see convert_into below). *)
Record cfg := { map_value_into_key : bool; map_keeps_old_entries : bool }.
Definition clean (c : cfg) : Prop := map_value_into_key c = false /\ map_keeps_old_entries c = false.
Definition cfg_clean : cfg := {| map_value_into_key := false; map_keeps_old_entries := false |}.
Definition cfg_pinned : cfg := {| map_value_into_key := true; map_keeps_old_entries := false |}.
Definition cfg_keeps : cfg := {| map_value_into_key := false; map_keeps_old_entries := true |}.

(* the seven classes of reflect.Kind the property speaks about *)
Inductive kclass := KBool | KString | KInteger | KFloat | KSlice | KMap | KStruct.
Definition class_of (t : gotype) : kclass :=
  match t with
  | TBool => KBool | TString => KString | TInt _ => KInteger
  | TFloat32 | TFloat64 => KFloat
  | TSlice _ => KSlice | TMap _ _ => KMap | TStruct _ => KStruct
  end.

(* ---------- integers ---------- *)

(* size of int/uint on the platform the check runs on (tied to strconv.IntSize by a fact) *)
Definition int_size : Z := 64.

Definition ibits (k : ikind) : Z :=
  match k with
  | I8 | U8 => 8 | I16 | U16 => 16 | I32 | U32 => 32 | I64 | U64 => 64
  | IInt | UInt => int_size
  end.
Definition isigned (k : ikind) : bool :=
  match k with I8 | I16 | I32 | I64 | IInt => true | _ => false end.

(* two's complement wrap to b bits *)
Definition wrap_s (b z : Z) : Z := (z + 2 ^ (b - 1)) mod 2 ^ b - 2 ^ (b - 1).
Definition wrap_u (b z : Z) : Z := z mod 2 ^ b.

Definition in_rangeb (k : ikind) (z : Z) : bool :=
  if isigned k then (- 2 ^ (ibits k - 1) <=? z) && (z <? 2 ^ (ibits k - 1))
  else (0 <=? z) && (z <? 2 ^ ibits k).

(* AsInt64: w.Int() for the signed kinds, int64(w.Uint()) for the unsigned ones.  On a value
   in the range of a signed kind the wrap is the identity. *)
Definition as_int64 (z : Z) : Z := wrap_s 64 z.
(* reflect.Value.SetInt / SetUint(uint64(i)) truncate to the width of the kind *)
Definition set_int (k : ikind) (i : Z) : Z :=
  if isigned k then wrap_s (ibits k) i else wrap_u (ibits k) (wrap_u 64 i).

(* ---------- floats ---------- *)

Local Open Scope N_scope.

Definition f64_sign (b : N) : N := N.shiftr b 63.
Definition f64_exp (b : N) : N := N.land (N.shiftr b 52) 2047.
Definition f64_man (b : N) : N := N.land b (N.ones 52).

(* sig / 2^k rounded to nearest, ties to even *)
Definition rne (sig k : N) : N :=
  if k =? 0 then sig else
  let q := N.shiftr sig k in
  let r := N.land sig (N.ones k) in
  let half := N.shiftl 1 (k - 1) in
  if (half <? r) || ((r =? half) && N.odd q) then q + 1 else q.

(* bits of the binary64 number (-1)^s * q * 2^e2, for 0 < q and a normal, exactly representable result *)
Definition mk64 (s q : N) (e2 : Z) : N :=
  let L := N.log2 q in
  let E := Z.to_N (e2 + Z.of_N L + 1023)%Z in
  N.shiftl s 63 + N.shiftl E 52 + N.shiftl (q - N.shiftl 1 L) (52 - L).

Definition f64_inf (s : N) : N := N.shiftl s 63 + N.shiftl 2047 52.

(* float64 -> float32 -> float64 (Go's float32(x) followed by the exact widening); round to
   nearest even, overflow to infinity, gradual underflow.  NaN payloads are not modelled
   (a NaN is returned unchanged; the generators never produce one). *)
Definition round32 (b : N) : N :=
  let s := f64_sign b in
  let E := f64_exp b in
  let M := f64_man b in
  if E =? 2047 then b
  else if E =? 0 then N.shiftl s 63
  else
    let e := (Z.of_N E - 1023)%Z in
    let sig := N.shiftl 1 52 + M in
    if (-126 <=? e)%Z then
      let q := rne sig 29 in
      if (127 <? e)%Z || ((e =? 127)%Z && (q =? N.shiftl 1 24)) then f64_inf s
      else mk64 s q (e - 23)
    else
      let k := Z.to_N (- e - 97)%Z in
      let q := rne sig k in
      if q =? 0 then N.shiftl s 63 else mk64 s q (-149).

Local Open Scope Z_scope.

(* ---------- names ---------- *)

(* strings.ToLower restricted to ASCII (field names are Go identifiers; the generators use
   ASCII letters, digits and '_' only) *)
Definition lower_ascii (c : ascii) : ascii :=
  let n := nat_of_ascii c in
  if (Nat.leb 65 n && Nat.leb n 90)%bool then ascii_of_nat (n + 32) else c.
Fixpoint lower (s : string) : string :=
  match s with
  | EmptyString => EmptyString
  | String c r => String (lower_ascii c) (lower r)
  end.
Definition name_eqb (a b : string) : bool := String.eqb (lower a) (lower b).

(* ---------- equality on values ---------- *)

Section ListEqb.
  Context {A : Type} (eqb : A -> A -> bool).
  Fixpoint list_eqb (a b : list A) : bool :=
    match a, b with
    | [], [] => true
    | x :: a', y :: b' => eqb x y && list_eqb a' b'
    | _, _ => false
    end.
End ListEqb.

Fixpoint val_eqb (a b : val) {struct a} : bool :=
  match a, b with
  | VBool x, VBool y => Bool.eqb x y
  | VStr x, VStr y => String.eqb x y
  | VInt x, VInt y => Z.eqb x y
  | VFloat x, VFloat y => N.eqb x y
  | VSlice x, VSlice y => list_eqb val_eqb x y
  | VMap x, VMap y =>
      (fix go (x y : list (val * val)) : bool :=
         match x, y with
         | [], [] => true
         | (k, e) :: x', (k', e') :: y' => val_eqb k k' && val_eqb e e' && go x' y'
         | _, _ => false
         end) x y
  | VStruct x, VStruct y => list_eqb val_eqb x y
  | _, _ => false
  end.

(* Go's == on map keys: as val_eqb, except that the two float zeros are one key *)
Definition fzero (b : N) : bool := (b =? 0)%N || (b =? 2 ^ 63)%N.
Definition key_eqb (a b : val) : bool :=
  match a, b with
  | VFloat x, VFloat y => (x =? y)%N || (fzero x && fzero y)
  | _, _ => val_eqb a b
  end.

(* ---------- zero values ---------- *)

Fixpoint zero (t : gotype) : val :=
  match t with
  | TBool => VBool false
  | TString => VStr ""
  | TInt _ => VInt 0
  | TFloat32 | TFloat64 => VFloat 0
  | TSlice _ => VSlice []
  | TMap _ _ => VMap []
  | TStruct fs => VStruct (map (fun nt : string * gotype => zero (snd nt)) fs)
  end.

(* ---------- the conversion ---------- *)

Section MapRes.
  Context {A B : Type} (f : A -> cres B).
  Fixpoint map_res (l : list A) : cres (list B) :=
    match l with
    | [] => COk []
    | a :: r =>
        match f a with
        | CErr => CErr
        | COk b => match map_res r with CErr => CErr | COk bs => COk (b :: bs) end
        end
    end.
End MapRes.

(* reflect.Value.SetMapIndex on an association list: replace in place (Go also stores the new
   key when it is a float, which only matters for the sign of a zero) or append *)
Fixpoint map_set (k e : val) (m : list (val * val)) : list (val * val) :=
  match m with
  | [] => [(k, e)]
  | (k', e') :: r => if key_eqb k k' then (k, e) :: r else (k', e') :: map_set k e r
  end.

(* the loop of convertMap over w.MapKeys(), in the order the entries are listed.
   ck converts a source key into the key type, ce a source element into the element type,
   cek a source element into the *key* type (what the pinned code does). *)
Section ConvMap.
  Variable c : cfg.
  Variable ck ce cek : val -> cres val.
  Variable zero_e : val.
  Fixpoint conv_map (m acc : list (val * val)) : cres (list (val * val)) :=
    match m with
    | [] => COk acc
    | (k, e) :: r =>
        match ck k with
        | CErr => CErr
        | COk k1 =>
            if map_value_into_key c then
              match cek e with
              | CErr => CErr
              | COk k2 => conv_map r (map_set k2 zero_e acc)
              end
            else
              match ce e with
              | CErr => CErr
              | COk e1 => conv_map r (map_set k1 e1 acc)
              end
        end
    end.
End ConvMap.

(* first field of (ffs, ws) whose lower-cased name equals lower n: the inner loop of
   convertStruct with its `break` *)
Fixpoint find_field (n : string) (ffs : list (string * gotype)) (ws : list val) : option (gotype * val) :=
  match ffs, ws with
  | (n', t) :: ffs', w :: ws' => if name_eqb n n' then Some (t, w) else find_field n ffs' ws'
  | _, _ => None
  end.

(* the outer loop of convertStruct over the fields of the target; a target field without a
   match keeps what the fresh target held: its zero value *)
Section ConvFields.
  Variable cv : gotype -> gotype -> val -> cres val.   (* to, from, value *)
  Variable ffs : list (string * gotype).
  Variable ws : list val.
  Fixpoint conv_fields (tfs : list (string * gotype)) : cres (list val) :=
    match tfs with
    | [] => COk []
    | (n, t) :: r =>
        match find_field n ffs ws with
        | None => match conv_fields r with COk vs => COk (zero t :: vs) | CErr => CErr end
        | Some (ft, fw) =>
            match cv t ft fw with
            | CErr => CErr
            | COk x => match conv_fields r with COk vs => COk (x :: vs) | CErr => CErr end
            end
        end
    end.
End ConvFields.

(* convertFrom(v, w) with v : *to freshly allocated and w : from.  Recursion on the target
   type, as the Go code switches on v.Kind(). *)
Fixpoint convert_to (c : cfg) (to from : gotype) (w : val) {struct to} : cres val :=
  match to with
  | TBool => match from, w with TBool, VBool b => COk (VBool b) | _, _ => CErr end
  | TString => match from, w with TString, VStr s => COk (VStr s) | _, _ => CErr end
  | TInt k => match from, w with TInt _, VInt z => COk (VInt (set_int k (as_int64 z))) | _, _ => CErr end
  | TFloat32 =>
      match from, w with
      | TFloat32, VFloat b | TFloat64, VFloat b => COk (VFloat (round32 b))
      | _, _ => CErr
      end
  | TFloat64 =>
      match from, w with
      | TFloat32, VFloat b | TFloat64, VFloat b => COk (VFloat b)
      | _, _ => CErr
      end
  | TSlice te =>
      match from, w with
      | TSlice fe, VSlice l =>
          match map_res (convert_to c te fe) l with COk l' => COk (VSlice l') | CErr => CErr end
      | _, _ => CErr
      end
  | TMap tk te =>
      match from, w with
      | TMap fk fe, VMap m =>
          match conv_map c (convert_to c tk fk) (convert_to c te fe) (convert_to c tk fe) (zero te) m [] with
          | COk m' => COk (VMap m')
          | CErr => CErr
          end
      | _, _ => CErr
      end
  | TStruct tfs =>
      match from, w with
      | TStruct ffs, VStruct ws =>
          match conv_fields (fun t f x => convert_to c t f x) ffs ws tfs with
          | COk vs => COk (VStruct vs)
          | CErr => CErr
          end
      | _, _ => CErr
      end
  end.

(* source type first, as in the statement of the property *)
Definition convert (c : cfg) (from to : gotype) (w : val) : cres val := convert_to c to from w.

(* ---------- destinations that are not fresh ---------- *)

(* what a destination holds before a conversion.  A slice is described by its length AND its whole
   backing array (Cap() elements): convertSlice re-uses the array when it is long enough (SetLen)
   and converts element i *into* what the array holds at i, beyond the old length too.  Map keys
   are plain values (nothing comparable has a capacity). *)
Inductive dval :=
| DVal (v : val)                        (* bool, string, integer, float *)
| DSlice (len : nat) (arr : list dval)
| DMap (m : list (val * dval))
| DStruct (fs : list dval).

(* the value a program sees in such a destination *)
Fixpoint visible (d : dval) : val :=
  match d with
  | DVal v => v
  | DSlice n arr => VSlice (firstn n (map visible arr))
  | DMap m => VMap (map (fun kd : val * dval => (fst kd, visible (snd kd))) m)
  | DStruct fs => VStruct (map visible fs)
  end.

(* a freshly allocated destination *)
Fixpoint dzero (t : gotype) : dval :=
  match t with
  | TSlice _ => DSlice 0 []
  | TMap _ _ => DMap []
  | TStruct fs => DStruct (map (fun nt : string * gotype => dzero (snd nt)) fs)
  | _ => DVal (zero t)
  end.

(* convert_into c to from w old: what ConvertFrom(&x, w) leaves in an x : to that held `old`
   before the call (a reply variable used for a second call, a struct with default values, ...).
   What the Go code does with the previous content:
     scalars      overwritten;
     slices       Cap() < len(w): a new zeroed array; otherwise SetLen(len(w)) on the old array and
                  every element converted in place (elements beyond len(w) are cut off);
     maps         nil: a new map; otherwise the SAME map receives the converted entries
                  (switch map_keeps_old_entries; off = the destination holds the converted entries
                  only); keys and elements are always converted into fresh variables (reflect.New);
     structs      every target field with a match is converted in place, a field without a match
                  keeps what it held. *)
Section ConvSliceInto.
  Variable cv : dval -> val -> cres val.   (* previous content of the element, source element *)
  Variable z : dval.                       (* a fresh element *)
  Fixpoint conv_slice_into (olds : list dval) (l : list val) : cres (list val) :=
    match l with
    | [] => COk []
    | w :: r =>
        match cv (match olds with o :: _ => o | [] => z end) w with
        | CErr => CErr
        | COk x => match conv_slice_into (tl olds) r with COk xs => COk (x :: xs) | CErr => CErr end
        end
    end.
End ConvSliceInto.

Section ConvFieldsInto.
  Variable cv : gotype -> gotype -> val -> dval -> cres val.   (* to, from, value, previous content *)
  Variable ffs : list (string * gotype).
  Variable ws : list val.
  Fixpoint conv_fields_into (tfs : list (string * gotype)) (olds : list dval) : cres (list val) :=
    match tfs with
    | [] => COk []
    | (n, t) :: r =>
        let o := match olds with o :: _ => o | [] => dzero t end in
        match find_field n ffs ws with
        | None => match conv_fields_into r (tl olds) with COk vs => COk (visible o :: vs) | CErr => CErr end
        | Some (ft, fw) =>
            match cv t ft fw o with
            | CErr => CErr
            | COk x => match conv_fields_into r (tl olds) with COk vs => COk (x :: vs) | CErr => CErr end
            end
        end
    end.
End ConvFieldsInto.

Fixpoint convert_into (c : cfg) (to from : gotype) (w : val) (old : dval) {struct to} : cres val :=
  match to with
  | TSlice te =>
      match from, w with
      | TSlice fe, VSlice l =>
          let olds := match old with
                      | DSlice _ arr => if Nat.ltb (List.length arr) (List.length l) then [] else arr
                      | _ => []
                      end in
          match conv_slice_into (fun o x => convert_into c te fe x o) (dzero te) olds l with
          | COk l' => COk (VSlice l')
          | CErr => CErr
          end
      | _, _ => CErr
      end
  | TMap tk te =>
      match from, w with
      | TMap fk fe, VMap m =>
          let acc := if map_keeps_old_entries c
                     then match visible old with VMap o => o | _ => [] end
                     else [] in
          match conv_map c (convert_to c tk fk) (convert_to c te fe) (convert_to c tk fe) (zero te) m acc with
          | COk m' => COk (VMap m')
          | CErr => CErr
          end
      | _, _ => CErr
      end
  | TStruct tfs =>
      match from, w with
      | TStruct ffs, VStruct ws =>
          match conv_fields_into (fun t f x o => convert_into c t f x o) ffs ws tfs
                                 (match old with DStruct os => os | _ => [] end) with
          | COk vs => COk (VStruct vs)
          | CErr => CErr
          end
      | _, _ => CErr
      end
  | _ => convert_to c to from w
  end.

(* source type first, previous content of the destination last *)
Definition convert_onto (c : cfg) (from to : gotype) (w : val) (old : dval) : cres val := convert_into c to from w old.

(* ---------- well-typed values ---------- *)

Fixpoint nodupb {A} (eqb : A -> A -> bool) (l : list A) : bool :=
  match l with
  | [] => true
  | x :: r => negb (existsb (eqb x) r) && nodupb eqb r
  end.

Definition float_ok (b : N) : bool := (b <? 2 ^ 64)%N && negb ((f64_exp b =? 2047)%N && negb (f64_man b =? 0)%N).

Fixpoint has_typeb (t : gotype) (v : val) {struct t} : bool :=
  match t, v with
  | TBool, VBool _ => true
  | TString, VStr _ => true
  | TInt k, VInt z => in_rangeb k z
  | TFloat32, VFloat b => float_ok b && (round32 b =? b)%N
  | TFloat64, VFloat b => float_ok b
  | TSlice e, VSlice l => forallb (has_typeb e) l
  | TMap k e, VMap m =>
      forallb (fun kv : val * val => has_typeb k (fst kv) && has_typeb e (snd kv)) m
      && nodupb key_eqb (map fst m)
  | TStruct fs, VStruct vs =>
      (fix go (fs : list (string * gotype)) (vs : list val) : bool :=
         match fs, vs with
         | [], [] => true
         | (_, t) :: fs', v :: vs' => has_typeb t v && go fs' vs'
         | _, _ => false
         end) fs vs
  | _, _ => false
  end.
Definition has_type (t : gotype) (v : val) : Prop := has_typeb t v = true.

(* ---------- structurally compatible types (first clause of the property) ---------- *)

Fixpoint field_type (n : string) (fs : list (string * gotype)) : option gotype :=
  match fs with
  | [] => None
  | (n', t) :: r => if name_eqb n n' then Some t else field_type n r
  end.

Definition lnames (fs : list (string * gotype)) : list string := map (fun nt => lower (fst nt)) fs.

(* compatb from to: integers to integers of the same signedness at least as wide, float32 to
   float64 (and each float kind to itself), strings, booleans, slices, maps, structs matched
   by (case-insensitive, unambiguous) field name, nested arbitrarily *)
Fixpoint compatb (t1 t2 : gotype) {struct t1} : bool :=
  match t1, t2 with
  | TBool, TBool => true
  | TString, TString => true
  | TInt k1, TInt k2 => Bool.eqb (isigned k1) (isigned k2) && (ibits k1 <=? ibits k2)
  | TFloat32, TFloat32 | TFloat32, TFloat64 | TFloat64, TFloat64 => true
  | TSlice e1, TSlice e2 => compatb e1 e2
  | TMap k1 e1, TMap k2 e2 => compatb k1 k2 && compatb e1 e2
  | TStruct fs1, TStruct fs2 =>
      nodupb String.eqb (lnames fs1) && nodupb String.eqb (lnames fs2)
      && forallb (fun nt : string * gotype =>
                    let (n, t) := nt in
                    match field_type n fs2 with Some t' => compatb t t' | None => false end) fs1
      && forallb (fun nt : string * gotype => existsb (name_eqb (fst nt)) (map fst fs1)) fs2
  | _, _ => false
  end.
Definition compat (t1 t2 : gotype) : Prop := compatb t1 t2 = true.

(* ---------- "every element, key and field equals the source's" ---------- *)

(* agree t1 t2 v v': v : t1 and v' : t2 hold the same scalars at the same places — positions
   in slices, (key, element) pairs of maps, fields of the same lower-cased name in structs *)
Fixpoint agree (t1 t2 : gotype) (v v' : val) {struct t1} : Prop :=
  match t1, t2, v, v' with
  | TBool, TBool, VBool a, VBool b => a = b
  | TString, TString, VStr a, VStr b => a = b
  | TInt _, TInt _, VInt a, VInt b => a = b
  | (TFloat32 | TFloat64), (TFloat32 | TFloat64), VFloat a, VFloat b => a = b
  | TSlice e1, TSlice e2, VSlice l, VSlice l' => Forall2 (agree e1 e2) l l'
  | TMap k1 e1, TMap k2 e2, VMap m, VMap m' =>
      Forall2 (fun kv kv' : val * val => agree k1 k2 (fst kv) (fst kv') /\ agree e1 e2 (snd kv) (snd kv')) m m'
  | TStruct fs1, TStruct fs2, VStruct vs, VStruct vs' =>
      List.length vs' = List.length fs2 /\
      (fix go (fs : list (string * gotype)) (vs : list val) : Prop :=
         match fs, vs with
         | [], [] => True
         | (n, t) :: fs', x :: vs'' =>
             (exists t' x', find_field n fs2 vs' = Some (t', x') /\ agree t t' x x') /\ go fs' vs''
         | _, _ => False
         end) fs1 vs
  | _, _, _, _ => False
  end.

(* ---------- "kinds that are not compatible", at any depth ---------- *)

Definition class_eqb (a b : kclass) : bool :=
  match a, b with
  | KBool, KBool | KString, KString | KInteger, KInteger | KFloat, KFloat
  | KSlice, KSlice | KMap, KMap | KStruct, KStruct => true
  | _, _ => false
  end.

(* other_kind_reached to from w: converting w : from into `to` meets, at the top or at some
   element, key or matched field that w actually holds, a pair of kinds of different classes *)
Fixpoint other_kind_reached (to from : gotype) (w : val) {struct to} : bool :=
  negb (class_eqb (class_of to) (class_of from)) ||
  match to, from, w with
  | TSlice te, TSlice fe, VSlice l => existsb (other_kind_reached te fe) l
  | TMap tk te, TMap fk fe, VMap m =>
      existsb (fun kv : val * val => other_kind_reached tk fk (fst kv) || other_kind_reached te fe (snd kv)) m
  | TStruct tfs, TStruct ffs, VStruct ws =>
      existsb (fun nt : string * gotype =>
                 let (n, t) := nt in
                 match find_field n ffs ws with
                 | Some (ft, fw) => other_kind_reached t ft fw
                 | None => false
                 end) tfs
  | _, _, _ => false
  end.

(* scalar leaves, left to right (keys before elements) *)
Fixpoint leaves (v : val) : list val :=
  match v with
  | VSlice l => flat_map leaves l
  | VMap m => flat_map (fun kv : val * val => leaves (fst kv) ++ leaves (snd kv)) m
  | VStruct l => flat_map leaves l
  | s => [s]
  end.

(* ---------- the entry points through which a conversion is reached ---------- *)

(* EConvertFrom: conversion.ConvertFrom(&x, w) on the value itself.
   EDecodeFrom:  conversion.DecodeFrom(d, &x, typ): the bytes of w : from (= typ) are decoded into a
                 fresh intermediate value of type typ, which is then converted.  The wire round trip
                 of the reflection encoder is property C03's; here the intermediate value *is* w,
                 whatever was decoded before.
   ECall2:       bus.Proxy.Call2: `from` is the type of the return signature advertised in the meta
                 object, `to` the type of the caller's variable.  When both have the same signature
                 text the reply is read directly into the caller's variable; otherwise it goes through
                 DecodeFrom.  There is no third way: a reply that cannot be converted is refused. *)
Inductive entry := EConvertFrom | EDecodeFrom | ECall2.

(* Go's int and uint are 64-bit integers on the wire (signature "l" / "L") *)
Definition wire_kind (k : ikind) : ikind :=
  match k with IInt => I64 | UInt => U64 | k => k end.

Definition ikind_eqb (a b : ikind) : bool :=
  match a, b with
  | I8, I8 | I16, I16 | I32, I32 | I64, I64 | IInt, IInt
  | U8, U8 | U16, U16 | U32, U32 | U64, U64 | UInt, UInt => true
  | _, _ => false
  end.

(* same_sigb t1 t2: the two Go types are written as the same signature (structs named by their
   position in the text; member names are part of a signature) *)
Fixpoint same_sigb (t1 t2 : gotype) {struct t1} : bool :=
  match t1, t2 with
  | TBool, TBool | TString, TString | TFloat32, TFloat32 | TFloat64, TFloat64 => true
  | TInt k1, TInt k2 => ikind_eqb (wire_kind k1) (wire_kind k2)
  | TSlice e1, TSlice e2 => same_sigb e1 e2
  | TMap k1 e1, TMap k2 e2 => same_sigb k1 k2 && same_sigb e1 e2
  | TStruct fs1, TStruct fs2 =>
      (fix go (fs1 fs2 : list (string * gotype)) : bool :=
         match fs1, fs2 with
         | [], [] => true
         | (n1, t1) :: r1, (n2, t2) :: r2 => String.eqb n1 n2 && same_sigb t1 t2 && go r1 r2
         | _, _ => false
         end) fs1 fs2
  | _, _ => false
  end.

(* what the entry point leaves in x : to (old = None: freshly allocated; Some d: x held d) *)
Definition enter (e : entry) (c : cfg) (from to : gotype) (w : val) (old : option dval) : cres val :=
  let conv := match old with
              | None => convert c from to w
              | Some d => convert_onto c from to w d
              end in
  match e with
  | ECall2 => if same_sigb from to then COk w else conv
  | _ => conv
  end.
