(* SignalsQuiesce.v — when nothing internal is enabled any more (the system has come to rest):
   every call of SubscribeID / cancel has been answered, every cancelled subscriber's channel is
   closed, every queue is drained, and each live subscriber has read exactly the events taken for
   its connection — in particular every emission of its window. *)
From QV Require Import Signals SignalsLemmas SignalsStep SignalsInv1 SignalsInv2 SignalsInv3 SignalsInv4 SignalsInv5
  SignalsInv6 SignalsProofs SignalsMain.
Local Open Scope N_scope.

Record Rest (st : state) : Prop := {
  r_dead : dead st = false;
  r_stuck : forall c, stuck st c = false;
  r_emit : forall sig p, emit st <> Some (sig, p, []);
  r_subs : forall x, In x (subs st) -> (s_conn x < nconn st)%nat;
  r_up : forall c, up st c <> [] -> (c < nconn st)%nat;
  r_down : forall c, down st c <> [] -> (c < nconn st)%nat;
  r_table : forall u, In u (table st) -> (u_conn u < nconn st)%nat;
  r_emitc : forall sig p us u, emit st = Some (sig, p, us) -> In u us -> (u_conn u < nconn st)%nat;
  r_pend : forall c f n, pend st = Some (c, f, n) -> (c < nconn st)%nat
}.

Lemma Rest_init : Rest init.
Proof. split; cbn; try reflexivity; try discriminate; try (intros; contradiction); intros c H; now contradiction H. Qed.

Lemma mk_emit_ne sig p us sig' p' : mk_emit sig p us <> Some (sig', p', []).
Proof. destruct us; cbn; [discriminate|intros [= _ _ E]; discriminate]. Qed.

Lemma fupd_ne_nil {A} (f : nat -> list A) c0 v c : fupd f c0 v c <> [] -> c = c0 \/ f c <> [].
Proof. unfold fupd. destruct (Nat.eqb c c0) eqn:E; [apply Nat.eqb_eq in E; auto|auto]. Qed.

Lemma Rest_step g st l st' : uid_global g = false -> UidInv st -> Rest st -> Step g st l st' -> Rest st'.
Proof.
  intros Hg HU [R1 R2 R3 R4 R5 R6 R7 R8 R9] HS. inversion HS; subst; clear HS.
  - (* install *)
    split; psimpl; auto.
    + intros x Hx. apply in_app_or in Hx as [Hx|[<-|[]]]; [specialize (R4 _ Hx); lia|cbn; lia].
    + intros c0 H. specialize (R5 _ H). lia.
    + intros c0 H. specialize (R6 _ H). lia.
    + intros u H. specialize (R7 _ H). lia.
    + intros sg p us u H H'. specialize (R8 _ _ _ _ H H'). lia.
    + intros c0 f n H. specialize (R9 _ _ _ H). lia.
  - split; psimpl; auto. intros y Hy. apply In_set_nth in Hy as [->|Hy]; [|auto]. apply (R4 x). eapply nth_error_In; eassumption.
  - split; psimpl; auto. intros y Hy. apply In_set_nth in Hy as [->|Hy]; [|auto]. apply (R4 x). eapply nth_error_In; eassumption.
  - split; psimpl; auto.
    + intros y Hy. apply In_set_nth in Hy as [->|Hy]; [|auto]. apply (R4 x). eapply nth_error_In; eassumption.
    + intros c0 Hc. apply fupd_ne_nil in Hc as [->|Hc]; [|auto]. apply (R4 x). eapply nth_error_In; eassumption.
  - (* mbox reg *)
    assert (Lc : (c < nconn st)%nat) by (apply R5; rewrite H2; discriminate).
    split; psimpl; auto.
    + intros c0 Hc. apply fupd_ne_nil in Hc as [->|Hc]; auto.
    + intros u Hu. apply in_app_or in Hu as [Hu|[<-|[]]]; auto.
    + intros c0 f n [= <- _ _]. exact Lc.
  - exfalso. eapply clean_no_dup; eassumption.
  - exfalso. eapply clean_no_dup; eassumption.
  - assert (Lc : (c < nconn st)%nat) by (apply R5; rewrite H2; discriminate).
    destruct (find_idx_some _ _ _ H4) as (e & He & _).
    split; psimpl; auto.
    + intros c0 Hc. apply fupd_ne_nil in Hc as [->|Hc]; auto.
    + intros u Hu. apply R7. apply (Permutation.Permutation_in _ (Permutation.Permutation_sym (swap_remove_perm _ _ _ He))). now right.
    + intros c0 f n [= <- _ _]. exact Lc.
  - assert (Lc : (c < nconn st)%nat) by (apply R5; rewrite H2; discriminate).
    split; psimpl; auto.
    + intros c0 Hc. apply fupd_ne_nil in Hc as [->|Hc]; auto.
    + intros c0 f n [= <- _ _]. exact Lc.
  - (* reply *)
    split; psimpl; auto; [|discriminate].
    intros c0 Hc. apply fupd_ne_nil in Hc as [->|Hc]; [eapply R9; eassumption|auto].
  - (* emit snap *)
    split; psimpl; auto.
    + intros sg p0. apply mk_emit_ne.
    + intros y Hy. apply in_map_iff in Hy as (y0 & <- & Hy0). specialize (R4 _ Hy0).
      unfold note_emit. destruct ((s_sig y0 =? sig) && live (s_pc y0)); exact R4.
    + intros sg p0 us u He Hu. apply In_mk_emit in He. subst us. apply filter_In in Hu as [Hu _]. auto.
  - (* emit send *)
    split; psimpl; auto.
    + intros sg p0. apply mk_emit_ne.
    + intros c0 Hc. apply fupd_ne_nil in Hc as [->|Hc]; [eapply R8; [eassumption|now left]|auto].
    + intros sg p0 us0 u0 He Hu. apply In_mk_emit in He. subst us0. eapply R8; [eassumption|now right].
  - (* recv event *)
    split; psimpl; auto.
    + intros y Hy. unfold dispatch_event in Hy. cbn [fst] in Hy. apply in_map_iff in Hy as (y0 & <- & Hy0). specialize (R4 _ Hy0).
      unfold enqueue. destruct (Nat.eqb (s_conn y0) c && (s_sig y0 =? sig) && live (s_pc y0)); [|exact R4].
      destruct (Nat.ltb (List.length (s_queue y0)) QueueCap); exact R4.
    + intros c0 Hc. apply fupd_ne_nil in Hc as [->|Hc]; [apply R6; rewrite H; discriminate|auto].
  - split; psimpl; auto. intros c0 Hc. apply fupd_ne_nil in Hc as [->|Hc]; [apply R6; rewrite H; discriminate|auto].
  - split; psimpl; auto.
    + intros y Hy. apply In_set_nth in Hy as [->|Hy]; [|auto].
      assert (s_conn (answer_sub x f) = s_conn x) by (unfold answer_sub; destruct (s_pc x), f; reflexivity).
      rewrite H4. apply (R4 x). eapply nth_error_In; eassumption.
    + intros c0 Hc. apply fupd_ne_nil in Hc as [->|Hc]; [apply R6; rewrite H; discriminate|auto].
  - split; psimpl; auto. intros y Hy. apply In_set_nth in Hy as [->|Hy]; [|auto]. apply (R4 x). eapply nth_error_In; eassumption.
  - split; psimpl; auto. intros y Hy. apply In_set_nth in Hy as [->|Hy]; [|auto]. apply (R4 x). eapply nth_error_In; eassumption.
  - split; psimpl; auto.
    + intros y Hy. apply In_set_nth in Hy as [->|Hy]; [|auto]. apply (R4 x). eapply nth_error_In; eassumption.
    + intros c0 Hc. apply fupd_ne_nil in Hc as [->|Hc]; [|auto]. apply (R4 x). eapply nth_error_In; eassumption.
  - split; psimpl; auto. intros y Hy. apply In_set_nth in Hy as [->|Hy]; [|auto]. apply (R4 x). eapply nth_error_In; eassumption.
  - split; psimpl; auto. intros y Hy. apply In_set_nth in Hy as [->|Hy]; [|auto]. apply (R4 x). eapply nth_error_In; eassumption.
Qed.

Lemma first_enabled_none g st ls : first_enabled g st ls = None -> forall l, In l ls -> step g st l = None.
Proof.
  induction ls as [|l0 ls IH]; cbn; [intros _ l []|]. destruct (step g st l0) eqn:E; [discriminate|].
  intros H l [<-|Hl]; [exact E|now apply IH].
Qed.

Lemma run_rest g tr : clean g -> forall st0 st, AllInv st0 -> Rest st0 -> run g st0 tr = Some st -> Rest st.
Proof.
  intros Hg. induction tr as [|l r IH]; intros st0 st I R H; cbn in H; [now injection H as <-|].
  destruct (step g st0 l) as [st1|] eqn:E; [|discriminate].
  eapply IH; [eapply AllInv_step; eassumption| |exact H].
  destruct Hg as (Hg1 & _). eapply Rest_step; [exact Hg1|apply i_uid; exact I|exact R|apply step_Step; exact E].
Qed.

Theorem c13_at_rest g tr st s x :
  clean g -> run g init tr = Some st -> overflow st = false -> quiescent g st = true ->
  nth_error (subs st) s = Some x ->
  (forall m, s_pc x <> PWaitReg m) /\ (forall m, s_pc x <> PWaitUnreg m) /\ s_pc x <> PAborting /\
  (live (s_pc x) = true -> s_got x = s_skip x ++ s_all x).
Proof.
  intros Hg Hr Ho Hq Hx.
  pose proof (run_inv g tr Hg init st AllInv_init Hr) as I.
  pose proof (run_rest g tr Hg init st AllInv_init Rest_init Hr) as [R1 R2 R3 R4 R5 R6 R7 R8 R9].
  unfold quiescent in Hq. destruct (first_enabled g st (internal_labels st)) eqn:Ef; [discriminate|].
  pose proof (first_enabled_none _ _ _ Ef) as Hn. unfold internal_labels in Hn.
  assert (Qp : pend st = None).
  { specialize (Hn LReply). cbn [step] in Hn. rewrite R1 in Hn. destruct (pend st) as [[[c f] n]|]; [|reflexivity].
    discriminate Hn. now left. }
  assert (Qe : emit st = None).
  { specialize (Hn LEmitSend). cbn [step] in Hn. destruct (emit st) as [[[sg p] [|u us]]|] eqn:Ee; [|discriminate Hn; right; now left|reflexivity].
    exfalso. eapply R3. reflexivity. }
  assert (Qu : forall c, up st c = []).
  { intro c. destruct (up st c) as [|f rest] eqn:Eu; [reflexivity|exfalso].
    assert (Lc : (c < nconn st)%nat) by (apply R5; rewrite Eu; discriminate).
    specialize (Hn (LMbox c)). cbn [step] in Hn. rewrite R1, R2, Qp, Eu in Hn. cbn [orb] in Hn.
    unfold emitting in Hn. rewrite Qe, andb_false_r in Hn.
    assert (Hin : In (LMbox c) ([LReply; LEmitSend] ++ map LMbox (seq 0 (nconn st)) ++ map LCliRecv (seq 0 (nconn st)) ++
                 map LDeliver (seq 0 (List.length (subs st))) ++ map LFanClose (seq 0 (List.length (subs st))))).
    { apply in_or_app. right. apply in_or_app. left. apply in_map. apply in_seq. lia. }
    specialize (Hn Hin). destruct f; [destruct (find_idx _ _); [destruct (dup_relock g)|]|destruct (find_idx _ _)]; discriminate. }
  assert (Qd : forall c, down st c = []).
  { intro c. destruct (down st c) as [|f rest] eqn:Ed; [reflexivity|exfalso].
    assert (Lc : (c < nconn st)%nat) by (apply R6; rewrite Ed; discriminate).
    specialize (Hn (LCliRecv c)). cbn [step] in Hn. rewrite Ed in Hn.
    assert (Hin : In (LCliRecv c) ([LReply; LEmitSend] ++ map LMbox (seq 0 (nconn st)) ++ map LCliRecv (seq 0 (nconn st)) ++
                 map LDeliver (seq 0 (List.length (subs st))) ++ map LFanClose (seq 0 (List.length (subs st))))).
    { apply in_or_app. right. apply in_or_app. right. apply in_or_app. left. apply in_map. apply in_seq. lia. }
    specialize (Hn Hin). destruct f; [destruct (find_idx _ _) as [s0|]; [destruct (nth_error (subs st) s0) as [y|]; [destruct (s_pc y)|]|]..|]; discriminate. }
  assert (Ls : (s < List.length (subs st))%nat) by (apply nth_error_Some; congruence).
  assert (Qq : live (s_pc x) = true -> s_queue x = []).
  { intro L. specialize (Hn (LDeliver s)). cbn [step] in Hn. rewrite Hx, L in Hn. destruct (s_queue x); [reflexivity|].
    discriminate Hn. apply in_or_app. right. apply in_or_app. right. apply in_or_app. right. apply in_or_app. left. apply in_map. apply in_seq. lia. }
  assert (Qa : s_pc x <> PAborting).
  { intro Ha. specialize (Hn (LFanClose s)). cbn [step] in Hn. rewrite Hx, Ha in Hn.
    discriminate Hn. apply in_or_app. right. apply in_or_app. right. apply in_or_app. right. apply in_or_app. right. apply in_map. apply in_seq. lia. }
  assert (Qw : forall a m, waits (s_conn x) a m x = false).
  { intros a m. destruct (i_cons _ I (s_conn x) a m) as (E & _ & _). unfold n_up, n_pend, n_down, n_wait in E.
    rewrite Qu, Qp, Qd in E. cbn in E.
    destruct (waits (s_conn x) a m x) eqn:W; [|reflexivity].
    pose proof (cnt_In (waits (s_conn x) a m) (subs st) x (nth_error_In _ _ Hx) W). lia. }
  repeat split; try assumption.
  - intros m Hp. specialize (Qw A_register m). unfold waits in Qw. rewrite Hp, Nat.eqb_refl, !N.eqb_refl in Qw. discriminate.
  - intros m Hp. specialize (Qw A_unregister m). unfold waits in Qw. rewrite Hp, Nat.eqb_refl, !N.eqb_refl in Qw. discriminate.
  - intro L. destruct (c13_delivery g tr st s x Hg Hr Ho Hx) as (D & _). specialize (D L).
    unfold inflight in D. rewrite (Qq L), Qd, Qe in D. cbn in D. now rewrite app_nil_r in D.
Qed.
