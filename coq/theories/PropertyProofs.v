(* PropertyProofs.v — the C14 lemmas: the sequential register (validated, typed, one event per
   accepted write, reads return the last accepted write) and linearizability of every history
   of the fine-grained transition system (through Lin.atomic_lin). *)
From Coq Require Import Arith NArith List Bool String Lia Permutation.
From QV Require Import Bytes Property Lin LinProofs.
Import ListNotations.
Local Open Scope N_scope.

Section Seq.
  Variable c : pcfg.
  Variable valid : N -> bool.

  (* ---------- what check accepts ---------- *)
  Lemma check_is_write : forall o v, check c valid o = Some v -> is_write o = true.
  Proof. intros [nm|nm v0|x|cn mid] v H; unfold check in H; simpl; auto; discriminate. Qed.

  (* a client write stores the value the client sent; a service-side update the declared type *)
  Lemma check_set_value : forall nm v v', check c valid (PSet nm v) = Some v' -> v' = v.
  Proof.
    intros nm v v' H. unfold check in H. destruct (set_name nm); [|discriminate].
    destruct (_ && _ && _); inversion H; reflexivity.
  Qed.
  Lemma check_update_value : forall x v, check c valid (PUpdate x) = Some v ->
    v = {| cv_sig := prop_sig; cv_data := le 4 x |}.
  Proof. intros x v H. unfold check in H. destruct (validate valid (le 4 x)); inversion H; reflexivity. Qed.

  Lemma check_validated : forall o v, check c valid o = Some v -> validate valid (cv_data v) = true.
  Proof.
    intros [nm|nm v0|x|cn mid] v H; unfold check in H; try discriminate.
    - destruct (set_name nm); [|discriminate].
      destruct (String.eqb s prop_name); simpl in H; [|discriminate].
      destruct (validate valid (cv_data v0)) eqn:E; simpl in H; [|discriminate].
      destruct (is_typed v0 || store_untyped c); inversion H; subst; exact E.
    - destruct (validate valid (le 4 x)) eqn:E; inversion H; subst; exact E.
  Qed.

  Lemma check_typed : pclean c -> forall o v, check c valid o = Some v -> is_typed v = true.
  Proof.
    intros Hc [nm|nm v0|x|cn mid] v H; unfold check in H; try discriminate.
    - destruct (set_name nm); [|discriminate]. rewrite Hc, orb_false_r in H.
      destruct (String.eqb s prop_name && validate valid (cv_data v0)); simpl in H; [|discriminate].
      destruct (is_typed v0) eqn:E; inversion H; subst; exact E.
    - destruct (validate valid (le 4 x)); inversion H; subst.
      reflexivity.
  Qed.

  (* ---------- rejected write: nothing changes, nothing is emitted ---------- *)
  Theorem rejected_unchanged : forall s o s' ev, pstep c valid s o = (s', RFail, ev) -> s' = s /\ ev = [].
  Proof.
    intros s [nm|nm v0|x|cn mid] s' ev H; unfold pstep in H.
    - inversion H; subst; auto.
    - destruct (check c valid (PSet nm v0)); inversion H; subst; auto.
    - destruct (check c valid (PUpdate x)); inversion H; subst; auto.
    - inversion H.
  Qed.

  (* ---------- accepted write: the value is stored, one event per subscriber carries it ---------- *)
  Theorem accepted_one_event : forall s o s' ev, is_write o = true -> pstep c valid s o = (s', RDone, ev) ->
    exists v, check c valid o = Some v /\ p_val s' = Some v /\ p_subs s' = p_subs s /\
              ev = map (fun sub => (sub, cv_data v)) (p_subs s).
  Proof.
    intros s [nm|nm v0|x|cn mid] s' ev Hw H; try discriminate; unfold pstep in H.
    - destruct (check c valid (PSet nm v0)) as [v|] eqn:E; inversion H; subst. exists v. auto.
    - destruct (check c valid (PUpdate x)) as [v|] eqn:E; inversion H; subst. exists v. auto.
  Qed.

  (* a write has exactly two outcomes; reads and subscriptions change no value and emit nothing *)
  Theorem write_outcomes : forall s o, is_write o = true ->
    snd (fst (pstep c valid s o)) = RDone \/ snd (fst (pstep c valid s o)) = RFail.
  Proof.
    intros s [nm|nm v0|x|cn mid] Hw; try discriminate; unfold pstep.
    - destruct (check c valid (PSet nm v0)); auto.
    - destruct (check c valid (PUpdate x)); auto.
  Qed.
  Theorem nonwrite_silent : forall s o, is_write o = false ->
    p_val (fst (fst (pstep c valid s o))) = p_val s /\ snd (pstep c valid s o) = [].
  Proof. intros s [nm|nm v0|x|cn mid] Hw; try discriminate; simpl; auto. Qed.

  (* ---------- every stored value has the declared type and passed the validator ---------- *)
  Definition well_typed (v : cval) : Prop :=
    cv_sig v = prop_sig /\ List.length (cv_data v) = 4%nat /\
    exists x, dec_i32 (cv_data v) = Some x /\ valid x = true.

  Lemma checked_well_typed : pclean c -> forall o v, check c valid o = Some v -> well_typed v.
  Proof.
    intros Hc o v H. pose proof (check_typed Hc _ _ H) as Ht. pose proof (check_validated _ _ H) as Hv.
    unfold is_typed in Ht. apply andb_prop in Ht. destruct Ht as [H1 H2].
    apply String.eqb_eq in H1. apply Nat.eqb_eq in H2.
    unfold validate in Hv. destruct (dec_i32 (cv_data v)) as [x|] eqn:E; [|discriminate].
    repeat split; auto. exists x; auto.
  Qed.

  Theorem stored_well_typed : pclean c -> forall s, preach c valid s ->
    forall v, p_val s = Some v -> well_typed v.
  Proof.
    intros Hc s R. induction R as [|s o R IH]; intros v Hv; [discriminate|].
    destruct o as [nm|nm v0|x|cn mid]; unfold pstep in Hv.
    - cbn [fst snd p_val] in Hv. auto.
    - destruct (check c valid (PSet nm v0)) as [v1|] eqn:E; cbn [fst snd p_val] in Hv; auto.
      inversion Hv; subst. eapply checked_well_typed; eauto.
    - destruct (check c valid (PUpdate x)) as [v1|] eqn:E; cbn [fst snd p_val] in Hv; auto.
      inversion Hv; subst. eapply checked_well_typed; eauto.
    - cbn [fst snd p_val] in Hv. auto.
  Qed.

  (* hence the generated getter (which insists on the declared signature) succeeds *)
  Theorem getter_succeeds : pclean c -> forall s, preach c valid s -> forall v, p_val s = Some v ->
    exists x, getter (read s (NmStr prop_name)) = Some x /\ valid x = true.
  Proof.
    intros Hc s R v Hv. destruct (stored_well_typed Hc s R v Hv) as (Hs & _ & x & Hd & Hx).
    exists x. split; [|exact Hx]. unfold read. rewrite String.eqb_refl, Hv. simpl.
    rewrite Hs, String.eqb_refl. exact Hd.
  Qed.

  (* ---------- reads return the most recent accepted write ---------- *)
  Lemma prun_last : forall ops s, p_val (fst (prun c valid s ops)) = last_accepted c valid (p_val s) ops.
  Proof.
    induction ops as [|o r IH]; intros s; simpl; [reflexivity|].
    destruct (pstep c valid s o) as [[s1 res] ev] eqn:E.
    destruct (prun c valid s1 r) as [s2 l] eqn:E2. simpl.
    specialize (IH s1). rewrite E2 in IH. simpl in IH. rewrite IH. f_equal.
    destruct o as [nm|nm v0|x|cn mid]; unfold pstep in E.
    - inversion E; subst; reflexivity.
    - destruct (check c valid (PSet nm v0)) eqn:Ec; inversion E; subst; reflexivity.
    - destruct (check c valid (PUpdate x)) eqn:Ec; inversion E; subst; reflexivity.
    - inversion E; subst; reflexivity.
  Qed.

  Theorem read_returns_last_accepted : forall ops,
    read (fst (prun c valid pinit ops)) (NmStr prop_name) =
      match last_accepted c valid None ops with Some v => RVal v | None => RFail end.
  Proof. intros ops. unfold read. rewrite String.eqb_refl, prun_last. reflexivity. Qed.
End Seq.

(* ---------- the defect of the pinned code ---------- *)
Definition str_abcd : cval :=
  {| cv_sig := "s"; cv_data := unhex "0400000061626364" |}.     (* value.String("abcd") *)
Definition any_valid (x : N) : bool := true.
Definition nonneg (x : N) : bool := x <? 2 ^ 31.                 (* the Bomb's validator: duration >= 0 *)

(* setProperty("delay", String("abcd")) is accepted, stored under signature "s", announced to the
   subscriber with the string's bytes, and every later typed get fails *)
Lemma refuted_store_untyped :
  let '(s1, l) := prun pcfg_pinned nonneg pinit
                    [PSubscribe 0 7; PUpdate 10; PSet (NmStr prop_name) str_abcd; PGet (NmStr prop_name)] in
  l = [(RDone, []); (RDone, [((0%nat, 7), le 4 10)]); (RDone, [((0%nat, 7), cv_data str_abcd)]); (RVal str_abcd, [])] /\
  getter (read s1 (NmStr prop_name)) = None /\ is_typed str_abcd = false.
Proof. vm_compute. auto. Qed.

(* ---------- a concrete sequence that meets the hypotheses ---------- *)
Definition ex_ops : list pop :=
  [PGet (NmStr prop_name); PSubscribe 1 5; PUpdate 10; PSet (NmStr prop_name) {| cv_sig := "i"; cv_data := le 4 12 |};
   PSet (NmUint 101) {| cv_sig := "i"; cv_data := le 4 (2 ^ 32 - 1) |}; PSet (NmStr prop_name) str_abcd;
   PGet (NmStr prop_name)].
Lemma ex_seq : snd (prun pcfg_clean nonneg pinit ex_ops) =
  [(RFail, []); (RDone, []); (RDone, [((1%nat, 5), le 4 10)]); (RDone, [((1%nat, 5), le 4 12)]);
   (RFail, []); (RFail, []); (RVal {| cv_sig := "i"; cv_data := le 4 12 |}, [])].
Proof. vm_compute. reflexivity. Qed.

(* ---------- part 2: every history of the fine-grained system is linearizable ---------- *)
Section Conc.
  Variable c : pcfg.
  Variable valid : N -> bool.

  Lemma pres_eqb_eq : forall a b, pres_eqb a b = true -> a = b.
  Proof.
    intros [[s1 d1]| |] [[s2 d2]| |] H; simpl in H; try discriminate; auto.
    apply andb_prop in H. destruct H as [H1 H2]. apply String.eqb_eq in H1. apply eqb_bytes_eq in H2.
    now subst.
  Qed.

  (* association lists of threads: the model's and Lin's *)
  Lemma qget_qset_same : forall t v m, qget t (qset t v m) = Some v.
  Proof. intros. unfold qset. simpl. now rewrite N.eqb_refl. Qed.
  Lemma qget_qdel_same : forall t m, qget t (qdel t m) = None.
  Proof.
    intros t m. induction m as [|[k v] m IH]; simpl; [reflexivity|].
    destruct (k =? t) eqn:E; simpl; [exact IH|]. now rewrite E.
  Qed.
  Lemma qget_qdel_other : forall t t' m, t' <> t -> qget t' (qdel t m) = qget t' m.
  Proof.
    intros t t' m Hne. induction m as [|[k v] m IH]; simpl; [reflexivity|].
    destruct (k =? t) eqn:E; simpl.
    - apply N.eqb_eq in E. subst k. destruct (N.eqb_spec t t'); [congruence|exact IH].
    - destruct (k =? t'); [reflexivity|exact IH].
  Qed.
  Lemma qget_qset_other : forall t t' v m, t' <> t -> qget t' (qset t v m) = qget t' m.
  Proof.
    intros. unfold qset. simpl. destruct (N.eqb_spec t t'); [congruence|]. now apply qget_qdel_other.
  Qed.

  Notation atmap := (list (N * tstate pop pres)).
  Lemma tget_tset_same : forall t v (m : atmap), tget t (tset t v m) = Some v.
  Proof. intros. unfold tset. simpl. now rewrite N.eqb_refl. Qed.
  Lemma tget_tdel_same : forall t (m : atmap), tget t (tdel t m) = None.
  Proof.
    intros t m. induction m as [|[k v] m IH]; simpl; [reflexivity|].
    destruct (k =? t) eqn:E; simpl; [exact IH|]. now rewrite E.
  Qed.
  Lemma tget_tdel_other' : forall t t' (m : atmap), t' <> t -> tget t' (tdel t m) = tget t' m.
  Proof.
    intros t t' m Hne. induction m as [|[k v] m IH]; simpl; [reflexivity|].
    destruct (k =? t) eqn:E; simpl.
    - apply N.eqb_eq in E. subst k. destruct (N.eqb_spec t t'); [congruence|exact IH].
    - destruct (k =? t'); [reflexivity|exact IH].
  Qed.
  Lemma tget_tset_other' : forall t t' v (m : atmap), t' <> t -> tget t' (tset t v m) = tget t' m.
  Proof.
    intros. unfold tset. simpl. destruct (N.eqb_spec t t'); [congruence|]. now apply tget_tdel_other'.
  Qed.

  (* a thread as the atomic object of Lin.v sees it *)
  Definition abs_thr (th : thr) : tstate pop pres :=
    match th_phase th with
    | PhStart | PhChecked _ => TPend (th_op th) (th_inv th)
    | PhSaved _ => TDone (th_op th) (th_inv th) RDone
    | PhDone r => TDone (th_op th) (th_inv th) r
    end.
  Definition thr_ok (th : thr) : Prop :=
    match th_phase th with
    | PhChecked v | PhSaved v => check c valid (th_op th) = Some v
    | _ => True
    end.
  Definition sim (m : thrmap) (am : atmap) : Prop :=
    forall t, tget t am = option_map abs_thr (qget t m).
  Definition threads_ok (m : thrmap) : Prop := forall t th, qget t m = Some th -> thr_ok th.

  Lemma sim_set : forall m am t th, sim m am -> sim (qset t th m) (tset t (abs_thr th) am).
  Proof.
    intros m am t th H t'. destruct (N.eq_dec t' t) as [->|Hne].
    - now rewrite tget_tset_same, qget_qset_same.
    - rewrite tget_tset_other', qget_qset_other by auto. apply H.
  Qed.
  Lemma sim_del : forall m am t, sim m am -> sim (qdel t m) (tdel t am).
  Proof.
    intros m am t H t'. destruct (N.eq_dec t' t) as [->|Hne].
    - now rewrite tget_tdel_same, qget_qdel_same.
    - rewrite tget_tdel_other', qget_qdel_other by auto. apply H.
  Qed.
  (* a step that is not a linearization point leaves the abstract thread as it is *)
  Lemma sim_same : forall m am t th th', sim m am -> qget t m = Some th -> abs_thr th' = abs_thr th ->
    sim (qset t th' m) am.
  Proof.
    intros m am t th th' H Hg Ha t'. destruct (N.eq_dec t' t) as [->|Hne].
    - rewrite qget_qset_same. simpl. rewrite Ha. rewrite (H t), Hg. reflexivity.
    - rewrite qget_qset_other by auto. apply H.
  Qed.
  Lemma ok_set : forall m t th, threads_ok m -> thr_ok th -> threads_ok (qset t th m).
  Proof.
    intros m t th H Hth t' th' Hg. destruct (N.eq_dec t' t) as [->|Hne].
    - rewrite qget_qset_same in Hg. inversion Hg; subst; auto.
    - rewrite qget_qset_other in Hg by auto. eauto.
  Qed.
  Lemma ok_del : forall m t, threads_ok m -> threads_ok (qdel t m).
  Proof.
    intros m t H t' th' Hg. destruct (N.eq_dec t' t) as [->|Hne].
    - now rewrite qget_qdel_same in Hg.
    - rewrite qget_qdel_other in Hg by auto. eauto.
  Qed.

  (* the labels of the atomic object that a step of the model stands for *)
  Definition qproj (m : thrmap) (e : N * qlabel) : list (N * alabel pop pres) :=
    let '(u, l) := e in
    match l with
    | QInv t o => [(u, LInv t o)]
    | QCheck t =>
        match qget t m with
        | Some th =>
            match th_op th with
            | PGet _ | PSubscribe _ _ => [(u, LLin t)]
            | o => match check c valid o with Some _ => [] | None => [(u, LLin t)] end
            end
        | None => []
        end
    | QSave t => [(u, LLin t)]
    | QNotify _ => []
    | QRet t r => [(u, LRet t r)]
    end.

  Fixpoint qproj_run (st : pstate * thrmap) (tr : list (N * qlabel)) : list (N * alabel pop pres) :=
    match tr with
    | [] => []
    | e :: r =>
        match qstep c valid st e with
        | Some (st1, _) => qproj (snd st) e ++ qproj_run st1 r
        | None => []
        end
    end.

  (* what a client sees: invocations and responses *)
  Fixpoint qvis (tr : list (N * qlabel)) : list (tevent pop pres) :=
    match tr with
    | [] => []
    | (u, QInv t o) :: r => (u, EInv t o) :: qvis r
    | (u, QRet t x) :: r => (u, ERet t x) :: qvis r
    | _ :: r => qvis r
    end.

  Lemma rstep_check : forall s o v, check c valid o = Some v ->
    rstep c valid s o = ({| p_val := Some v; p_subs := p_subs s |}, RDone).
  Proof.
    intros s o v H. unfold rstep, pstep. destruct o as [nm|nm v0|x|cn mid]; try discriminate; now rewrite H.
  Qed.
  Lemma rstep_reject : forall s o, is_write o = true -> check c valid o = None -> rstep c valid s o = (s, RFail).
  Proof.
    intros s o Hw H. unfold rstep, pstep. destruct o as [nm|nm v0|x|cn mid]; try discriminate; now rewrite H.
  Qed.

  Lemma arun_app : forall (a b cst : pstate * atmap) t1 t2,
    arun (rstep c valid) a t1 b -> arun (rstep c valid) b t2 cst -> arun (rstep c valid) a (t1 ++ t2) cst.
  Proof.
    intros a b cst t1 t2 H1 H2. induction H1; simpl; auto. econstructor; eauto.
  Qed.

  Lemma alin_step : forall s (am : atmap) u t o i, tget t am = Some (TPend o i) ->
    arun (rstep c valid) (s, am) [(u, LLin t)]
         (fst (rstep c valid s o), tset t (TDone o i (snd (rstep c valid s o))) am).
  Proof. intros. econstructor; [eapply ALin; eauto|constructor]. Qed.

  Lemma abs_done : forall th r, abs_thr (with_phase th (PhDone r)) = TDone (th_op th) (th_inv th) r.
  Proof. reflexivity. Qed.
  Lemma abs_saved : forall th v, abs_thr (with_phase th (PhSaved v)) = TDone (th_op th) (th_inv th) RDone.
  Proof. reflexivity. Qed.

  (* one step of the model = at most one step of the atomic object *)
  Lemma qstep_sim : forall s m am e s' m' ev, sim m am -> threads_ok m ->
    qret_ok m (snd e) = true -> qstep c valid (s, m) e = Some ((s', m'), ev) ->
    exists am', arun (rstep c valid) (s, am) (qproj m e) (s', am') /\ sim m' am' /\ threads_ok m'.
  Proof.
    intros s m am [u l] s' m' ev Hs Hok Hret H. simpl in Hret. unfold qstep in H.
    destruct l as [t o|t|t|t|t r]; unfold qproj.
    - (* invocation *)
      destruct (qget t m) eqn:Eg; [discriminate|]. inversion H; subst; clear H.
      exists (tset t (TPend o u) am). split; [|split].
      + econstructor; [|constructor]. apply AInv. rewrite (Hs t), Eg. reflexivity.
      + apply (sim_set m am t {| th_op := o; th_inv := u; th_phase := PhStart |} Hs).
      + apply ok_set; auto. exact I.
    - (* check *)
      destruct (qget t m) as [th|] eqn:Eg; [|discriminate].
      destruct (th_phase th) eqn:Ep; try discriminate.
      assert (Hpend : tget t am = Some (TPend (th_op th) (th_inv th))).
      { rewrite (Hs t), Eg. simpl. unfold abs_thr. now rewrite Ep. }
      destruct (th_op th) as [nm|nm v0|x|cn mid] eqn:Eo.
      + (* read *)
        inversion H; subst; clear H.
        exists (tset t (TDone (PGet nm) (th_inv th) (read s' nm)) am). split; [|split].
        * exact (alin_step s' am u t _ _ Hpend).
        * rewrite <- Eo, <- abs_done. apply sim_set; auto.
        * apply ok_set; auto. exact I.
      + (* client write *)
        destruct (check c valid (PSet nm v0)) as [v|] eqn:Ec; inversion H; subst; clear H.
        * exists am. split; [constructor|]. split.
          -- eapply sim_same; eauto. unfold abs_thr, with_phase; simpl. now rewrite Ep.
          -- apply ok_set; auto. unfold thr_ok, with_phase; simpl. now rewrite Eo.
        * exists (tset t (TDone (PSet nm v0) (th_inv th) RFail) am). split; [|split].
          -- pose proof (alin_step s' am u t _ _ Hpend) as Ha.
             rewrite (rstep_reject s' (PSet nm v0) eq_refl Ec) in Ha. exact Ha.
          -- rewrite <- Eo, <- abs_done. apply sim_set; auto.
          -- apply ok_set; auto. exact I.
      + (* service-side update *)
        destruct (check c valid (PUpdate x)) as [v|] eqn:Ec; inversion H; subst; clear H.
        * exists am. split; [constructor|]. split.
          -- eapply sim_same; eauto. unfold abs_thr, with_phase; simpl. now rewrite Ep.
          -- apply ok_set; auto. unfold thr_ok, with_phase; simpl. now rewrite Eo.
        * exists (tset t (TDone (PUpdate x) (th_inv th) RFail) am). split; [|split].
          -- pose proof (alin_step s' am u t _ _ Hpend) as Ha.
             rewrite (rstep_reject s' (PUpdate x) eq_refl Ec) in Ha. exact Ha.
          -- rewrite <- Eo, <- abs_done. apply sim_set; auto.
          -- apply ok_set; auto. exact I.
      + (* subscribe *)
        inversion H; subst; clear H.
        exists (tset t (TDone (PSubscribe cn mid) (th_inv th) RDone) am). split; [|split].
        * exact (alin_step s am u t _ _ Hpend).
        * rewrite <- Eo, <- abs_done. apply sim_set; auto.
        * apply ok_set; auto. exact I.
    - (* save: the linearization point of an accepted write *)
      destruct (qget t m) as [th|] eqn:Eg; [|discriminate].
      destruct (th_phase th) as [|v|v|r] eqn:Ep; try discriminate. inversion H; subst; clear H.
      assert (Hpend : tget t am = Some (TPend (th_op th) (th_inv th))).
      { rewrite (Hs t), Eg. simpl. unfold abs_thr. now rewrite Ep. }
      pose proof (Hok t th Eg) as Hth. unfold thr_ok in Hth. rewrite Ep in Hth.
      exists (tset t (TDone (th_op th) (th_inv th) RDone) am). split; [|split].
      + pose proof (alin_step s am u t _ _ Hpend) as Ha.
        rewrite (rstep_check s _ _ Hth) in Ha. exact Ha.
      + rewrite <- (abs_saved th v). apply sim_set; auto.
      + apply ok_set; auto.
    - (* notify: no effect on the register *)
      destruct (qget t m) as [th|] eqn:Eg; [|discriminate].
      destruct (th_phase th) as [|v|v|r] eqn:Ep; try discriminate. inversion H; subst; clear H.
      exists am. split; [constructor|]. split.
      + eapply sim_same; eauto. unfold abs_thr, with_phase; simpl. now rewrite Ep.
      + apply ok_set; auto. exact I.
    - (* return *)
      destruct (qget t m) as [th|] eqn:Eg; [|discriminate].
      destruct (th_phase th) as [|v|v|r0] eqn:Ep; try discriminate. inversion H; subst; clear H.
      unfold qret_ok in Hret. rewrite Eg, Ep in Hret. apply pres_eqb_eq in Hret. subst r0.
      exists (tdel t am). split; [|split].
      + econstructor; [|constructor]. eapply ARet. rewrite (Hs t), Eg. simpl. unfold abs_thr. rewrite Ep. reflexivity.
      + apply sim_del; auto.
      + apply ok_del; auto.
  Qed.

  Lemma qrun_cons : forall st e r, qrun c valid st (e :: r) =
    if qret_ok (snd st) (snd e) then
      match qstep c valid st e with
      | None => None
      | Some (st1, ev1) =>
          match qrun c valid st1 r with
          | None => None
          | Some (st2, ev2) => Some (st2, ev1 ++ ev2)
          end
      end
    else None.
  Proof. reflexivity. Qed.

  Lemma qrun_sim : forall tr s m am st' ev, sim m am -> threads_ok m ->
    qrun c valid (s, m) tr = Some (st', ev) ->
    exists am', arun (rstep c valid) (s, am) (qproj_run (s, m) tr) (fst st', am') /\ sim (snd st') am'.
  Proof.
    induction tr as [|e r IH]; intros s m am st' ev Hs Hok H.
    - simpl in H. inversion H; subst. exists am. split; [constructor|exact Hs].
    - rewrite qrun_cons in H. cbn [snd] in H. destruct (qret_ok m (snd e)) eqn:Er; [|discriminate].
      destruct (qstep c valid (s, m) e) as [[[s1 m1] ev1]|] eqn:E; [|discriminate].
      destruct (qrun c valid (s1, m1) r) as [[st2 ev2]|] eqn:E2; [|discriminate].
      inversion H; subst; clear H.
      destruct (qstep_sim _ _ _ _ _ _ _ Hs Hok Er E) as (am1 & Ha & Hs1 & Hok1).
      destruct (IH _ _ _ _ _ Hs1 Hok1 E2) as (am2 & Ha2 & Hs2).
      exists am2. split; [|exact Hs2]. cbn [qproj_run]. rewrite E. cbn [snd]. eapply arun_app; eauto.
  Qed.

  Lemma erase_app : forall (a b : list (N * alabel pop pres)), erase (a ++ b) = erase a ++ erase b.
  Proof.
    induction a as [|[u [t o|t|t r]] a IH]; intros b; simpl; auto; now rewrite IH.
  Qed.

  Lemma qvis_proj : forall tr st st' ev, qrun c valid st tr = Some (st', ev) -> erase (qproj_run st tr) = qvis tr.
  Proof.
    induction tr as [|[u l] r IH]; intros st st' ev H; [reflexivity|].
    rewrite qrun_cons in H. cbn [snd] in H. destruct (qret_ok (snd st) l); [|discriminate].
    destruct (qstep c valid st (u, l)) as [[st1 ev1]|] eqn:E; [|discriminate].
    destruct (qrun c valid st1 r) as [[st2 ev2]|] eqn:E2; [|discriminate].
    cbn [qproj_run]. rewrite E, erase_app, (IH _ _ _ E2).
    destruct l as [t o|t|t|t|t x]; unfold qproj; try reflexivity.
    destruct (qget t (snd st)) as [th|]; [|reflexivity].
    destruct (th_op th) as [nm|nm v|x|cn mid]; try reflexivity.
    - destruct (check c valid (PSet nm v)); reflexivity.
    - destruct (check c valid (PUpdate x)); reflexivity.
  Qed.

  Lemma stamped_weaken : forall A (tr : list (N * A)) lb lb', lb <= lb' -> stamped lb' tr -> stamped lb tr.
  Proof. intros A [|[u x] r] lb lb' Hle H; simpl in *; auto. destruct H. split; auto. lia. Qed.

  Lemma stamped_app_one : forall A (l pre : list (N * A)) lb u,
    (forall x, In x pre -> fst x = u) -> (List.length pre <= 1)%nat -> lb < u ->
    stamped u l -> stamped lb (pre ++ l).
  Proof.
    intros A l pre lb u Hpre Hlen Hlt Hl. destruct pre as [|[u0 x0] [|y pre]]; simpl in *.
    - eapply stamped_weaken; [|exact Hl]. lia.
    - assert (u0 = u) by (apply (Hpre (u0, x0)); auto). subst. auto.
    - lia.
  Qed.

  Lemma qproj_stamp : forall m u l x, In x (qproj m (u, l)) -> fst x = u.
  Proof.
    intros m u l x H. unfold qproj in H. destruct l as [t o|t|t|t|t r].
    - destruct H as [<-|[]]; reflexivity.
    - destruct (qget t m) as [th|]; [|destruct H].
      destruct (th_op th) as [nm|nm v|y|cn mid].
      + destruct H as [<-|[]]; reflexivity.
      + destruct (check c valid (PSet nm v)); [destruct H|destruct H as [<-|[]]; reflexivity].
      + destruct (check c valid (PUpdate y)); [destruct H|destruct H as [<-|[]]; reflexivity].
      + destruct H as [<-|[]]; reflexivity.
    - destruct H as [<-|[]]; reflexivity.
    - destruct H.
    - destruct H as [<-|[]]; reflexivity.
  Qed.
  Lemma qproj_len : forall m e, (List.length (qproj m e) <= 1)%nat.
  Proof.
    intros m [u l]. unfold qproj. destruct l as [t o|t|t|t|t r]; try (cbn [List.length]; lia).
    destruct (qget t m) as [th|]; [|cbn [List.length]; lia].
    destruct (th_op th) as [nm|nm v|y|cn mid]; try (cbn [List.length]; lia).
    - destruct (check c valid (PSet nm v)); cbn [List.length]; lia.
    - destruct (check c valid (PUpdate y)); cbn [List.length]; lia.
  Qed.

  Lemma qproj_run_stamped : forall tr st lb, stamped lb tr -> stamped lb (qproj_run st tr).
  Proof.
    induction tr as [|[u l] r IH]; intros st lb H; [exact I|].
    simpl in H. destruct H as [Hlt Hr]. cbn [qproj_run].
    destruct (qstep c valid st (u, l)) as [[st1 ev1]|]; [|exact I].
    apply stamped_app_one with (u := u); [intros x Hx; eapply qproj_stamp; eauto|apply qproj_len|exact Hlt|].
    apply IH. exact Hr.
  Qed.

  (* C14, concurrent part: whatever the interleaving of the checks, saves, notifications and
     returns of any number of client writes, service-side updates, reads and subscriptions,
     the history the callers observe is linearizable with respect to the register [rstep] *)
  Theorem property_linearizable : forall tr st' ev, stamped 0 tr ->
    qrun c valid (pinit, []) tr = Some (st', ev) ->
    linearizable (rstep c valid) pinit (ops_of (qvis tr)).
  Proof.
    intros tr st' ev Hst H.
    destruct (qrun_sim tr pinit [] [] st' ev) as (am' & Ha & _); auto.
    - intros t. reflexivity.
    - intros t th Hg. discriminate.
    - rewrite <- (qvis_proj _ _ _ _ H).
      eapply atomic_lin; [|exact Ha]. apply qproj_run_stamped. exact Hst.
  Qed.

  (* ---------- exactly one change event per accepted write, for every schedule ---------- *)
  Definition sub_eqb (a b : subscriber) : bool := Nat.eqb (fst a) (fst b) && (snd a =? snd b).
  Lemma sub_eqb_eq : forall a b, sub_eqb a b = true <-> a = b.
  Proof.
    intros [a1 a2] [b1 b2]. unfold sub_eqb. simpl. rewrite andb_true_iff, Nat.eqb_eq, N.eqb_eq.
    split; [intros [-> ->]; reflexivity|intros H; inversion H; auto].
  Qed.
  (* the payloads of the events addressed to one subscriber, in emission order *)
  Definition ev_for (sub : subscriber) (ev : list pevent) : list bytes :=
    map snd (filter (fun e => sub_eqb (fst e) sub) ev).
  Definition count_sub (sub : subscriber) (l : list subscriber) : nat :=
    List.length (filter (fun x => sub_eqb x sub) l).

  Lemma ev_for_app : forall sub a b, ev_for sub (a ++ b) = ev_for sub a ++ ev_for sub b.
  Proof. intros. unfold ev_for. now rewrite filter_app, map_app. Qed.

  Lemma ev_for_notify : forall sub subs v, ev_for sub (notify subs v) = repeat (cv_data v) (count_sub sub subs).
  Proof.
    intros sub subs v. unfold ev_for, notify, count_sub. induction subs as [|x r IH]; simpl; [reflexivity|].
    destruct (sub_eqb x sub); simpl; now rewrite IH.
  Qed.

  (* what a thread that has notified but not yet returned has put on the wire *)
  Definition wdata (th : thr) : list bytes :=
    match th_phase th with
    | PhDone RDone => match check c valid (th_op th) with Some v => [cv_data v] | None => [] end
    | _ => []
    end.
  Definition W (m : thrmap) : list bytes := flat_map (fun p => wdata (snd p)) m.
  Definition keys_nodup (m : thrmap) : Prop := NoDup (map fst m).

  Lemma qdel_absent : forall t m, qget t m = None -> qdel t m = m.
  Proof.
    intros t m. induction m as [|[k v] m IH]; simpl; intros H; [reflexivity|].
    destruct (k =? t) eqn:E; [discriminate|]. simpl. now rewrite IH.
  Qed.
  Lemma qdel_keys : forall t m k, In k (map fst (qdel t m)) -> In k (map fst m) /\ k <> t.
  Proof.
    intros t m k. induction m as [|[k0 v] m IH]; simpl; intros H; [destruct H|].
    destruct (k0 =? t) eqn:E; simpl in H.
    - destruct (IH H); auto.
    - destruct H as [<-|H]; [split; auto; now apply N.eqb_neq|]. destruct (IH H); auto.
  Qed.
  Lemma qdel_nodup : forall t m, keys_nodup m -> keys_nodup (qdel t m).
  Proof.
    intros t m. unfold keys_nodup. induction m as [|[k v] m IH]; simpl; intros H; [constructor|].
    inversion H as [|? ? Hn Hd]; subst. destruct (k =? t); simpl; auto.
    constructor; auto. intro Hin. apply Hn. now destruct (qdel_keys _ _ _ Hin).
  Qed.
  Lemma qset_nodup : forall t v m, keys_nodup m -> keys_nodup (qset t v m).
  Proof.
    intros t v m H. unfold keys_nodup, qset. simpl. constructor; [|now apply qdel_nodup].
    intro Hin. destruct (qdel_keys _ _ _ Hin). congruence.
  Qed.
  Lemma W_split : forall t th m, keys_nodup m -> qget t m = Some th ->
    Permutation (W m) (wdata th ++ W (qdel t m)).
  Proof.
    intros t th m. unfold keys_nodup, W. induction m as [|[k v] m IH]; simpl; intros Hn Hg; [discriminate|].
    inversion Hn as [|? ? Hnk Hd]; subst. destruct (k =? t) eqn:E.
    - apply N.eqb_eq in E. subst k. inversion Hg; subst. simpl.
      assert (Hab : qget t m = None).
      { clear - Hnk. induction m as [|[k v] m IH]; simpl; [reflexivity|].
        destruct (k =? t) eqn:E; [apply N.eqb_eq in E; subst; exfalso; apply Hnk; simpl; auto|].
        apply IH. intro H. apply Hnk. simpl. auto. }
      fold (qdel t m). rewrite (qdel_absent _ _ Hab). apply Permutation_refl.
    - simpl. specialize (IH Hd Hg).
      eapply perm_trans; [apply Permutation_app_head; exact IH|].
      rewrite !app_assoc. apply Permutation_app_tail. apply Permutation_app_comm.
  Qed.
  Lemma W_set : forall t th m, W (qset t th m) = wdata th ++ W (qdel t m).
  Proof. reflexivity. Qed.

  Lemma qstep_threads_ok : forall st e st' ev, threads_ok (snd st) ->
    qstep c valid st e = Some (st', ev) -> threads_ok (snd st').
  Proof.
    intros [s m] [u l] [s' m'] ev Hok H. cbn [snd] in *. unfold qstep in H.
    destruct l as [t o|t|t|t|t r].
    - destruct (qget t m); [discriminate|]. inversion H; subst. apply ok_set; auto. exact I.
    - destruct (qget t m) as [th|] eqn:Eg; [|discriminate].
      destruct (th_phase th) eqn:Ep; try discriminate.
      destruct (th_op th) as [nm|nm v0|x|cn mid] eqn:Eo.
      + inversion H; subst. apply ok_set; auto. exact I.
      + destruct (check c valid (PSet nm v0)) eqn:Ec; inversion H; subst; apply ok_set; auto; try exact I.
        unfold thr_ok, with_phase; simpl. now rewrite Eo.
      + destruct (check c valid (PUpdate x)) eqn:Ec; inversion H; subst; apply ok_set; auto; try exact I.
        unfold thr_ok, with_phase; simpl. now rewrite Eo.
      + inversion H; subst. apply ok_set; auto. exact I.
    - destruct (qget t m) as [th|] eqn:Eg; [|discriminate].
      destruct (th_phase th) eqn:Ep; try discriminate. inversion H; subst.
      apply ok_set; auto. pose proof (Hok t th Eg) as Hth. unfold thr_ok in *. rewrite Ep in Hth. exact Hth.
    - destruct (qget t m) as [th|] eqn:Eg; [|discriminate].
      destruct (th_phase th) eqn:Ep; try discriminate. inversion H; subst. apply ok_set; auto. exact I.
    - destruct (qget t m) as [th|] eqn:Eg; [|discriminate].
      destruct (th_phase th) eqn:Ep; try discriminate. inversion H; subst. apply ok_del; auto.
  Qed.

  Lemma qstep_nodup : forall st e st' ev, keys_nodup (snd st) ->
    qstep c valid st e = Some (st', ev) -> keys_nodup (snd st').
  Proof.
    intros [s m] [u l] [s' m'] ev Hn H. cbn [snd] in *. unfold qstep in H.
    destruct l as [t o|t|t|t|t r]; (destruct (qget t m) as [th|] eqn:Eg; try discriminate).
    - inversion H; subst. now apply qset_nodup.
    - destruct (th_phase th); try discriminate.
      destruct (th_op th) as [nm|nm v0|x|cn mid].
      + inversion H; subst. now apply qset_nodup.
      + destruct (check c valid (PSet nm v0)); inversion H; subst; now apply qset_nodup.
      + destruct (check c valid (PUpdate x)); inversion H; subst; now apply qset_nodup.
      + inversion H; subst. now apply qset_nodup.
    - destruct (th_phase th); try discriminate. inversion H; subst. now apply qset_nodup.
    - destruct (th_phase th); try discriminate. inversion H; subst. now apply qset_nodup.
    - destruct (th_phase th); try discriminate. inversion H; subst. now apply qdel_nodup.
  Qed.

  (* nobody subscribes [sub] a second time *)
  Definition is_sub_of (sub : subscriber) (o : pop) : bool :=
    match o with PSubscribe cn mid => sub_eqb (cn, mid) sub | _ => false end.
  Definition nosub (sub : subscriber) (m : thrmap) : Prop :=
    forall t th, qget t m = Some th -> is_sub_of sub (th_op th) = false.
  Fixpoint nosub_tr (sub : subscriber) (tr : list (N * qlabel)) : Prop :=
    match tr with
    | [] => True
    | (_, QInv _ o) :: r => is_sub_of sub o = false /\ nosub_tr sub r
    | _ :: r => nosub_tr sub r
    end.

  (* the data of the accepted writes that have returned, in the order of their returns *)
  Definition qacc (m : thrmap) (e : N * qlabel) : list bytes :=
    match snd e with
    | QRet t _ => match qget t m with Some th => wdata th | None => [] end
    | _ => []
    end.
  Fixpoint qaccepted (st : pstate * thrmap) (tr : list (N * qlabel)) : list bytes :=
    match tr with
    | [] => []
    | e :: r =>
        match qstep c valid st e with
        | Some (st1, _) => qacc (snd st) e ++ qaccepted st1 r
        | None => []
        end
    end.

  Lemma count_sub_app : forall sub a b, count_sub sub (a ++ b) = (count_sub sub a + count_sub sub b)%nat.
  Proof. intros. unfold count_sub. now rewrite filter_app, app_length. Qed.

  Lemma qstep_events : forall s m e s' m' ev sub, keys_nodup m -> threads_ok m -> nosub sub m ->
    nosub_tr sub [e] -> count_sub sub (p_subs s) = 1%nat ->
    qstep c valid (s, m) e = Some ((s', m'), ev) ->
    Permutation (ev_for sub ev ++ W m) (qacc m e ++ W m') /\
    nosub sub m' /\ count_sub sub (p_subs s') = 1%nat.
  Proof.
    intros s m [u l] s' m' ev sub Hn Hok Hno Htr Hc H. unfold qstep in H. unfold qacc; cbn [snd].
    assert (Hset : forall t th th', qget t m = Some th -> th_op th' = th_op th -> nosub sub (qset t th' m)).
    { intros t th th' Hg Ho t' x Hx. destruct (N.eq_dec t' t) as [->|Hne].
      - rewrite qget_qset_same in Hx. inversion Hx; subst. rewrite Ho. eauto.
      - rewrite qget_qset_other in Hx by auto. eauto. }
    destruct l as [t o|t|t|t|t r].
    - destruct (qget t m) eqn:Eg; [discriminate|]. inversion H; subst; clear H.
      split; [|split; auto].
      + rewrite W_set, (qdel_absent _ _ Eg). apply Permutation_refl.
      + intros t' x Hx. destruct (N.eq_dec t' t) as [->|Hne].
        * rewrite qget_qset_same in Hx. inversion Hx; subst. simpl. simpl in Htr. tauto.
        * rewrite qget_qset_other in Hx by auto. eauto.
    - destruct (qget t m) as [th|] eqn:Eg; [|discriminate].
      destruct (th_phase th) eqn:Ep; try discriminate.
      assert (Hw0 : wdata th = []) by (unfold wdata; now rewrite Ep).
      pose proof (W_split t th m Hn Eg) as Hsp. rewrite Hw0 in Hsp. simpl in Hsp.
      destruct (th_op th) as [nm|nm v0|x|cn mid] eqn:Eo.
      + inversion H; subst; clear H. split; [|split; auto].
        * rewrite W_set. unfold wdata at 1; simpl. destruct (read s' nm); simpl; auto.
          rewrite Eo. simpl. exact Hsp.
        * eapply Hset; eauto.
      + destruct (check c valid (PSet nm v0)) eqn:Ec; inversion H; subst; clear H; (split; [|split; auto]);
          try (eapply Hset; eauto); rewrite W_set; unfold wdata at 1; simpl; exact Hsp.
      + destruct (check c valid (PUpdate x)) eqn:Ec; inversion H; subst; clear H; (split; [|split; auto]);
          try (eapply Hset; eauto); rewrite W_set; unfold wdata at 1; simpl; exact Hsp.
      + inversion H; subst; clear H. split; [|split].
        * rewrite W_set. unfold wdata at 1; simpl. rewrite Eo. simpl. exact Hsp.
        * eapply Hset; eauto.
        * simpl. rewrite count_sub_app, Hc. unfold count_sub. simpl.
          pose proof (Hno t th Eg) as Hx. rewrite Eo in Hx. simpl in Hx. rewrite Hx. reflexivity.
    - destruct (qget t m) as [th|] eqn:Eg; [|discriminate].
      destruct (th_phase th) eqn:Ep; try discriminate. inversion H; subst; clear H.
      assert (Hw0 : wdata th = []) by (unfold wdata; now rewrite Ep).
      pose proof (W_split t th m Hn Eg) as Hsp. rewrite Hw0 in Hsp. simpl in Hsp.
      split; [|split].
      + rewrite W_set. unfold wdata at 1; simpl. exact Hsp.
      + eapply Hset; eauto.
      + simpl. exact Hc.
    - (* notify *)
      destruct (qget t m) as [th|] eqn:Eg; [|discriminate].
      destruct (th_phase th) eqn:Ep; try discriminate. inversion H; subst; clear H.
      assert (Hw0 : wdata th = []) by (unfold wdata; now rewrite Ep).
      pose proof (W_split t th m Hn Eg) as Hsp. rewrite Hw0 in Hsp. simpl in Hsp.
      pose proof (Hok t th Eg) as Hth. unfold thr_ok in Hth. rewrite Ep in Hth.
      split; [|split; auto].
      + rewrite ev_for_notify, Hc, W_set. unfold wdata at 1; simpl. rewrite Hth. simpl.
        apply perm_skip. exact Hsp.
      + eapply Hset; eauto.
    - (* return *)
      destruct (qget t m) as [th|] eqn:Eg; [|discriminate].
      destruct (th_phase th) eqn:Ep; try discriminate. inversion H; subst; clear H.
      split; [|split; auto].
      + simpl. apply W_split; auto.
      + intros t' x Hx. destruct (N.eq_dec t' t) as [->|Hne].
        * now rewrite qget_qdel_same in Hx.
        * rewrite qget_qdel_other in Hx by auto. eauto.
  Qed.

  Theorem events_match_accepted : forall tr s m st' ev sub, keys_nodup m -> threads_ok m -> nosub sub m ->
    nosub_tr sub tr -> count_sub sub (p_subs s) = 1%nat ->
    qrun c valid (s, m) tr = Some (st', ev) ->
    Permutation (ev_for sub ev ++ W m) (qaccepted (s, m) tr ++ W (snd st')).
  Proof.
    induction tr as [|e r IH]; intros s m st' ev sub Hn Hok Hno Htr Hc H.
    - simpl in H. inversion H; subst. simpl. apply Permutation_refl.
    - rewrite qrun_cons in H. destruct (qret_ok (snd (s, m)) (snd e)); [|discriminate].
      destruct (qstep c valid (s, m) e) as [[[s1 m1] ev1]|] eqn:E; [|discriminate].
      destruct (qrun c valid (s1, m1) r) as [[st2 ev2]|] eqn:E2; [|discriminate].
      inversion H; subst; clear H.
      assert (Htr1 : nosub_tr sub [e] /\ nosub_tr sub r).
      { destruct e as [u [t o|t|t|t|t x]]; simpl in *; tauto. }
      destruct Htr1 as [Htr1 Htr2].
      destruct (qstep_events _ _ _ _ _ _ sub Hn Hok Hno Htr1 Hc E) as (P1 & Hno1 & Hc1).
      pose proof (qstep_nodup (s, m) e (s1, m1) ev1 Hn E) as Hn1.
      pose proof (qstep_threads_ok (s, m) e (s1, m1) ev1 Hok E) as Hok1.
      simpl in Hn1, Hok1.
      specialize (IH _ _ _ _ sub Hn1 Hok1 Hno1 Htr2 Hc1 E2).
      cbn [qaccepted]. rewrite E. cbn [snd]. rewrite ev_for_app.
      assert (Hmid : forall (a b d : list bytes), Permutation (a ++ b ++ d) (b ++ a ++ d)).
      { intros a b d. rewrite !app_assoc. apply Permutation_app_tail. apply Permutation_app_comm. }
      transitivity (ev_for sub ev2 ++ (ev_for sub ev1 ++ W m)).
      { rewrite <- app_assoc. apply Hmid. }
      transitivity (ev_for sub ev2 ++ (qacc m e ++ W m1)).
      { apply Permutation_app_head. exact P1. }
      transitivity (qacc m e ++ (ev_for sub ev2 ++ W m1)).
      { apply Hmid. }
      rewrite <- app_assoc. apply Permutation_app_head. exact IH.
  Qed.

  (* from a quiet state to a quiet state: a subscriber registered once before the run receives
     exactly the data of the accepted writes — one event each, none for a rejected write *)
  Corollary events_exactly_accepted : forall tr s s' ev sub, nosub_tr sub tr ->
    count_sub sub (p_subs s) = 1%nat -> qrun c valid (s, []) tr = Some ((s', []), ev) ->
    Permutation (ev_for sub ev) (qaccepted (s, []) tr).
  Proof.
    intros tr s s' ev sub Htr Hc H.
    pose proof (events_match_accepted tr s [] (s', []) ev sub) as P.
    simpl in P. rewrite !app_nil_r in P. apply P; auto.
    - constructor.
    - intros t th Hg. discriminate.
    - intros t th Hg. discriminate.
  Qed.
End Conc.
