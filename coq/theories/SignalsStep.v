(* SignalsStep.v — the transition function of Signals.v as a relation with one constructor per
   branch, and [step_Step]: every transition of [step] is one of them. *)
From QV Require Import Signals SignalsLemmas.
Local Open Scope N_scope.

Definition dreply (f : dframe) : option (N * N) :=
  match f with DReply a m | DError a m => Some (a, m) | DEvent _ _ _ => None end.
Definition answer_sub (x : sub) (f : dframe) : sub :=
  match s_pc x, f with
  | PWaitReg _, DReply _ _ => acked x
  | PWaitReg _, _ => with_pc x PFailed
  | _, _ => with_pc x PAborting
  end.
Definition new_user (c : nat) (m sig uid : N) : user := {| u_uid := uid; u_sig := sig; u_mid := m; u_conn := c |}.

Inductive Step (g : scfg) (st : state) : label -> state -> Prop :=
| SInstall c sig : Step g st (LInstall c sig) (st_install st c sig)
| SCountFirst s x :
    nth_error (subs st) s = Some x -> s_pc x = PInstalled ->
    may_enter g (cl st (s_conn x)) (s_sig x) = true -> c_count (cl st (s_conn x)) (s_sig x) = O ->
    Step g st (LCount s) (st_count_first st s x)
| SCountMore s x :
    nth_error (subs st) s = Some x -> s_pc x = PInstalled ->
    may_enter g (cl st (s_conn x)) (s_sig x) = true -> c_count (cl st (s_conn x)) (s_sig x) <> O ->
    Step g st (LCount s) (st_count_more st s x)
| SSendReg s x h :
    nth_error (subs st) s = Some x -> s_pc x = PNeedReg -> h <> 0 ->
    ~ In h (c_drawn (cl st (s_conn x))) ->
    Step g st (LSendReg s h) (st_send_reg st s x h)
| SMboxReg c m sig uid rest :
    dead st = false -> stuck st c = false -> pend st = None -> up st c = UReg m sig uid :: rest ->
    (snapshot_send g = false -> emit st = None) ->
    find_idx (same_user g c uid) (table st) = None ->
    Step g st (LMbox c) (st_mbox st c rest (table st ++ [new_user c m sig uid]) (Some (c, DReply A_register m, None)))
| SMboxRegDead c m sig uid rest i :
    dead st = false -> stuck st c = false -> pend st = None -> up st c = UReg m sig uid :: rest ->
    (snapshot_send g = false -> emit st = None) ->
    find_idx (same_user g c uid) (table st) = Some i -> dup_relock g = true ->
    Step g st (LMbox c) (st_mbox_deadlock st c rest i)
| SMboxRegErr c m sig uid rest i :
    dead st = false -> stuck st c = false -> pend st = None -> up st c = UReg m sig uid :: rest ->
    (snapshot_send g = false -> emit st = None) ->
    find_idx (same_user g c uid) (table st) = Some i -> dup_relock g = false ->
    Step g st (LMbox c) (st_mbox st c rest (table st) (Some (c, DError A_register m, None)))
| SMboxUnreg c m sig uid rest i :
    dead st = false -> stuck st c = false -> pend st = None -> up st c = UUnreg m sig uid :: rest ->
    (snapshot_send g = false -> emit st = None) ->
    find_idx (is_user c uid) (table st) = Some i ->
    Step g st (LMbox c) (st_mbox st c rest (swap_remove (table st) i)
                           (Some (c, DReply A_unregister m, Some (u_mid (nth i (table st) no_user)))))
| SMboxUnregErr c m sig uid rest :
    dead st = false -> stuck st c = false -> pend st = None -> up st c = UUnreg m sig uid :: rest ->
    (snapshot_send g = false -> emit st = None) ->
    find_idx (is_user c uid) (table st) = None ->
    Step g st (LMbox c) (st_mbox st c rest (table st) (Some (c, DError A_unregister m, None)))
| SReply c f note :
    dead st = false -> pend st = Some (c, f, note) -> Step g st LReply (st_reply st c f note)
| SEmitSnap sig p : emit st = None -> Step g st (LEmitSnap sig p) (st_emit_snap st sig p)
| SEmitSend sig p u us : emit st = Some (sig, p, u :: us) -> Step g st LEmitSend (st_emit_send st sig p u us)
| SRecvEvent c sig m p rest :
    down st c = DEvent sig m p :: rest -> Step g st (LCliRecv c) (st_recv_event st c rest sig p)
| SRecvDrop c f act m rest :
    down st c = f :: rest -> dreply f = Some (act, m) -> find_idx (waits c act m) (subs st) = None ->
    Step g st (LCliRecv c) (st_pop_down st c rest)
| SRecvAnswer c f act m rest s x :
    down st c = f :: rest -> dreply f = Some (act, m) -> find_idx (waits c act m) (subs st) = Some s ->
    nth_error (subs st) s = Some x -> waits c act m x = true ->
    Step g st (LCliRecv c) (st_recv_answer g st c rest s x (answer_sub x f))
| SCancelLast s x :
    nth_error (subs st) s = Some x -> s_pc x = PAcked ->
    may_enter g (cl st (s_conn x)) (s_sig x) = true -> Nat.pred (c_count (cl st (s_conn x)) (s_sig x)) = O ->
    Step g st (LCancel s) (st_cancel_last st s x)
| SCancelMore s x :
    nth_error (subs st) s = Some x -> s_pc x = PAcked ->
    may_enter g (cl st (s_conn x)) (s_sig x) = true -> Nat.pred (c_count (cl st (s_conn x)) (s_sig x)) <> O ->
    Step g st (LCancel s) (st_cancel_more st s x)
| SSendUnreg s x :
    nth_error (subs st) s = Some x -> s_pc x = PNeedUnreg -> Step g st (LSendUnreg s) (st_send_unreg st s x)
| SDeliver s x p q :
    nth_error (subs st) s = Some x -> live (s_pc x) = true -> s_queue x = p :: q ->
    Step g st (LDeliver s) (set_sub st s (sub_deliver x p q))
| SFanClose s x :
    nth_error (subs st) s = Some x -> s_pc x = PAborting -> Step g st (LFanClose s) (set_sub st s (sub_close x)).

Lemma existsb_Neqb_false h l : existsb (N.eqb h) l = false -> ~ In h l.
Proof.
  intros H Hin. assert (existsb (N.eqb h) l = true) by (apply existsb_exists; exists h; split; [exact Hin|apply N.eqb_refl]).
  congruence.
Qed.

Lemma step_Step g st l st' : step g st l = Some st' -> Step g st l st'.
Proof.
  destruct l as [c sig|s|s h|c| |sig p| |c|s|s|s|s]; cbn [step]; intro H.
  - injection H as <-. constructor.
  - destruct (nth_error (subs st) s) as [x|] eqn:Ex; [|discriminate].
    destruct (s_pc x) eqn:Ep; try discriminate.
    destruct (may_enter g (cl st (s_conn x)) (s_sig x)) eqn:Em; [|discriminate].
    destruct (Nat.eqb (c_count (cl st (s_conn x)) (s_sig x)) 0) eqn:Ec; injection H as <-.
    + apply Nat.eqb_eq in Ec. now apply SCountFirst.
    + apply Nat.eqb_neq in Ec. now apply SCountMore.
  - destruct (nth_error (subs st) s) as [x|] eqn:Ex; [|discriminate].
    destruct (s_pc x) eqn:Ep; try discriminate.
    destruct (negb (h =? 0) && negb (existsb (N.eqb h) (c_drawn (cl st (s_conn x))))) eqn:Eg; [|discriminate].
    injection H as <-. apply andb_prop in Eg as [E1 E2]. apply negb_true_iff in E1, E2.
    apply N.eqb_neq in E1. apply existsb_Neqb_false in E2. now apply SSendReg.
  - destruct (dead st) eqn:Ed; [discriminate|]. destruct (stuck st c) eqn:Es; [discriminate|]. cbn [orb] in H.
    destruct (pend st) eqn:Epd; [discriminate|]. destruct (up st c) as [|f rest] eqn:Eu; [discriminate|].
    destruct (negb (snapshot_send g) && emitting st) eqn:Ee; [discriminate|].
    assert (He : snapshot_send g = false -> emit st = None).
    { intro Hs. rewrite Hs in Ee. cbn in Ee. unfold emitting in Ee. now destruct (emit st). }
    destruct f as [m sig uid|m sig uid].
    + destruct (find_idx (same_user g c uid) (table st)) as [i|] eqn:Ef.
      * destruct (dup_relock g) eqn:Er; injection H as <-.
        -- apply (SMboxRegDead g st c m sig uid rest i); assumption.
        -- apply (SMboxRegErr g st c m sig uid rest i); assumption.
      * injection H as <-. apply (SMboxReg g st c m sig uid rest); assumption.
    + destruct (find_idx (is_user c uid) (table st)) as [i|] eqn:Ef; injection H as <-.
      * apply (SMboxUnreg g st c m sig uid rest i); assumption.
      * apply (SMboxUnregErr g st c m sig uid rest); assumption.
  - destruct (dead st) eqn:Ed; [discriminate|]. destruct (pend st) as [[[c f] note]|] eqn:Ep; [|discriminate].
    injection H as <-. now apply SReply.
  - unfold emitting in H. destruct (emit st) eqn:Ee; [discriminate|]. injection H as <-. now apply SEmitSnap.
  - destruct (emit st) as [[[sig p] [|u us]]|] eqn:Ee; try discriminate. injection H as <-. now apply SEmitSend.
  - destruct (down st c) as [|f rest] eqn:Ed; [discriminate|].
    destruct f as [act m|act m|sig m p].
    + destruct (find_idx (waits c act m) (subs st)) as [s|] eqn:Ef.
      * destruct (find_idx_some _ _ _ Ef) as (x & Ex & Wx). rewrite Ex in H.
        assert (Ea : Some st' = Some (st_recv_answer g st c rest s x (answer_sub x (DReply act m)))).
        { rewrite <- H. unfold answer_sub. destruct (s_pc x); reflexivity. }
        injection Ea as ->. eapply SRecvAnswer; try eassumption. reflexivity.
      * injection H as <-. eapply SRecvDrop; try eassumption. reflexivity.
    + destruct (find_idx (waits c act m) (subs st)) as [s|] eqn:Ef.
      * destruct (find_idx_some _ _ _ Ef) as (x & Ex & Wx). rewrite Ex in H.
        assert (Ea : Some st' = Some (st_recv_answer g st c rest s x (answer_sub x (DError act m)))).
        { rewrite <- H. unfold answer_sub. destruct (s_pc x); reflexivity. }
        injection Ea as ->. eapply SRecvAnswer; try eassumption. reflexivity.
      * injection H as <-. eapply SRecvDrop; try eassumption. reflexivity.
    + injection H as <-. apply (SRecvEvent g st c sig m p rest); assumption.
  - destruct (nth_error (subs st) s) as [x|] eqn:Ex; [|discriminate].
    destruct (s_pc x) eqn:Ep; try discriminate.
    destruct (may_enter g (cl st (s_conn x)) (s_sig x)) eqn:Em; [|discriminate].
    destruct (Nat.eqb (Nat.pred (c_count (cl st (s_conn x)) (s_sig x))) 0) eqn:Ec; injection H as <-.
    + apply Nat.eqb_eq in Ec. now apply SCancelLast.
    + apply Nat.eqb_neq in Ec. now apply SCancelMore.
  - destruct (nth_error (subs st) s) as [x|] eqn:Ex; [|discriminate].
    destruct (s_pc x) eqn:Ep; try discriminate. injection H as <-. now apply SSendUnreg.
  - destruct (nth_error (subs st) s) as [x|] eqn:Ex; [|discriminate].
    destruct (live (s_pc x)) eqn:El; [|discriminate]. destruct (s_queue x) as [|p q] eqn:Eq; [discriminate|].
    injection H as <-. now apply SDeliver.
  - destruct (nth_error (subs st) s) as [x|] eqn:Ex; [|discriminate].
    destruct (s_pc x) eqn:Ep; try discriminate. injection H as <-. now apply SFanClose.
Qed.
