(* TeardownProofs.v — proofs about Teardown.v (C04, calls issued during the loss of the connection). *)
From Coq Require Import List Arith Bool Lia.
From QV Require Import Teardown.
Import ListNotations.

Lemma upd_same : forall A (f : nat -> A) i v, upd f i v i = v.
Proof. intros. unfold upd. now rewrite Nat.eqb_refl. Qed.
Lemma upd_other : forall A (f : nat -> A) i v j, j <> i -> upd f i v j = f j.
Proof. intros. unfold upd. destruct (Nat.eqb_spec j i); congruence. Qed.

Ltac upd_cases i j :=
  destruct (Nat.eq_dec j i) as [->|?]; [rewrite ?upd_same in * | rewrite ?upd_other in * by assumption].

(* ---- a call returns at most once, whatever the order of the two halves ---- *)
Definition inv_once (s : st) : Prop :=
  forall i, (stat s i = SDone -> rets s i = 1) /\ (stat s i <> SDone -> rets s i = 0).

Lemma inv_once_init : inv_once init.
Proof. intro i; cbn; split; [discriminate | reflexivity]. Qed.

Lemma inv_once_set_call_done : forall s i k, inv_once s -> stat s i <> SDone ->
  inv_once (set_call s i SDone (S (rets s i)) k).
Proof.
  intros s i k H Hn j. cbn. upd_cases i j.
  - split; [intros _ | congruence]. now rewrite (proj2 (H i) Hn).
  - apply H.
Qed.

Lemma inv_once_set_call_same : forall s i c k, inv_once s -> stat s i <> SDone -> c <> SDone ->
  inv_once (set_call s i c (rets s i) k).
Proof.
  intros s i c k H Hn Hc j. cbn. upd_cases i j.
  - split; [congruence | intros _; now apply H].
  - apply H.
Qed.

Lemma inv_once_empty : forall s, inv_once s -> inv_once (do_empty s).
Proof.
  intros s H j. cbn. specialize (H j). destruct (stat s j) eqn:E; cbn.
  - split; [discriminate | intros _; apply H; discriminate].
  - split; [discriminate | intros _; apply H; discriminate].
  - split; [intros _ | congruence]. rewrite (proj2 H); [reflexivity | discriminate].
  - exact H.
Qed.

Lemma inv_once_step : forall cf s l, inv_once s -> inv_once (step cf s l).
Proof.
  intros cf s l H. destruct l as [i|i|i| | |]; cbn.
  - destruct (stat s i) eqn:E; try exact H.
    apply inv_once_set_call_same; solve [assumption | congruence].
  - destruct (stat s i) eqn:E; try exact H.
    unfold ret_err. destruct (open s); [destruct hclosed|].
    + apply inv_once_set_call_done; solve [assumption | congruence].
    + apply inv_once_set_call_same; solve [assumption | congruence].
    + apply inv_once_set_call_done; solve [assumption | congruence].
  - destruct (stat s i) eqn:E; try exact H.
    destruct (reader s); [|exact H]. apply inv_once_set_call_done; solve [assumption | congruence].
  - exact H.
  - destruct cf; [exact H | exact (inv_once_empty s H)].
  - destruct (inprog s); [exact H|]. destruct cf; [exact (inv_once_empty s H) | exact H].
Qed.

Lemma inv_once_exec_from : forall cf ls s, inv_once s -> inv_once (exec_from cf s ls).
Proof. induction ls as [|l r IH]; intros s H; cbn; [exact H | apply IH, inv_once_step, H]. Qed.

Lemma returns_at_most_once : forall cf ls i,
  rets (exec cf ls) i <= 1 /\ (stat (exec cf ls) i = SDone <-> rets (exec cf ls) i = 1).
Proof.
  intros cf ls i. pose proof (inv_once_exec_from cf ls init inv_once_init i) as [H1 H2].
  fold (exec cf ls) in *. destruct (stat (exec cf ls) i) eqn:E.
  - rewrite H2 by discriminate. split; [lia | split; [discriminate | lia]].
  - rewrite H2 by discriminate. split; [lia | split; [discriminate | lia]].
  - rewrite H2 by discriminate. split; [lia | split; [discriminate | lia]].
  - rewrite H1 by reflexivity. split; [lia | split; reflexivity].
Qed.

(* ---- the order of the source: stream.Close() first ---- *)
Definition inv_cf (s : st) : Prop :=
  (inprog s > 0 \/ completed s > 0 -> open s = false) /\
  (completed s > 0 -> forall i, stat s i <> SWait).

Lemma inv_cf_init : inv_cf init.
Proof. split; cbn; intros; lia. Qed.

Lemma inv_cf_step : forall s l, inv_cf s -> inv_cf (step true s l).
Proof.
  intros s l [Ho Hw]. destruct l as [i|i|i| | |]; cbn.
  - destruct (stat s i) eqn:E; try (split; assumption).
    split; cbn; [exact Ho|]. intros Hc j. upd_cases i j; [discriminate | now apply Hw].
  - destruct (stat s i) eqn:E; try (split; assumption).
    unfold ret_err. destruct (open s) eqn:Eo; [destruct hclosed|].
    + split; cbn; [now rewrite Eo in *|]. intros Hc j. upd_cases i j; [discriminate | now apply Hw].
    + split; cbn; [now rewrite Eo in *|]. intros Hc. specialize (Ho (or_intror Hc)). discriminate.
    + split; cbn; [now rewrite Eo in *|]. intros Hc j. upd_cases i j; [discriminate | now apply Hw].
  - destruct (stat s i) eqn:E; try (split; assumption).
    destruct (reader s); [|split; assumption].
    split; cbn; [exact Ho|]. intros Hc j. upd_cases i j; [discriminate | now apply Hw].
  - split; cbn; assumption.
  - split; cbn; [reflexivity | exact Hw].
  - destruct (inprog s) eqn:Ep; [unfold inv_cf; rewrite Ep; split; assumption|].
    split; cbn.
    + intros _. apply Ho. left. lia.
    + intros _ j. destruct (stat s j); discriminate.
Qed.

Lemma inv_cf_exec_from : forall ls s, inv_cf s -> inv_cf (exec_from true s ls).
Proof. induction ls as [|l r IH]; intros s H; cbn; [exact H | apply IH, inv_cf_step, H]. Qed.

Lemma every_call_returns : forall ls, let s := exec true ls in completed s > 0 ->
  forall i, stat s i <> SWait /\
    (forall b, stat s i = SReg b ->
       stat (step true s (DSend i)) i = SDone /\ rets (step true s (DSend i)) i = 1).
Proof.
  intros ls s Hc i. pose proof (inv_cf_exec_from ls init inv_cf_init) as [Ho Hw]. fold (exec true ls) in *. fold s in Ho, Hw.
  split; [now apply Hw|]. intros b Hb. cbn. rewrite Hb, (Ho (or_intror Hc)). cbn. rewrite !upd_same.
  split; [reflexivity|].
  pose proof (inv_once_exec_from true ls init inv_once_init i) as [_ H2]. fold (exec true ls) in H2. fold s in H2.
  rewrite H2; [reflexivity | congruence].
Qed.

(* ---- the other order: a call that starts between the two halves is never told ---- *)
Lemma stuck_step : forall i s l,
  reader s = false -> inprog s = 0 -> stat s i = SWait -> rets s i = 0 -> l <> DTear1 ->
  reader (step false s l) = false /\ inprog (step false s l) = 0 /\
  stat (step false s l) i = SWait /\ rets (step false s l) i = 0.
Proof.
  intros i s l Hr Hp Hs Hn Hl.
  destruct l as [j|j|j| | |]; cbn; try congruence.
  - destruct (Nat.eq_dec j i) as [->|Hij]; [rewrite Hs; auto|].
    destruct (stat s j); cbn; rewrite ?upd_other by auto; auto.
  - destruct (Nat.eq_dec j i) as [->|Hij]; [rewrite Hs; auto|].
    destruct (stat s j) as [|hc| |]; cbn; auto.
    unfold ret_err; destruct (open s); [destruct hc|]; cbn; rewrite ?upd_other by auto; auto.
  - destruct (Nat.eq_dec j i) as [->|Hij]; [rewrite Hs, Hr; auto|].
    destruct (stat s j); cbn; auto. rewrite Hr; auto.
  - auto.
  - rewrite Hp. auto.
Qed.

Lemma stuck_without_reader : forall i ls s,
  reader s = false -> inprog s = 0 -> stat s i = SWait -> rets s i = 0 -> no_tear1 ls = true ->
  stat (exec_from false s ls) i = SWait /\ rets (exec_from false s ls) i = 0.
Proof.
  intros i. induction ls as [|l r IH]; intros s Hr Hp Hs Hn Hl; cbn; [split; assumption|].
  assert (l <> DTear1 /\ no_tear1 r = true) as [Hl1 Hl2] by (destruct l; cbn in Hl; split; congruence).
  destruct (stuck_step i s l Hr Hp Hs Hn Hl1) as (A & B & C & D).
  now apply IH.
Qed.

(* a pending call, the loss, the handlers are released, a second call starts, the stream is closed *)
Definition witness_ls : list label := [DReg 0; DSend 0; DLoss; DTear1; DReg 1; DSend 1; DTear2].

Lemma order_matters :
  let s := exec false witness_ls in
  completed s = 1 /\ inprog s = 0 /\ reader s = false /\ open s = false /\
  stat s 0 = SDone /\ stat s 1 = SWait /\ rets s 1 = 0 /\
  forall ls', no_tear1 ls' = true ->
    stat (exec_from false s ls') 1 = SWait /\ rets (exec_from false s ls') 1 = 0.
Proof.
  cbv zeta. repeat (split; [reflexivity|]).
  intros ls' H. now apply stuck_without_reader.
Qed.

Lemma same_schedule_source_order :
  let s := exec true witness_ls in stat s 0 = SDone /\ rets s 0 = 1 /\ stat s 1 = SDone /\ rets s 1 = 1.
Proof. repeat split. Qed.

(* ---- the harness scenarios, small scope: every placement of up to 4 calls on the 4 phases ---- *)
Fixpoint all_lists (n : nat) : list (list nat) :=
  match n with
  | 0 => [[]]
  | S k => [] :: flat_map (fun l => map (fun p => p :: l) [0; 1; 2; 3]) (all_lists k)
  end.
Definition scen_ok (cf local answers : bool) (ps : list nat) : bool :=
  forallb (fun i => negb (Nat.eqb (outcome (exec cf (schedule cf local answers ps)) i) 0)) (seq 0 (length ps)).

Lemma scenarios_small_scope :
  forallb (fun ps => scen_ok true false false ps && scen_ok true false true ps &&
                     scen_ok true true false ps && scen_ok true true true ps) (all_lists 4) = true.
Proof. vm_compute. reflexivity. Qed.

Lemma scenario_other_order : scen_ok false false false [0; 2] = false /\ allowed false false [0; 2] 1 = [0; 0].
Proof. split; reflexivity. Qed.
