(* SignalsInv4.v — Proto (SignalsInv3.v) is preserved by every step of the repaired configuration. *)
From QV Require Import Signals SignalsLemmas SignalsStep SignalsInv1 SignalsInv2 SignalsInv3.
From Coq Require Import Permutation.
Local Open Scope N_scope.

Ltac pcs H := repeat match goal with
  | E : s_pc ?x = _ |- _ => rewrite E in H
  end; cbn [isNR isWR isNU isWU isAck isFail with_pc acked s_pc sub_close sub_deliver answer_sub] in H.

(* the six counters of subscriber states after replacing subscriber s *)
Ltac counters st s x x' Hx :=
  pose proof (self_counts st s x x' isNR Hx eq_refl eq_refl) as CNR;
  pose proof (self_counts st s x x' isWR Hx eq_refl eq_refl) as CWR;
  pose proof (self_counts st s x x' isNU Hx eq_refl eq_refl) as CNU;
  pose proof (self_counts st s x x' isWU Hx eq_refl eq_refl) as CWU;
  pose proof (self_counts st s x x' isAck Hx eq_refl eq_refl) as CAck;
  pose proof (self_counts st s x x' isFail Hx eq_refl eq_refl) as CFail;
  pcs CNR; pcs CWR; pcs CNU; pcs CWU; pcs CAck; pcs CFail.

Lemma clean_enter g k sig : sub_unserialised g = false -> may_enter g k sig = true -> c_lock k sig = false.
Proof. unfold may_enter. intros -> H. cbn in H. now apply negb_true_iff in H. Qed.

Lemma has_entry_same st st' c sig h : table st' = table st -> has_entry st c sig h -> has_entry st' c sig h.
Proof. unfold has_entry. now intros ->. Qed.

Lemma nP_app_installed k st c sig x : k (s_pc x) = false ->
  cnt (pcb k c sig) (subs st ++ [x]) = nP k st c sig.
Proof. intro H. unfold nP. rewrite cnt_app, cnt_cons, cnt_nil. unfold pcb at 2. rewrite H, andb_false_r. lia. Qed.

Lemma Proto_install st c sig : Proto st -> Proto (st_install st c sig).
Proof.
  intros [PK PP PD]. split; [|exact PP|exact PD].
  intros c0 sig0. apply (keyinv_frame st); try reflexivity; auto.
  - repeat split; unfold nP at 1; psimpl; now apply nP_app_installed.
  - intros m (y & Hy & Ky & Py). exists y. psimpl. repeat split; auto. apply in_or_app; now left.
  - intros m (y & Hy & Ky & Py). exists y. psimpl. repeat split; auto. apply in_or_app; now left.
Qed.

(* steps that only replace subscriber s and touch Client.State of its own key *)
Section SubStep.
  Variable st st' : state.
  Variable s : nat.
  Variable x x' : sub.
  Hypothesis Hx : nth_error (subs st) s = Some x.
  Hypothesis Hc : s_conn x' = s_conn x.
  Hypothesis Hs : s_sig x' = s_sig x.
  Hypothesis Esubs : subs st' = set_nth (subs st) s x'.
  Hypothesis Etable : table st' = table st.
  Hypothesis Eup : up st' = up st.
  Hypothesis Ecl : forall c sig, ~ (c = s_conn x /\ sig = s_sig x) ->
    c_count (cl st' c) sig = c_count (cl st c) sig /\ c_lock (cl st' c) sig = c_lock (cl st c) sig /\
    c_hid (cl st' c) sig = c_hid (cl st c) sig.

  Lemma substep_other c sig : on_key c sig x = false -> keyinv st c sig -> keyinv st' c sig.
  Proof.
    intros Hk K. assert (Hn : ~ (c = s_conn x /\ sig = s_sig x)).
    { intros [-> ->]. now rewrite on_key_refl in Hk. }
    destruct (Ecl c sig Hn) as (E1 & E2 & E3).
    eapply keyinv_sub_other; try eassumption; rewrite ?Eup; auto.
  Qed.

  (* waiting subscribers other than the replaced one survive *)
  Lemma substep_has_sub c sig p : s_pc x <> p -> has_sub st c sig p -> has_sub st' c sig p.
  Proof. intros Hp H. eapply has_sub_set; eassumption. Qed.
End SubStep.

Lemma cl_fields_fupd (f : nat -> cstate) c0 sig0 k c sig :
  (forall sg, sg <> sig0 -> c_count k sg = c_count (f c0) sg /\ c_lock k sg = c_lock (f c0) sg /\ c_hid k sg = c_hid (f c0) sg) ->
  ~ (c = c0 /\ sig = sig0) ->
  c_count (fupd f c0 k c) sig = c_count (f c) sig /\ c_lock (fupd f c0 k c) sig = c_lock (f c) sig /\
  c_hid (fupd f c0 k c) sig = c_hid (f c) sig.
Proof.
  intros H Hn. unfold fupd. destruct (Nat.eqb c c0) eqn:E; [|auto]. apply Nat.eqb_eq in E. subst.
  apply H. intro. subst. tauto.
Qed.

Lemma Proto_count_first g st s x :
  sub_unserialised g = false -> Proto st ->
  nth_error (subs st) s = Some x -> s_pc x = PInstalled ->
  may_enter g (cl st (s_conn x)) (s_sig x) = true -> c_count (cl st (s_conn x)) (s_sig x) = O ->
  Proto (st_count_first st s x).
Proof.
  intros Hg [PK PP PD] Hx Hp Hm Hcnt. apply clean_enter in Hm; [|exact Hg].
  split; [|exact PP|exact PD]. intros c0 sig0. key_cases c0 sig0 x.
  - pose proof (PK (s_conn x) (s_sig x)) as K.
    counters st s x (with_pc x PNeedReg) Hx.
    destruct K as [K1 K2 K3 K4 K5 K6 K7 K8 K9 K10 K11 K12 K13]. rewrite Hm, Hcnt in *. cbn [Nat.eqb] in K3.
    assert (E0 : ents (table st) (s_conn x) (s_sig x) = []) by (apply length_zero_iff_nil; lia).
    split; unfold nP; psimpl; rewrite ?fupd_eq; cbn [with_lock with_count c_count c_lock c_hid]; rewrite ?nupd_eq;
      fold (nP isNR st (s_conn x) (s_sig x)) in *; try lia.
    + intros m h Hin. exfalso. pose proof (cnt_In (isUnregF (s_sig x)) _ _ Hin) as Hc. cbn in Hc. rewrite N.eqb_refl in Hc. specialize (Hc eq_refl). lia.
    + intros m h Hin. exfalso. pose proof (cnt_In (isRegF (s_sig x)) _ _ Hin) as Hc. cbn in Hc. rewrite N.eqb_refl in Hc. specialize (Hc eq_refl). lia.
  - eapply (substep_other st (st_count_first st s x) s x (with_pc x PNeedReg)); try reflexivity; try eassumption; [|apply PK].
    intros c sig Hn. psimpl. apply (cl_fields_fupd _ _ (s_sig x)); [|exact Hn]. intros sg Hsg. cbn. now rewrite !nupd_neq by exact Hsg.
Qed.

Lemma frame_vacuous_unreg st c sig m h :
  cnt (isUnregF sig) (up st c) = O -> In (UUnreg m sig h) (up st c) -> False.
Proof. intros Hz Hin. pose proof (cnt_In (isUnregF sig) _ _ Hin) as Hc. cbn in Hc. rewrite N.eqb_refl in Hc. specialize (Hc eq_refl). lia. Qed.
Lemma frame_vacuous_reg st c sig m h :
  cnt (isRegF sig) (up st c) = O -> In (UReg m sig h) (up st c) -> False.
Proof. intros Hz Hin. pose proof (cnt_In (isRegF sig) _ _ Hin) as Hc. cbn in Hc. rewrite N.eqb_refl in Hc. specialize (Hc eq_refl). lia. Qed.

Lemma Proto_count_more g st s x :
  sub_unserialised g = false -> Proto st ->
  nth_error (subs st) s = Some x -> s_pc x = PInstalled ->
  may_enter g (cl st (s_conn x)) (s_sig x) = true -> c_count (cl st (s_conn x)) (s_sig x) <> O ->
  Proto (st_count_more st s x).
Proof.
  intros Hg [PK PP PD] Hx Hp Hm Hcnt. apply clean_enter in Hm; [|exact Hg].
  split; [|exact PP|exact PD]. intros c0 sig0. key_cases c0 sig0 x.
  - pose proof (PK (s_conn x) (s_sig x)) as K.
    counters st s x (acked x) Hx.
    destruct K as [K1 K2 K3 K4 K5 K6 K7 K8 K9 K10 K11 K12 K13]. rewrite Hm in *.
    destruct (Nat.eqb (c_count (cl st (s_conn x)) (s_sig x)) 0) eqn:Ez; [apply Nat.eqb_eq in Ez; contradiction|].
    split; unfold nP; psimpl; rewrite ?fupd_eq; cbn [with_lock with_count c_count c_lock c_hid]; rewrite ?nupd_eq, ?Hm;
      cbn [Nat.eqb]; try lia.
    + intros m h Hin. exfalso. eapply frame_vacuous_unreg; [|exact Hin]. lia.
    + intros m h Hin. exfalso. eapply frame_vacuous_reg; [|exact Hin]. lia.
    + intros _ _. eapply has_entry_same; [reflexivity|]. apply K11; [reflexivity|lia].
  - eapply (substep_other st (st_count_more st s x) s x (acked x)); try reflexivity; try eassumption; [|apply PK].
    intros c sig Hn. psimpl. apply (cl_fields_fupd _ _ (s_sig x)); [|exact Hn]. intros sg Hsg. cbn. now rewrite !nupd_neq by exact Hsg.
Qed.

Lemma Proto_cancel_last g st s x :
  sub_unserialised g = false -> Proto st ->
  nth_error (subs st) s = Some x -> s_pc x = PAcked ->
  may_enter g (cl st (s_conn x)) (s_sig x) = true -> Nat.pred (c_count (cl st (s_conn x)) (s_sig x)) = O ->
  Proto (st_cancel_last st s x).
Proof.
  intros Hg [PK PP PD] Hx Hp Hm Hcnt. apply clean_enter in Hm; [|exact Hg].
  split; [|exact PP|exact PD]. intros c0 sig0. key_cases c0 sig0 x.
  - pose proof (PK (s_conn x) (s_sig x)) as K.
    counters st s x (with_pc x PNeedUnreg) Hx.
    destruct K as [K1 K2 K3 K4 K5 K6 K7 K8 K9 K10 K11 K12 K13]. rewrite Hm in *.
    assert (HA : (nP isAck st (s_conn x) (s_sig x) >= 1)%nat).
    { eapply cnt_In; [eapply nth_error_In; exact Hx|]. unfold pcb. now rewrite on_key_refl, Hp. }
    assert (Hc1 : c_count (cl st (s_conn x)) (s_sig x) = 1%nat) by lia. rewrite Hc1 in *. cbn [Nat.eqb] in K3.
    split; unfold nP; psimpl; rewrite ?fupd_eq; cbn [with_lock with_count c_count c_lock c_hid]; rewrite ?nupd_eq;
      cbn [Nat.eqb]; try lia.
    + intros m h Hin. exfalso. eapply frame_vacuous_unreg; [|exact Hin]. lia.
    + intros m h Hin. exfalso. eapply frame_vacuous_reg; [|exact Hin]. lia.
    + intros _. eapply has_entry_same; [reflexivity|]. apply K11; [reflexivity|lia].
  - eapply (substep_other st (st_cancel_last st s x) s x (with_pc x PNeedUnreg)); try reflexivity; try eassumption; [|apply PK].
    intros c sig Hn. psimpl. apply (cl_fields_fupd _ _ (s_sig x)); [|exact Hn]. intros sg Hsg. cbn. now rewrite !nupd_neq by exact Hsg.
Qed.

Lemma Proto_cancel_more g st s x :
  sub_unserialised g = false -> Proto st ->
  nth_error (subs st) s = Some x -> s_pc x = PAcked ->
  may_enter g (cl st (s_conn x)) (s_sig x) = true -> Nat.pred (c_count (cl st (s_conn x)) (s_sig x)) <> O ->
  Proto (st_cancel_more st s x).
Proof.
  intros Hg [PK PP PD] Hx Hp Hm Hcnt. apply clean_enter in Hm; [|exact Hg].
  split; [|exact PP|exact PD]. intros c0 sig0. key_cases c0 sig0 x.
  - pose proof (PK (s_conn x) (s_sig x)) as K.
    counters st s x (with_pc x PAborting) Hx.
    destruct K as [K1 K2 K3 K4 K5 K6 K7 K8 K9 K10 K11 K12 K13]. rewrite Hm in *.
    destruct (c_count (cl st (s_conn x)) (s_sig x)) as [|[|n]] eqn:Ec; cbn [Nat.pred] in Hcnt; try contradiction.
    cbn [Nat.eqb] in K3.
    split; unfold nP; psimpl; rewrite ?fupd_eq; cbn [with_lock with_count c_count c_lock c_hid]; rewrite ?nupd_eq, ?Hm, ?Ec;
      cbn [Nat.eqb Nat.pred]; try lia.
    + intros m h Hin. exfalso. eapply frame_vacuous_unreg; [|exact Hin]. lia.
    + intros m h Hin. exfalso. eapply frame_vacuous_reg; [|exact Hin]. lia.
    + intros _ _. eapply has_entry_same; [reflexivity|]. apply K11; [reflexivity|lia].
  - eapply (substep_other st (st_cancel_more st s x) s x (with_pc x PAborting)); try reflexivity; try eassumption; [|apply PK].
    intros c sig Hn. psimpl. apply (cl_fields_fupd _ _ (s_sig x)); [|exact Hn]. intros sg Hsg. cbn. now rewrite !nupd_neq by exact Hsg.
Qed.

(* a subscriber replaced by one with the same connection, signal and program counter *)
Lemma Proto_samepc st s x x' :
  Proto st -> nth_error (subs st) s = Some x ->
  s_conn x' = s_conn x -> s_sig x' = s_sig x -> s_pc x' = s_pc x ->
  Proto (set_sub st s x').
Proof.
  intros [PK PP PD] Hx Hc Hs Hp. split; [|exact PP|exact PD]. intros c sig.
  assert (HS : forall p, has_sub st c sig p -> has_sub (set_sub st s x') c sig p).
  { intros p (y & Hy & Ky & Py). psimpl. destruct (In_nth_error _ _ Hy) as [j Hj].
    destruct (Nat.eq_dec j s) as [->|Ne].
    - rewrite Hx in Hj. injection Hj as <-. exists x'. repeat split.
      + psimpl. eapply In_set_nth_self; exact Hx.
      + now rewrite (on_key_same c sig x x' Hc Hs).
      + congruence.
    - exists y. repeat split; auto. psimpl. apply nth_error_In with j. now rewrite nth_error_set_nth_neq by congruence. }
  apply (keyinv_frame st); try reflexivity; auto.
  apply same_counts_all. intro k. unfold nP at 1. psimpl.
  pose proof (nP_set k st s x x' c sig Hx Hc Hs) as E. rewrite Hp in E. lia.
Qed.

Lemma Proto_fan_close st s x :
  Proto st -> nth_error (subs st) s = Some x -> s_pc x = PAborting -> Proto (set_sub st s (sub_close x)).
Proof.
  intros [PK PP PD] Hx Hp. split; [|exact PP|exact PD]. intros c sig.
  apply (keyinv_frame st); try reflexivity; auto.
  - repeat split; unfold nP at 1; psimpl.
    all: match goal with |- cnt (pcb ?k _ _) _ = _ => pose proof (nP_set k st s x (sub_close x) c sig Hx eq_refl eq_refl) as E end;
      rewrite Hp in E; cbn in E; rewrite andb_false_r in E; lia.
  - intros m Hs. eapply has_sub_set; [exact Hx| |reflexivity|exact Hs]. congruence.
  - intros m Hs. eapply has_sub_set; [exact Hx| |reflexivity|exact Hs]. congruence.
Qed.

Lemma Proto_map st (h : sub -> sub) st' :
  (forall x, s_conn (h x) = s_conn x /\ s_sig (h x) = s_sig x /\ s_pc (h x) = s_pc x) ->
  subs st' = map h (subs st) -> cl st' = cl st -> table st' = table st -> up st' = up st ->
  (forall c f n, pend st' = Some (c, f, n) -> is_dreply f) ->
  (forall c f, In f (down st' c) -> no_derror f) ->
  Proto st -> Proto st'.
Proof.
  intros Hh Es Ec Et Eu PP' PD' [PK PP PD]. split; [|exact PP'|exact PD']. intros c sig.
  apply (keyinv_frame st); rewrite ?Ec, ?Et, ?Eu; auto.
  - apply same_counts_all. intro k. unfold nP at 1. rewrite Es. now apply nP_map.
  - intros m Hs. eapply has_sub_map; eassumption.
  - intros m Hs. eapply has_sub_map; eassumption.
Qed.

Lemma nP_ge1 k st s x : nth_error (subs st) s = Some x -> k (s_pc x) = true ->
  (nP k st (s_conn x) (s_sig x) >= 1)%nat.
Proof. intros Hx Hk. eapply cnt_In; [eapply nth_error_In; exact Hx|]. unfold pcb. now rewrite on_key_refl, Hk. Qed.

Lemma In_app_one {A} (l : list A) a b : In a (l ++ [b]) -> In a l \/ a = b.
Proof. intro H. apply in_app_or in H as [H|[H|[]]]; auto. Qed.

Lemma Proto_send_reg st s x h :
  Proto st -> nth_error (subs st) s = Some x -> s_pc x = PNeedReg -> Proto (st_send_reg st s x h).
Proof.
  intros [PK PP PD] Hx Hp. split; [|exact PP|exact PD]. intros c0 sig0. key_cases c0 sig0 x.
  - pose proof (PK (s_conn x) (s_sig x)) as K.
    counters st s x (with_pc x (PWaitReg (c_mid (cl st (s_conn x)) + 2))) Hx.
    pose proof (nP_ge1 isNR st s x Hx) as G. rewrite Hp in G. specialize (G eq_refl).
    destruct K as [K1 K2 K3 K4 K5 K6 K7 K8 K9 K10 K11 K12 K13].
    destruct (c_lock (cl st (s_conn x)) (s_sig x)) eqn:El; [|lia].
    assert (Hh : c_hid (cl st (s_conn x)) (s_sig x) = 0) by (apply K13; left; lia).
    split; unfold nP; psimpl; rewrite ?fupd_eq; cbn [c_count c_lock c_hid]; rewrite ?nupd_eq, ?El, ?Hh;
      rewrite ?cnt_app, ?cnt_cons, ?cnt_nil; cbn [isRegF isUnregF]; rewrite ?N.eqb_refl; try lia.
    + intros m h0 Hin. apply In_app_one in Hin as [Hin|Hin]; [|discriminate].
      exfalso. eapply frame_vacuous_unreg; [|exact Hin]. lia.
    + intros m h0 Hin. apply In_app_one in Hin as [Hin|Hin].
      * exfalso. eapply frame_vacuous_reg; [|exact Hin]. lia.
      * injection Hin as -> ->. split; [now rewrite N.add_0_l|].
        exists (with_pc x (PWaitReg (c_mid (cl st (s_conn x)) + 2))). repeat split.
        -- psimpl. apply (In_set_nth_self _ s x). exact Hx.
        -- exact (on_key_refl x).
  - eapply (keyinv_sub_other st _ s x (with_pc x (PWaitReg (c_mid (cl st (s_conn x)) + 2)))); try reflexivity; try eassumption;
      try apply PK; psimpl.
    all: destruct (Nat.eq_dec c0 (s_conn x)) as [->|Ne]; rewrite ?fupd_eq; rewrite ?fupd_neq by exact Ne; try reflexivity; auto.
    all: assert (Hsg : s_sig x <> sig0) by (intros <-; now rewrite on_key_refl in Hkey).
    all: assert (Hsg' : sig0 <> s_sig x) by congruence.
    + cbn. now rewrite nupd_neq by exact Hsg'.
    + apply cnt_isRegF_app_other. cbn. now apply N.eqb_neq.
    + apply cnt_isUnregF_app_other. reflexivity.
    + intros m h0 Hin. apply In_app_one in Hin as [Hin|Hin]; [exact Hin|]. injection Hin as _ E _. congruence.
    + intros m h0 Hin. apply In_app_one in Hin as [Hin|Hin]; [exact Hin|discriminate].
Qed.

Lemma Proto_send_unreg st s x :
  Proto st -> nth_error (subs st) s = Some x -> s_pc x = PNeedUnreg -> Proto (st_send_unreg st s x).
Proof.
  intros [PK PP PD] Hx Hp. split; [|exact PP|exact PD]. intros c0 sig0. key_cases c0 sig0 x.
  - pose proof (PK (s_conn x) (s_sig x)) as K.
    counters st s x (with_pc x (PWaitUnreg (c_mid (cl st (s_conn x)) + 2))) Hx.
    pose proof (nP_ge1 isNU st s x Hx) as G. rewrite Hp in G. specialize (G eq_refl).
    destruct K as [K1 K2 K3 K4 K5 K6 K7 K8 K9 K10 K11 K12 K13].
    destruct (c_lock (cl st (s_conn x)) (s_sig x)) eqn:El; [|lia].
    assert (HE : has_entry st (s_conn x) (s_sig x) (c_hid (cl st (s_conn x)) (s_sig x))) by (apply K10; lia).
    split; unfold nP; psimpl; rewrite ?fupd_eq; cbn [c_count c_lock c_hid]; rewrite ?nupd_eq, ?El;
      rewrite ?cnt_app, ?cnt_cons, ?cnt_nil; cbn [isRegF isUnregF]; rewrite ?N.eqb_refl; try lia.
    + intros m h0 Hin. apply In_app_one in Hin as [Hin|Hin].
      * exfalso. eapply frame_vacuous_unreg; [|exact Hin]. lia.
      * injection Hin as -> ->. split; [exact HE|].
        exists (with_pc x (PWaitUnreg (c_mid (cl st (s_conn x)) + 2))). repeat split.
        -- psimpl. apply (In_set_nth_self _ s x). exact Hx.
        -- exact (on_key_refl x).
    + intros m h0 Hin. apply In_app_one in Hin as [Hin|Hin]; [|discriminate].
      exfalso. eapply frame_vacuous_reg; [|exact Hin]. lia.
  - eapply (keyinv_sub_other st _ s x (with_pc x (PWaitUnreg (c_mid (cl st (s_conn x)) + 2)))); try reflexivity; try eassumption;
      try apply PK; psimpl.
    all: destruct (Nat.eq_dec c0 (s_conn x)) as [->|Ne]; rewrite ?fupd_eq; rewrite ?fupd_neq by exact Ne; try reflexivity; auto.
    all: assert (Hsg : s_sig x <> sig0) by (intros <-; now rewrite on_key_refl in Hkey).
    all: assert (Hsg' : sig0 <> s_sig x) by congruence.
    + cbn. now rewrite nupd_neq by exact Hsg'.
    + apply cnt_isRegF_app_other. reflexivity.
    + apply cnt_isUnregF_app_other. cbn. now apply N.eqb_neq.
    + intros m h0 Hin. apply In_app_one in Hin as [Hin|Hin]; [exact Hin|discriminate].
    + intros m h0 Hin. apply In_app_one in Hin as [Hin|Hin]; [exact Hin|]. injection Hin as _ E _. congruence.
Qed.

Lemma key_dec (c0 : nat) (sig0 : N) (c : nat) (sig : N) : {c0 = c /\ sig0 = sig} + {~ (c0 = c /\ sig0 = sig)}.
Proof. destruct (Nat.eq_dec c0 c); [destruct (N.eq_dec sig0 sig)|]; [left; auto|right; tauto|right; tauto]. Qed.

Lemma ekey_new c0 sig0 c m sig uid : ekey c0 sig0 (new_user c m sig uid) = Nat.eqb c c0 && (sig =? sig0).
Proof. reflexivity. Qed.
Lemma ekey_other (c0 : nat) (sig0 : N) (c : nat) (sig : N) : ~ (c0 = c /\ sig0 = sig) -> Nat.eqb c c0 && (sig =? sig0) = false.
Proof.
  intro H. destruct (Nat.eqb c c0) eqn:E1; [|reflexivity]. destruct (sig =? sig0) eqn:E2; [|reflexivity].
  apply Nat.eqb_eq in E1. apply N.eqb_eq in E2. subst. tauto.
Qed.

Lemma has_sub_same st st' c sig p : subs st' = subs st -> has_sub st c sig p -> has_sub st' c sig p.
Proof. unfold has_sub. now intros ->. Qed.

Lemma Proto_mbox_reg st c m sig uid rest :
  Proto st -> up st c = UReg m sig uid :: rest ->
  Proto (st_mbox st c rest (table st ++ [new_user c m sig uid]) (Some (c, DReply A_register m, None))).
Proof.
  intros [PK PP PD] Hu. split; [|intros c1 f n E; psimpl; inversion E; subst; exact I|exact PD].
  intros c0 sig0. destruct (key_dec c0 sig0 c sig) as [[-> ->]|Hn].
  - pose proof (PK c sig) as K. destruct K as [K1 K2 K3 K4 K5 K6 K7 K8 K9 K10 K11 K12 K13].
    destruct (K9 m uid) as [Huid (y & Hy & Ky & Py)]; [rewrite Hu; now left|].
    assert (G : (nP isWR st c sig >= 1)%nat).
    { eapply cnt_In; [exact Hy|]. unfold pcb. now rewrite Ky, Py. }
    rewrite Hu in *. rewrite ?(cnt_cons (isRegF sig)), ?(cnt_cons (isUnregF sig)) in *. cbn [isRegF isUnregF] in *. rewrite N.eqb_refl in *.
    destruct (c_lock (cl st c) sig) eqn:El; [|lia].
    split; unfold nP; psimpl; rewrite ?fupd_eq, ?El; rewrite ?ents_app; cbn [ents filter]; rewrite ?ekey_new, ?Nat.eqb_refl, ?N.eqb_refl;
      cbn [andb]; rewrite ?app_length; cbn [List.length]; fold (nP isWR st c sig) (nP isNU st c sig) (nP isWU st c sig) (nP isNR st c sig) (nP isAck st c sig) (nP isFail st c sig); try lia.
    + intros m0 h0 Hin. exfalso. eapply (frame_vacuous_unreg st c sig m0 h0); [rewrite Hu, cnt_cons; cbn; lia|rewrite Hu; now right].
    + intros m0 h0 Hin. exfalso. pose proof (cnt_In (isRegF sig) _ _ Hin) as Hc. cbn in Hc. rewrite N.eqb_refl in Hc. specialize (Hc eq_refl). lia.
    + intros _ _. exists (new_user c m sig uid). split; [|exact Huid]. psimpl. rewrite ents_app. apply in_or_app. right.
      cbn [ents filter]. rewrite ekey_new, Nat.eqb_refl, N.eqb_refl. now left.
  - apply (keyinv_frame st); psimpl; try reflexivity; auto.
    + apply same_counts_all. reflexivity.
    + rewrite ents_app. cbn [ents filter]. rewrite ekey_new, (ekey_other _ _ _ _ Hn). now rewrite app_nil_r.
    + intros u Hin. rewrite ents_app. apply in_or_app. now left.
    + destruct (Nat.eq_dec c0 c) as [->|Ne]; [|now rewrite fupd_neq by exact Ne].
      rewrite fupd_eq, Hu, cnt_cons. cbn [isRegF]. assert (sig =? sig0 = false) by (apply N.eqb_neq; intro; subst; tauto).
      rewrite H. lia.
    + destruct (Nat.eq_dec c0 c) as [->|Ne]; [|now rewrite fupd_neq by exact Ne].
      rewrite fupd_eq, Hu, cnt_cons. cbn [isUnregF]. lia.
    + intros m0 h0. destruct (Nat.eq_dec c0 c) as [->|Ne]; [|now rewrite fupd_neq by exact Ne].
      rewrite fupd_eq, Hu. intro; now right.
    + intros m0 h0. destruct (Nat.eq_dec c0 c) as [->|Ne]; [|now rewrite fupd_neq by exact Ne].
      rewrite fupd_eq, Hu. intro; now right.
Qed.

Lemma NoDup_map_inj {A B} (f : A -> B) l a b : NoDup (map f l) -> In a l -> In b l -> f a = f b -> a = b.
Proof.
  induction l as [|y l IH]; [intros _ []|]. cbn. intro H. inversion H as [|? ? Hy Hn]; subst.
  intros [->|Ha] [->|Hb] E; try reflexivity.
  - exfalso. apply Hy. rewrite E. now apply in_map.
  - exfalso. apply Hy. rewrite <- E. now apply in_map.
  - now apply IH.
Qed.

Lemma ents_In t c sig u : In u (ents t c sig) <-> In u t /\ ekey c sig u = true.
Proof. apply filter_In. Qed.
Lemma ekey_true c sig u : ekey c sig u = true -> u_conn u = c /\ u_sig u = sig.
Proof. unfold ekey. intro H. apply andb_prop in H as [H1 H2]. apply Nat.eqb_eq in H1. apply N.eqb_eq in H2. auto. Qed.

(* the entry that unregisterEvent finds is the one of the frame's key *)
Lemma unreg_finds_key_entry st c sig uid i e :
  UidInv st -> has_entry st c sig uid -> nth_error (table st) i = Some e -> is_user c uid e = true ->
  ekey c sig e = true.
Proof.
  intros HU (u0 & Hu0 & Hid) He Hi. apply ents_In in Hu0 as [Hin Hk].
  unfold is_user in Hi. apply andb_prop in Hi as [H1 H2]. apply N.eqb_eq in H1.
  destruct (HU c) as [Hn _]. unfold keys in Hn. apply NoDup_app_l in Hn.
  assert (e = u0).
  { apply (NoDup_map_inj u_uid (conn_ents (table st) c)); try assumption.
    - apply filter_In. split; [eapply nth_error_In; exact He|exact H2].
    - apply filter_In. split; [exact Hin|]. destruct (ekey_true _ _ _ Hk) as [-> _]. apply Nat.eqb_refl.
    - congruence. }
  now subst.
Qed.

Lemma Proto_mbox_unreg st c m sig uid rest i :
  UidInv st -> Proto st -> up st c = UUnreg m sig uid :: rest ->
  find_idx (is_user c uid) (table st) = Some i ->
  Proto (st_mbox st c rest (swap_remove (table st) i)
           (Some (c, DReply A_unregister m, Some (u_mid (nth i (table st) no_user))))).
Proof.
  intros HU [PK PP PD] Hu Hf. split; [|intros c1 f n E; psimpl; inversion E; subst; exact I|exact PD].
  destruct (find_idx_some _ _ _ Hf) as (e & He & Hi).
  pose proof (PK c sig) as K0. destruct (k_unreg_frame _ _ _ K0 m uid) as [HE HS]; [rewrite Hu; now left|].
  pose proof (unreg_finds_key_entry st c sig uid i e HU HE He Hi) as Hek.
  intros c0 sig0. destruct (key_dec c0 sig0 c sig) as [[-> ->]|Hn].
  - destruct K0 as [K1 K2 K3 K4 K5 K6 K7 K8 K9 K10 K11 K12 K13].
    destruct HS as (y & Hy & Ky & Py).
    assert (G : (nP isWU st c sig >= 1)%nat).
    { eapply cnt_In; [exact Hy|]. unfold pcb. now rewrite Ky, Py. }
    rewrite Hu in *. rewrite ?(cnt_cons (isRegF sig)), ?(cnt_cons (isUnregF sig)) in *. cbn [isRegF isUnregF] in *. rewrite N.eqb_refl in *.
    destruct (c_lock (cl st c) sig) eqn:El; [|lia].
    pose proof (Permutation_length (ents_swap_remove _ _ _ c sig He)) as PL. cbn [ents filter] in PL. rewrite Hek in PL.
    cbn [List.length] in PL. fold (ents (swap_remove (table st) i) c sig) in PL.
    split; unfold nP; psimpl; rewrite ?fupd_eq, ?El;
      fold (nP isWR st c sig) (nP isNU st c sig) (nP isWU st c sig) (nP isNR st c sig) (nP isAck st c sig) (nP isFail st c sig); try lia.
    + intros m0 h0 Hin. exfalso. pose proof (cnt_In (isUnregF sig) _ _ Hin) as Hc. cbn in Hc. rewrite N.eqb_refl in Hc. specialize (Hc eq_refl). lia.
    + intros m0 h0 Hin. exfalso. pose proof (cnt_In (isRegF sig) _ _ Hin) as Hc. cbn in Hc. rewrite N.eqb_refl in Hc. specialize (Hc eq_refl). lia.
  - assert (Hk0 : ekey c0 sig0 e = false).
    { destruct (ekey c0 sig0 e) eqn:E; [|reflexivity]. destruct (ekey_true _ _ _ E) as [E1 E2].
      destruct (ekey_true _ _ _ Hek) as [E3 E4]. exfalso. apply Hn. split; congruence. }
    pose proof (ents_swap_remove _ _ _ c0 sig0 He) as P. cbn [ents filter] in P. rewrite Hk0 in P.
    fold (ents (swap_remove (table st) i) c0 sig0) in P.
    apply (keyinv_frame st); psimpl; try reflexivity; auto.
    + apply same_counts_all. reflexivity.
    + symmetry. now apply Permutation_length.
    + intros u Hin. eapply Permutation_in; eassumption.
    + destruct (Nat.eq_dec c0 c) as [->|Ne]; [|now rewrite fupd_neq by exact Ne].
      rewrite fupd_eq, Hu, cnt_cons. cbn [isRegF]. lia.
    + destruct (Nat.eq_dec c0 c) as [->|Ne]; [|now rewrite fupd_neq by exact Ne].
      rewrite fupd_eq, Hu, cnt_cons. cbn [isUnregF]. assert (sig =? sig0 = false) by (apply N.eqb_neq; intro; subst; tauto).
      rewrite H. lia.
    + intros m0 h0. destruct (Nat.eq_dec c0 c) as [->|Ne]; [|now rewrite fupd_neq by exact Ne].
      rewrite fupd_eq, Hu. intro; now right.
    + intros m0 h0. destruct (Nat.eq_dec c0 c) as [->|Ne]; [|now rewrite fupd_neq by exact Ne].
      rewrite fupd_eq, Hu. intro; now right.
Qed.

Lemma mbox_unreg_err_impossible st c m sig uid rest :
  Proto st -> up st c = UUnreg m sig uid :: rest -> find_idx (is_user c uid) (table st) = None -> False.
Proof.
  intros [PK _ _] Hu Hf. destruct (k_unreg_frame _ _ _ (PK c sig) m uid) as [(u0 & Hu0 & Hid) _]; [rewrite Hu; now left|].
  apply ents_In in Hu0 as [Hin Hk]. pose proof (find_idx_none _ _ Hf u0 Hin) as Hfalse.
  unfold is_user in Hfalse. destruct (ekey_true _ _ _ Hk) as [E1 _]. now rewrite Hid, E1, N.eqb_refl, Nat.eqb_refl in Hfalse.
Qed.

(* when the answer to a call is at the head of down c, the call's request is no longer in up c *)
Lemma answered_reg_not_in_up st c sig f rest m x :
  Conserve st -> keyinv st c sig -> down st c = f :: rest -> dreply f = Some (A_register, m) ->
  In x (subs st) -> on_key c sig x = true -> s_pc x = PWaitReg m ->
  cnt (isRegF sig) (up st c) = O.
Proof.
  intros HC K Hd Hr Hx Kx Px. destruct (cnt (isRegF sig) (up st c)) eqn:E; [reflexivity|exfalso].
  destruct (cnt_pos (isRegF sig) (up st c)) as (f0 & Hf0 & If0); [lia|].
  destruct f0 as [m' sg h'|]; [|discriminate]. cbn in If0. apply N.eqb_eq in If0. subst sg.
  destruct (k_reg_frame _ _ _ K m' h' Hf0) as [_ (y & Hy & Ky & Py)].
  assert (L1 : (nP isWR st c sig <= 1)%nat).
  { pose proof (k_lock _ _ _ K). destruct (c_lock (cl st c) sig); lia. }
  assert (y = x).
  { apply (cnt_le1_eq (pcb isWR c sig) (subs st)); try assumption; unfold pcb; [now rewrite Ky, Py|now rewrite Kx, Px]. }
  subst y. rewrite Px in Py. injection Py as <-.
  destruct (HC c A_register m) as (E1 & E2 & _). unfold n_up, n_down in E1.
  assert (U : (cnt (umatch A_register m) (up st c) >= 1)%nat).
  { eapply cnt_In; [exact Hf0|]. unfold umatch. cbn. now rewrite !N.eqb_refl. }
  rewrite Hd, cnt_cons, (is_rep_of _ _ _ _ _ Hr), !N.eqb_refl in E1. cbn [andb] in E1. lia.
Qed.
Lemma answered_unreg_not_in_up st c sig f rest m x :
  Conserve st -> keyinv st c sig -> down st c = f :: rest -> dreply f = Some (A_unregister, m) ->
  In x (subs st) -> on_key c sig x = true -> s_pc x = PWaitUnreg m ->
  cnt (isUnregF sig) (up st c) = O.
Proof.
  intros HC K Hd Hr Hx Kx Px. destruct (cnt (isUnregF sig) (up st c)) eqn:E; [reflexivity|exfalso].
  destruct (cnt_pos (isUnregF sig) (up st c)) as (f0 & Hf0 & If0); [lia|].
  destruct f0 as [|m' sg h']; [discriminate|]. cbn in If0. apply N.eqb_eq in If0. subst sg.
  destruct (k_unreg_frame _ _ _ K m' h' Hf0) as [_ (y & Hy & Ky & Py)].
  assert (L1 : (nP isWU st c sig <= 1)%nat).
  { pose proof (k_lock _ _ _ K). destruct (c_lock (cl st c) sig); lia. }
  assert (y = x).
  { apply (cnt_le1_eq (pcb isWU c sig) (subs st)); try assumption; unfold pcb; [now rewrite Ky, Py|now rewrite Kx, Px]. }
  subst y. rewrite Px in Py. injection Py as <-.
  destruct (HC c A_unregister m) as (E1 & E2 & _). unfold n_up, n_down in E1.
  assert (U : (cnt (umatch A_unregister m) (up st c) >= 1)%nat).
  { eapply cnt_In; [exact Hf0|]. unfold umatch. cbn. now rewrite !N.eqb_refl. }
  rewrite Hd, cnt_cons, (is_rep_of _ _ _ _ _ Hr), !N.eqb_refl in E1. cbn [andb] in E1. lia.
Qed.

Lemma Proto_recv_answer g st c f act m rest s x :
  Conserve st -> Proto st -> down st c = f :: rest -> dreply f = Some (act, m) ->
  nth_error (subs st) s = Some x -> waits c act m x = true ->
  Proto (st_recv_answer g st c rest s x (answer_sub x f)).
Proof.
  intros HC [PK PP PD] Hd Hr Hx Hw.
  assert (Hf : no_derror f) by (apply (PD c); rewrite Hd; now left).
  destruct (waits_inv _ _ _ _ Hw) as [Hcx Hpc].
  assert (Hin : In x (subs st)) by (eapply nth_error_In; exact Hx).
  split; [|exact PP|].
  2:{ intros c1 f1. psimpl. destruct (Nat.eq_dec c1 c) as [->|Ne]; [rewrite fupd_eq|rewrite fupd_neq by exact Ne]; [|apply PD].
      intro H1. apply (PD c). rewrite Hd. now right. }
  intros c0 sig0. key_cases c0 sig0 x.
  - pose proof (PK (s_conn x) (s_sig x)) as K. rewrite <- Hcx in *.
    destruct Hpc as [[-> Hp]|[-> Hp]].
    + (* the answer to registerEvent *)
      pose proof (answered_reg_not_in_up st _ _ f rest m x HC K Hd Hr Hin (on_key_refl x) Hp) as R0.
      assert (Ea : answer_sub x f = acked x).
      { unfold answer_sub. rewrite Hp. destruct f; try reflexivity; [contradiction|discriminate]. }
      rewrite Ea. counters st s x (acked x) Hx.
      pose proof (nP_ge1 isWR st s x Hx) as G. rewrite Hp in G. specialize (G eq_refl).
      destruct K as [K1 K2 K3 K4 K5 K6 K7 K8 K9 K10 K11 K12 K13].
      destruct (c_lock (cl st (s_conn x)) (s_sig x)) eqn:El; [|lia]. specialize (K6 eq_refl).
      assert (HE : has_entry st (s_conn x) (s_sig x) (c_hid (cl st (s_conn x)) (s_sig x))) by (apply K12; lia).
      assert (Hc1 : c_count (cl st (s_conn x)) (s_sig x) = 1%nat) by lia.
      split; unfold nP; psimpl; rewrite ?fupd_eq; cbn [with_lock c_count c_lock c_hid]; rewrite ?nupd_eq, ?Hc1; cbn [Nat.eqb]; try lia.
      * intros m0 h0 Hi. exfalso. eapply frame_vacuous_unreg; [|exact Hi]. lia.
      * intros m0 h0 Hi. exfalso. eapply frame_vacuous_reg; [|exact Hi]. lia.
      * intros _ _. exact HE.
    + (* the answer to unregisterEvent *)
      pose proof (answered_unreg_not_in_up st _ _ f rest m x HC K Hd Hr Hin (on_key_refl x) Hp) as U0.
      assert (Ea : answer_sub x f = with_pc x PAborting).
      { unfold answer_sub. rewrite Hp. reflexivity. }
      rewrite Ea. counters st s x (with_pc x PAborting) Hx.
      pose proof (nP_ge1 isWU st s x Hx) as G. rewrite Hp in G. specialize (G eq_refl).
      destruct K as [K1 K2 K3 K4 K5 K6 K7 K8 K9 K10 K11 K12 K13].
      destruct (c_lock (cl st (s_conn x)) (s_sig x)) eqn:El; [|lia]. specialize (K6 eq_refl).
      assert (Hh : c_hid (cl st (s_conn x)) (s_sig x) = 0) by (apply K13; right; left; lia).
      assert (Hc0 : c_count (cl st (s_conn x)) (s_sig x) = 0%nat) by lia.
      split; unfold nP; psimpl; rewrite ?fupd_eq; cbn [with_lock c_count c_lock c_hid]; rewrite ?nupd_eq, ?Hc0; cbn [Nat.eqb]; try lia.
      * intros m0 h0 Hi. exfalso. eapply frame_vacuous_unreg; [|exact Hi]. lia.
      * intros m0 h0 Hi. exfalso. eapply frame_vacuous_reg; [|exact Hi]. lia.
  - eapply (keyinv_sub_other st _ s x (answer_sub x f)); try eassumption; try apply PK; try reflexivity;
      try (unfold answer_sub; destruct (s_pc x), f; reflexivity); psimpl.
    all: destruct (Nat.eq_dec c0 c) as [->|Ne]; rewrite ?fupd_eq; rewrite ?fupd_neq by exact Ne; try reflexivity; auto.
    assert (Hsg : sig0 <> s_sig x) by (intros ->; rewrite <- Hcx in Hkey; now rewrite on_key_refl in Hkey).
    cbn. now rewrite ?nupd_neq by exact Hsg.
Qed.

Lemma Proto_core_same st st' :
  subs st' = subs st -> cl st' = cl st -> table st' = table st -> up st' = up st ->
  (forall c f n, pend st' = Some (c, f, n) -> is_dreply f) ->
  (forall c f, In f (down st' c) -> no_derror f) ->
  Proto st -> Proto st'.
Proof.
  intros Es Ec Et Eu PP' PD' P. apply (Proto_map st (fun x => x)); try assumption; [auto|].
  now rewrite map_id.
Qed.

Theorem Proto_step g st l st' :
  clean g -> UidInv st -> Conserve st -> Proto st -> Step g st l st' -> Proto st'.
Proof.
  intros (Hg1 & Hg2 & Hg3) HU HC HP HS. inversion HS; subst; clear HS.
  - now apply Proto_install.
  - eapply Proto_count_first; eassumption.
  - eapply Proto_count_more; eassumption.
  - now apply Proto_send_reg.
  - now apply Proto_mbox_reg.
  - exfalso. eapply clean_no_dup; eassumption.
  - exfalso. eapply clean_no_dup; eassumption.
  - now apply (Proto_mbox_unreg st c m sig uid rest i).
  - exfalso. eapply mbox_unreg_err_impossible; eassumption.
  - (* reply *)
    destruct HP as [PK PP PD]. apply (Proto_core_same st); try reflexivity; [discriminate| |split; assumption].
    intros c0 f0. psimpl. destruct (Nat.eq_dec c0 c) as [->|Ne]; [rewrite fupd_eq|rewrite fupd_neq by exact Ne; apply PD].
    intro Hin. apply in_app_or in Hin as [Hin|[<-|[]]]; [now apply (PD c)|]. apply is_dreply_no_derror. eapply PP; eassumption.
  - (* emit snap *)
    destruct HP as [PK PP PD]. apply (Proto_map st (note_emit st sig p)); try reflexivity; try assumption; [|split; assumption].
    intro y. unfold note_emit. destruct ((s_sig y =? sig) && live (s_pc y)); auto.
  - (* emit send *)
    destruct HP as [PK PP PD]. apply (Proto_core_same st); try reflexivity; [exact PP| |split; assumption].
    intros c0 f0. psimpl. destruct (Nat.eq_dec c0 (u_conn u)) as [->|Ne]; [rewrite fupd_eq|rewrite fupd_neq by exact Ne; apply PD].
    intro Hin. apply in_app_or in Hin as [Hin|[<-|[]]]; [now apply (PD (u_conn u))|exact I].
  - (* recv event *)
    destruct HP as [PK PP PD].
    apply (Proto_map st (fun y => fst (enqueue c sig p y))); try reflexivity; try assumption; [| |split; assumption].
    + intro y. unfold enqueue. destruct (Nat.eqb (s_conn y) c && (s_sig y =? sig) && live (s_pc y)); [|auto].
      destruct (Nat.ltb (List.length (s_queue y)) QueueCap); auto.
    + intros c0 f0. psimpl. destruct (Nat.eq_dec c0 c) as [->|Ne]; [rewrite fupd_eq|rewrite fupd_neq by exact Ne; apply PD].
      intro Hin. apply (PD c). rewrite H. now right.
  - (* recv drop *)
    destruct HP as [PK PP PD]. apply (Proto_core_same st); try reflexivity; [exact PP| |split; assumption].
    intros c0 f0. psimpl. destruct (Nat.eq_dec c0 c) as [->|Ne]; [rewrite fupd_eq|rewrite fupd_neq by exact Ne; apply PD].
    intro Hin. apply (PD c). rewrite H. now right.
  - eapply Proto_recv_answer; eassumption.
  - eapply Proto_cancel_last; eassumption.
  - eapply Proto_cancel_more; eassumption.
  - now apply Proto_send_unreg.
  - eapply Proto_samepc; try eassumption; reflexivity.
  - now apply Proto_fan_close.
Qed.
