(* SessionView.v — the session's VIEW of the directory over time (property C19: "every request
   for a registered service succeeds" starts with findServiceName / findServiceID in the list
   that Session.updateLoop keeps up to date).

   The directory holds `v_dir`.  Every change (a service becomes ready, a service is removed)
   puts one signal on the connection to the session.  The session's updateLoop is the instruction
   list `loop_prog`, extracted from bus/session/session.go by srcfacts (ties/TieC19.v:
   f_session_update_loop = render_loop loop_prog):

     URecv   select { case <-s.removed: | case <-s.added: }   waits for one delivered signal
     UCall   services, err := s.Directory.Services()          sends the call, waits for the reply;
                                                              the directory answers with its
                                                              content AT THE MOMENT IT ANSWERS
     UStore  s.serviceList = services (under serviceListMutex)

   Replies and signals travel on ONE connection, in the order in which the directory wrote them
   (`v_wire`); a signal emitted after the snapshot of a refresh sits behind the reply and can be
   delivered before the refresh has stored its list.  `UDrain` (discard every delivered signal) is
   not part of the extracted program: it is there to state what goes wrong when signals are
   thrown away after a refresh (SessionViewProofs.drain_after_store_loses).

   Not in the machine: the queue of 10 messages between the connection and the goroutine that
   feeds s.added / s.removed (a burst of more than 10 signals of one kind during one refresh
   overflows it), and the window in NewAuthSession between the first Services() call and the
   two subscriptions.  No proofs in this file.  Stdlib only. *)
From Coq Require Import List Arith Bool String.
Import ListNotations.

(* the services of the directory: service -> (endpoint, how many times it has been registered
   so far: every registration gets a new service id), sorted by service *)
Definition dir := list (nat * (nat * nat)).

Fixpoint dir_add (s : nat) (v : nat * nat) (d : dir) : dir :=
  match d with
  | [] => [(s, v)]
  | (s', v') :: r =>
      if s <? s' then (s, v) :: d
      else if s =? s' then (s, v) :: r
      else (s', v') :: dir_add s v r
  end.

Definition dir_del (s : nat) (d : dir) : dir := filter (fun e => negb (fst e =? s)) d.

Fixpoint dir_eqb (a b : dir) : bool :=
  match a, b with
  | [], [] => true
  | (s, (e, g)) :: a', (s', (e', g')) :: b' => (s =? s') && (e =? e') && (g =? g') && dir_eqb a' b'
  | _, _ => false
  end.

Inductive msg := MReply (snap : dir) | MSignal.

Inductive uinstr := URecv | UCall | UStore | UDrain.

Definition loop_prog : list uinstr := [URecv; UCall; UStore].

(* the Services() call of the loop: not sent / sent / answered (the reply is on the wire) /
   reply received *)
Inductive cstate := CNone | CSent | CAnswered | CGot (snap : dir).

Record vst := { v_dir : dir; v_wire : list msg; v_pending : nat; v_pc : nat; v_call : cstate; v_list : dir }.

Definition vinit (d : dir) : vst :=
  {| v_dir := d; v_wire := []; v_pending := 0; v_pc := 0; v_call := CNone; v_list := d |}.

Inductive vev :=
| VChange (d : dir)   (* the directory registers / removes a service: its content becomes d, one signal *)
| VAnswer             (* the directory answers the Services() call *)
| VDeliver            (* the first message on the wire reaches the session *)
| VLoop.              (* one instruction of updateLoop *)

Definition next_pc (p : list uinstr) (pc : nat) : nat := if S pc <? List.length p then S pc else 0.

(* None: the event is not enabled (the loop is blocked, nothing on the wire, ...) *)
Definition vstep (p : list uinstr) (s : vst) (e : vev) : option vst :=
  match e with
  | VChange d =>
      Some {| v_dir := d; v_wire := v_wire s ++ [MSignal]; v_pending := v_pending s; v_pc := v_pc s;
              v_call := v_call s; v_list := v_list s |}
  | VAnswer =>
      match v_call s with
      | CSent => Some {| v_dir := v_dir s; v_wire := v_wire s ++ [MReply (v_dir s)]; v_pending := v_pending s;
                         v_pc := v_pc s; v_call := CAnswered; v_list := v_list s |}
      | _ => None
      end
  | VDeliver =>
      match v_wire s with
      | [] => None
      | MSignal :: r => Some {| v_dir := v_dir s; v_wire := r; v_pending := S (v_pending s); v_pc := v_pc s;
                                v_call := v_call s; v_list := v_list s |}
      | MReply snap :: r =>
          match v_call s with
          | CAnswered => Some {| v_dir := v_dir s; v_wire := r; v_pending := v_pending s; v_pc := next_pc p (v_pc s);
                                 v_call := CGot snap; v_list := v_list s |}
          | _ => None
          end
      end
  | VLoop =>
      match nth_error p (v_pc s) with
      | None => None
      | Some URecv =>
          match v_pending s with
          | O => None
          | S n => Some {| v_dir := v_dir s; v_wire := v_wire s; v_pending := n; v_pc := next_pc p (v_pc s);
                           v_call := v_call s; v_list := v_list s |}
          end
      | Some UCall =>
          match v_call s with
          | CNone => Some {| v_dir := v_dir s; v_wire := v_wire s; v_pending := v_pending s; v_pc := v_pc s;
                             v_call := CSent; v_list := v_list s |}
          | _ => None                                  (* waiting for the reply *)
          end
      | Some UStore =>
          match v_call s with
          | CGot snap => Some {| v_dir := v_dir s; v_wire := v_wire s; v_pending := v_pending s;
                                 v_pc := next_pc p (v_pc s); v_call := CNone; v_list := snap |}
          | _ => None
          end
      | Some UDrain => Some {| v_dir := v_dir s; v_wire := v_wire s; v_pending := 0; v_pc := next_pc p (v_pc s);
                               v_call := v_call s; v_list := v_list s |}
      end
  end.

Fixpoint vexec (p : list uinstr) (s : vst) (es : list vev) : option vst :=
  match es with
  | [] => Some s
  | e :: r => match vstep p s e with Some s' => vexec p s' r | None => None end
  end.

(* nothing on the wire, no delivered signal waiting, the loop back at its select with no call
   outstanding: nothing happens any more until the directory changes again *)
Definition quiet (s : vst) : bool :=
  match v_wire s, v_pending s, v_call s, v_pc s with
  | [], O, CNone, O => true
  | _, _, _, _ => false
  end.

(* the canonical way to quiescence with the directory silent: deliver what is on the wire, let
   the directory answer, let the loop run *)
Fixpoint settle (p : list uinstr) (fuel : nat) (s : vst) : option vst :=
  match fuel with
  | O => Some s
  | S f =>
      let go e := match vstep p s e with Some s' => settle p f s' | None => None end in
      match v_wire s with
      | _ :: _ => go VDeliver
      | [] => match v_call s with
              | CSent => go VAnswer
              | _ => if quiet s then Some s else go VLoop
              end
      end
  end.

(* local rendering of the program as the token list srcfacts extracts from updateLoop with
   updateServiceList inlined *)
Local Open Scope string_scope.
Definition render_body (p : list uinstr) : list string :=
  flat_map (fun i => match i with
                     | URecv => []
                     | UCall => ["call-services"; "if-err{"; "log"; "log"; "terminate"; "}"]
                     | UStore => ["Lock"; "store"; "Unlock"]
                     | UDrain => ["drain"]
                     end) p.
Definition render_loop (p : list uinstr) : list string :=
  match p with
  | URecv :: body =>
      (["for{"; "select{"] ++
       ["recv(s.removed){"; "if-closed-return"] ++ render_body body ++ ["}"] ++
       ["recv(s.added){"; "if-closed-return"] ++ render_body body ++ ["}"] ++
       ["}"; "}"])%list
  | _ => ["not a loop around a select"]
  end.
