(* SignalsRaw.v — the registration table of an object (bus/signal.go) driven by raw registerEvent /
   unregisterEvent calls whose user ids are chosen by the caller, and by emissions.

   Signals.v models the clients too: there every id is drawn by proxy.SubscribeID (fresh per client
   process), so two registrations of one connection never share an id.  A client that speaks the
   protocol itself (libqi reuses one link id for several signals) is not bound by that.  This file
   drops the client side and keeps the three table operations — the very functions [step] uses for
   LMbox and LEmitSnap/LEmitSend: [same_user], [is_user], [find_idx], [swap_remove] — with any ids.
   Operations run one at a time (each call is answered before the next one is sent; an emission
   is complete before the next operation).  Executable; proofs in SignalsRawProofs.v.

   Round 5: connections in bad health.  [RBreak c k] changes what happens when the object writes to
   connection c from then on; the server side of the connection keeps reading, so nothing tells the
   object that its registrations are worthless (the endpoint only gives a connection up when READING
   fails).  UpdateSignal's loop over its snapshot is modelled entry by entry ([emit_go]): a healthy
   connection is written to; a write that fails with anything but io.EOF is skipped (the error is
   remembered, the loop goes on; a transient failure lasts for the Event writes of one emission); a write that fails with io.EOF makes UpdateSignal call
   removeSignalUser(user id, connection) at once — the table changes in the middle of the loop, the
   snapshot does not. *)
From QV Require Import Signals.
Local Open Scope N_scope.

Inductive rop :=
| RReg (c : nat) (m sig uid : N)   (* call m of connection c: registerEvent(object, sig, uid) *)
| RUnreg (c : nat) (sig uid : N)   (* unregisterEvent(object, sig, uid) on connection c *)
| REmit (sig p : N)                (* UpdateSignal(sig, p) *)
| RBreak (c : nat) (k : N).        (* from now on, writes of the object to connection c: 0 fail (EPIPE, reset, down
                                      direction closed: any error but io.EOF); 1 fail with io.EOF; 2 the whole
                                      connection is closed (writes fail; the closers of its handlers forget its
                                      registrations concurrently, in any order); 3 the Event writes of the next emission
                                      that reaches c fail (not io.EOF), later ones succeed; 4 writes are slow (they block for a while) *)

Inductive robs :=
| OAck                             (* Reply *)
| ORefused                         (* Error *)
| ONoAnswer                        (* the object's mailbox goroutine is blocked for ever *)
| OSent (l : list (nat * N)).      (* the Event frames of the emission in the order written: connection, message id *)

Record rstate := {
  r_table : list user;
  r_dead : bool;
  r_bad : list (nat * N);   (* connections every write to which fails: 1 = with io.EOF, anything else = another error *)
  r_once : list nat;        (* connections with a transient failure to come (one entry per emission that will fail) *)
  r_fuzzy : bool }.         (* a connection was closed: its entries leave the table by swap-removes of concurrent
                               closers, so the ORDER of the table (not its content for healthy connections) is open *)
Definition rof (t : list user) : rstate := {| r_table := t; r_dead := false; r_bad := []; r_once := []; r_fuzzy := false |}.
Definition rinit : rstate := rof [].
Definition with_table (st : rstate) (t : list user) (d : bool) : rstate :=
  {| r_table := t; r_dead := d; r_bad := r_bad st; r_once := r_once st; r_fuzzy := r_fuzzy st |}.

Fixpoint bad_of (l : list (nat * N)) (c : nat) : option N :=
  match l with
  | [] => None
  | (c', k) :: r => if Nat.eqb c' c then Some k else bad_of r c
  end.
Fixpoint del1 (c : nat) (l : list nat) : list nat :=
  match l with
  | [] => []
  | x :: r => if Nat.eqb x c then r else x :: del1 c r
  end.
(* removeSignalUser(uid, connection) as UpdateSignal calls it after io.EOF: first entry of that id on that
   connection, swap with the last, truncate; an unknown id is an error that only the caller of UpdateSignal sees *)
Definition drop_user (t : list user) (c : nat) (uid : N) : list user :=
  match find_idx (is_user c uid) t with
  | Some i => swap_remove t i
  | None => t
  end.
(* the delivery loop of UpdateSignal over its snapshot: table afterwards, frames written.  A transient failure
   lasts for one emission: every Event write of that emission to the connection fails (so that what is sent
   does not depend on the order of the table), later emissions reach it again. *)
Fixpoint emit_go (snap t : list user) (bad : list (nat * N)) (once : list nat) : list user * list (nat * N) :=
  match snap with
  | [] => (t, [])
  | u :: r =>
      match bad_of bad (u_conn u) with
      | Some k => if k =? 1 then emit_go r (drop_user t (u_conn u) (u_uid u)) bad once
                  else emit_go r t bad once
      | None => if existsb (Nat.eqb (u_conn u)) once then emit_go r t bad once
                else let '(t', l) := emit_go r t bad once in (t', (u_conn u, u_mid u) :: l)
      end
  end.
(* the pending transient failures after the emission: one less for every connection the emission tried to write to *)
Fixpoint once_after (snap : list user) (bad : list (nat * N)) (hit once : list nat) : list nat :=
  match snap with
  | [] => once
  | u :: r =>
      match bad_of bad (u_conn u) with
      | Some _ => once_after r bad hit once
      | None => if existsb (Nat.eqb (u_conn u)) hit then once_after r bad hit once
                else once_after r bad (u_conn u :: hit) (del1 (u_conn u) once)
      end
  end.
Definition targets (sig : N) (t : list user) : list (nat * N) :=
  map (fun u => (u_conn u, u_mid u)) (filter (fun u => u_sig u =? sig) t).

Definition raw_step (g : scfg) (st : rstate) (o : rop) : rstate * robs :=
  match o with
  | RReg c m sig uid =>
      if r_dead st then (st, ONoAnswer) else
      match find_idx (same_user g c uid) (r_table st) with
      | None => (with_table st (r_table st ++ [{| u_uid := uid; u_sig := sig; u_mid := m; u_conn := c |}]) false, OAck)
      | Some i => if dup_relock g
                  then (with_table st (swap_remove (r_table st) i) true, ONoAnswer)
                  else (st, ORefused)
      end
  | RUnreg c sig uid =>
      if r_dead st then (st, ONoAnswer) else
      match find_idx (is_user c uid) (r_table st) with
      | Some i => (with_table st (swap_remove (r_table st) i) false, OAck)
      | None => (st, ORefused)
      end
  | REmit sig p =>
      let snap := filter (fun u => u_sig u =? sig) (r_table st) in
      let '(t', l) := emit_go snap (r_table st) (r_bad st) (r_once st) in
      ({| r_table := t'; r_dead := r_dead st; r_bad := r_bad st; r_once := once_after snap (r_bad st) [] (r_once st);
          r_fuzzy := r_fuzzy st |}, OSent l)
  | RBreak c k =>
      ({| r_table := r_table st; r_dead := r_dead st;
          r_bad := if (k =? 0) || (k =? 1) || (k =? 2) then (c, k) :: r_bad st else r_bad st;
          r_once := if k =? 3 then c :: r_once st else r_once st;
          r_fuzzy := r_fuzzy st || (k =? 2) |}, OAck)
  end.

Definition raw_run (g : scfg) (st : rstate) (os : list rop) : rstate :=
  fold_left (fun s o => fst (raw_step g s o)) os st.

(* ---- comparison with what the implementation answered / sent ---- *)
Definition eqb_pair (a b : nat * N) : bool := Nat.eqb (fst a) (fst b) && (snd a =? snd b).
Definition eqb_obs (a b : robs) : bool :=
  match a, b with
  | OAck, OAck | ORefused, ORefused | ONoAnswer, ONoAnswer => true
  | OSent x, OSent y => Nat.eqb (List.length x) (List.length y) && forallb (fun p => eqb_pair (fst p) (snd p)) (combine x y)
  | _, _ => false
  end.
(* the same frames in any order (after a connection was closed) *)
Fixpoint del_pair (a : nat * N) (l : list (nat * N)) : option (list (nat * N)) :=
  match l with
  | [] => None
  | b :: r => if eqb_pair a b then Some r else option_map (cons b) (del_pair a r)
  end.
Fixpoint perm_eqb (x y : list (nat * N)) : bool :=
  match x with
  | [] => match y with [] => true | _ => false end
  | a :: r => match del_pair a y with Some y' => perm_eqb r y' | None => false end
  end.
Definition obs_ok (fuzzy : bool) (want seen : robs) : bool :=
  match want, seen with
  | OSent x, OSent y => if fuzzy then perm_eqb x y else eqb_obs want seen
  | _, _ => eqb_obs want seen
  end.
Fixpoint raw_agrees (g : scfg) (st : rstate) (l : list (rop * robs)) : bool :=
  match l with
  | [] => true
  | (o, seen) :: r => let '(st', want) := raw_step g st o in obs_ok (r_fuzzy st') want seen && raw_agrees g st' r
  end.
