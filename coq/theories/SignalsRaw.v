(* SignalsRaw.v — the registration table of an object (bus/signal.go) driven by raw registerEvent /
   unregisterEvent calls whose user ids are chosen by the caller, and by emissions.

   Signals.v models the clients too: there every id is drawn by proxy.SubscribeID (fresh per client
   process), so two registrations of one connection never share an id.  A client that speaks the
   protocol itself (libqi reuses one link id for several signals) is not bound by that.  This file
   drops the client side and keeps the three table operations — the very functions [step] uses for
   LMbox and LEmitSnap/LEmitSend: [same_user], [is_user], [find_idx], [swap_remove] — with any ids.
   Operations run one at a time (each call is answered before the next one is sent; an emission
   is complete before the next operation).  Executable; proofs in SignalsRawProofs.v. *)
From QV Require Import Signals.
Local Open Scope N_scope.

Inductive rop :=
| RReg (c : nat) (m sig uid : N)   (* call m of connection c: registerEvent(object, sig, uid) *)
| RUnreg (c : nat) (sig uid : N)   (* unregisterEvent(object, sig, uid) on connection c *)
| REmit (sig p : N).               (* UpdateSignal(sig, p) *)

Inductive robs :=
| OAck                             (* Reply *)
| ORefused                         (* Error *)
| ONoAnswer                        (* the object's mailbox goroutine is blocked for ever *)
| OSent (l : list (nat * N)).      (* the Event frames of the emission in the order written: connection, message id *)

Record rstate := { r_table : list user; r_dead : bool }.
Definition rinit : rstate := {| r_table := []; r_dead := false |}.

Definition targets (sig : N) (t : list user) : list (nat * N) :=
  map (fun u => (u_conn u, u_mid u)) (filter (fun u => u_sig u =? sig) t).

Definition raw_step (g : scfg) (st : rstate) (o : rop) : rstate * robs :=
  match o with
  | RReg c m sig uid =>
      if r_dead st then (st, ONoAnswer) else
      match find_idx (same_user g c uid) (r_table st) with
      | None => ({| r_table := r_table st ++ [{| u_uid := uid; u_sig := sig; u_mid := m; u_conn := c |}];
                    r_dead := false |}, OAck)
      | Some i => if dup_relock g
                  then ({| r_table := swap_remove (r_table st) i; r_dead := true |}, ONoAnswer)
                  else (st, ORefused)
      end
  | RUnreg c sig uid =>
      if r_dead st then (st, ONoAnswer) else
      match find_idx (is_user c uid) (r_table st) with
      | Some i => ({| r_table := swap_remove (r_table st) i; r_dead := false |}, OAck)
      | None => (st, ORefused)
      end
  | REmit sig p => (st, OSent (targets sig (r_table st)))
  end.

Definition raw_run (g : scfg) (st : rstate) (os : list rop) : rstate :=
  fold_left (fun s o => fst (raw_step g s o)) os st.

(* ---- comparison with what the implementation answered / sent ---- *)
Definition eqb_pair (a b : nat * N) : bool := Nat.eqb (fst a) (fst b) && (snd a =? snd b).
Definition eqb_obs (a b : robs) : bool :=
  match a, b with
  | OAck, OAck | ORefused, ORefused | ONoAnswer, ONoAnswer => true
  | OSent x, OSent y => Nat.eqb (List.length x) (List.length y) && forallb (fun p => eqb_pair (fst p) (snd p)) (combine x y)
  | _, _ => false
  end.
Fixpoint raw_agrees (g : scfg) (st : rstate) (l : list (rop * robs)) : bool :=
  match l with
  | [] => true
  | (o, seen) :: r => let '(st', want) := raw_step g st o in eqb_obs want seen && raw_agrees g st' r
  end.
