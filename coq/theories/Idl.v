(* Idl.v — meta/idl: GenerateIDL (idl.go, with the TypeSet of meta/signature/type.go and
   MetaObject.ForEachMethodAndSignal) and ParseIDL (parser.go on goparsec's combinators, Peg.v;
   the references of ref.go resolved through the scope of scope.go; InterfaceType.MetaObject of
   interface.go).

   Go maps are association lists here.  GenerateIDL iterates over its map argument in Go's
   (unspecified) order: the model takes the interfaces in the order they are to be written.
   Panics of Go code inside callbacks (type assertions without ok) are not outcomes of the model:
   with the grammar as written the asserted shapes are the only ones that reach them; validated
   by the correspondence runs. *)
From QV Require Export Sig Peg SigParse.
From Coq Require Import NArith ZArith.
Local Open Scope string_scope.

(* ================= numbers as decimal text ================= *)
Fixpoint N_digits (fuel : nat) (n : N) (acc : string) : string :=
  match fuel with
  | O => acc
  | S f =>
      let d := String (ascii_of_N (48 + n mod 10)) acc in
      if (n <? 10)%N then d else N_digits f (n / 10) d
  end.
(* fmt's %d of an unsigned number *)
Definition N_to_string (n : N) : string := N_digits (S (N.to_nat (N.size n))) n "".

Definition is_digit (c : ascii) : bool := let n := N_of_ascii c in ((48 <=? n) && (n <=? 57))%N.
Fixpoint dec_value (s : string) (acc : N) : N :=
  match s with
  | EmptyString => acc
  | String c r => dec_value r (10 * acc + (N_of_ascii c - 48))%N
  end.

(* ================= IDL types with references ================= *)
Inductive ity :=
| IBasic (s : scalar)
| IList (t : ity)
| IMap (k v : ity)
| ITuple (ts : list ity)
| IRef (n : string).              (* RefType: resolved through the scope when a signature is asked for *)

(* what the scope maps a name to *)
Inductive sentry :=
| ScStruct (name : string) (members : list (string * ity))
| ScItf.
Definition scope := list (string * sentry).

Fixpoint lookup {A} (n : string) (l : list (string * A)) : option A :=
  match l with
  | [] => None
  | (k, v) :: r => if String.eqb k n then Some v else lookup n r
  end.

(* Signature() of a parsed type.  Fuel bounds the nesting of resolutions; running out of it is
   the Go call chain RefType.Signature -> StructType.Signature -> RefType.Signature ... of a struct
   that refers to itself: a stack overflow, which ends the process. *)
Fixpoint isig (f : nat) (sc : scope) (t : ity) : option string :=
  match f with
  | O => None
  | S f' =>
      let fix members (l : list (string * ity)) : option string :=
          match l with
          | [] => Some ""
          | (_, m) :: r =>
              match isig f' sc m, members r with
              | Some a, Some b => Some (a ++ b)
              | _, _ => None
              end
          end in
      let fix tuple (l : list ity) : option string :=
          match l with
          | [] => Some ""
          | m :: r =>
              match isig f' sc m, tuple r with
              | Some a, Some b => Some (a ++ b)
              | _, _ => None
              end
          end in
      match t with
      | IBasic s => Some (scalar_letter s)
      | IList e => match isig f' sc e with Some a => Some ("[" ++ a ++ "]") | None => None end
      | IMap k v =>
          match isig f' sc k, isig f' sc v with
          | Some a, Some b => Some ("{" ++ a ++ b ++ "}")
          | _, _ => None
          end
      | ITuple ts => match tuple ts with Some a => Some ("(" ++ a ++ ")") | None => None end
      | IRef n =>
          match lookup n sc with
          | Some (ScStruct name ms) =>
              match ms with
              | [] => Some ("()<" ++ name ++ ">")
              | _ =>
                  match members ms with
                  | Some a => Some ("(" ++ a ++ ")<" ++ name ++ "," ++ join "," (map fst ms) ++ ">")
                  | None => None
                  end
              end
          | Some ScItf => Some "o"
          | None => Some ("()<not found in scope: " ++ n ++ ">")
          end
      end
  end.

(* SignatureIDL() of a parsed type (descriptions of parameters and return values) *)
Fixpoint iidl (f : nat) (sc : scope) (t : ity) : option string :=
  match f with
  | O => None
  | S f' =>
      let fix tuple (l : list ity) : option (list string) :=
          match l with
          | [] => Some []
          | m :: r =>
              match iidl f' sc m, tuple r with
              | Some a, Some b => Some (a :: b)
              | _, _ => None
              end
          end in
      match t with
      | IBasic s => Some (scalar_idl s)
      | IList e => match iidl f' sc e with Some a => Some ("Vec<" ++ a ++ ">") | None => None end
      | IMap k v =>
          match iidl f' sc k, iidl f' sc v with
          | Some a, Some b => Some ("Map<" ++ a ++ "," ++ b ++ ">")
          | _, _ => None
          end
      | ITuple ts => match tuple ts with Some l => Some ("Tuple<" ++ join "," l ++ ">") | None => None end
      | IRef n =>
          match lookup n sc with
          | Some (ScStruct name _) => Some name
          | Some ScItf => Some "obj"
          | None => Some ("not found in scope: " ++ n)
          end
      end
  end.

(* ================= the parser ================= *)
Inductive ival :=
| VType (t : ity)
| VParam (n : string) (t : ity)                          (* Parameter *)
| VParams (l : list (string * ity))                      (* []Parameter *)
| VStr (s : string)                                      (* string *)
| VUid (n : N)                                           (* uint32 *)
| VMethod (name : string) (id : N) (ret : ity) (ps : list (string * ity))
| VSignal (name : string) (id : N) (ps : list (string * ity))
| VProp (name : string) (id : N) (ps : list (string * ity))
| VItf (name : string) (ms : list (N * (string * ity * list (string * ity))))
       (ss ps : list (N * (string * list (string * ity))))   (* *InterfaceType *)
| VMember (n : string) (t : ity)                         (* signature.MemberType *)
| VStruct (name : string) (members : list (string * ity))  (* *signature.StructType *)
| VEnumMember (n : string) (v : Z)
| VEnum (name : string)                                  (* *signature.EnumType (its values are never observed) *)
| VDecls (l : list ival)                                 (* []signature.Type *)
| VPkg (name : string) (decls : list ival).              (* *PackageDeclaration *)

Notation inode := (node ival).
Notation iparser := (parser ival).

(* ----- character classes ----- *)
Definition is_alpha_ (c : ascii) : bool := is_alpha c || Ascii.eqb c "_".
Definition is_pkg_char (c : ascii) : bool := is_alnum_ c || Ascii.eqb c "-" || Ascii.eqb c ".".
Definition not_nl (c : ascii) : bool := negb (Ascii.eqb c "010").

(* ----- terminals ----- *)
(* ident(): [_A-Za-z][0-9a-zA-Z_]* *)
Definition iident : iparser := token1 is_alpha_ is_alnum_.
(* Token(`[_A-Za-z][0-9a-zA-Z-._]*`) *)
Definition pkg_ident : iparser := token1 is_alpha_ is_pkg_char.
(* Token(`.*`): the rest of the line after white space (new lines included) was skipped; may be empty *)
Definition rest_of_line : iparser := fun s =>
  let (a, b) := span not_nl (skip_ws s) in (Ok (NTerm a) b, 1%N).
(* parsec.Int(): -?[0-9]+ *)
Definition int_tok : iparser := fun s =>
  match skip_ws s with
  | String "-" r =>
      let (a, b) := span is_digit r in
      match a with EmptyString => (Fail, 1%N) | _ => (Ok (NTerm (String "-" a)) b, 1%N) end
  | r =>
      let (a, b) := span is_digit r in
      match a with EmptyString => (Fail, 1%N) | _ => (Ok (NTerm a) b, 1%N) end
  end.
(* typeIdent(): [_A-Za-z][0-9a-zA-Z_]*<[0-9a-zA-Z_]*>  then  [_A-Za-z][0-9a-zA-Z_]* *)
Definition type_ident : iparser := fun s =>
  match skip_ws s with
  | String c r =>
      if is_alpha_ c then
        let (a, b) := span is_alnum_ r in
        let plain := (Ok (NTerm (String c a)) b, 1%N) in
        match b with
        | String "<"%char r2 =>
            let (a2, b2) := span is_alnum_ r2 in
            match b2 with
            | String ">"%char b3 => (Ok (NTerm (String c a ++ "<" ++ a2 ++ ">")) b3, 1%N)
            | _ => plain
            end
        | _ => plain
        end
      else (Fail, 1%N)
  | EmptyString => (Fail, 1%N)
  end.

(* ----- fmt.Sscanf(comment, "uid:%d", &uid) with uid uint32 ----- *)
Definition is_scan_space (c : ascii) : bool :=
  (Ascii.eqb c " " || Ascii.eqb c "009" || Ascii.eqb c "013" || Ascii.eqb c "011" || Ascii.eqb c "012" || Ascii.eqb c "010")%char.
(* %d reads the longest run of decimal digits; strconv.ParseUint and the 32-bit check refuse
   values of 2^32 and above; what follows the digits is ignored *)
Definition scan_uid (comment : string) : option N :=
  match strip_prefix "uid:" comment with
  | None => None
  | Some r =>
      let (_, r1) := span is_scan_space r in
      let (tok, _) := span is_digit r1 in
      match tok with
      | EmptyString => None
      | _ => let v := dec_value tok 0 in if (v <? 2 ^ 32)%N then Some v else None
      end
  end.

(* ----- callbacks ----- *)
Definition as_type (n : inode) : option ity := match n with NVal (VType t) => Some t | _ => None end.
(* a value that implements signature.Type *)
Definition is_sig_type (n : inode) : bool :=
  match n with NVal (VType _) | NVal (VItf _ _ _ _) | NVal (VStruct _ _) | NVal (VEnum _) => true | _ => false end.

Definition scalar_of_idl (v : string) : option scalar :=
  if String.eqb v "int8" then Some SI8 else if String.eqb v "uint8" then Some SU8
  else if String.eqb v "int16" then Some SI16 else if String.eqb v "uint16" then Some SU16
  else if String.eqb v "int32" then Some SI32 else if String.eqb v "uint32" then Some SU32
  else if String.eqb v "int64" then Some SI64 else if String.eqb v "uint64" then Some SU64
  else if String.eqb v "float32" then Some SF32 else if String.eqb v "float64" then Some SF64
  else if String.eqb v "str" then Some SStr else if String.eqb v "bool" then Some SBool
  else if String.eqb v "any" then Some SValue else if String.eqb v "obj" then Some SObject
  else if String.eqb v "unknown" then Some SUnknown else None.

Definition inodify_basic (ns : list inode) : inode :=
  match ns with
  | [NTerm v] => match scalar_of_idl v with Some s => NVal (VType (IBasic s)) | None => NErr end
  | _ => NErr
  end.
Definition nodify_first (ns : list inode) : inode := match ns with n :: _ => n | [] => NErr end.
Definition nodify_second (ns : list inode) : inode := match ns with _ :: n :: _ => n | _ => NErr end.

Definition inodify_map (ns : list inode) : inode :=
  match ns with
  | [_; k; _; v; _] =>
      match as_type k, as_type v with
      | Some a, Some b => NVal (VType (IMap a b))
      | _, _ => NErr
      end
  | _ => NErr
  end.
Definition inodify_vec (ns : list inode) : inode :=
  match ns with
  | [_; e; _] => match as_type e with Some a => NVal (VType (IList a)) | None => NErr end
  | _ => NErr
  end.
(* nodifyList: the elements of Tuple<...> become parameters param0, param1, ... *)
Fixpoint types_of_nodes (l : list inode) : option (list ity) :=
  match l with
  | [] => Some []
  | n :: r => match as_type n, types_of_nodes r with Some t, Some ts => Some (t :: ts) | _, _ => None end
  end.
Definition inodify_list (ns : list inode) : inode :=
  match types_of_nodes ns with
  | Some ts => NVal (VParams (tuple_fields 0 ts))      (* names are generated; only the types are used *)
  | None => NErr
  end.
Definition inodify_tuple (ns : list inode) : inode :=
  match ns with
  | [_; NVal (VParams ps); _] => NVal (VType (ITuple (map snd ps)))
  | _ => NErr
  end.
Definition inodify_ref (ns : list inode) : inode :=
  match ns with
  | [NTerm v] => NVal (VType (IRef v))
  | _ => NErr
  end.

Definition inodify_comment_content (ns : list inode) : inode :=
  match ns with
  | [_; NTerm c] => match scan_uid c with Some u => NVal (VUid u) | None => NVal (VStr c) end
  | _ => NErr
  end.
Definition inodify_comment (ns : list inode) : inode :=
  match ns with
  | [NNone] => NVal (VStr "")
  | [n] => n
  | _ => NErr
  end.
Definition inodify_returns (ns : list inode) : inode :=
  match ns with
  | [NNone] => NVal (VType (IBasic SVoid))
  | [n] => if is_sig_type n then n else NErr
  | _ => NErr
  end.
Definition inodify_param (ns : list inode) : inode :=
  match ns with
  | [NTerm name; _; t] =>
      (* nodes[2].(signature.Type): the type parser only yields VType or an error *)
      match as_type t with Some ty => NVal (VParam name ty) | None => NErr end
  | _ => NErr
  end.
Fixpoint params_of_nodes (l : list inode) : option (list (string * ity)) :=
  match l with
  | [] => Some []
  | NVal (VParam n t) :: r => match params_of_nodes r with Some ps => Some ((n, t) :: ps) | None => None end
  | _ :: _ => None
  end.
Definition inodify_params (ns : list inode) : inode :=
  match params_of_nodes ns with Some ps => NVal (VParams ps) | None => NErr end.
Definition inodify_and_params (ns : list inode) : inode :=
  match ns with
  | [NNone] => NVal (VParams [])
  | [NVal (VParams ps)] => NVal (VParams ps)
  | _ => NErr
  end.
Definition uid_of (n : inode) : N := match n with NVal (VUid u) => u | _ => 0%N end.

Definition inodify_method (ns : list inode) : inode :=
  match ns with
  | [_; NTerm name; _; NVal (VParams ps); _; r; c] =>
      match as_type r with
      | Some rt => NVal (VMethod name (uid_of c) rt ps)
      | None => NErr     (* the return node is a Type only if it is a VType here *)
      end
  | _ => NErr
  end.
Definition inodify_signal (ns : list inode) : inode :=
  match ns with
  | [_; NTerm name; _; NVal (VParams ps); _; c] => NVal (VSignal name (uid_of c) ps)
  | _ => NErr
  end.
Definition inodify_property (ns : list inode) : inode :=
  match ns with
  | [_; NTerm name; _; NVal (VParams ps); _; c] => NVal (VProp name (uid_of c) ps)
  | _ => NErr
  end.

(* Go map assignment m[k] = v *)
Fixpoint upsert {A} (k : N) (v : A) (l : list (N * A)) : list (N * A) :=
  match l with
  | [] => [(k, v)]
  | (k', v') :: r => if N.eqb k k' then (k, v) :: r else (k', v') :: upsert k v r
  end.

(* nodifyActionList: ids 0 are replaced by 100, 101, ... (except the method registerEvent) *)
Fixpoint action_list (l : list inode) (custom : N)
         (ms : list (N * (string * ity * list (string * ity))))
         (ss ps : list (N * (string * list (string * ity)))) : inode :=
  match l with
  | [] => NVal (VItf "" ms ss ps)
  | NVal (VMethod name id ret pl) :: r =>
      if N.eqb id 0 && negb (String.eqb name "registerEvent")
      then action_list r (custom + 1) (upsert custom (name, ret, pl) ms) ss ps
      else action_list r custom (upsert id (name, ret, pl) ms) ss ps
  | NVal (VSignal name id pl) :: r =>
      if N.eqb id 0 then action_list r (custom + 1) ms (upsert custom (name, pl) ss) ps
      else action_list r custom ms (upsert id (name, pl) ss) ps
  | NVal (VProp name id pl) :: r =>
      if N.eqb id 0 then action_list r (custom + 1) ms ss (upsert custom (name, pl) ps)
      else action_list r custom ms ss (upsert id (name, pl) ps)
  | _ :: _ => NErr
  end.
Definition inodify_action_list (ns : list inode) : inode := action_list ns 100 [] [] [].

Definition inodify_interface (ns : list inode) : inode :=
  match ns with
  | [_; NTerm name; _; NVal (VItf _ ms ss ps); _; _] => NVal (VItf name ms ss ps)
  | _ => NErr
  end.

Definition inodify_member (ns : list inode) : inode :=
  match ns with
  | [NTerm name; _; t; _] => match as_type t with Some ty => NVal (VMember name ty) | None => NErr end
  | _ => NErr
  end.
Fixpoint members_of_nodes (l : list inode) : option (list (string * ity)) :=
  match l with
  | [] => Some []
  | NVal (VMember n t) :: r => match members_of_nodes r with Some ms => Some ((n, t) :: ms) | None => None end
  | _ :: _ => None
  end.
Definition inodify_member_list (ns : list inode) : inode :=
  match members_of_nodes ns with Some ms => NVal (VStruct "parameters" ms) | None => NErr end.
Definition inodify_structure (ns : list inode) : inode :=
  match ns with
  | [_; NTerm name; _; NVal (VStruct _ ms); _; _] => NVal (VStruct name ms)
  | _ => NErr
  end.

(* strconv.Atoi of -?[0-9]+ : fails only outside the int64 range *)
Definition atoi (v : string) : option Z :=
  match v with
  | String "-" d => let n := dec_value d 0 in if (n <=? 2 ^ 63)%N then Some (- Z.of_N n)%Z else None
  | d => let n := dec_value d 0 in if (n <? 2 ^ 63)%N then Some (Z.of_N n) else None
  end.
Definition inodify_enum_const (ns : list inode) : inode :=
  match ns with
  | [NTerm name; _; NTerm v; _] => match atoi v with Some z => NVal (VEnumMember name z) | None => NErr end
  | _ => NErr
  end.
Fixpoint all_enum_members (l : list inode) : bool :=
  match l with
  | [] => true
  | NVal (VEnumMember _ _) :: r => all_enum_members r
  | _ :: _ => false
  end.
Definition inodify_enum_members (ns : list inode) : inode :=
  if all_enum_members ns then NVal (VEnum "") else NErr.
Definition inodify_enum (ns : list inode) : inode :=
  match ns with
  | [_; NTerm name; _; NVal (VEnum _); _; _] => NVal (VEnum name)
  | _ => NErr
  end.

Fixpoint decls_of_nodes (l : list inode) : option (list ival) :=
  match l with
  | [] => Some []
  | n :: r =>
      if is_sig_type n then
        match n, decls_of_nodes r with
        | NVal v, Some vs => Some (v :: vs)
        | _, _ => None
        end
      else None
  end.
Definition inodify_decl_list (ns : list inode) : inode :=
  match decls_of_nodes ns with Some vs => NVal (VDecls vs) | None => NErr end.

Definition inodify_pkg_name_and (ns : list inode) : inode :=
  match ns with [_; NTerm v; _] => NVal (VStr v) | _ => NErr end.
Definition inodify_pkg_name (ns : list inode) : inode :=
  match ns with
  | [NNone] => NVal (VStr "")
  | [NVal (VStr v)] => NVal (VStr v)
  | _ => NErr
  end.
Definition inodify_package (ns : list inode) : inode :=
  match ns with
  | [NVal (VStr name); NVal (VDecls ds)] => NVal (VPkg name ds)
  | _ => NErr
  end.

(* ----- grammar ----- *)
Definition idl_basic_names : list string :=
  ["int8"; "uint8"; "int16"; "uint16"; "int32"; "uint32"; "int64"; "uint64"; "float32"; "float64";
   "int64"; "uint64"; "bool"; "str"; "obj"; "any"; "unknown"].
Definition ibasic_type : iparser := por (Some inodify_basic) (map atom idl_basic_names).

Definition imap_type (d : iparser) : iparser :=
  pand (Some inodify_map) [atom "Map<"; d; atom ","; d; atom ">"].
Definition ituple_type (d : iparser) : iparser :=
  pand (Some inodify_tuple) [atom "Tuple<"; many_sep (Some inodify_list) d (atom ","); atom ">"].
Definition ivec_type (d : iparser) : iparser := pand (Some inodify_vec) [atom "Vec<"; d; atom ">"].
Definition iref_type : iparser := pand (Some inodify_ref) [type_ident].

(* typeParser; fuel bounds the nesting: every recursive use sits behind "Map<", "Tuple<" or "Vec<" *)
Fixpoint itype (f : nat) (s : string) {struct f} : res inode * N :=
  match f with
  | O => (NoFuel, 0%N)
  | S f' =>
      por (Some nodify_first)
          [ibasic_type; imap_type (itype f'); ituple_type (itype f'); ivec_type (itype f'); iref_type] s
  end.

Definition icomments : iparser :=
  pand (Some inodify_comment)
       [maybe (Some nodify_first) (pand (Some inodify_comment_content) [atom "//"; rest_of_line])].
Definition ireturns (ty : iparser) : iparser :=
  pand (Some inodify_returns) [maybe (Some nodify_first) (pand (Some nodify_second) [atom "->"; ty])].
Definition iparameter (ty : iparser) : iparser := pand (Some inodify_param) [iident; atom ":"; ty].
Definition iparameters (ty : iparser) : iparser :=
  pand (Some inodify_and_params)
       [maybe (Some nodify_first) (many_sep (Some inodify_params) (iparameter ty) (atom ","))].
Definition imethod (ty : iparser) : iparser :=
  pand (Some inodify_method) [atom "fn"; iident; atom "("; iparameters ty; atom ")"; ireturns ty; icomments].
Definition isignal (ty : iparser) : iparser :=
  pand (Some inodify_signal) [atom "sig"; iident; atom "("; iparameters ty; atom ")"; icomments].
Definition iproperty (ty : iparser) : iparser :=
  pand (Some inodify_property) [atom "prop"; iident; atom "("; iparameters ty; atom ")"; icomments].
Definition iaction (ty : iparser) : iparser := por (Some nodify_first) [imethod ty; isignal ty; iproperty ty].
Definition iinterface (ty : iparser) : iparser :=
  pand (Some inodify_interface)
       [atom "interface"; iident; icomments; kleene (Some inodify_action_list) (iaction ty); atom "end"; icomments].
Definition imember (ty : iparser) : iparser := pand (Some inodify_member) [iident; atom ":"; ty; icomments].
Definition ienum_const : iparser := pand (Some inodify_enum_const) [iident; atom "="; int_tok; icomments].
Definition ienum : iparser :=
  pand (Some inodify_enum)
       [atom "enum"; iident; icomments; kleene (Some inodify_enum_members) ienum_const; atom "end"; icomments].
Definition istructure (ty : iparser) : iparser :=
  pand (Some inodify_structure)
       [atom "struct"; type_ident; icomments; kleene (Some inodify_member_list) (imember ty); atom "end"; icomments].
Definition ideclaration (ty : iparser) : iparser := por (Some nodify_first) [istructure ty; ienum; iinterface ty].
Definition ipackage_name : iparser :=
  pand (Some inodify_pkg_name)
       [maybe (Some nodify_first) (pand (Some inodify_pkg_name_and) [atom "package"; pkg_ident; icomments])].
Definition ipackage (ty : iparser) : iparser :=
  pand (Some inodify_package) [ipackage_name; kleene (Some inodify_decl_list) (ideclaration ty)].

(* ----- ParsePackage / ParseIDL ----- *)
(* a meta-object as ParseIDL returns it and GenerateIDL takes it: methods, signals, properties by
   uid; signatures are strings *)
Record mmethod := { mm_uid : N; mm_name : string; mm_params : string; mm_ret : string;
                    mm_pnames : option (list string) (* MetaMethod.Parameters names; None = nil *) }.
Record msignal := { ms_uid : N; ms_name : string; ms_sig : string }.
Record mobject := { mo_name : string (* Description / the map key of GenerateIDL *);
                    mo_methods : list mmethod; mo_signals : list msignal; mo_props : list msignal }.

Inductive idl_result :=
| IOk (objs : list mobject)
| IErr                 (* an error value *)
| ICrash               (* unbounded recursion through a self-referential struct: stack overflow *)
| IFuel | IHang.       (* model bounds; shown unreachable *)

(* scope: the first struct or interface declared under each name *)
Fixpoint scope_of (ds : list ival) (acc : scope) : scope :=
  match ds with
  | [] => acc
  | VStruct name ms :: r =>
      scope_of r (match lookup name acc with Some _ => acc | None => (acc ++ [(name, ScStruct name ms)])%list end)
  | VItf name _ _ _ :: r =>
      scope_of r (match lookup name acc with Some _ => acc | None => (acc ++ [(name, ScItf)])%list end)
  | _ :: r => scope_of r acc
  end.

Definition sig_fuel (sc : scope) (t : ity) : nat :=
  (* resolutions nest at most once per scope entry unless a struct refers to itself *)
  let fix depth (t : ity) : nat :=
      match t with
      | IBasic _ | IRef _ => 1
      | IList e => S (depth e)
      | IMap k v => S (Nat.max (depth k) (depth v))
      | ITuple ts => S (fold_right (fun t a => Nat.max (depth t) a) 0 ts)
      end in
  let md := fold_right (fun e a => match snd e with
                                  | ScStruct _ ms => Nat.max (fold_right (fun m b => Nat.max (depth (snd m)) b) 0 ms) a
                                  | ScItf => a end) 0 sc in
  (S (List.length sc)) * (S (S md)) + depth t + 1.

Definition tuple_sig (f : nat) (sc : scope) (ps : list (string * ity)) : option string :=
  isig (S f) sc (ITuple (map snd ps)).

Fixpoint meta_methods (sc : scope) (l : list (N * (string * ity * list (string * ity)))) : option (list mmethod) :=
  match l with
  | [] => Some []
  | (id, (n, ret, pl)) :: r =>
      let f := sig_fuel sc (ITuple (ret :: map snd pl)) in
      match isig f sc ret, tuple_sig f sc pl, iidl f sc ret, meta_methods sc r with
      | Some rs, Some p, Some _, Some rest =>
          Some ({| mm_uid := id; mm_name := n; mm_params := p; mm_ret := rs;
                   mm_pnames := Some (map fst pl) |} :: rest)
      | _, _, _, _ => None
      end
  end.
Fixpoint meta_signals (sc : scope) (l : list (N * (string * list (string * ity)))) : option (list msignal) :=
  match l with
  | [] => Some []
  | (id, (n, pl)) :: r =>
      let f := sig_fuel sc (ITuple (map snd pl)) in
      match tuple_sig f sc pl, meta_signals sc r with
      | Some p, Some rest => Some ({| ms_uid := id; ms_name := n; ms_sig := p |} :: rest)
      | _, _ => None
      end
  end.

Definition meta_of_itf (sc : scope) (v : ival) : option (option mobject) :=
  (* None = stack overflow; Some None = not an interface *)
  match v with
  | VItf name ms ss ps =>
      match meta_methods sc ms, meta_signals sc ss, meta_signals sc ps with
      | Some a, Some b, Some c => Some (Some {| mo_name := name; mo_methods := a; mo_signals := b; mo_props := c |})
      | _, _, _ => None
      end
  | _ => Some None
  end.

Fixpoint metas_of (sc : scope) (ds : list ival) : option (list mobject) :=
  match ds with
  | [] => Some []
  | d :: r =>
      match meta_of_itf sc d, metas_of sc r with
      | Some (Some m), Some ms => Some (m :: ms)
      | Some None, Some ms => Some ms
      | _, _ => None
      end
  end.

(* ParsePackage: the package parser never fails (Maybe, Kleene); then SkipWS and Endof *)
Definition parse_package (s : string) : res inode * N := ipackage (itype (S (String.length s))) s.

Definition parse_idl (s : string) : idl_result :=
  match fst (parse_package s) with
  | Ok root rest =>
      if is_empty (skip_ws rest) then
        match root with
        | NVal (VPkg _ ds) =>
            match metas_of (scope_of ds []) ds with
            | Some ms => IOk ms
            | None => ICrash
            end
        | _ => IErr
        end
      else IErr
  | Fail => IErr
  | NoFuel => IFuel
  | Hang => IHang
  end.

(* ================= GenerateIDL ================= *)
(* TypeSet: registered name, the Signature() of the registered type, and for a struct the lines
   of its declaration (member name, IDL name of the member type) *)
Definition tset := list (string * (string * option (list (string * string)))).

Definition set_sig (n : string) (s : tset) : option string :=
  match lookup n s with Some (sg, _) => Some sg | None => None end.

(* TypeSet.ResolveCollision *)
Fixpoint resolve_loop (fuel : nat) (i : N) (s : tset) (orig name sg : string) : string :=
  match fuel with
  | O => "can_not_register_name_" ++ orig
  | S f =>
      match set_sig name s with
      | Some sg' => if String.eqb sg' sg then name
                    else resolve_loop f (i + 1) s orig (orig ++ "_" ++ N_to_string i) sg
      | None => name
      end
  end.
Definition resolve_collision (s : tset) (orig sg : string) : string := resolve_loop 100 0 s orig orig sg.

(* Type.RegisterTo: structs are registered members first; a struct whose name is taken by a
   different type is renamed in place, so the result is the type with its new names *)
Section RegLists.
  Variable reg : ty -> tset -> ty * tset.
  Fixpoint reg_list (l : list ty) (s : tset) : list ty * tset :=
    match l with
    | [] => ([], s)
    | x :: r => let (x', s1) := reg x s in let (r', s2) := reg_list r s1 in (x' :: r', s2)
    end.
  Fixpoint reg_fields (l : list (string * ty)) (s : tset) : list (string * ty) * tset :=
    match l with
    | [] => ([], s)
    | (a, x) :: r => let (x', s1) := reg x s in let (r', s2) := reg_fields r s1 in ((a, x') :: r', s2)
    end.
End RegLists.
Definition struct_block (fs : list (string * ty)) : list (string * string) :=
  map (fun f => (fst f, idl_name (snd f))) fs.
Fixpoint register (t : ty) (s : tset) : ty * tset :=
  match t with
  | TS _ => (t, s)
  | TList e => let (e', s1) := register e s in (TList e', s1)
  | TMap k v => let (k', s1) := register k s in let (v', s2) := register v s1 in (TMap k' v', s2)
  | TTuple ts => let (ts', s1) := reg_list register ts s in (TTuple ts', s1)
  | TStruct n fs =>
      let (fs', s1) := reg_fields register fs s in
      let n' := resolve_collision s1 n (print (TStruct n fs')) in
      let t' := TStruct n' fs' in
      match lookup n' s1 with
      | Some _ => (t', s1)
      | None => (t', List.app s1 [(n', (print t', Some (struct_block fs')))])
      end
  end.

(* signature.CleanVarName *)
Definition go_keywords : list string :=
  ["break"; "default"; "func"; "interface"; "select"; "case"; "defer"; "go"; "map"; "struct"; "chan"; "else";
   "goto"; "package"; "switch"; "const"; "fallthrough"; "if"; "range"; "type"; "continue"; "for"; "import";
   "return"; "var"; "error"; "string"].
Fixpoint filter_chars (p : ascii -> bool) (s : string) : string :=
  match s with EmptyString => EmptyString | String c r => if p c then String c (filter_chars p r) else filter_chars p r end.
Definition clean_var_name (i : nat) (name : string) : string :=
  match name with
  | EmptyString => "P" ++ nat_to_string i
  | _ => let v := filter_chars is_alnum_ name in
         if existsb (String.eqb v) go_keywords then v ++ "_" ++ nat_to_string i else v
  end.

(* TupleType.ParamIDL *)
Definition param_idl (members : list (string * ty)) : string :=
  join ", " (map (fun m => fst m ++ ": " ++ idl_name (snd m)) members).

Fixpoint named_params (i : nat) (names : list string) (ts : list ty) : list string :=
  match names, ts with
  | n :: nr, t :: tr => (clean_var_name i n ++ ": " ++ idl_name t) :: named_params (S i) nr tr
  | _, _ => []
  end.

Definition tab : string := String "009" "".
Definition nl : string := String "010" "".

Definition as_members (t : ty) (single : string) : list (string * ty) :=
  match t with TTuple ts => tuple_fields 0 ts | _ => [(single, t)] end.

(* generateMethod: the line is written with the names as they are in the signature; the types are
   registered (and possibly renamed) afterwards *)
Definition gen_method (m : mmethod) (s : tset) : option (string * tset) :=
  match parse (mm_params m), parse (mm_ret m) with
  | POk pt, POk rt =>
      let members := as_members pt "P0" in
      let ps := match mm_pnames m with
                | Some names => if Nat.eqb (List.length names) (List.length members)
                                then join "," (named_params 0 names (map snd members))
                                else param_idl members
                | None => param_idl members
                end in
      let rs := if String.eqb (print rt) "v" then "" else "-> " ++ idl_name rt ++ " " in
      let line := tab ++ "fn " ++ mm_name m ++ "(" ++ ps ++ ") " ++ rs ++ "//uid:" ++ N_to_string (mm_uid m) ++ nl in
      let (_, s1) := register pt s in
      let (_, s2) := register rt s1 in
      Some (line, s2)
  | _, _ => None
  end.

(* generateSignal / generateProperty: the type is registered first, the line shows the new names *)
Definition gen_sigprop (kw single : string) (x : msignal) (s : tset) : option (string * tset) :=
  match parse (ms_sig x) with
  | POk t =>
      let (t', s1) := register t s in
      let line := tab ++ kw ++ " " ++ ms_name x ++ "(" ++ param_idl (as_members t' single) ++ ") //uid:"
                      ++ N_to_string (ms_uid x) ++ nl in
      Some (line, s1)
  | _ => None
  end.

Fixpoint gen_all {A} (g : A -> tset -> option (string * tset)) (l : list A) (s : tset) : option (string * tset) :=
  match l with
  | [] => Some ("", s)
  | x :: r =>
      match g x s with
      | Some (a, s1) => match gen_all g r s1 with Some (b, s2) => Some (a ++ b, s2) | None => None end
      | None => None
      end
  end.

Definition gen_interface (o : mobject) (s : tset) : option (string * tset) :=
  let name := resolve_collision s (mo_name o) "o" in
  let unresolved := "()<not found in scope: " ++ name ++ ">" in
  let s0 := List.app s [(name, (unresolved, None))] in
  match gen_all gen_method (mo_methods o) s0 with
  | Some (a, s1) =>
      match gen_all (gen_sigprop "sig" "P0") (mo_signals o) s1 with
      | Some (b, s2) =>
          match gen_all (gen_sigprop "prop" "param") (mo_props o) s2 with
          | Some (c, s3) => Some ("interface " ++ name ++ nl ++ a ++ b ++ c ++ "end" ++ nl, s3)
          | None => None
          end
      | None => None
      end
  | None => None
  end.

Definition gen_struct (e : string * (string * option (list (string * string)))) : string :=
  match snd (snd e) with
  | Some members =>
      "struct " ++ fst e ++ nl ++ String.concat "" (map (fun m => tab ++ fst m ++ ": " ++ snd m ++ nl) members) ++ "end" ++ nl
  | None => ""
  end.

(* GenerateIDL(writer, pkg, objs): objs in the order Go's map iteration delivered them, the
   actions of each object sorted by uid; None = an error was returned *)
Definition gen_idl (pkg : string) (objs : list mobject) : option string :=
  match gen_all gen_interface objs [] with
  | Some (body, s) => Some ("package " ++ pkg ++ nl ++ body ++ String.concat "" (map gen_struct s))
  | None => None
  end.

(* ================= what the round trip needs: the hypotheses idl_safe ================= *)
(* what the IDL name of a type is read back as *)
Fixpoint ity_of (t : ty) : ity :=
  match t with
  | TS SVoid => IRef "nothing"                       (* not a basic type of the IDL grammar *)
  | TS s => IBasic s
  | TList e => IList (ity_of e)
  | TMap k v => IMap (ity_of k) (ity_of v)
  | TTuple [] => IRef "Tuple<>"                      (* Many needs one element: read as a reference *)
  | TTuple ts => ITuple (map ity_of ts)
  | TStruct n _ => IRef n
  end.

Definition starts_with (p s : string) : bool :=
  match strip_prefix p s with Some _ => true | None => false end.

(* a struct name the type parser reads back as a reference to that name *)
Definition safe_name (n : string) : bool :=
  is_struct_name n && negb (existsb (fun k => starts_with k n) idl_basic_names) &&
  negb (starts_with "Map<" n) && negb (starts_with "Tuple<" n) && negb (starts_with "Vec<" n).

Fixpoint idl_safe (t : ty) : bool :=
  match t with
  | TS s => negb (scalar_eqb s SVoid)
  | TList e => idl_safe e
  | TMap k v => idl_safe k && idl_safe v
  | TTuple ts => match ts with [] => false | _ => forallb idl_safe ts end
  | TStruct n fs => safe_name n && forallb (fun f => is_ident (fst f) && idl_safe (snd f)) fs
  end.

(* every struct inside t is declared in the scope under its name, with its own members *)
Fixpoint scope_has (sc : scope) (t : ty) : Prop :=
  match t with
  | TS _ => True
  | TList e => scope_has sc e
  | TMap k v => scope_has sc k /\ scope_has sc v
  | TTuple ts => (fix all (l : list ty) : Prop := match l with [] => True | x :: r => scope_has sc x /\ all r end) ts
  | TStruct n fs =>
      lookup n sc = Some (ScStruct n (map (fun f => (fst f, ity_of (snd f))) fs)) /\
      (fix all (l : list (string * ty)) : Prop := match l with [] => True | x :: r => scope_has sc (snd x) /\ all r end) fs
  end.

(* what may follow a type expression: the end of the text, or a character that is neither part
   of a name nor '<' *)
Definition follow_idl (rest : string) : bool :=
  match rest with
  | EmptyString => true
  | String c _ => negb (is_alnum_ c) && negb (Ascii.eqb c "<")
  end.

(* [_A-Za-z][0-9a-zA-Z_]*: what ident() accepts as an action, parameter or member name *)
Definition is_iident (s : string) : bool :=
  match s with EmptyString => false | String c r => is_alpha_ c && all_chars is_alnum_ r end.

(* the text of one action line, as generateMethod / generateSignal / generateProperty write it *)
Definition param_str (p : string * ty) : string := fst p ++ ": " ++ idl_name (snd p).
Definition ret_str (rt : ty) : string := if String.eqb (print rt) "v" then "" else "-> " ++ idl_name rt ++ " ".
Definition method_line (name ps rs : string) (uid : N) : string :=
  tab ++ "fn " ++ name ++ "(" ++ ps ++ ") " ++ rs ++ "//uid:" ++ N_to_string uid ++ nl.
Definition sigprop_line (kw name ps : string) (uid : N) : string :=
  tab ++ kw ++ " " ++ name ++ "(" ++ ps ++ ") //uid:" ++ N_to_string uid ++ nl.

(* the round trip as a decidable statement: GenerateIDL succeeds and ParseIDL gives back the same
   interfaces (by name) with the same action ids, names and signatures *)
Definition same_method (a b : mmethod) : bool :=
  N.eqb (mm_uid a) (mm_uid b) && String.eqb (mm_name a) (mm_name b) && String.eqb (mm_params a) (mm_params b) &&
  String.eqb (mm_ret a) (mm_ret b).
Definition same_signal (a b : msignal) : bool :=
  N.eqb (ms_uid a) (ms_uid b) && String.eqb (ms_name a) (ms_name b) && String.eqb (ms_sig a) (ms_sig b).
Fixpoint all2 {A} (f : A -> A -> bool) (l1 l2 : list A) : bool :=
  match l1, l2 with
  | [], [] => true
  | x :: r1, y :: r2 => f x y && all2 f r1 r2
  | _, _ => false
  end.
Definition same_object (a b : mobject) : bool :=
  String.eqb (mo_name a) (mo_name b) && all2 same_method (mo_methods a) (mo_methods b) &&
  all2 same_signal (mo_signals a) (mo_signals b) && all2 same_signal (mo_props a) (mo_props b).
(* objs: actions sorted by uid (as ForEachMethodAndSignal visits them); the parsed lists are in
   the order of first appearance, which is the same when the uids are distinct and non-zero *)
Definition roundtrip_ok (pkg : string) (objs : list mobject) : bool :=
  match gen_idl pkg objs with
  | Some text => match parse_idl text with IOk objs' => all2 same_object objs objs' | _ => false end
  | None => false
  end.

(* ================= the repaired ParsePackage (design/C18.fix.self_referential_struct_crash.diff) ==========
   RefType.Signature marks a reference that is asked for its signature while it is already being
   resolved (the invalid struct name "recursive type: N") instead of recursing, and ParsePackage
   refuses a package one of whose declared structures has such a signature.  A reference is
   re-entered exactly when the unguarded recursion would not end, i.e. when the bounded resolution
   [isig] runs out of fuel. *)
Definition struct_resolves (sc : scope) (d : ival) : bool :=
  match d with
  | VStruct _ ms =>
      let t := ITuple (map snd ms) in
      match isig (sig_fuel sc t) sc t with Some _ => true | None => false end
  | _ => true
  end.

Definition parse_idl_g (guard : bool) (s : string) : idl_result :=
  match fst (parse_package s) with
  | Ok root rest =>
      if is_empty (skip_ws rest) then
        match root with
        | NVal (VPkg _ ds) =>
            let sc := scope_of ds [] in
            if guard && negb (forallb (struct_resolves sc) ds) then IErr
            else match metas_of sc ds with
                 | Some ms => IOk ms
                 | None => if guard then IErr else ICrash
                 end
        | _ => IErr
        end
      else IErr
  | Fail => IErr
  | NoFuel => IFuel
  | Hang => IHang
  end.

(* ================= the repairs of design/C18.fix.*.diff as switches =================
   Each switch is false on the pinned code; the harness observes it on the witness family of the
   corresponding finding and the correspondence run uses the grammar with the observed switches.
   With every switch false the definitions below are the ones above (parse_idl_cfg_pinned). *)
Record icfg := { c_guard : bool;     (* ParsePackage refuses self-referential structures *)
                 c_word : bool;      (* basicType(): the names must end at a word boundary *)
                 c_void : bool;      (* "nothing" is a basic type and Tuple<> is the empty tuple *)
                 c_uid0 : bool }.    (* a written uid 0 is kept; only absent uids are numbered *)
Definition icfg_pinned : icfg := {| c_guard := false; c_word := false; c_void := false; c_uid0 := false |}.

(* Token(`name\b`): the name, not followed by a letter, digit or underscore *)
Definition atom_w (m : string) : iparser := fun s =>
  match strip_prefix m (skip_ws s) with
  | Some r => match r with
              | String c _ => if is_alnum_ c then (Fail, 1%N) else (Ok (NTerm m) r, 1%N)
              | EmptyString => (Ok (NTerm m) r, 1%N)
              end
  | None => (Fail, 1%N)
  end.

Definition scalar_of_idl_g (c : icfg) (v : string) : option scalar :=
  if c_void c && String.eqb v "nothing" then Some SVoid else scalar_of_idl v.
Definition inodify_basic_g (c : icfg) (ns : list inode) : inode :=
  match ns with
  | [NTerm v] => match scalar_of_idl_g c v with Some s => NVal (VType (IBasic s)) | None => NErr end
  | _ => NErr
  end.
Definition idl_basic_names_g (c : icfg) : list string :=
  if c_void c then (idl_basic_names ++ ["nothing"])%list else idl_basic_names.
Definition ibasic_type_g (c : icfg) : iparser :=
  por (Some (inodify_basic_g c)) (map (if c_word c then atom_w else atom) (idl_basic_names_g c)).
Definition ituple_type_g (c : icfg) (d : iparser) : iparser :=
  pand (Some inodify_tuple)
       [atom "Tuple<";
        (if c_void c then kleene_sep (Some inodify_list) d (atom ",") else many_sep (Some inodify_list) d (atom ","));
        atom ">"].
Definition itype_g (c : icfg) : nat -> string -> res inode * N :=
  fix itype_g (f : nat) (s : string) {struct f} : res inode * N :=
  match f with
  | O => (NoFuel, 0%N)
  | S f' =>
      por (Some nodify_first)
          [ibasic_type_g c; imap_type (itype_g f'); ituple_type_g c (itype_g f'); ivec_type (itype_g f'); iref_type] s
  end.

(* an absent uid: 2^32 cannot be read from a comment (scan_uid) *)
Definition no_uid : N := (2 ^ 32)%N.
Definition uid_of_g (c : icfg) (n : inode) : N :=
  match n with NVal (VUid u) => u | _ => if c_uid0 c then no_uid else 0%N end.
Definition is_absent (c : icfg) (id : N) : bool := if c_uid0 c then N.eqb id no_uid else N.eqb id 0.

Definition inodify_method_g (c : icfg) (ns : list inode) : inode :=
  match ns with
  | [_; NTerm name; _; NVal (VParams ps); _; r; cm] =>
      match as_type r with
      | Some rt => NVal (VMethod name (uid_of_g c cm) rt ps)
      | None => NErr
      end
  | _ => NErr
  end.
Definition inodify_signal_g (c : icfg) (ns : list inode) : inode :=
  match ns with
  | [_; NTerm name; _; NVal (VParams ps); _; cm] => NVal (VSignal name (uid_of_g c cm) ps)
  | _ => NErr
  end.
Definition inodify_property_g (c : icfg) (ns : list inode) : inode :=
  match ns with
  | [_; NTerm name; _; NVal (VParams ps); _; cm] => NVal (VProp name (uid_of_g c cm) ps)
  | _ => NErr
  end.

(* registerEvent without a written uid keeps the zero value of the field *)
Definition action_list_g (c : icfg) :=
  fix action_list_g (l : list inode) (custom : N)
         (ms : list (N * (string * ity * list (string * ity))))
         (ss ps : list (N * (string * list (string * ity)))) {struct l} : inode :=
  match l with
  | [] => NVal (VItf "" ms ss ps)
  | NVal (VMethod name id ret pl) :: r =>
      if is_absent c id && negb (String.eqb name "registerEvent")
      then action_list_g r (custom + 1)%N (upsert custom (name, ret, pl) ms) ss ps
      else action_list_g r custom (upsert (if c_uid0 c && is_absent c id then 0%N else id) (name, ret, pl) ms) ss ps
  | NVal (VSignal name id pl) :: r =>
      if is_absent c id then action_list_g r (custom + 1)%N ms (upsert custom (name, pl) ss) ps
      else action_list_g r custom ms (upsert id (name, pl) ss) ps
  | NVal (VProp name id pl) :: r =>
      if is_absent c id then action_list_g r (custom + 1)%N ms ss (upsert custom (name, pl) ps)
      else action_list_g r custom ms ss (upsert id (name, pl) ps)
  | _ :: _ => NErr
  end.

Definition imethod_g (c : icfg) (ty : iparser) : iparser :=
  pand (Some (inodify_method_g c)) [atom "fn"; iident; atom "("; iparameters ty; atom ")"; ireturns ty; icomments].
Definition isignal_g (c : icfg) (ty : iparser) : iparser :=
  pand (Some (inodify_signal_g c)) [atom "sig"; iident; atom "("; iparameters ty; atom ")"; icomments].
Definition iproperty_g (c : icfg) (ty : iparser) : iparser :=
  pand (Some (inodify_property_g c)) [atom "prop"; iident; atom "("; iparameters ty; atom ")"; icomments].
Definition iaction_g (c : icfg) (ty : iparser) : iparser :=
  por (Some nodify_first) [imethod_g c ty; isignal_g c ty; iproperty_g c ty].
Definition iinterface_g (c : icfg) (ty : iparser) : iparser :=
  pand (Some inodify_interface)
       [atom "interface"; iident; icomments;
        kleene (Some (fun ns => action_list_g c ns 100%N [] [] [])) (iaction_g c ty); atom "end"; icomments].
Definition ideclaration_g (c : icfg) (ty : iparser) : iparser :=
  por (Some nodify_first) [istructure ty; ienum; iinterface_g c ty].
Definition ipackage_g (c : icfg) (ty : iparser) : iparser :=
  pand (Some inodify_package) [ipackage_name; kleene (Some inodify_decl_list) (ideclaration_g c ty)].
Definition parse_package_g (c : icfg) (s : string) : res inode * N :=
  ipackage_g c (itype_g c (S (String.length s))) s.

Definition parse_idl_cfg (c : icfg) (s : string) : idl_result :=
  match fst (parse_package_g c s) with
  | Ok root rest =>
      if is_empty (skip_ws rest) then
        match root with
        | NVal (VPkg _ ds) =>
            let sc := scope_of ds [] in
            if c_guard c && negb (forallb (struct_resolves sc) ds) then IErr
            else match metas_of sc ds with
                 | Some ms => IOk ms
                 | None => if c_guard c then IErr else ICrash
                 end
        | _ => IErr
        end
      else IErr
  | Fail => IErr
  | NoFuel => IFuel
  | Hang => IHang
  end.

Lemma parse_idl_cfg_pinned s : parse_idl_cfg icfg_pinned s = parse_idl s.
Proof. reflexivity. Qed.
Lemma parse_idl_cfg_guard s : parse_idl_cfg {| c_guard := true; c_word := false; c_void := false; c_uid0 := false |} s = parse_idl_g true s.
Proof. reflexivity. Qed.
