(* Sig.v — the type-signature AST of meta/signature (type.go), its printer
   (Type.Signature()) and well-formedness.  The PEG parser model is in SigParse.v. *)
From Coq Require Export String Ascii List.
From QV Require Export Bytes.
Export ListNotations.
Local Open Scope string_scope.

Inductive scalar :=
| SI8 | SU8 | SI16 | SU16 | SI32 | SU32 | SI64 | SU64 | SF32 | SF64
| SBool | SStr | SValue | SObject | SUnknown | SVoid.

(* tuple member names are generated (P0, P1, ...) and therefore not part of the AST *)
Inductive ty :=
| TS (s : scalar)
| TList (t : ty)
| TMap (k v : ty)
| TTuple (ts : list ty)
| TStruct (name : string) (fields : list (string * ty)).

(* induction principle that reaches the types nested in lists *)
Section ty_ind2.
  Variable P : ty -> Prop.
  Hypothesis HS : forall s, P (TS s).
  Hypothesis HL : forall t, P t -> P (TList t).
  Hypothesis HM : forall k v, P k -> P v -> P (TMap k v).
  Hypothesis HT : forall ts, Forall P ts -> P (TTuple ts).
  Hypothesis HR : forall n fs, Forall (fun f => P (snd f)) fs -> P (TStruct n fs).
  Fixpoint ty_ind2 (t : ty) : P t :=
    match t with
    | TS s => HS s
    | TList t' => HL t' (ty_ind2 t')
    | TMap k v => HM k v (ty_ind2 k) (ty_ind2 v)
    | TTuple ts => HT ts ((fix go (l : list ty) : Forall P l :=
                             match l with [] => Forall_nil _ | x :: r => Forall_cons _ (ty_ind2 x) (go r) end) ts)
    | TStruct n fs => HR n fs ((fix go (l : list (string * ty)) : Forall (fun f => P (snd f)) l :=
                             match l with [] => Forall_nil _ | x :: r => Forall_cons _ (ty_ind2 (snd x)) (go r) end) fs)
    end.
End ty_ind2.

Definition scalar_letter (s : scalar) : string :=
  match s with
  | SI8 => "c" | SU8 => "C" | SI16 => "w" | SU16 => "W" | SI32 => "i" | SU32 => "I"
  | SI64 => "l" | SU64 => "L" | SF32 => "f" | SF64 => "d" | SBool => "b" | SStr => "s"
  | SValue => "m" | SObject => "o" | SUnknown => "X" | SVoid => "v"
  end.

Fixpoint join (sep : string) (l : list string) : string :=
  match l with
  | [] => ""
  | [x] => x
  | x :: r => x ++ sep ++ join sep r
  end.

(* Type.Signature() *)
Fixpoint print (t : ty) : string :=
  match t with
  | TS s => scalar_letter s
  | TList t => "[" ++ print t ++ "]"
  | TMap k v => "{" ++ print k ++ print v ++ "}"
  | TTuple ts => "(" ++ String.concat "" (map print ts) ++ ")"
  | TStruct n fs =>
      match fs with
      | [] => "()<" ++ n ++ ">"
      | _ => "(" ++ String.concat "" (map (fun f => print (snd f)) fs) ++ ")<" ++ n ++ "," ++ join "," (map fst fs) ++ ">"
      end
  end.

(* identifiers as the signature grammar accepts them *)
Definition is_alpha (c : ascii) : bool :=
  let n := nat_of_ascii c in ((65 <=? n) && (n <=? 90) || (97 <=? n) && (n <=? 122))%nat%bool.
Definition is_alnum_ (c : ascii) : bool :=
  let n := nat_of_ascii c in (is_alpha c || (48 <=? n) && (n <=? 57) || (n =? 95))%nat%bool.
Fixpoint all_chars (p : ascii -> bool) (s : string) : bool :=
  match s with EmptyString => true | String c r => p c && all_chars p r end.
(* [A-Za-z][0-9a-zA-Z_]* *)
Definition is_ident (s : string) : bool :=
  match s with EmptyString => false | String c r => is_alpha c && all_chars is_alnum_ r end.

(* a struct name is an identifier or Name<Name> (template style) *)
Fixpoint split_lt (s : string) : option (string * string) :=
  match s with
  | EmptyString => None
  | String c r => if Ascii.eqb c "<"%char then Some (EmptyString, r)
                  else match split_lt r with Some (a, b) => Some (String c a, b) | None => None end
  end.
Definition drop_last_gt (s : string) : option string :=
  let n := String.length s in
  match n with
  | O => None
  | S m => if String.eqb (substring m 1 s) ">" then Some (substring 0 m s) else None
  end.
Definition is_struct_name (s : string) : bool :=
  is_ident s ||
  match split_lt s with
  | Some (a, b) => match drop_last_gt b with Some inner => is_ident a && is_ident inner | None => false end
  | None => false
  end.

Fixpoint wf_ty (t : ty) : bool :=
  match t with
  | TS _ => true
  | TList t => wf_ty t
  | TMap k v => wf_ty k && wf_ty v
  | TTuple ts => forallb wf_ty ts
  | TStruct n fs => is_struct_name n && forallb (fun f => is_ident (fst f) && wf_ty (snd f)) fs
  end.

Fixpoint ty_depth (t : ty) : nat :=
  match t with
  | TS _ => 1
  | TList t => S (ty_depth t)
  | TMap k v => S (Nat.max (ty_depth k) (ty_depth v))
  | TTuple ts => S (fold_right (fun t a => Nat.max (ty_depth t) a) 0 ts)
  | TStruct _ fs => S (fold_right (fun f a => Nat.max (ty_depth (snd f)) a) 0 fs)
  end.

Definition scalar_eqb (a b : scalar) : bool :=
  match a, b with
  | SI8, SI8 | SU8, SU8 | SI16, SI16 | SU16, SU16 | SI32, SI32 | SU32, SU32 | SI64, SI64 | SU64, SU64
  | SF32, SF32 | SF64, SF64 | SBool, SBool | SStr, SStr | SValue, SValue | SObject, SObject
  | SUnknown, SUnknown | SVoid, SVoid => true
  | _, _ => false
  end.

Fixpoint ty_eqb (a b : ty) : bool :=
  match a, b with
  | TS x, TS y => scalar_eqb x y
  | TList x, TList y => ty_eqb x y
  | TMap k v, TMap k' v' => ty_eqb k k' && ty_eqb v v'
  | TTuple xs, TTuple ys =>
      (fix go (l1 l2 : list ty) : bool :=
         match l1, l2 with
         | [], [] => true
         | x :: r1, y :: r2 => ty_eqb x y && go r1 r2
         | _, _ => false
         end) xs ys
  | TStruct n fs, TStruct n' fs' =>
      String.eqb n n' &&
      (fix go (l1 l2 : list (string * ty)) : bool :=
         match l1, l2 with
         | [], [] => true
         | (a, x) :: r1, (b, y) :: r2 => String.eqb a b && ty_eqb x y && go r1 r2
         | _, _ => false
         end) fs fs'
  | _, _ => false
  end.

(* strings on the wire are byte strings *)
Definition bytes_of_string (s : string) : bytes := list_byte_of_string s.
Definition string_of_bytes (b : bytes) : string := string_of_list_byte b.

(* the signature of ObjectReference / MetaObject (meta/signature/signature.go) as an AST *)
Definition ty_MetaMethodParameter := TStruct "MetaMethodParameter" [("name", TS SStr); ("description", TS SStr)].
Definition ty_MetaMethod := TStruct "MetaMethod"
  [("uid", TS SU32); ("returnSignature", TS SStr); ("name", TS SStr); ("parametersSignature", TS SStr);
   ("description", TS SStr); ("parameters", TList ty_MetaMethodParameter); ("returnDescription", TS SStr)].
Definition ty_MetaSignal := TStruct "MetaSignal" [("uid", TS SU32); ("name", TS SStr); ("signature", TS SStr)].
Definition ty_MetaProperty := TStruct "MetaProperty" [("uid", TS SU32); ("name", TS SStr); ("signature", TS SStr)].
Definition ty_MetaObject := TStruct "MetaObject"
  [("methods", TMap (TS SU32) ty_MetaMethod); ("signals", TMap (TS SU32) ty_MetaSignal);
   ("properties", TMap (TS SU32) ty_MetaProperty); ("description", TS SStr)].
Definition ty_ObjectReference := TStruct "ObjectReference"
  [("metaObject", ty_MetaObject); ("serviceID", TS SU32); ("objectID", TS SU32)].
