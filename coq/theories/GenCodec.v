(* GenCodec.v — the four paths a value takes through generated code (C05):
   proxy -> stub   arguments: reflection encoder (bus.NewParams / Proxy.Call2), then the
                   generated Unmarshal of each parameter (meta/stub methodBodyBlock)
   stub -> proxy   result: generated Marshal, then the reflection decoder (Response.Read)
   signal / property: generated Marshal on the emitting side, generated Unmarshal in the
                   generated subscriber / getter.
   Generated Marshal/Unmarshal implement the documented format (spec_enc / spec_dec); that
   this is what the templates of meta/signature/type.go emit is checked by compiling and
   running generated packages (qv C05). *)
From QV Require Import Wire Value GenDec WireLemmas WireProofs ReflProofs ParseOpt WireTop.
Local Open Scope N_scope.

Section Paths.
  Variable c : wcfg.
  Definition proxy_send (args : list tval) : bytes := flat_map (refl_enc c) args.
  Definition stub_recv (ts : list ty) (bs : bytes) : res (list tval * bytes) :=
    seq_with (map (fun t => spec_dec parse_opt (S (List.length bs)) t) ts) bs.
  Definition stub_reply (r : tval) : bytes := spec_enc r.
  Definition proxy_recv (t : ty) (bs : bytes) : res (tval * bytes) := refl_dec c tval_eqb t bs.
  Definition emit (v : tval) : bytes := spec_enc v.
  Definition subscriber_recv (t : ty) (bs : bytes) : res (tval * bytes) := spec_dec parse_opt (S (List.length bs)) t bs.
End Paths.

Definition arg_ok (v : tval) (t : ty) : Prop :=
  good_ty t = true /\ has_ty v t = true /\ refl_domain t = true.

(* arguments passed to the generated proxy reach the stub's implementation unchanged *)
Theorem call_args_roundtrip : forall c args ts rest, refl_drop8 c = false ->
  Forall2 arg_ok args ts ->
  stub_recv ts (proxy_send c args ++ rest) = ROk (args, rest).
Proof.
  intros c args ts rest Hc HF. unfold stub_recv, proxy_send.
  set (fuel := S (List.length (flat_map (refl_enc c) args ++ rest))).
  assert (Hsame : flat_map (refl_enc c) args = flat_map spec_enc args).
  { clear fuel. induction HF as [|v t vs ts' (Hg & Hv & Hd) HF IH]; [reflexivity|].
    cbn [flat_map]. rewrite IH. f_equal. eapply refl_enc_spec; eauto. }
  assert (Hfuel : forall v t, In v args -> has_ty v t = true -> (dyn_depth v <= fuel)%nat).
  { intros v t Hin Hv. pose proof (dyn_depth_le_len v t Hv) as Hd. unfold fuel. rewrite Hsame, app_length.
    assert ((List.length (spec_enc v) <= List.length (flat_map spec_enc args))%nat).
    { clear - Hin. induction args as [|a l IH]; [destruct Hin|]. cbn [flat_map]. rewrite app_length.
      destruct Hin as [->|Hin]; [lia| specialize (IH Hin); lia]. }
    lia. }
  rewrite Hsame.
  apply (seq_with_exact spec_enc).
  clear Hsame. revert Hfuel. generalize fuel. clear fuel.
  induction HF as [|v t vs ts' (Hg & Hv & Hd) HF IH]; intros fuel Hfuel; [constructor|].
  cbn [map]. constructor.
  - intro r. apply spec_dec_enc_top; auto using good_ty_wf. eapply Hfuel; [left; reflexivity|exact Hv].
  - apply IH. intros v' t' Hin Hv'. eapply Hfuel; [right; exact Hin|exact Hv'].
Qed.

(* the value returned by the implementation reaches the caller unchanged *)
Theorem call_result_roundtrip : forall c r t rest, refl_drop8 c = false ->
  good_ty t = true -> has_ty r t = true -> refl_domain t = true -> lens_ok r = true -> keys_nodup r ->
  proxy_recv c t (stub_reply r ++ rest) = ROk (r, rest).
Proof. intros c r t rest Hc Hg Hr Hd Hl Hk. unfold proxy_recv, stub_reply. apply refl_dec_spec; auto using good_ty_wf. Qed.

(* signal and property payloads: generated helper to generated subscriber *)
Theorem signal_roundtrip : forall v t rest, good_ty t = true -> has_ty v t = true ->
  subscriber_recv t (emit v ++ rest) = ROk (v, rest).
Proof.
  intros v t rest Hg Hv. unfold subscriber_recv, emit. apply spec_dec_enc_top; auto using good_ty_wf.
  pose proof (dyn_depth_le_len v t Hv) as Hd. rewrite app_length. lia.
Qed.

(* a proxy built against the pinned reflection encoder loses 8-bit arguments (repaired: 91673c3) *)
Lemma call_args_refuted_drop8 :
  exists r, stub_recv [TTuple [TS SI8; TS SI32]] (proxy_send WireRefute.only_drop8 [WireRefute.s8]) = r /\ r <> ROk ([WireRefute.s8], []).
Proof. eexists. split; [reflexivity|]. vm_compute. discriminate. Qed.
