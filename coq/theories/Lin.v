(* Lin.v — a generic, executable linearizability checker for finite concurrent histories.

   Generic in the sequential specification: a state type [St], an operation type [Op], a
   result type [Res], a total step function [step : St -> Op -> St * Res] and a boolean
   equality on results.  Nothing here mentions the service directory; C15 instantiates it
   with the directory spec, C14 with a register spec.

   A history is a list of operation records [orec]: the calling thread, the operation, the
   time of the invocation and (when the call returned) the time of the response with the
   result.  Times come from one logical clock (any strictly monotone stamping of the
   invocation and response events).  Operation a precedes b (real-time order) when the
   response of a is stamped before the invocation of b; per-client program order is the
   special case of two calls of one thread.  A pending call (no response) may take effect or
   not.

   [linearizable step init h]   the declarative definition (Herlihy & Wing): some sequence
                                made of all completed calls of h and some of the pending ones
                                is a legal run of the spec with the recorded results and
                                never orders b before a when a precedes b.
   [lin_check step res_eqb init h]   Wing & Gong search, executable ([vm_compute]);
                                exponential in the number of overlapping calls.
   LinProofs.v:  lin_check ... = true <-> linearizable ...   (sound and complete),
                 atomic_lin: every history of an object whose operations take effect in one
                 atomic step inside their call interval is linearizable.

   No proofs in this file. *)
From Coq Require Import List NArith Bool Permutation.
Import ListNotations.
Local Open Scope N_scope.

Section Lin.
  Variables St Op Res : Type.
  Variable step : St -> Op -> St * Res.
  Variable res_eqb : Res -> Res -> bool.

  (* ---------- histories as operation records ---------- *)

  Record orec := { o_tid : N; o_op : Op; o_inv : N; o_ret : option (N * Res) }.

  Definition precedes (a b : orec) : bool :=
    match o_ret a with Some (u, _) => u <? o_inv b | None => false end.
  Definition pending (a : orec) : bool :=
    match o_ret a with None => true | Some _ => false end.

  (* ---------- declarative definition ---------- *)

  Fixpoint legal (s : St) (lin : list orec) : Prop :=
    match lin with
    | [] => True
    | x :: l =>
        match o_ret x with None => True | Some (_, r0) => snd (step s (o_op x)) = r0 end /\
        legal (fst (step s (o_op x))) l
    end.

  (* a later element of the sequence never precedes an earlier one *)
  Definition rt_ok (lin : list orec) : Prop :=
    ForallOrdPairs (fun a b => precedes b a = false) lin.

  Definition linearizable (init : St) (h : list orec) : Prop :=
    exists lin rest, Permutation h (lin ++ rest) /\ Forall (fun x => o_ret x = None) rest /\
                     legal init lin /\ rt_ok lin.

  (* ---------- executable checker ---------- *)

  (* every way of taking one element out of a list *)
  Fixpoint picks {A} (l : list A) : list (A * list A) :=
    match l with
    | [] => []
    | x :: r => (x, r) :: map (fun p => (fst p, x :: snd p)) (picks r)
    end.

  (* short-circuit versions: vm_compute is call by value, [||] and [existsb] would
     evaluate every branch of the search *)
  Fixpoint any {A} (f : A -> bool) (l : list A) : bool :=
    match l with [] => false | x :: r => if f x then true else any f r end.
  Fixpoint all {A} (f : A -> bool) (l : list A) : bool :=
    match l with [] => true | x :: r => if f x then all f r else false end.

  Definition ok_result (x : orec) (r : Res) : bool :=
    match o_ret x with None => true | Some (_, r0) => res_eqb r r0 end.

  (* candidate x may be linearized first: nothing that remains precedes it, and the spec
     gives the recorded result *)
  Fixpoint lin_search (fuel : nat) (s : St) (rem : list orec) : bool :=
    if all pending rem then true
    else
      match fuel with
      | O => false
      | S f =>
          any (fun p =>
                 let x := fst p in
                 if all (fun y => negb (precedes y x)) (snd p) then
                   let sr := step s (o_op x) in
                   if ok_result x (snd sr) then lin_search f (fst sr) (snd p) else false
                 else false)
              (picks rem)
      end.

  Definition lin_check (init : St) (h : list orec) : bool := lin_search (List.length h) init h.

  (* well-formedness of a recorded history (not needed by the theorems about lin_check; the
     run files use it to reject a recording that no clock could have produced): responses
     after invocations, and the calls of one thread do not overlap *)
  Definition orec_wf (x : orec) : bool :=
    match o_ret x with None => true | Some (u, _) => o_inv x <? u end.
  Definition disjoint_calls (a b : orec) : bool :=
    negb (o_tid a =? o_tid b) || precedes a b || precedes b a.
  Fixpoint hist_wf (h : list orec) : bool :=
    match h with
    | [] => true
    | x :: r => orec_wf x && all (disjoint_calls x) r && hist_wf r
    end.

  (* ---------- histories as invocation / response events ---------- *)

  Inductive event := EInv (t : N) (o : Op) | ERet (t : N) (r : Res).
  Definition tevent := (N * event)%type.     (* time stamp, event *)

  (* the response to a call of thread t, looking at what follows its invocation *)
  Fixpoint first_ret (t : N) (h : list tevent) : option (N * Res) :=
    match h with
    | [] => None
    | (u, ERet t' r) :: h' => if t' =? t then Some (u, r) else first_ret t h'
    | (_, EInv t' _) :: h' => if t' =? t then None else first_ret t h'
    end.

  Fixpoint ops_of (h : list tevent) : list orec :=
    match h with
    | [] => []
    | (i, EInv t o) :: h' => {| o_tid := t; o_op := o; o_inv := i; o_ret := first_ret t h' |} :: ops_of h'
    | (_, ERet _ _) :: h' => ops_of h'
    end.

  (* ---------- an object whose operations are atomic ---------- *)

  (* thread t: invoke (LInv), the object performs the whole operation in one step (LLin),
     the call returns that result (LRet).  Threads with no entry are idle. *)
  Inductive alabel := LInv (t : N) (o : Op) | LLin (t : N) | LRet (t : N) (r : Res).
  Inductive tstate := TPend (o : Op) (inv : N) | TDone (o : Op) (inv : N) (r : Res).
  Definition tmap := list (N * tstate).

  Fixpoint tget (t : N) (m : tmap) : option tstate :=
    match m with [] => None | (t', v) :: r => if t' =? t then Some v else tget t r end.
  Definition tdel (t : N) (m : tmap) : tmap := filter (fun p => negb (fst p =? t)) m.
  Definition tset (t : N) (v : tstate) (m : tmap) : tmap := (t, v) :: tdel t m.

  Inductive astep : St * tmap -> N * alabel -> St * tmap -> Prop :=
  | AInv : forall s m u t o, tget t m = None -> astep (s, m) (u, LInv t o) (s, tset t (TPend o u) m)
  | ALin : forall s m u t o i, tget t m = Some (TPend o i) ->
      astep (s, m) (u, LLin t) (fst (step s o), tset t (TDone o i (snd (step s o))) m)
  | ARet : forall s m u t o i r, tget t m = Some (TDone o i r) -> astep (s, m) (u, LRet t r) (s, tdel t m).

  Inductive arun : St * tmap -> list (N * alabel) -> St * tmap -> Prop :=
  | ARnil : forall st, arun st [] st
  | ARcons : forall st e st' tr st'', astep st e st' -> arun st' tr st'' -> arun st (e :: tr) st''.

  (* what a client sees of such a run *)
  Fixpoint erase (tr : list (N * alabel)) : list tevent :=
    match tr with
    | [] => []
    | (u, LInv t o) :: r => (u, EInv t o) :: erase r
    | (u, LRet t x) :: r => (u, ERet t x) :: erase r
    | (_, LLin _) :: r => erase r
    end.

  (* strictly increasing time stamps, all above lb *)
  Fixpoint stamped {A} (lb : N) (tr : list (N * A)) : Prop :=
    match tr with [] => True | (u, _) :: r => lb < u /\ stamped u r end.
End Lin.

Arguments o_tid {Op Res} o.
Arguments o_op {Op Res} o.
Arguments o_inv {Op Res} o.
Arguments o_ret {Op Res} o.
Arguments Build_orec {Op Res}.
Arguments precedes {Op Res} a b.
Arguments pending {Op Res} a.
Arguments legal {St Op Res} step s lin.
Arguments rt_ok {Op Res} lin.
Arguments linearizable {St Op Res} step init h.
Arguments ok_result {Op Res} res_eqb x r.
Arguments lin_search {St Op Res} step res_eqb fuel s rem.
Arguments lin_check {St Op Res} step res_eqb init h.
Arguments orec_wf {Op Res} x.
Arguments disjoint_calls {Op Res} a b.
Arguments hist_wf {Op Res} h.
Arguments EInv {Op Res} t o.
Arguments ERet {Op Res} t r.
Arguments first_ret {Op Res} t h.
Arguments ops_of {Op Res} h.
Arguments LInv {Op Res} t o.
Arguments LLin {Op Res} t.
Arguments LRet {Op Res} t r.
Arguments TPend {Op Res} o inv.
Arguments TDone {Op Res} o inv r.
Arguments tget {Op Res} t m.
Arguments tdel {Op Res} t m.
Arguments tset {Op Res} t v m.
Arguments astep {St Op Res} step _ _ _.
Arguments arun {St Op Res} step _ _ _.
Arguments erase {Op Res} tr.
