(* ReaderProofs.v — ReadN over every fragmentation; WriteN over every short-write schedule. *)
From QV Require Import Reader.
Local Open Scope nat_scope.

Definition pos_sched (sch : list (nat * bool)) : Prop := Forall (fun p => 1 <= fst p) sch.

Lemma firstn_firstn_skipn {A} (m L : nat) (d : list A) :
  m <= L -> firstn m d ++ firstn (L - m) (skipn m d) = firstn L d.
Proof.
  revert L d; induction m as [|m IH]; intros L d H.
  - cbn. now rewrite Nat.sub_0_r.
  - destruct L as [|L]; [lia|]. destruct d as [|x d]; cbn [firstn skipn app Nat.sub].
    + now rewrite firstn_nil.
    + f_equal. apply IH. lia.
Qed.

Lemma firstn_firstn_skipn' {A} (m L : nat) (d : list A) :
  m <= L -> firstn m d ++ firstn (L - m) (skipn m d) = firstn L d.
Proof. apply firstn_firstn_skipn. Qed.

Lemma skipn_skipn_add {A} (m k : nat) (d : list A) : skipn k (skipn m d) = skipn (m + k) d.
Proof.
  revert d; induction m as [|m IH]; intro d; [reflexivity|].
  destruct d as [|x d]; cbn [skipn Nat.add]; [now rewrite skipn_nil| apply IH].
Qed.

Lemma skipn_nil_length {A} (m : nat) (d : list A) : skipn m d = [] -> List.length d <= m.
Proof.
  intro H. pose proof (skipn_length m d) as E. rewrite H in E. cbn in E. lia.
Qed.

(* Main lemma: enough bytes + positive chunks => ReadN returns exactly the first n bytes
   and leaves exactly the rest, whatever the fragmentation (incl. data together with EOF). *)
Lemma readN_loop_frag :
  forall sch fuel n acc d,
    pos_sched sch -> List.length sch + 1 <= fuel -> n <= List.length acc + List.length d ->
    exists sch',
      readN_loop fuel n acc {| s_data := d; s_sched := sch |} =
        Some (Ok (acc ++ firstn (n - List.length acc) d,
                  {| s_data := skipn (n - List.length acc) d; s_sched := sch' |}),
              {| s_data := skipn (n - List.length acc) d; s_sched := sch' |})
      /\ (exists pre, sch = pre ++ sch').
Proof.
  induction sch as [|[k e] r IH]; intros fuel n acc d Hpos Hfuel Hlen.
  - (* schedule exhausted: one read brings everything that is missing *)
    destruct (Nat.leb n (List.length acc)) eqn:Hdone.
    + pose proof (proj1 (Nat.leb_le _ _) Hdone) as Hdone'. exists []. split; [|exists []; reflexivity].
      destruct fuel; cbn [readN_loop]; rewrite Hdone;
        replace (n - List.length acc) with 0 by lia; cbn; now rewrite app_nil_r.
    + destruct fuel as [|fuel]; [cbn in Hfuel; lia|].
      cbn [readN_loop]. rewrite Hdone. apply Nat.leb_gt in Hdone.
      set (L := n - List.length acc) in *.
      assert (HL : 1 <= L) by (unfold L; lia).
      assert (HdL : L <= List.length d) by (unfold L; lia).
      destruct d as [|x d']; [cbn in HdL; lia|].
      unfold read1. cbn [s_sched s_data].
      set (dd := x :: d') in *.
      replace (Nat.min L (Nat.min L (List.length dd))) with L by lia.
      assert (Hgot : List.length (firstn L dd) = L) by (rewrite firstn_length; lia).
      assert (Hdec : readN_decide (List.length (firstn L dd)) (List.length (acc ++ firstn L dd)) n
                       match skipn L dd with [] => false | _ => false end = LContinue).
      { unfold readN_decide. destruct (skipn L dd); cbn [negb andb];
          rewrite Hgot; destruct L; [lia| reflexivity | lia | reflexivity]. }
      destruct (skipn L dd) eqn:Hsk.
      * rewrite Hdec. exists []. split; [|exists []; reflexivity].
        assert (Hfull : Nat.leb n (List.length (acc ++ firstn L dd)) = true).
        { apply Nat.leb_le. rewrite app_length, Hgot. unfold L. lia. }
        destruct fuel; cbn [readN_loop]; rewrite Hfull; reflexivity.
      * rewrite Hdec. exists []. split; [|exists []; reflexivity].
        assert (Hfull : Nat.leb n (List.length (acc ++ firstn L dd)) = true).
        { apply Nat.leb_le. rewrite app_length, Hgot. unfold L. lia. }
        destruct fuel; cbn [readN_loop]; rewrite Hfull; reflexivity.
  - inversion Hpos as [|p r' Hk Hr]; subst. cbn [fst] in Hk.
    destruct (Nat.leb n (List.length acc)) eqn:Hdone.
    + pose proof (proj1 (Nat.leb_le _ _) Hdone) as Hdone'. exists ((k, e) :: r). split; [|exists []; reflexivity].
      destruct fuel; cbn [readN_loop]; rewrite Hdone;
        replace (n - List.length acc) with 0 by lia; cbn; now rewrite app_nil_r.
    + destruct fuel as [|fuel]; [cbn in Hfuel; lia|].
      cbn [readN_loop]. rewrite Hdone. apply Nat.leb_gt in Hdone.
      set (L := n - List.length acc) in *.
      assert (HL : 1 <= L) by (unfold L; lia).
      assert (HdL : L <= List.length d) by (unfold L; lia).
      destruct d as [|x d']; [cbn in HdL; lia|].
      unfold read1. cbn [s_sched s_data].
      set (dd := x :: d') in *.
      set (m := Nat.min k (Nat.min L (List.length dd))).
      assert (Hm1 : 1 <= m) by (unfold m; lia).
      assert (HmL : m <= L) by (unfold m; lia).
      assert (Hgot : List.length (firstn m dd) = m) by (rewrite firstn_length; lia).
      destruct (skipn m dd) as [|y rest] eqn:Hsk.
      * (* the read drained the source: then m = L = |dd| *)
        apply skipn_nil_length in Hsk as Hle.
        assert (HmEq : m = L) by lia.
        assert (Hsz : List.length (acc ++ firstn m dd) = n)
          by (rewrite app_length, Hgot; unfold L in *; lia).
        exists r. split; [|exists [(k, e)]; reflexivity].
        unfold readN_decide. rewrite Hgot, Hsz, Nat.eqb_refl.
        replace (Nat.eqb m 0) with false by (symmetry; apply Nat.eqb_neq; lia).
        assert (Hsk' : skipn L dd = []) by (rewrite <- HmEq; exact Hsk).
        destruct e; cbn [negb andb].
        -- rewrite HmEq, Hsk'. reflexivity.
        -- (* continue, and the next iteration sees a full buffer *)
          assert (Hfull : Nat.leb n (List.length (acc ++ firstn m dd)) = true)
            by (apply Nat.leb_le; lia).
          destruct fuel; cbn [readN_loop]; rewrite Hfull; rewrite HmEq, Hsk'; reflexivity.
      * unfold readN_decide. rewrite Hgot. cbn [negb andb].
        replace (Nat.eqb m 0) with false by (symmetry; apply Nat.eqb_neq; lia).
        cbn [negb andb].
        destruct (IH fuel n (acc ++ firstn m dd) (y :: rest) Hr) as [sch' [Hrun [pre Hpre]]].
        { cbn in Hfuel. lia. }
        { rewrite app_length, Hgot. pose proof (skipn_length m dd) as E. rewrite Hsk in E.
          cbn [List.length] in E |- *. unfold L in *. lia. }
        exists sch'. split; [|exists ((k, e) :: pre); now rewrite Hpre].
        rewrite Hrun. rewrite app_length, Hgot.
        replace (n - (List.length acc + m)) with (L - m) by (unfold L; lia).
        rewrite <- Hsk. rewrite skipn_skipn_add.
        replace (m + (L - m)) with L by lia.
        rewrite <- app_assoc, firstn_firstn_skipn by exact HmL. reflexivity.
Qed.

Theorem readN_frag :
  forall n bs rest sch, pos_sched sch -> List.length bs = n ->
    exists sch', readN_full n {| s_data := bs ++ rest; s_sched := sch |} =
      Some (Ok (bs, {| s_data := rest; s_sched := sch' |}), {| s_data := rest; s_sched := sch' |})
      /\ pos_sched sch'.
Proof.
  intros n bs rest sch Hpos Hlen. unfold readN_full.
  destruct (readN_loop_frag sch (List.length sch + 2) n [] (bs ++ rest) Hpos) as [sch' [H [pre Hpre]]].
  - cbn [s_sched]. lia.
  - cbn [List.length]. rewrite app_length. lia.
  - exists sch'. cbn [s_sched s_data] in *. split.
    + rewrite H. cbn [List.length app]. rewrite Nat.sub_0_r, <- Hlen.
      now rewrite firstn_app_exact, skipn_app_exact.
    + unfold pos_sched in *. rewrite Hpre in Hpos. apply Forall_app in Hpos. tauto.
Qed.

(* ReadN never runs out of fuel, for any schedule (also zero-length reads). *)
Lemma readN_loop_total :
  forall sch fuel n acc d, List.length sch + 2 <= fuel ->
    readN_loop fuel n acc {| s_data := d; s_sched := sch |} <> None.
Proof.
  assert (Hnil : forall fuel n acc d, 2 <= fuel ->
             readN_loop fuel n acc {| s_data := d; s_sched := [] |} <> None).
  { intros fuel n acc d Hf.
    destruct fuel as [|[|fuel]]; try lia.
    cbn [readN_loop]. destruct (Nat.leb n (List.length acc)) eqn:E1; [discriminate|].
    unfold read1 at 1. cbn [s_sched s_data].
    destruct d as [|x d'].
    - unfold readN_decide. cbn [negb andb]. rewrite app_nil_r.
      destruct (Nat.eqb (List.length acc) n); [discriminate|].
      destruct (Nat.eqb (List.length acc) 0); discriminate.
    - set (dd := x :: d'). set (L := n - List.length acc).
      apply Nat.leb_gt in E1.
      set (m := Nat.min L (Nat.min L (List.length dd))).
      assert (Hm : 1 <= m) by (unfold m, L, dd; cbn [List.length]; lia).
      assert (Hgot : List.length (firstn m dd) = m) by (rewrite firstn_length; unfold m; lia).
      assert (Hdec : forall b, readN_decide (List.length (firstn m dd)) (List.length (acc ++ firstn m dd)) n
                 match skipn m dd with [] => false | _ => b && false end = LContinue).
      { intro b. unfold readN_decide. rewrite Hgot.
        replace (Nat.eqb m 0) with false by (symmetry; apply Nat.eqb_neq; lia).
        destruct (skipn m dd); [reflexivity| now rewrite andb_false_r]. }
      specialize (Hdec false).
      assert (Hsame : match skipn m dd with [] => false | _ :: _ => false && false end
                      = match skipn m dd with [] => false | _ :: _ => false end)
        by (destruct (skipn m dd); reflexivity).
      rewrite Hsame in Hdec. rewrite Hdec.
      cbn [readN_loop].
      destruct (Nat.leb n (List.length (acc ++ firstn m dd))) eqn:E2; [discriminate|].
      apply Nat.leb_gt in E2. rewrite app_length, Hgot in E2.
      (* then m = |dd| < L and the source is now empty *)
      assert (Hsk : skipn m dd = []).
      { apply skipn_all2. unfold m, L in *. lia. }
      rewrite Hsk. unfold read1. cbn [s_sched s_data].
      unfold readN_decide. cbn [negb andb]. rewrite app_nil_r.
      destruct (Nat.eqb (List.length (acc ++ firstn m dd)) n); [discriminate|].
      destruct (Nat.eqb (List.length (acc ++ firstn m dd)) 0); discriminate. }
  induction sch as [|[k e] r IH]; intros fuel n acc d Hf.
  - apply Hnil. cbn in Hf. lia.
  - destruct fuel as [|fuel]; [cbn in Hf; lia|].
    cbn [readN_loop]. destruct (Nat.leb n (List.length acc)); [discriminate|].
    unfold read1. cbn [s_sched s_data].
    destruct d as [|x d'].
    + destruct (readN_decide _ _ _ _); try discriminate. apply IH. cbn in Hf. lia.
    + destruct (readN_decide _ _ _ _); try discriminate. apply IH. cbn in Hf. lia.
Qed.

Lemma readN_full_total n s : readN_full n s <> None.
Proof. destruct s as [d sch]. unfold readN_full. apply readN_loop_total. cbn. lia. Qed.

(* Short input is never accepted: fewer than n bytes available => not Ok, for every schedule. *)
Lemma readN_loop_short :
  forall fuel n acc s r s', List.length acc + List.length (s_data s) < n ->
    readN_loop fuel n acc s = Some (r, s') -> exists e, r = Err e.
Proof.
  induction fuel as [|fuel IH]; intros n acc s r s' Hshort Hrun.
  - cbn in Hrun. destruct (Nat.leb n (List.length acc)) eqn:E; [|discriminate].
    apply Nat.leb_le in E. lia.
  - cbn [readN_loop] in Hrun.
    destruct (Nat.leb n (List.length acc)) eqn:E; [apply Nat.leb_le in E; lia|].
    destruct (read1 (n - List.length acc) s) as [[got eof] s1] eqn:Hr.
    assert (Hinv : List.length (acc ++ got) + List.length (s_data s1) <= List.length acc + List.length (s_data s)).
    { unfold read1 in Hr. destruct (s_sched s) as [|[k e] rr]; destruct (s_data s) as [|x d'] eqn:Hd;
        inversion Hr; subst; cbn [s_data List.length]; rewrite ?app_nil_r; try lia;
        rewrite app_length, firstn_length, skipn_length; cbn [List.length]; lia. }
    destruct (readN_decide (List.length got) (List.length (acc ++ got)) n eof) eqn:Hd.
    + eapply IH; [|exact Hrun]. lia.
    + unfold readN_decide in Hd.
      destruct (negb eof && negb (Nat.eqb (List.length got) 0)); [discriminate|].
      destruct (eof && Nat.eqb (List.length (acc ++ got)) n) eqn:E2.
      * apply andb_true_iff in E2 as [_ E2]. apply Nat.eqb_eq in E2. lia.
      * destruct (eof && Nat.eqb (List.length (acc ++ got)) 0); discriminate.
    + inversion Hrun; subst. eexists; reflexivity.
    + inversion Hrun; subst. eexists; reflexivity.
Qed.

Lemma readN_full_short n s r s' :
  List.length (s_data s) < n -> readN_full n s = Some (r, s') -> exists e, r = Err e.
Proof. intros H. unfold readN_full. apply readN_loop_short. cbn. lia. Qed.

(* an empty source gives io.EOF itself (forwarded by Message.Read) when n > 0 *)
Lemma readN_full_empty n sch : 1 <= n ->
  exists s', readN_full n {| s_data := []; s_sched := sch |} = Some (Err EEOF, s').
Proof.
  intro Hn. unfold readN_full. cbn [s_sched].
  replace (List.length sch + 2) with (S (List.length sch + 1)) by lia.
  cbn [readN_loop List.length]. replace (Nat.leb n 0) with false by (symmetry; apply Nat.leb_gt; lia).
  unfold read1. cbn [s_data s_sched].
  destruct sch as [|[k e] r]; cbn; destruct n; try lia; eexists; reflexivity.
Qed.

(* ---- WriteN ---- *)
Definition pos_wsched (sch : list nat) : Prop := Forall (fun k => 1 <= k) sch.

Lemma writeN_loop_concat :
  forall sch fuel buf calls, pos_wsched sch -> List.length sch + 1 <= fuel ->
    exists w', writeN_loop fuel (List.length buf) buf {| w_calls := calls; w_sched := sch |} = Some (Ok w')
      /\ exists more, w_calls w' = calls ++ more /\ concat more = buf /\
           (buf <> [] -> more <> []) /\ Forall (fun c => c <> []) more /\
           (sch = [] -> buf <> [] -> more = [buf]).
Proof.
  induction sch as [|k r IH]; intros fuel buf calls Hpos Hfuel.
  - destruct buf as [|x b].
    + destruct fuel; cbn; eexists; (split; [reflexivity|]); exists []; cbn;
        rewrite app_nil_r; repeat split; try congruence; constructor.
    + destruct fuel as [|fuel]; [cbn in Hfuel; lia|].
      cbn [writeN_loop List.length]. unfold write1. cbn [w_sched w_calls].
      cbn [Nat.eqb List.length]. rewrite Nat.sub_diag.
      replace (skipn (S (List.length b)) (x :: b)) with (@nil byte) by (symmetry; apply skipn_all2; cbn; lia).
      destruct fuel; cbn [writeN_loop]; eexists; (split; [reflexivity|]); cbn [w_calls];
        exists [x :: b]; cbn; rewrite app_nil_r; repeat split; try congruence;
        repeat constructor; congruence.
  - inversion Hpos as [|k' r' Hk Hr]; subst.
    destruct buf as [|x b].
    + destruct fuel; cbn; eexists; (split; [reflexivity|]); exists []; cbn;
        rewrite app_nil_r; repeat split; try congruence; constructor.
    + destruct fuel as [|fuel]; [cbn in Hfuel; lia|].
      cbn [writeN_loop]. set (buf := x :: b).
      change (match List.length buf with 0 => Some (Ok {| w_calls := calls; w_sched := k :: r |}) | S _ =>
               let '(m, w') := write1 buf {| w_calls := calls; w_sched := k :: r |} in
               if Nat.eqb m 0 then Some (Err EOther) else writeN_loop fuel (List.length buf - m) (skipn m buf) w' end)
        with (let '(m, w') := write1 buf {| w_calls := calls; w_sched := k :: r |} in
               if Nat.eqb m 0 then Some (Err EOther) else writeN_loop fuel (List.length buf - m) (skipn m buf) w').
      unfold write1. cbn [w_sched w_calls].
      set (m := Nat.min k (List.length buf)).
      assert (Hm : 1 <= m) by (unfold m, buf; cbn [List.length]; lia).
      replace (Nat.eqb m 0) with false by (symmetry; apply Nat.eqb_neq; lia).
      assert (Hlen : List.length buf - m = List.length (skipn m buf)) by (rewrite skipn_length; reflexivity).
      rewrite Hlen.
      destruct (IH fuel (skipn m buf) (calls ++ [firstn m buf]) Hr) as [w' [Hrun [more [Hc [Hcat [_ [Hne _]]]]]]].
      { cbn in Hfuel. lia. }
      exists w'. split; [exact Hrun|].
      exists (firstn m buf :: more). rewrite Hc, <- app_assoc. cbn [app concat].
      rewrite Hcat, firstn_skipn. repeat split; try congruence.
      constructor; [|exact Hne].
      intro E. apply (f_equal (@List.length byte)) in E. rewrite firstn_length in E. cbn in E.
      unfold m, buf in *. cbn [List.length] in *. lia.
Qed.

(* what ReadN returns is a prefix of what the source held, and exactly n bytes *)
Lemma read1_split L s got eof s1 : read1 L s = (got, eof, s1) ->
  got ++ s_data s1 = s_data s /\ List.length got <= L.
Proof.
  unfold read1. intro H.
  destruct (s_sched s) as [|[k e] r]; destruct (s_data s) as [|x d] eqn:Hd; inversion H; subst;
    cbn [s_data app List.length]; try (split; [reflexivity|lia]);
    (split; [apply firstn_skipn | rewrite firstn_length; lia]).
Qed.

Lemma readN_loop_prefix :
  forall fuel n acc s b sb s1, readN_loop fuel n acc s = Some (Ok (b, sb), s1) ->
    b ++ s_data s1 = acc ++ s_data s /\ (List.length acc <= n -> List.length b = n).
Proof.
  induction fuel as [|fuel IH]; intros n acc s b sb s1 Hrun.
  - cbn in Hrun. destruct (Nat.leb n (List.length acc)) eqn:E; [|discriminate].
    inversion Hrun; subst. apply Nat.leb_le in E. split; [reflexivity|lia].
  - cbn [readN_loop] in Hrun. destruct (Nat.leb n (List.length acc)) eqn:E.
    + inversion Hrun; subst. apply Nat.leb_le in E. split; [reflexivity|lia].
    + apply Nat.leb_gt in E.
      destruct (read1 (n - List.length acc) s) as [[got eof] s'] eqn:Hr.
      destruct (read1_split _ _ _ _ _ Hr) as [Hsp Hle].
      destruct (readN_decide (List.length got) (List.length (acc ++ got)) n eof) eqn:Hd.
      * destruct (IH _ _ _ _ _ _ Hrun) as [H1 H2]. split.
        -- rewrite H1, <- app_assoc, Hsp. reflexivity.
        -- intros _. apply H2. rewrite app_length. lia.
      * inversion Hrun; subst. split; [now rewrite <- app_assoc, Hsp|].
        intros _. unfold readN_decide in Hd.
        destruct (negb eof && negb (Nat.eqb (List.length got) 0)); [discriminate|].
        destruct (eof && Nat.eqb (List.length (acc ++ got)) n) eqn:E2.
        -- apply andb_true_iff in E2 as [_ E2]. now apply Nat.eqb_eq in E2.
        -- destruct (eof && Nat.eqb (List.length (acc ++ got)) 0); discriminate.
      * discriminate.
      * discriminate.
Qed.

Lemma app_eq_len_split {A} (a b c d : list A) :
  a ++ b = c ++ d -> List.length a = List.length c -> a = c /\ b = d.
Proof.
  revert c; induction a as [|x a IH]; intros [|y c] H Hl; cbn in *; try discriminate.
  - auto.
  - inversion H; subst. destruct (IH c H2) as [E1 E2]; [lia|]. subst. auto.
Qed.
