(* DirectoryProofs.v — invariants of the abstract registry, the property clauses of C15 over
   every operation sequence, refinement of the abstract spec by the transliterated
   implementation, and linearizability of the synchronised directory. *)
From Coq Require Import List NArith Bool String Permutation Lia Sorting.Sorted.
From QV Require Import Lin LinProofs Directory.
Import ListNotations.
Local Open Scope N_scope.

(* ---------- boolean equalities ---------- *)
Lemma list_eqb_spec : forall A (f : A -> A -> bool), (forall a b, f a b = true <-> a = b) ->
  forall l1 l2, list_eqb f l1 l2 = true <-> l1 = l2.
Proof.
  intros A f Hf l1; induction l1 as [|x l1 IH]; intros [|y l2]; simpl; split; intros H; try congruence; try discriminate.
  - apply andb_true_iff in H. destruct H as [H1 H2]. apply Hf in H1. apply IH in H2. congruence.
  - inversion H; subst. apply andb_true_iff. split; [apply Hf; reflexivity | apply IH; reflexivity].
Qed.

Lemma info_eqb_spec : forall a b, info_eqb a b = true <-> a = b.
Proof.
  intros [n1 i1 m1 p1 e1 s1 u1] [n2 i2 m2 p2 e2 s2 u2]; unfold info_eqb; simpl.
  rewrite !andb_true_iff, !String.eqb_eq, !N.eqb_eq, (list_eqb_spec _ _ String.eqb_eq).
  split.
  - intros [[[[[[? ?] ?] ?] ?] ?] ?]; subst; reflexivity.
  - intros H; inversion H; subst; repeat split; reflexivity.
Qed.

Lemma dres_eqb_spec : forall a b, dres_eqb a b = true <-> a = b.
Proof.
  intros [x| | |x|x| ] [y| | |y|y| ]; simpl; split; intros H; try discriminate; try reflexivity; try congruence.
  - apply N.eqb_eq in H; congruence.
  - inversion H; apply N.eqb_eq; reflexivity.
  - apply info_eqb_spec in H; congruence.
  - inversion H; apply info_eqb_spec; reflexivity.
  - apply (list_eqb_spec _ _ info_eqb_spec) in H; congruence.
  - inversion H; apply (list_eqb_spec _ _ info_eqb_spec); reflexivity.
Qed.

(* ---------- lists ---------- *)
Lemma NoDup_map_inj_in : forall A B (f : A -> B) l x y,
  NoDup (map f l) -> In x l -> In y l -> f x = f y -> x = y.
Proof.
  intros A B f l; induction l as [|a l IH]; simpl; intros x y Hnd Hx Hy Hf; [destruct Hx|].
  inversion Hnd as [|? ? Hn Hd]; subst.
  destruct Hx as [->|Hx], Hy as [->|Hy]; auto.
  - exfalso; apply Hn. rewrite Hf. apply in_map; exact Hy.
  - exfalso; apply Hn. rewrite <- Hf. apply in_map; exact Hx.
Qed.

Lemma NoDup_map_filter : forall A B (f : A -> B) p l, NoDup (map f l) -> NoDup (map f (filter p l)).
Proof.
  intros A B f p l; induction l as [|a l IH]; simpl; intros H; [constructor|].
  inversion H as [|? ? Hn Hd]; subst. destruct (p a); simpl; auto.
  constructor; auto. intros Hc. apply Hn. apply in_map_iff in Hc. destruct Hc as [x [Hx Hin]].
  apply filter_In in Hin. apply in_map_iff. exists x; tauto.
Qed.

Lemma NoDup_snoc : forall A (l : list A) x, NoDup l -> ~ In x l -> NoDup (l ++ [x]).
Proof.
  intros A l x; induction l as [|a l IH]; simpl; intros Hnd Hn.
  - constructor; [intros [] | constructor].
  - inversion Hnd as [|? ? Ha Hd]; subst. constructor.
    + intros Hc. apply in_app_or in Hc. destruct Hc as [Hc|[Hc|[]]]; [tauto | subst; tauto].
    + apply IH; tauto.
Qed.

Lemma NoDup_map_snoc : forall A B (f : A -> B) l x,
  NoDup (map f l) -> ~ In (f x) (map f l) -> NoDup (map f (l ++ [x])).
Proof.
  intros A B f l x Hnd Hn. rewrite map_app. simpl.
  apply NoDup_snoc; auto.
Qed.

(* ---------- sort.Sort by ServiceId ---------- *)
Definition id_le (x y : info) : Prop := i_id x <= i_id y.

Lemma insert_perm : forall x l, Permutation (insert_info x l) (x :: l).
Proof.
  intros x l; induction l as [|y l IH]; simpl; [apply Permutation_refl|].
  destruct (i_id x <=? i_id y); [apply Permutation_refl|].
  eapply perm_trans; [apply perm_skip; exact IH | apply perm_swap].
Qed.

Lemma isort_perm : forall l, Permutation (isort l) l.
Proof.
  induction l as [|x l IH]; simpl; [constructor|].
  eapply perm_trans; [apply insert_perm | apply perm_skip; exact IH].
Qed.

Lemma insert_sorted : forall x l, StronglySorted id_le l -> StronglySorted id_le (insert_info x l).
Proof.
  intros x l; induction l as [|y l IH]; simpl; intros Hs.
  - constructor; constructor.
  - inversion Hs as [|? ? Hs' Hy]; subst.
    destruct (i_id x <=? i_id y) eqn:E.
    + apply N.leb_le in E. constructor; [exact Hs|]. constructor; [exact E|].
      eapply Forall_impl; [|exact Hy]. unfold id_le; intros a Ha; lia.
    + apply N.leb_gt in E. constructor; [apply IH; exact Hs'|].
      eapply Permutation_Forall; [apply Permutation_sym; apply insert_perm|].
      constructor; [unfold id_le; lia | exact Hy].
Qed.

Lemma isort_sorted : forall l, StronglySorted id_le (isort l).
Proof. induction l as [|x l IH]; simpl; [constructor | apply insert_sorted; exact IH]. Qed.

Lemma sorted_perm_eq : forall l1 l2, NoDup (map i_id l1) ->
  StronglySorted id_le l1 -> StronglySorted id_le l2 -> Permutation l1 l2 -> l1 = l2.
Proof.
  induction l1 as [|a l1 IH]; intros l2 Hnd H1 H2 HP.
  - apply Permutation_nil in HP; subst; reflexivity.
  - destruct l2 as [|b l2]; [apply Permutation_sym in HP; apply Permutation_nil in HP; discriminate|].
    inversion H1 as [|? ? H1' Ha]; subst. inversion H2 as [|? ? H2' Hb]; subst.
    assert (Hab : a = b).
    { assert (Hina : In a (b :: l2)) by (eapply Permutation_in; [exact HP | left; reflexivity]).
      assert (Hinb : In b (a :: l1)) by (eapply Permutation_in; [apply Permutation_sym; exact HP | left; reflexivity]).
      destruct Hina as [Hina|Hina]; [congruence|]. destruct Hinb as [Hinb|Hinb]; [congruence|].
      rewrite Forall_forall in Ha, Hb. specialize (Ha _ Hinb). specialize (Hb _ Hina). unfold id_le in *.
      eapply (NoDup_map_inj_in _ _ i_id (a :: l1)); [exact Hnd | left; reflexivity | right; exact Hinb | lia]. }
    subst b. f_equal. apply IH; auto.
    + inversion Hnd; auto.
    + eapply Permutation_cons_inv; exact HP.
Qed.

Lemma isort_unique : forall l l', NoDup (map i_id l) -> Permutation l l' -> isort l = isort l'.
Proof.
  intros l l' Hnd HP. apply sorted_perm_eq.
  - eapply Permutation_NoDup; [|exact Hnd]. apply Permutation_map. apply Permutation_sym. apply isort_perm.
  - apply isort_sorted.
  - apply isort_sorted.
  - eapply perm_trans; [apply isort_perm|]. eapply perm_trans; [exact HP|]. apply Permutation_sym. apply isort_perm.
Qed.

(* ---------- the abstract registry ---------- *)
Lemma a_find_some : forall id es e, a_find id es = Some e -> In e es /\ a_id e = id.
Proof.
  intros id es e H. unfold a_find in H. apply find_some in H. destruct H as [H1 H2].
  apply N.eqb_eq in H2. auto.
Qed.

Lemma a_find_none : forall id es, a_find id es = None -> forall e, In e es -> a_id e <> id.
Proof.
  intros id es H e He. unfold a_find in H. eapply find_none in H; [|exact He]. apply N.eqb_neq in H. exact H.
Qed.

Lemma a_find_in : forall id es e, NoDup (map a_id es) -> In e es -> a_id e = id -> a_find id es = Some e.
Proof.
  intros id es e Hnd He Hid. destruct (a_find id es) as [e'|] eqn:F.
  - apply a_find_some in F. destruct F as [F1 F2]. f_equal.
    eapply NoDup_map_inj_in; eauto. congruence.
  - exfalso. eapply a_find_none; eauto.
Qed.

Lemma a_del_in : forall id es e, In e (a_del id es) <-> In e es /\ a_id e <> id.
Proof. intros id es e. unfold a_del. rewrite filter_In, negb_true_iff, N.eqb_neq. tauto. Qed.

Lemma a_has_name_false : forall n es, a_has_name n es = false -> ~ In n (map a_name es).
Proof.
  intros n es H Hin. apply in_map_iff in Hin. destruct Hin as [e [Hn He]].
  unfold a_has_name in H. assert (existsb (fun e0 => String.eqb (a_name e0) n) es = true).
  { apply existsb_exists. exists e. split; auto. apply String.eqb_eq; exact Hn. }
  congruence.
Qed.

Record AInv (a : astate) : Prop := {
  ai_ids : NoDup (map a_id (a_entries a));
  ai_names : NoDup (map a_name (a_entries a));
  ai_bound : Forall (fun e => 1 <= a_id e <= a_next a) (a_entries a);
  ai_next : a_next a < W32 }.

Lemma AInv_init : AInv ainit.
Proof. constructor; simpl; try constructor. Qed.

Definition new_entry (i : info) (id : N) : aentry := {| a_info := with_id i id; a_ready := false |}.

(* what each operation can do, case by case *)
Lemma astep_register : forall a i a' r ev, astep a (ORegister i) = (a', r, ev) ->
  (valid_info i = true /\ a_has_name (i_name i) (a_entries a) = false /\ a_next a + 1 < W32 /\
   a' = {| a_entries := a_entries a ++ [new_entry i (a_next a + 1)]; a_next := a_next a + 1 |} /\
   r = RId (a_next a + 1) /\ ev = []) \/
  (a' = a /\ r = RErr /\ ev = []).
Proof.
  intros a i a' r ev H. simpl in H.
  destruct (valid_info i) eqn:V; simpl in H; [|inversion H; auto].
  destruct (a_has_name (i_name i) (a_entries a)) eqn:Hn; simpl in H; [inversion H; auto|].
  destruct (a_next a + 1 <? W32) eqn:L; [|inversion H; auto].
  apply N.ltb_lt in L. inversion H; subst. left. repeat split; auto.
Qed.

Lemma astep_unregister : forall a id a' r ev, astep a (OUnregister id) = (a', r, ev) ->
  (exists e, a_find id (a_entries a) = Some e /\
     a' = {| a_entries := a_del id (a_entries a); a_next := a_next a |} /\ r = ROk /\
     ev = if a_ready e then [EvRemoved id (a_name e)] else []) \/
  (a_find id (a_entries a) = None /\ a' = a /\ r = RErr /\ ev = []).
Proof.
  intros a id a' r ev H. simpl in H. destruct (a_find id (a_entries a)) as [e|] eqn:F.
  - inversion H; subst. left. exists e. auto.
  - inversion H; subst. right. auto.
Qed.

Lemma astep_ready : forall a id a' r ev, astep a (OReady id) = (a', r, ev) ->
  (exists e, a_find id (a_entries a) = Some e /\ a_ready e = false /\
     a' = {| a_entries := a_del id (a_entries a) ++ [{| a_info := a_info e; a_ready := true |}]; a_next := a_next a |} /\
     r = ROk /\ ev = [EvAdded id (a_name e)]) \/
  ((a_find id (a_entries a) = None \/ exists e, a_find id (a_entries a) = Some e /\ a_ready e = true) /\
   a' = a /\ r = RErr /\ ev = []).
Proof.
  intros a id a' r ev H. simpl in H. destruct (a_find id (a_entries a)) as [e|] eqn:F.
  - destruct (a_ready e) eqn:Rd; inversion H; subst.
    + right. split; [right; exists e; auto | auto].
    + left. exists e. auto.
  - inversion H; subst. right. auto.
Qed.

Lemma astep_update : forall a i a' r ev, astep a (OUpdate i) = (a', r, ev) ->
  (exists e, valid_info i = true /\ a_find (i_id i) (a_entries a) = Some e /\ a_ready e = true /\ a_name e = i_name i /\
     a' = {| a_entries := a_del (i_id i) (a_entries a) ++ [{| a_info := i; a_ready := true |}]; a_next := a_next a |} /\
     r = ROk /\ ev = []) \/
  (a' = a /\ r = RErr /\ ev = []).
Proof.
  intros a i a' r ev H. simpl in H.
  destruct (valid_info i) eqn:V; [|inversion H; auto].
  destruct (a_find (i_id i) (a_entries a)) as [e|] eqn:F; [|inversion H; auto].
  destruct (a_ready e) eqn:Rd; simpl in H; [|inversion H; auto].
  destruct (String.eqb (a_name e) (i_name i)) eqn:Nm; inversion H; subst; auto.
  apply String.eqb_eq in Nm. left. exists e. auto 10.
Qed.

Lemma astep_other : forall a o a' r ev, astep a o = (a', r, ev) ->
  match o with ORegister _ | OUnregister _ | OReady _ | OUpdate _ => True | _ => a' = a /\ ev = [] end.
Proof.
  intros a o a' r ev H. destruct o; auto; simpl in H.
  - destruct (find _ _); inversion H; auto.
  - inversion H; auto.
  - inversion H; auto.
  - inversion H; auto.
  - destruct (find _ _); inversion H; auto.
Qed.

Lemma astep_inv : forall a o a' r ev, AInv a -> astep a o = (a', r, ev) -> AInv a' /\ a_next a <= a_next a'.
Proof.
  intros a o a' r ev [Hids Hnames Hbound Hnext] H.
  destruct o.
  - apply astep_register in H. destruct H as [[V [Hn [L [-> [_ _]]]]]|[-> _]].
    + split; [|simpl; lia]. constructor; simpl.
      * apply NoDup_map_snoc; auto. unfold a_id at 1; simpl. intros Hc.
        apply in_map_iff in Hc. destruct Hc as [e [He1 He2]].
        rewrite Forall_forall in Hbound. apply Hbound in He2. lia.
      * apply NoDup_map_snoc; auto. unfold a_name at 1; simpl. apply a_has_name_false; exact Hn.
      * apply Forall_app. split.
        -- eapply Forall_impl; [|exact Hbound]. simpl; intros e He; lia.
        -- constructor; [|constructor]. unfold a_id; simpl. lia.
      * exact L.
    + split; [constructor; auto | lia].
  - apply astep_unregister in H. destruct H as [[e [F [-> _]]]|[_ [-> _]]].
    + split; [|simpl; lia]. constructor; simpl; auto.
      * apply NoDup_map_filter; exact Hids.
      * apply NoDup_map_filter; exact Hnames.
      * apply Forall_forall. intros x Hx. apply a_del_in in Hx. rewrite Forall_forall in Hbound. apply Hbound; tauto.
    + split; [constructor; auto | lia].
  - apply astep_ready in H. destruct H as [[e [F [Rd [-> _]]]]|[_ [-> _]]].
    + apply a_find_some in F. destruct F as [He Hid].
      split; [|simpl; lia]. constructor; simpl; auto.
      * apply NoDup_map_snoc; [apply NoDup_map_filter; exact Hids|].
        unfold a_id at 1; simpl. intros Hc. apply in_map_iff in Hc. destruct Hc as [x [Hx1 Hx2]].
        apply a_del_in in Hx2. unfold a_id in *. destruct Hx2 as [_ Hx2]. congruence.
      * apply NoDup_map_snoc; [apply NoDup_map_filter; exact Hnames|].
        unfold a_name at 1; simpl. intros Hc. apply in_map_iff in Hc. destruct Hc as [x [Hx1 Hx2]].
        apply a_del_in in Hx2. destruct Hx2 as [Hx2 Hx3].
        assert (x = e) by (eapply NoDup_map_inj_in; eauto). subst x. congruence.
      * apply Forall_app. split.
        -- apply Forall_forall. intros x Hx. apply a_del_in in Hx. rewrite Forall_forall in Hbound. apply Hbound; tauto.
        -- constructor; [|constructor]. rewrite Forall_forall in Hbound. apply Hbound in He. unfold a_id in *; simpl. exact He.
    + split; [constructor; auto | lia].
  - apply astep_update in H. destruct H as [[e [V [F [Rd [Nm [-> _]]]]]]|[-> _]].
    + apply a_find_some in F. destruct F as [He Hid].
      split; [|simpl; lia]. constructor; simpl; auto.
      * apply NoDup_map_snoc; [apply NoDup_map_filter; exact Hids|].
        unfold a_id at 1; simpl. intros Hc. apply in_map_iff in Hc. destruct Hc as [x [Hx1 Hx2]].
        apply a_del_in in Hx2. destruct Hx2 as [_ Hx2]. congruence.
      * apply NoDup_map_snoc; [apply NoDup_map_filter; exact Hnames|].
        unfold a_name at 1; simpl. intros Hc. apply in_map_iff in Hc. destruct Hc as [x [Hx1 Hx2]].
        apply a_del_in in Hx2. destruct Hx2 as [Hx2 Hx3].
        assert (x = e) by (eapply NoDup_map_inj_in; eauto; congruence). subst x. congruence.
      * apply Forall_app. split.
        -- apply Forall_forall. intros x Hx. apply a_del_in in Hx. rewrite Forall_forall in Hbound. apply Hbound; tauto.
        -- constructor; [|constructor]. rewrite Forall_forall in Hbound. apply Hbound in He. unfold a_id in *; simpl. rewrite <- Hid. exact He.
    + split; [constructor; auto | lia].
  - apply astep_other in H. destruct H as [-> _]. split; [constructor; auto | lia].
  - apply astep_other in H. destruct H as [-> _]. split; [constructor; auto | lia].
  - apply astep_other in H. destruct H as [-> _]. split; [constructor; auto | lia].
  - apply astep_other in H. destruct H as [-> _]. split; [constructor; auto | lia].
  - apply astep_other in H. destruct H as [-> _]. split; [constructor; auto | lia].
Qed.

(* ---------- runs ---------- *)
Notation obs := (dop * dres * list devent)%type.

Lemma run_cons : forall S (step : S -> dop -> out S) s o r,
  run step s (o :: r) =
  (fst (run step (fst (fst (step s o))) r),
   (o, snd (fst (step s o)), snd (step s o)) :: snd (run step (fst (fst (step s o))) r)).
Proof.
  intros S step s o r. simpl. destruct (step s o) as [[s' res] ev]. simpl.
  destruct (run step s' r) as [s'' tr]. reflexivity.
Qed.

Lemma astep_eta : forall a o, astep a o = (fst (fst (astep a o)), snd (fst (astep a o)), snd (astep a o)).
Proof. intros a o. destruct (astep a o) as [[? ?] ?]. reflexivity. Qed.

Lemma run_inv : forall ops a, AInv a ->
  AInv (fst (run astep a ops)) /\ a_next a <= a_next (fst (run astep a ops)).
Proof.
  induction ops as [|o r IH]; intros a Ha.
  - simpl. split; [exact Ha | lia].
  - rewrite run_cons. simpl.
    destruct (astep_inv a o _ _ _ Ha (astep_eta a o)) as [Ha' Hle].
    destruct (IH _ Ha') as [H1 H2]. split; [exact H1 | lia].
Qed.

(* identifiers handed out by registerService: strictly increasing, hence never reused *)
Lemma tr_ids_cons : forall o r ev T,
  tr_ids ((o, r, ev) :: T) = (match o, r with ORegister _, RId id => [id] | _, _ => [] end) ++ tr_ids T.
Proof. reflexivity. Qed.

Lemma ids_increasing_gen : forall ops a, AInv a ->
  StronglySorted N.lt (tr_ids (snd (run astep a ops))) /\
  Forall (fun id => a_next a < id) (tr_ids (snd (run astep a ops))).
Proof.
  induction ops as [|o r IH]; intros a Ha.
  - simpl. split; constructor.
  - rewrite run_cons. cbn [snd].
    remember (astep a o) as x eqn:Hx. destruct x as [[a1 r1] ev1]. symmetry in Hx. cbn [fst snd].
    destruct (astep_inv a o _ _ _ Ha Hx) as [Ha' Hle].
    destruct (IH _ Ha') as [Hs Hf].
    assert (Hweak : Forall (fun id => a_next a < id) (tr_ids (snd (run astep a1 r)))).
    { eapply Forall_impl; [|exact Hf]. cbv beta; intros; lia. }
    rewrite tr_ids_cons.
    destruct o; try (split; assumption).
    destruct r1; try (split; assumption).
    apply astep_register in Hx. destruct Hx as [[_ [_ [_ [E1 [E2 _]]]]]|[_ [E2 _]]]; [|discriminate].
    inversion E2; subst id. subst a1. cbn [a_next] in Hf. cbn [app]. split.
    + constructor; [exact Hs | exact Hf].
    + constructor; [lia | exact Hweak].
Qed.

(* ---------- the life of an identifier: visibility and signals ---------- *)
Definition entry_with (a : astate) (id : N) (n : string) (rd : bool) : Prop :=
  exists e, In e (a_entries a) /\ a_id e = id /\ a_name e = n /\ a_ready e = rd.
Definition no_entry (a : astate) (id : N) : Prop := forall e, In e (a_entries a) -> a_id e <> id.

Definition life_ok (a : astate) (id : N) (l : lifecycle) : Prop :=
  match l with
  | LNone => no_entry a id /\ (id = 0 \/ a_next a < id)
  | LStaged n => entry_with a id n false
  | LReady n => entry_with a id n true
  | LGone _ _ => no_entry a id /\ 1 <= id <= a_next a
  end.

Definition LifeInv (a : astate) (past : list obs) : Prop := forall id,
  events_for id (tr_events past) = life_events id (lifecycle_of id past) /\
  life_ok a id (lifecycle_of id past).

Lemma LifeInv_init : LifeInv ainit [].
Proof. intros id. simpl. split; [reflexivity|]. split; [intros e [] | destruct (N.eq_dec id 0); [left; auto | right; lia]]. Qed.

Lemma lifecycle_snoc : forall id past x, lifecycle_of id (past ++ [x]) = life_step id (lifecycle_of id past) x.
Proof. intros. unfold lifecycle_of. rewrite fold_left_app. reflexivity. Qed.

Lemma events_snoc : forall id past o r ev,
  events_for id (tr_events (past ++ [(o, r, ev)])) = events_for id (tr_events past) ++ events_for id ev.
Proof.
  intros. unfold tr_events, events_for. rewrite flat_map_app, filter_app. simpl. rewrite app_nil_r. reflexivity.
Qed.

Lemma life_entry : forall a id l e, AInv a -> life_ok a id l -> In e (a_entries a) -> a_id e = id ->
  (a_ready e = false /\ l = LStaged (a_name e)) \/ (a_ready e = true /\ l = LReady (a_name e)).
Proof.
  intros a id l e Ha Hl He Hid. destruct l as [|n|n|n w]; simpl in Hl.
  - destruct Hl as [Hl _]. exfalso; eapply Hl; eauto.
  - destruct Hl as [e' [H1 [H2 [H3 H4]]]].
    assert (e' = e) by (eapply NoDup_map_inj_in; [apply (ai_ids _ Ha)| | |]; auto; congruence). subst e'.
    left. split; congruence.
  - destruct Hl as [e' [H1 [H2 [H3 H4]]]].
    assert (e' = e) by (eapply NoDup_map_inj_in; [apply (ai_ids _ Ha)| | |]; auto; congruence). subst e'.
    right. split; congruence.
  - destruct Hl as [Hl _]. exfalso; eapply Hl; eauto.
Qed.

(* the entries of a and a' agree except for identifier k, same counter *)
Definition agree_off (k : N) (a a' : astate) : Prop :=
  a_next a' = a_next a /\ forall e, a_id e <> k -> (In e (a_entries a') <-> In e (a_entries a)).

Lemma life_ok_agree : forall k a a' id l, agree_off k a a' -> id <> k -> life_ok a id l -> life_ok a' id l.
Proof.
  intros k a a' id l [Hn Hag] Hne Hl.
  assert (Hent : forall n rd, entry_with a id n rd -> entry_with a' id n rd).
  { intros n rd [e [H1 [H2 [H3 H4]]]]. exists e. repeat split; auto. apply Hag; [congruence | exact H1]. }
  assert (Hno : no_entry a id -> no_entry a' id).
  { intros H e He Hid. apply (H e); auto. apply Hag; [congruence | exact He]. }
  destruct l; simpl in *; auto.
  - destruct Hl as [H1 H2]. split; auto. rewrite Hn; auto.
  - destruct Hl as [H1 H2]. split; auto. rewrite Hn; auto.
Qed.

Lemma events_for_one : forall id e, events_for id [e] = if ev_id e =? id then [e] else [].
Proof. intros. unfold events_for. simpl. destruct (ev_id e =? id); reflexivity. Qed.

Lemma LifeInv_step : forall a past o a' r ev,
  AInv a -> LifeInv a past -> astep a o = (a', r, ev) -> LifeInv a' (past ++ [(o, r, ev)]).
Proof.
  intros a past o a' r ev Ha HL H id.
  destruct (HL id) as [Hev Hok].
  rewrite lifecycle_snoc, events_snoc.
  set (l := lifecycle_of id past) in *.
  destruct o.
  - (* registerService *)
    apply astep_register in H. destruct H as [[V [Hn [L [-> [-> ->]]]]]|[-> [-> ->]]].
    + simpl life_step. simpl events_for at 2. rewrite app_nil_r.
      destruct (a_next a + 1 =? id) eqn:E.
      * apply N.eqb_eq in E.
        assert (Hl : l = LNone).
        { destruct l as [|n|n|n w]; simpl in Hok; auto.
          - destruct Hok as [e [H1 [H2 _]]]. pose proof (ai_bound _ Ha) as Hb. rewrite Forall_forall in Hb. apply Hb in H1. lia.
          - destruct Hok as [e [H1 [H2 _]]]. pose proof (ai_bound _ Ha) as Hb. rewrite Forall_forall in Hb. apply Hb in H1. lia.
          - lia. }
        rewrite Hl in Hev. split; [exact Hev|].
        simpl. exists (new_entry i (a_next a + 1)). simpl. split; [apply in_or_app; right; left; reflexivity|].
        unfold a_id, a_name; simpl. auto.
      * apply N.eqb_neq in E. split; [exact Hev|].
        destruct l as [|n|n|n w]; simpl in *.
        -- destruct Hok as [H1 H2]. split.
           ++ intros e He. apply in_app_or in He. destruct He as [He|[<-|[]]]; [apply H1; auto | unfold a_id; simpl; auto].
           ++ destruct H2; [left; auto | right; lia].
        -- destruct Hok as [e [H1 H2]]. exists e. split; [apply in_or_app; left; auto | auto].
        -- destruct Hok as [e [H1 H2]]. exists e. split; [apply in_or_app; left; auto | auto].
        -- destruct Hok as [H1 H2]. split; [|lia].
           intros e He. apply in_app_or in He. destruct He as [He|[<-|[]]]; [apply H1; auto | unfold a_id; simpl; auto].
    + simpl. rewrite app_nil_r. auto.
  - (* unregisterService *)
    apply astep_unregister in H. destruct H as [[e [F [-> [-> ->]]]]|[F [-> [-> ->]]]].
    + apply a_find_some in F. destruct F as [He Hid]. simpl life_step.
      assert (Hag : agree_off id0 a {| a_entries := a_del id0 (a_entries a); a_next := a_next a |}).
      { split; [reflexivity|]. simpl. intros x Hx. rewrite a_del_in. tauto. }
      destruct (id0 =? id) eqn:E.
      * apply N.eqb_eq in E. rewrite E in *. clear E.
        assert (Hno : no_entry {| a_entries := a_del id (a_entries a); a_next := a_next a |} id).
        { intros x Hx. simpl in Hx. apply a_del_in in Hx. tauto. }
        assert (Hb : 1 <= id <= a_next a).
        { pose proof (ai_bound _ Ha) as Hb. rewrite Forall_forall in Hb. apply Hb in He. lia. }
        destruct (life_entry a id l e Ha Hok He Hid) as [[Rd Hl]|[Rd Hl]]; rewrite Hl in *; rewrite Rd.
        -- simpl. rewrite app_nil_r. split; [exact Hev | split; [exact Hno | exact Hb]].
        -- rewrite events_for_one. simpl ev_id. rewrite N.eqb_refl. rewrite Hev. simpl. split; [reflexivity | split; [exact Hno | exact Hb]].
      * apply N.eqb_neq in E. split.
        -- destruct (a_ready e); [rewrite events_for_one; simpl ev_id|simpl]; try rewrite (proj2 (N.eqb_neq _ _) E); rewrite app_nil_r; exact Hev.
        -- eapply life_ok_agree; eauto.
    + simpl. rewrite app_nil_r. auto.
  - (* serviceReady *)
    apply astep_ready in H. destruct H as [[e [F [Rd [-> [-> ->]]]]]|[_ [-> [-> ->]]]].
    + apply a_find_some in F. destruct F as [He Hid]. simpl life_step.
      set (a' := {| a_entries := a_del id0 (a_entries a) ++ [{| a_info := a_info e; a_ready := true |}]; a_next := a_next a |}).
      assert (Hag : agree_off id0 a a').
      { split; [reflexivity|]. simpl. intros x Hx. rewrite in_app_iff, a_del_in. simpl. split.
        - intros [[H1 _]|[<-|[]]]; [exact H1|]. exfalso; apply Hx. unfold a_id in *; simpl; exact Hid.
        - intros H1. left; split; auto. }
      rewrite events_for_one. simpl ev_id.
      destruct (id0 =? id) eqn:E.
      * apply N.eqb_eq in E. rewrite E in *. clear E.
        destruct (life_entry a id l e Ha Hok He Hid) as [[_ Hl]|[Rd' _]]; [|congruence].
        rewrite Hl in *. rewrite Hev. simpl. split; [reflexivity|].
        exists {| a_info := a_info e; a_ready := true |}. split; [apply in_or_app; right; left; reflexivity|].
        unfold a_id, a_name in *; simpl; auto.
      * apply N.eqb_neq in E. rewrite app_nil_r. split; [exact Hev|]. eapply life_ok_agree; eauto.
    + simpl. rewrite app_nil_r. auto.
  - (* updateServiceInfo *)
    apply astep_update in H. destruct H as [[e [V [F [Rd [Nm [-> [-> ->]]]]]]]|[-> [-> ->]]].
    + apply a_find_some in F. destruct F as [He Hid]. simpl life_step. simpl events_for at 2. rewrite app_nil_r.
      split; [exact Hev|].
      set (a' := {| a_entries := a_del (i_id i) (a_entries a) ++ [{| a_info := i; a_ready := true |}]; a_next := a_next a |}).
      assert (Hag : agree_off (i_id i) a a').
      { split; [reflexivity|]. simpl. intros x Hx. rewrite in_app_iff, a_del_in. simpl. split.
        - intros [[H1 _]|[<-|[]]]; [exact H1|]. exfalso; apply Hx. reflexivity.
        - intros H1. left; split; auto. }
      destruct (N.eq_dec id (i_id i)) as [E|E].
      * subst id.
        destruct (life_entry a (i_id i) l e Ha Hok He Hid) as [[Rd' _]|[_ Hl]]; [congruence|].
        rewrite Hl. simpl. exists {| a_info := i; a_ready := true |}.
        split; [apply in_or_app; right; left; reflexivity|]. unfold a_id, a_name in *; simpl. auto.
      * eapply life_ok_agree; eauto.
    + simpl. rewrite app_nil_r. auto.
  - apply astep_other in H. destruct H as [-> ->]. simpl. rewrite app_nil_r. auto.
  - apply astep_other in H. destruct H as [-> ->]. simpl. rewrite app_nil_r. auto.
  - apply astep_other in H. destruct H as [-> ->]. simpl. rewrite app_nil_r. auto.
  - apply astep_other in H. destruct H as [-> ->]. simpl. rewrite app_nil_r. auto.
  - apply astep_other in H. destruct H as [-> ->]. simpl. rewrite app_nil_r. auto.
Qed.

Lemma run_LifeInv : forall ops a past, AInv a -> LifeInv a past ->
  LifeInv (fst (run astep a ops)) (past ++ snd (run astep a ops)).
Proof.
  induction ops as [|o r IH]; intros a past Ha HL.
  - simpl. rewrite app_nil_r. exact HL.
  - rewrite run_cons. cbn [fst snd].
    remember (astep a o) as x eqn:Hx. destruct x as [[a1 r1] ev1]. symmetry in Hx. cbn [fst snd].
    destruct (astep_inv a o _ _ _ Ha Hx) as [Ha' _].
    pose proof (LifeInv_step a past o a1 r1 ev1 Ha HL Hx) as HL'.
    specialize (IH a1 _ Ha' HL'). rewrite <- app_assoc in IH. exact IH.
Qed.

(* signals: for every identifier exactly the signals its life calls for, in that order *)
Theorem events_exact : forall ops id,
  events_for id (tr_events (snd (run astep ainit ops))) =
  life_events id (lifecycle_of id (snd (run astep ainit ops))).
Proof.
  intros ops id. pose proof (run_LifeInv ops ainit [] AInv_init LifeInv_init) as H. simpl in H.
  destruct (H id) as [H1 _]. exact H1.
Qed.

(* lookups *)
Lemma a_service_spec : forall a n,
  match snd (fst (astep a (OService n))) with
  | RInfo i => In {| a_info := i; a_ready := true |} (a_entries a) /\ i_name i = n
  | RErr => forall e, In e (a_entries a) -> a_ready e = true -> a_name e <> n
  | _ => False
  end.
Proof.
  intros a n. simpl. destruct (find _ (a_entries a)) as [e|] eqn:F; simpl.
  - apply find_some in F. destruct F as [He Hb]. apply andb_true_iff in Hb. destruct Hb as [Hr Hn].
    apply String.eqb_eq in Hn. destruct e as [i rd]; simpl in *. subst rd. auto.
  - intros e He Hr Hn. eapply find_none in F; [|exact He]. simpl in F.
    rewrite Hr in F. simpl in F. apply String.eqb_neq in F. auto.
Qed.

Lemma a_resolve_service : forall a n,
  snd (fst (astep a (OResolve n))) =
  match snd (fst (astep a (OService n))) with RInfo i => RId (i_id i) | _ => RErr end.
Proof. intros a n. simpl. destruct (find _ (a_entries a)); reflexivity. Qed.

Lemma a_services_spec : forall a,
  exists l, snd (fst (astep a OServices)) = RList l /\ StronglySorted id_le l /\
            Permutation l (map a_info (filter a_ready (a_entries a))).
Proof.
  intros a. simpl. eexists. split; [reflexivity|]. split; [apply isort_sorted | apply isort_perm].
Qed.

(* visible to lookup and list exactly from serviceReady until unregisterService *)
Theorem visibility : forall ops,
  let a := fst (run astep ainit ops) in
  let tr := snd (run astep ainit ops) in
  (forall id, (exists n, lifecycle_of id tr = LReady n) <->
              (exists e, In e (a_entries a) /\ a_id e = id /\ a_ready e = true)) /\
  (forall n, match snd (fst (astep a (OService n))) with
             | RInfo i => lifecycle_of (i_id i) tr = LReady n /\ i_name i = n
             | RErr => forall id, lifecycle_of id tr <> LReady n
             | _ => False
             end) /\
  (exists l, snd (fst (astep a OServices)) = RList l /\ StronglySorted id_le l /\
             forall id, In id (map i_id l) <-> exists n, lifecycle_of id tr = LReady n).
Proof.
  intros ops a tr.
  pose proof (run_LifeInv ops ainit [] AInv_init LifeInv_init) as HL. simpl in HL. fold a tr in HL.
  destruct (run_inv ops ainit AInv_init) as [Ha _]. fold a in Ha.
  assert (Hvis : forall id, (exists n, lifecycle_of id tr = LReady n) <->
              (exists e, In e (a_entries a) /\ a_id e = id /\ a_ready e = true)).
  { intros id. destruct (HL id) as [_ Hok]. split.
    - intros [n Hn]. rewrite Hn in Hok. simpl in Hok. destruct Hok as [e [H1 [H2 [H3 H4]]]]. exists e; auto.
    - intros [e [H1 [H2 H3]]]. destruct (life_entry a id _ e Ha Hok H1 H2) as [[Hr _]|[_ Hl]]; [congruence|].
      exists (a_name e); exact Hl. }
  split; [exact Hvis|]. split.
  - intros n. pose proof (a_service_spec a n) as Hs.
    destruct (snd (fst (astep a (OService n)))) as [ | | |i| | ]; auto.
    + intros id Hl. destruct (HL id) as [_ Hok]. rewrite Hl in Hok. simpl in Hok.
      destruct Hok as [e [H1 [H2 [H3 H4]]]]. eapply Hs; eauto.
    + destruct Hs as [Hin Hn]. split; [|exact Hn].
      destruct (HL (i_id i)) as [_ Hok].
      destruct (life_entry a (i_id i) _ _ Ha Hok Hin eq_refl) as [[Hr _]|[_ Hl]]; [discriminate|].
      rewrite Hl. unfold a_name; simpl. congruence.
  - destruct (a_services_spec a) as [l [H1 [H2 H3]]]. exists l. split; [exact H1|]. split; [exact H2|].
    intros id. rewrite Hvis. split.
    + intros Hin. apply in_map_iff in Hin. destruct Hin as [i [Hi Hin]].
      eapply Permutation_in in Hin; [|exact H3]. apply in_map_iff in Hin. destruct Hin as [e [He Hin]].
      apply filter_In in Hin. exists e. unfold a_id. rewrite He. tauto.
    + intros [e [He [Hid Hr]]]. apply in_map_iff. exists (a_info e). split; [exact Hid|].
      eapply Permutation_in; [apply Permutation_sym; exact H3|]. apply in_map. apply filter_In. auto.
Qed.

(* updateServiceInfo cannot change a service's name or identity (nor its status) *)
Theorem update_keeps_identity : forall a i, AInv a ->
  forall id n rd, entry_with (fst (fst (astep a (OUpdate i)))) id n rd <-> entry_with a id n rd.
Proof.
  intros a i Ha id n rd.
  pose proof (astep_eta a (OUpdate i)) as E. apply astep_update in E.
  destruct E as [[e [V [F [Rd [Nm [-> _]]]]]]|[-> _]]; [|tauto].
  apply a_find_some in F. destruct F as [He Hid]. unfold entry_with; simpl. split.
  - intros [x [Hx [H1 [H2 H3]]]]. apply in_app_or in Hx. destruct Hx as [Hx|[<-|[]]].
    + apply a_del_in in Hx. exists x; tauto.
    + exists e. unfold a_id, a_name in *; simpl in *. repeat split; congruence.
  - intros [x [Hx [H1 [H2 H3]]]]. destruct (N.eq_dec id (i_id i)) as [E|E].
    + assert (x = e) by (eapply NoDup_map_inj_in; [apply (ai_ids _ Ha)| | |]; auto; congruence). subst x.
      exists {| a_info := i; a_ready := true |}. split; [apply in_or_app; right; left; reflexivity|].
      unfold a_id, a_name in *; simpl. repeat split; congruence.
    + exists x. split; [apply in_or_app; left; apply a_del_in; split; auto; congruence | auto].
Qed.

(* ---------- Go maps ---------- *)
Lemma mget_in : forall k (m : cmap) v, mget k m = Some v -> In (k, v) m.
Proof.
  intros k m; induction m as [|[k' v'] m IH]; simpl; intros v H; [discriminate|].
  destruct (k' =? k) eqn:E; [apply N.eqb_eq in E; subst; inversion H; auto | auto].
Qed.

Lemma mget_none : forall k (m : cmap), mget k m = None -> ~ In k (map fst m).
Proof.
  intros k m; induction m as [|[k' v'] m IH]; simpl; intros H; [tauto|].
  destruct (k' =? k) eqn:E; [discriminate|]. apply N.eqb_neq in E. intros [H1|H1]; [congruence | apply IH; auto].
Qed.

Lemma in_mget : forall k v (m : cmap), NoDup (map fst m) -> In (k, v) m -> mget k m = Some v.
Proof.
  intros k v m; induction m as [|[k' v'] m IH]; simpl; intros Hnd Hin; [destruct Hin|].
  inversion Hnd as [|? ? Hn Hd]; subst. destruct Hin as [Hin|Hin].
  - inversion Hin; subst. rewrite N.eqb_refl. reflexivity.
  - destruct (k' =? k) eqn:E; [|auto]. apply N.eqb_eq in E; subst.
    exfalso; apply Hn. apply in_map_iff. exists (k, v); auto.
Qed.

Lemma mdel_in : forall k (m : cmap) p, In p (mdel k m) <-> In p m /\ fst p <> k.
Proof. intros k m p. unfold mdel. rewrite filter_In, negb_true_iff, N.eqb_neq. tauto. Qed.

Lemma mdel_keys : forall k (m : cmap) x, In x (map fst (mdel k m)) <-> In x (map fst m) /\ x <> k.
Proof.
  intros k m x. rewrite !in_map_iff. split.
  - intros [p [<- Hp]]. apply mdel_in in Hp. split; [exists p; tauto | tauto].
  - intros [[p [<- Hp]] Hne]. exists p. split; auto. apply mdel_in; auto.
Qed.

Lemma mdel_nodup : forall k (m : cmap), NoDup (map fst m) -> NoDup (map fst (mdel k m)).
Proof. intros. unfold mdel. apply NoDup_map_filter; auto. Qed.

Lemma mset_fresh : forall k v (m : cmap), mget k m = None -> mset k v m = m ++ [(k, v)].
Proof.
  intros k v m; induction m as [|[k' v'] m IH]; simpl; intros H; [reflexivity|].
  destruct (k' =? k); [discriminate|]. rewrite IH; auto.
Qed.

Lemma mset_present : forall k v (m : cmap) old, NoDup (map fst m) -> mget k m = Some old ->
  map fst (mset k v m) = map fst m /\
  (forall p, In p (mset k v m) <-> p = (k, v) \/ (In p m /\ fst p <> k)).
Proof.
  intros k v m old; induction m as [|[k' v'] m IH]; simpl; intros Hnd H; [discriminate|].
  inversion Hnd as [|? ? Hn Hd]; subst.
  destruct (k' =? k) eqn:E.
  - apply N.eqb_eq in E; subst k'. simpl. split; [reflexivity|]. intros p. split.
    + intros [<-|Hp]; [left; reflexivity|]. right. split; [right; exact Hp|].
      intros Hc. apply Hn. rewrite <- Hc. apply in_map; exact Hp.
    + intros [->|[[<-|Hp] Hne]]; [left; reflexivity | simpl in Hne; congruence | right; exact Hp].
  - apply N.eqb_neq in E. destruct (IH Hd H) as [IH1 IH2]. simpl. split; [rewrite IH1; reflexivity|].
    intros p. rewrite IH2. split.
    + intros [<-|[->|[Hp Hne]]]; [right; split; [left; reflexivity | simpl; exact E] | left; reflexivity | right; split; [right; exact Hp | exact Hne]].
    + intros [->|[[<-|Hp] Hne]]; [right; left; reflexivity | left; reflexivity | right; right; split; auto].
Qed.

Lemma has_name_spec : forall n (m : cmap), has_name n m = true <-> exists p, In p m /\ i_name (snd p) = n.
Proof.
  intros n m. unfold has_name. rewrite existsb_exists. split; intros [p [H1 H2]]; exists p; split; auto; apply String.eqb_eq; auto.
Qed.

Lemma a_has_name_spec : forall n es, a_has_name n es = true <-> exists e, In e es /\ a_name e = n.
Proof.
  intros n es. unfold a_has_name. rewrite existsb_exists. split; intros [p [H1 H2]]; exists p; split; auto; apply String.eqb_eq; auto.
Qed.

(* ---------- refinement ---------- *)
Definition keys_ok (m : cmap) : Prop := Forall (fun p => i_id (snd p) = fst p) m.
Definition stag (p : N * info) : aentry := {| a_info := snd p; a_ready := false |}.
Definition rdy (p : N * info) : aentry := {| a_info := snd p; a_ready := true |}.

Lemma abs_entries_eq : forall c, abs_entries c = map stag (staging c) ++ map rdy (services c).
Proof. reflexivity. Qed.

Record Rel (c : cstate) (a : astate) : Prop := {
  r_nd_s : NoDup (map fst (staging c));
  r_nd_v : NoDup (map fst (services c));
  r_disj : forall k, In k (map fst (staging c)) -> ~ In k (map fst (services c));
  r_keys_s : keys_ok (staging c);
  r_keys_v : keys_ok (services c);
  r_in : forall e, In e (a_entries a) <-> In e (abs_entries c);
  r_next : a_next a = lastID c }.

Lemma Rel_init : Rel cinit ainit.
Proof. constructor; simpl; try constructor; try tauto. Qed.

Lemma in_abs : forall c e, In e (abs_entries c) <->
  (exists p, In p (staging c) /\ e = stag p) \/ (exists p, In p (services c) /\ e = rdy p).
Proof.
  intros c e. rewrite abs_entries_eq, in_app_iff, !in_map_iff.
  split; (intros [[p [H1 H2]]|[p [H1 H2]]]; [left|right]; exists p; auto).
Qed.

Section Refine.
  Variables (c : cstate) (a : astate).
  Hypothesis HR : Rel c a.
  Hypothesis HA : AInv a.

  Lemma rel_staging_entry : forall k i, In (k, i) (staging c) ->
    In (stag (k, i)) (a_entries a) /\ i_id i = k.
  Proof.
    intros k i H. split.
    - apply (r_in _ _ HR). apply in_abs. left. exists (k, i); auto.
    - pose proof (r_keys_s _ _ HR) as K. unfold keys_ok in K. rewrite Forall_forall in K. apply (K _ H).
  Qed.

  Lemma rel_services_entry : forall k i, In (k, i) (services c) ->
    In (rdy (k, i)) (a_entries a) /\ i_id i = k.
  Proof.
    intros k i H. split.
    - apply (r_in _ _ HR). apply in_abs. right. exists (k, i); auto.
    - pose proof (r_keys_v _ _ HR) as K. unfold keys_ok in K. rewrite Forall_forall in K. apply (K _ H).
  Qed.

  Lemma rel_find_services : forall id i, mget id (services c) = Some i ->
    a_find id (a_entries a) = Some {| a_info := i; a_ready := true |}.
  Proof.
    intros id i H. apply mget_in in H. apply rel_services_entry in H. destruct H as [H1 H2].
    apply a_find_in; [apply (ai_ids _ HA) | exact H1 | exact H2].
  Qed.

  Lemma rel_find_staging : forall id i, mget id (staging c) = Some i ->
    a_find id (a_entries a) = Some {| a_info := i; a_ready := false |}.
  Proof.
    intros id i H. apply mget_in in H. apply rel_staging_entry in H. destruct H as [H1 H2].
    apply a_find_in; [apply (ai_ids _ HA) | exact H1 | exact H2].
  Qed.

  Lemma rel_entry_cases : forall e, In e (a_entries a) ->
    (a_ready e = false /\ mget (a_id e) (staging c) = Some (a_info e)) \/
    (a_ready e = true /\ mget (a_id e) (services c) = Some (a_info e)).
  Proof.
    intros e He. apply (r_in _ _ HR) in He. apply in_abs in He.
    destruct He as [[[k i] [Hp ->]]|[[k i] [Hp ->]]]; [left|right]; (split; [reflexivity|]).
    - destruct (rel_staging_entry _ _ Hp) as [_ Hk]. unfold a_id; simpl. rewrite Hk.
      apply in_mget; [apply (r_nd_s _ _ HR) | exact Hp].
    - destruct (rel_services_entry _ _ Hp) as [_ Hk]. unfold a_id; simpl. rewrite Hk.
      apply in_mget; [apply (r_nd_v _ _ HR) | exact Hp].
  Qed.

  Lemma rel_find_none : forall id, mget id (services c) = None -> mget id (staging c) = None ->
    a_find id (a_entries a) = None.
  Proof.
    intros id H1 H2. destruct (a_find id (a_entries a)) as [e|] eqn:F; [|reflexivity].
    apply a_find_some in F. destruct F as [He Hid]. apply rel_entry_cases in He. subst id.
    destruct He as [[_ H]|[_ H]]; congruence.
  Qed.

  Lemma rel_staging_not_services : forall id i, mget id (staging c) = Some i -> mget id (services c) = None.
  Proof.
    intros id i H. destruct (mget id (services c)) as [j|] eqn:G; [|reflexivity].
    apply mget_in in H. apply mget_in in G. exfalso.
    eapply (r_disj _ _ HR id); apply in_map_iff; [exists (id, i) | exists (id, j)]; auto.
  Qed.

  Lemma rel_has_name : forall n,
    has_name n (staging c) || has_name n (services c) = a_has_name n (a_entries a).
  Proof.
    intros n. apply eq_true_iff_eq. rewrite orb_true_iff, !has_name_spec, a_has_name_spec. split.
    - intros [[[k i] [H1 H2]]|[[k i] [H1 H2]]].
      + exists (stag (k, i)). split; [apply rel_staging_entry; exact H1 | exact H2].
      + exists (rdy (k, i)). split; [apply rel_services_entry; exact H1 | exact H2].
    - intros [e [H1 H2]]. apply (r_in _ _ HR) in H1. apply in_abs in H1.
      destruct H1 as [[p [Hp ->]]|[p [Hp ->]]]; [left|right]; exists p; auto.
  Qed.

  Lemma rel_find_name : forall n,
    match find_name n (services c), find (fun e => a_ready e && String.eqb (a_name e) n) (a_entries a) with
    | Some (_, i), Some e => a_info e = i
    | None, None => True
    | _, _ => False
    end.
  Proof.
    intros n. unfold find_name.
    destruct (find (fun p => String.eqb (i_name (snd p)) n) (services c)) as [[k i]|] eqn:F1;
    destruct (find (fun e => a_ready e && String.eqb (a_name e) n) (a_entries a)) as [e|] eqn:F2; auto.
    - apply find_some in F1. destruct F1 as [H1 H2]. simpl in H2. apply String.eqb_eq in H2.
      apply find_some in F2. destruct F2 as [H3 H4]. apply andb_true_iff in H4. destruct H4 as [H4 H5].
      apply String.eqb_eq in H5.
      destruct (rel_services_entry _ _ H1) as [H6 _].
      assert (e = rdy (k, i)).
      { eapply NoDup_map_inj_in; [apply (ai_names _ HA) | exact H3 | exact H6 |]. unfold a_name at 2; simpl. congruence. }
      subst e. reflexivity.
    - apply find_some in F1. destruct F1 as [H1 H2]. simpl in H2. apply String.eqb_eq in H2.
      destruct (rel_services_entry _ _ H1) as [H6 _].
      eapply find_none in F2; [|exact H6]. simpl in F2. unfold a_name in F2; simpl in F2.
      apply String.eqb_neq in F2. congruence.
    - apply find_some in F2. destruct F2 as [H3 H4]. apply andb_true_iff in H4. destruct H4 as [H4 H5].
      apply String.eqb_eq in H5. apply (r_in _ _ HR) in H3. apply in_abs in H3.
      destruct H3 as [[p [Hp ->]]|[p [Hp ->]]]; [simpl in H4; discriminate|].
      eapply find_none in F1; [|exact Hp]. simpl in F1. apply String.eqb_neq in F1. unfold a_name in H5; simpl in H5. congruence.
  Qed.

  Lemma rel_services_list :
    isort (map snd (services c)) = isort (map a_info (filter a_ready (a_entries a))).
  Proof.
    assert (Hids : map i_id (map snd (services c)) = map fst (services c)).
    { rewrite map_map. apply map_ext_in. intros p Hp.
      pose proof (r_keys_v _ _ HR) as K. unfold keys_ok in K. rewrite Forall_forall in K. apply K; exact Hp. }
    apply isort_unique.
    - rewrite Hids. apply (r_nd_v _ _ HR).
    - apply NoDup_Permutation.
      + eapply NoDup_map_inv. rewrite Hids. apply (r_nd_v _ _ HR).
      + eapply NoDup_map_inv with (f := i_id). rewrite map_map.
        change (fun x => i_id (a_info x)) with a_id. apply NoDup_map_filter. apply (ai_ids _ HA).
      + intros i. rewrite !in_map_iff. split.
        * intros [[k j] [<- Hp]]. simpl. exists (rdy (k, j)). split; [reflexivity|].
          apply filter_In. split; [apply rel_services_entry; exact Hp | reflexivity].
        * intros [e [<- He]]. apply filter_In in He. destruct He as [He Hr].
          apply (r_in _ _ HR) in He. apply in_abs in He.
          destruct He as [[p [Hp ->]]|[p [Hp ->]]]; [simpl in Hr; discriminate|].
          exists p. split; [reflexivity | exact Hp].
  Qed.
End Refine.



Lemma mdel_absent : forall k (m : cmap), ~ In k (map fst m) -> mdel k m = m.
Proof.
  intros k m; induction m as [|[k' v'] m IH]; simpl; intros H; [reflexivity|].
  destruct (k' =? k) eqn:E; [apply N.eqb_eq in E; subst; tauto|]. simpl. rewrite IH; tauto.
Qed.

Lemma rel_key_bound : forall c a, Rel c a -> AInv a -> forall k,
  In k (map fst (staging c)) \/ In k (map fst (services c)) -> 1 <= k <= lastID c.
Proof.
  intros c a HR HA k H. rewrite <- (r_next _ _ HR).
  pose proof (ai_bound _ HA) as Hb. rewrite Forall_forall in Hb.
  destruct H as [H|H]; apply in_map_iff in H; destruct H as [[k' i] [<- Hp]]; simpl.
  - destruct (rel_staging_entry c a HR _ _ Hp) as [H1 H2]. apply Hb in H1. unfold a_id in H1; simpl in H1. lia.
  - destruct (rel_services_entry c a HR _ _ Hp) as [H1 H2]. apply Hb in H1. unfold a_id in H1; simpl in H1. lia.
Qed.

(* entries after deleting identifier id from both maps *)
Lemma abs_del : forall c a id, Rel c a -> forall e,
  In e (abs_entries {| staging := mdel id (staging c); services := mdel id (services c); lastID := lastID c |}) <->
  In e (abs_entries c) /\ a_id e <> id.
Proof.
  intros c a id HR e. rewrite !in_abs. simpl.
  pose proof (r_keys_s _ _ HR) as Ks. pose proof (r_keys_v _ _ HR) as Kv.
  unfold keys_ok in *. rewrite Forall_forall in Ks, Kv. split.
  - intros [[p [Hp ->]]|[p [Hp ->]]]; apply mdel_in in Hp; destruct Hp as [Hp Hne].
    + split; [left; exists p; auto|]. unfold a_id; simpl. rewrite (Ks _ Hp). exact Hne.
    + split; [right; exists p; auto|]. unfold a_id; simpl. rewrite (Kv _ Hp). exact Hne.
  - intros [[[p [Hp ->]]|[p [Hp ->]]] Hne]; unfold a_id in Hne; simpl in Hne.
    + left. exists p. split; auto. apply mdel_in. split; auto. rewrite <- (Ks _ Hp). exact Hne.
    + right. exists p. split; auto. apply mdel_in. split; auto. rewrite <- (Kv _ Hp). exact Hne.
Qed.

Lemma keys_ok_mdel : forall k m, keys_ok m -> keys_ok (mdel k m).
Proof.
  intros k m H. unfold keys_ok in *. rewrite Forall_forall in *. intros p Hp. apply mdel_in in Hp. apply H; tauto.
Qed.

Lemma cstep_eta : forall g c o, cstep g c o = (fst (fst (cstep g c o)), snd (fst (cstep g c o)), snd (cstep g c o)).
Proof. intros. destruct (cstep g c o) as [[? ?] ?]. reflexivity. Qed.

(* The transliterated implementation refines the abstract registry: step by step, same
   result and same signals, related states. *)
Theorem refine_step : forall g c a o, cfg_wrap g = false -> Rel c a -> AInv a ->
  forall c' rc evc a' ra eva, cstep g c o = (c', rc, evc) -> astep a o = (a', ra, eva) ->
  Rel c' a' /\ rc = ra /\ evc = eva.
Proof.
  intros g c a o Hw HR HA c' rc evc a' ra eva Hc Ha.
  pose proof (r_next _ _ HR) as Hnext.
  destruct o.
  - (* registerService: refinement *)
    simpl in Hc, Ha. unfold c_register, reg_check, reg_commit in Hc. rewrite Hw in Hc. simpl in Hc.
    rewrite <- (rel_has_name c a HR) in Ha. rewrite Hnext in Ha.
    destruct (valid_info i); simpl in Hc, Ha; [|inversion Hc; inversion Ha; subst; auto].
    destruct (has_name (i_name i) (staging c)); simpl in Hc, Ha; [inversion Hc; inversion Ha; subst; auto|].
    destruct (has_name (i_name i) (services c)); simpl in Hc, Ha; [inversion Hc; inversion Ha; subst; auto|].
    destruct (W32 <=? lastID c + 1) eqn:L.
    + apply N.leb_le in L. assert (L' : (lastID c + 1 <? W32) = false) by (apply N.ltb_ge; exact L).
      rewrite L' in Ha. inversion Hc; inversion Ha; subst; auto.
    + apply N.leb_gt in L. assert (L' : (lastID c + 1 <? W32) = true) by (apply N.ltb_lt; exact L).
      rewrite L' in Ha. rewrite (N.mod_small _ _ L) in Hc. inversion Hc; inversion Ha; subst. clear Hc Ha.
      split; [|auto].
      assert (Hfresh_s : ~ In (lastID c + 1) (map fst (staging c))).
      { intros Hin. pose proof (rel_key_bound c a HR HA _ (or_introl Hin)). lia. }
      assert (Hfresh_v : ~ In (lastID c + 1) (map fst (services c))).
      { intros Hin. pose proof (rel_key_bound c a HR HA _ (or_intror Hin)). lia. }
      assert (Hset : mset (lastID c + 1) (with_id i (lastID c + 1)) (staging c) =
                     staging c ++ [(lastID c + 1, with_id i (lastID c + 1))]).
      { apply mset_fresh. destruct (mget (lastID c + 1) (staging c)) eqn:G; [|reflexivity].
        apply mget_in in G. exfalso; apply Hfresh_s. apply in_map_iff. eexists; split; [|exact G]; reflexivity. }
      rewrite Hset. constructor; simpl.
      * rewrite map_app. simpl. apply NoDup_snoc; [apply (r_nd_s _ _ HR) | exact Hfresh_s].
      * apply (r_nd_v _ _ HR).
      * intros k Hk. rewrite map_app in Hk. apply in_app_or in Hk. destruct Hk as [Hk|[<-|[]]]; [apply (r_disj _ _ HR); exact Hk | exact Hfresh_v].
      * unfold keys_ok. apply Forall_app. split; [apply (r_keys_s _ _ HR) | constructor; [reflexivity | constructor]].
      * apply (r_keys_v _ _ HR).
      * intros e. rewrite abs_entries_eq. simpl. rewrite map_app, !in_app_iff. simpl.
        rewrite (r_in _ _ HR e), abs_entries_eq, in_app_iff. unfold new_entry, stag. simpl. tauto.
      * reflexivity.
  - (* unregisterService: refinement *)
    simpl in Hc. unfold c_unregister in Hc. apply astep_unregister in Ha.
    destruct (mget id (services c)) as [i|] eqn:Gv.
    + pose proof (rel_find_services c a HR HA _ _ Gv) as F.
      destruct Ha as [[e [F' [-> [-> ->]]]]|[F' _]]; [|congruence].
      rewrite F in F'. inversion F'; subst e. inversion Hc; subst. clear Hc. simpl.
      split; [|auto].
      assert (Hns : ~ In id (map fst (staging c))).
      { intros Hin. apply (r_disj _ _ HR _ Hin). apply mget_in in Gv. apply in_map_iff. exists (id, i); auto. }
      constructor; simpl.
      * apply (r_nd_s _ _ HR).
      * apply mdel_nodup. apply (r_nd_v _ _ HR).
      * intros k Hk Hk'. apply mdel_keys in Hk'. eapply (r_disj _ _ HR); [exact Hk | tauto].
      * apply (r_keys_s _ _ HR).
      * apply keys_ok_mdel. apply (r_keys_v _ _ HR).
      * intros e. rewrite a_del_in, (r_in _ _ HR e). rewrite <- (abs_del c a id HR e).
        rewrite (mdel_absent _ _ Hns). tauto.
      * exact Hnext.
    + destruct (mget id (staging c)) as [i|] eqn:Gs.
      * pose proof (rel_find_staging c a HR HA _ _ Gs) as F.
        destruct Ha as [[e [F' [-> [-> ->]]]]|[F' _]]; [|congruence].
        rewrite F in F'. inversion F'; subst e. inversion Hc; subst. clear Hc. simpl.
        split; [|auto].
        assert (Hnv : ~ In id (map fst (services c))) by (apply mget_none; exact Gv).
        constructor; simpl.
        -- apply mdel_nodup. apply (r_nd_s _ _ HR).
        -- apply (r_nd_v _ _ HR).
        -- intros k Hk. apply mdel_keys in Hk. apply (r_disj _ _ HR). tauto.
        -- apply keys_ok_mdel. apply (r_keys_s _ _ HR).
        -- apply (r_keys_v _ _ HR).
        -- intros e. rewrite a_del_in, (r_in _ _ HR e). rewrite <- (abs_del c a id HR e).
           rewrite (mdel_absent _ _ Hnv). tauto.
        -- exact Hnext.
      * pose proof (rel_find_none c a HR id Gv Gs) as F.
        destruct Ha as [[e [F' _]]|[_ [-> [-> ->]]]]; [congruence|].
        inversion Hc; subst. auto.
  - (* serviceReady: refinement *)
    simpl in Hc. unfold c_ready in Hc. apply astep_ready in Ha.
    destruct (mget id (staging c)) as [i|] eqn:Gs.
    + pose proof (rel_find_staging c a HR HA _ _ Gs) as F.
      destruct Ha as [[e [F' [Rd [-> [-> ->]]]]]|[[F'|[e [F' Rd]]] _]]; try congruence;
        [|rewrite F in F'; inversion F'; subst e; discriminate].
      rewrite F in F'. inversion F'; subst e. inversion Hc; subst. clear Hc. simpl.
      split; [|auto].
      pose proof (rel_staging_not_services c a HR _ _ Gs) as Gv.
      assert (Hnv : ~ In id (map fst (services c))) by (apply mget_none; exact Gv).
      rewrite (mset_fresh _ _ _ Gv).
      assert (Hid : i_id i = id) by (apply mget_in in Gs; apply (rel_staging_entry c a HR _ _ Gs)).
      constructor; simpl.
      * apply mdel_nodup. apply (r_nd_s _ _ HR).
      * rewrite map_app. simpl. apply NoDup_snoc; [apply (r_nd_v _ _ HR) | exact Hnv].
      * intros k Hk Hk'. apply mdel_keys in Hk. destruct Hk as [Hk Hne]. rewrite map_app in Hk'.
        apply in_app_or in Hk'. destruct Hk' as [Hk'|[Hk'|[]]]; [eapply (r_disj _ _ HR); eauto | simpl in Hk'; congruence].
      * apply keys_ok_mdel. apply (r_keys_s _ _ HR).
      * unfold keys_ok. apply Forall_app. split; [apply (r_keys_v _ _ HR) | constructor; [exact Hid | constructor]].
      * intros e. rewrite in_app_iff, a_del_in, (r_in _ _ HR e). rewrite <- (abs_del c a id HR e).
        rewrite (mdel_absent _ _ Hnv). rewrite !abs_entries_eq. simpl. rewrite map_app, !in_app_iff. simpl.
        unfold rdy at 2. simpl. tauto.
      * exact Hnext.
    + destruct Ha as [[e [F' [Rd _]]]|[_ [-> [-> ->]]]].
      * exfalso. apply a_find_some in F'. destruct F' as [He Hid].
        destruct (rel_entry_cases c a HR e He) as [[_ G]|[Rd' _]]; congruence.
      * inversion Hc; subst. auto.
  - (* updateServiceInfo: refinement *)
    simpl in Hc. unfold c_update in Hc. simpl in Ha.
    destruct (valid_info i) eqn:V; [|inversion Hc; inversion Ha; subst; auto].
    destruct (mget (i_id i) (services c)) as [old|] eqn:Gv.
    + rewrite (rel_find_services c a HR HA _ _ Gv) in Ha. unfold a_name in Ha. cbn [a_ready a_info andb] in Ha.
      destruct (String.eqb (i_name old) (i_name i)) eqn:Nm; [|inversion Hc; inversion Ha; subst; auto].
      inversion Hc; inversion Ha; subst. clear Hc Ha. split; [|auto].
      destruct (mset_present (i_id i) i (services c) old (r_nd_v _ _ HR) Gv) as [Hk Hin].
      constructor; simpl.
      * apply (r_nd_s _ _ HR).
      * rewrite Hk. apply (r_nd_v _ _ HR).
      * rewrite Hk. apply (r_disj _ _ HR).
      * apply (r_keys_s _ _ HR).
      * unfold keys_ok. apply Forall_forall. intros p Hp. apply Hin in Hp.
        destruct Hp as [->|[Hp _]]; [reflexivity|].
        pose proof (r_keys_v _ _ HR) as K. unfold keys_ok in K. rewrite Forall_forall in K. apply K; exact Hp.
      * intros x. rewrite in_app_iff, a_del_in, (r_in _ _ HR x). simpl.
        rewrite !in_abs. simpl.
        pose proof (r_keys_s _ _ HR) as Ks. pose proof (r_keys_v _ _ HR) as Kv.
        unfold keys_ok in Ks, Kv. rewrite Forall_forall in Ks, Kv.
        assert (Hns : ~ In (i_id i) (map fst (staging c))).
        { intros Hc'. apply (r_disj _ _ HR _ Hc'). apply mget_in in Gv. apply in_map_iff. exists (i_id i, old); auto. }
        split.
        -- intros [[[[p [Hp ->]]|[p [Hp ->]]] Hne]|[<-|[]]].
           ++ left. exists p; auto.
           ++ right. exists p. split; auto. apply Hin. right. split; auto.
              unfold a_id in Hne; simpl in Hne. rewrite <- (Kv _ Hp). exact Hne.
           ++ right. exists (i_id i, i). split; [apply Hin; left; reflexivity | reflexivity].
        -- intros [[p [Hp ->]]|[p [Hp ->]]].
           ++ left. split; [left; exists p; auto|]. unfold a_id; simpl. rewrite (Ks _ Hp).
              intros Hc'. apply Hns. rewrite <- Hc'. apply in_map; exact Hp.
           ++ apply Hin in Hp. destruct Hp as [->|[Hp Hne]].
              ** right. left. reflexivity.
              ** left. split; [right; exists p; auto|]. unfold a_id; simpl. rewrite (Kv _ Hp). exact Hne.
      * exact Hnext.
    + destruct (a_find (i_id i) (a_entries a)) as [e|] eqn:F; [|inversion Hc; inversion Ha; subst; auto].
      assert (Rd : a_ready e = false).
      { apply a_find_some in F. destruct F as [He Hid].
        destruct (rel_entry_cases c a HR e He) as [[Rd' _]|[_ G]]; [exact Rd' | congruence]. }
      rewrite Rd in Ha. simpl in Ha. inversion Hc; inversion Ha; subst; auto.
  - (* service: refinement *)
    simpl in Hc, Ha. unfold c_service in Hc. pose proof (rel_find_name c a HR HA n) as Hf.
    destruct (find_name n (services c)) as [[k i]|]; destruct (find _ (a_entries a)) as [e|]; try tauto.
    + inversion Hc; inversion Ha; subst. auto.
    + inversion Hc; inversion Ha; subst. auto.
  - (* services: refinement *)
    simpl in Hc, Ha. unfold c_services in Hc. inversion Hc; inversion Ha; subst.
    rewrite (rel_services_list _ _ HR HA). auto.
  - simpl in Hc, Ha. inversion Hc; inversion Ha; subst. auto.
  - simpl in Hc, Ha. inversion Hc; inversion Ha; subst. auto.
  - (* Resolve: refinement *)
    simpl in Hc, Ha. unfold c_resolve in Hc. pose proof (rel_find_name c a HR HA n) as Hf.
    destruct (find_name n (services c)) as [[k i]|]; destruct (find _ (a_entries a)) as [e|]; try tauto.
    + inversion Hc; inversion Ha; subst. unfold a_id. auto.
    + inversion Hc; inversion Ha; subst. auto.
Qed.

(* run-level refinement: same results and signals for every operation sequence *)
Lemma refinement_gen : forall g ops c a, cfg_wrap g = false -> Rel c a -> AInv a ->
  snd (run (cstep g) c ops) = snd (run astep a ops) /\
  Rel (fst (run (cstep g) c ops)) (fst (run astep a ops)).
Proof.
  intros g ops; induction ops as [|o r IH]; intros c a Hw HR HA.
  - simpl. auto.
  - rewrite !run_cons. cbn [fst snd].
    destruct (refine_step g c a o Hw HR HA _ _ _ _ _ _ (cstep_eta g c o) (astep_eta a o)) as [HR' [Hr He]].
    destruct (astep_inv a o _ _ _ HA (astep_eta a o)) as [HA' _].
    destruct (IH _ _ Hw HR' HA') as [IH1 IH2].
    split; [|exact IH2]. rewrite Hr, He, IH1. reflexivity.
Qed.

Theorem refinement : forall g ops, cfg_wrap g = false ->
  snd (run (cstep g) cinit ops) = snd (run astep ainit ops).
Proof. intros g ops Hw. apply (refinement_gen g ops cinit ainit Hw Rel_init AInv_init). Qed.

(* a name is held by at most one entry of staging ∪ services, an id by at most one *)
Theorem concrete_unique : forall g ops, cfg_wrap g = false ->
  let c := fst (run (cstep g) cinit ops) in
  NoDup (map (fun p => i_name (snd p)) (staging c ++ services c)) /\
  NoDup (map fst (staging c ++ services c)).
Proof.
  intros g ops Hw c.
  destruct (refinement_gen g ops cinit ainit Hw Rel_init AInv_init) as [_ HR]. fold c in HR.
  destruct (run_inv ops ainit AInv_init) as [HA _].
  set (a := fst (run astep ainit ops)) in *.
  assert (Hkeys : NoDup (map fst (staging c ++ services c))).
  { rewrite map_app. clear - HR. pose proof (r_nd_s _ _ HR) as H1. pose proof (r_nd_v _ _ HR) as H2.
    pose proof (r_disj _ _ HR) as H3. induction (map fst (staging c)) as [|k l IH]; simpl; [exact H2|].
    inversion H1; subst. constructor.
    - intros Hc. apply in_app_or in Hc. destruct Hc as [Hc|Hc]; [tauto|]. apply (H3 k); [left; reflexivity | exact Hc].
    - apply IH; auto. intros k' Hk'. apply H3. right; exact Hk'. }
  split; [|exact Hkeys].
  (* the abstract entries are a permutation of the concrete ones *)
  assert (Hids : map a_id (abs_entries c) = map fst (staging c ++ services c)).
  { rewrite abs_entries_eq, !map_app, !map_map. f_equal; apply map_ext_in; intros p Hp; unfold a_id; simpl.
    - pose proof (r_keys_s _ _ HR) as K. unfold keys_ok in K. rewrite Forall_forall in K. apply K; exact Hp.
    - pose proof (r_keys_v _ _ HR) as K. unfold keys_ok in K. rewrite Forall_forall in K. apply K; exact Hp. }
  assert (HP : Permutation (a_entries a) (abs_entries c)).
  { apply NoDup_Permutation.
    - eapply NoDup_map_inv. apply (ai_ids _ HA).
    - eapply NoDup_map_inv. rewrite Hids. exact Hkeys.
    - apply (r_in _ _ HR). }
  assert (Hn : map a_name (abs_entries c) = map (fun p => i_name (snd p)) (staging c ++ services c)).
  { rewrite abs_entries_eq, !map_app, !map_map. reflexivity. }
  rewrite <- Hn. eapply Permutation_NoDup; [apply Permutation_map; exact HP | apply (ai_names _ HA)].
Qed.

(* ---------- linearizability of the synchronised directory ---------- *)
Theorem dir_linearizable : forall g, clean g ->
  forall h, dir_history g h -> linearizable astep_r ainit h.
Proof.
  intros g [Hu Hw] h [tr [Hst [-> Hrun]]]. rewrite Hu in Hrun. destruct Hrun as [st' Hrun].
  apply (lin_refine _ _ _ _ (cstep_r g) astep_r (fun c a => Rel c a /\ AInv a) cinit ainit).
  - split; [apply Rel_init | apply AInv_init].
  - intros c a o [HR HA]. unfold cstep_r, astep_r.
    destruct (refine_step g c a o Hw HR HA _ _ _ _ _ _ (cstep_eta g c o) (astep_eta a o)) as [HR' [Hr _]].
    destruct (astep_inv a o _ _ _ HA (astep_eta a o)) as [HA' _].
    split; [split; assumption | exact Hr].
  - eapply atomic_lin; eauto.
Qed.

(* ---------- the two defects of the pinned code ---------- *)
Definition ex_info (n : string) : info :=
  {| i_name := n; i_id := 0; i_machine := "m"%string; i_pid := 1; i_endpoints := ["e"%string]; i_session := ""%string; i_uid := ""%string |}.

(* unsynchronised: two overlapping registrations of one name both pass the name check
   before either inserts *)
Definition unsync_witness : list (N * alabel dop dres) :=
  [(1, LInv 1 (ORegister (ex_info "a"%string))); (2, LInv 2 (ORegister (ex_info "a"%string)));
   (3, LLin 1); (4, LLin 2); (5, LLin 1); (6, LLin 2);
   (7, LRet 1 (RId 1)); (8, LRet 2 (RId 2))].

Lemma unsync_witness_runs : forall g, cfg_unsync g = true ->
  exists st', urun g (cinit, []) unsync_witness = Some st'.
Proof.
  intros [u w] Hu. simpl in Hu. subst u. destruct w; vm_compute; eexists; reflexivity.
Qed.

Lemma unsync_witness_not_lin : lin_check astep_r dres_eqb ainit (ops_of (erase unsync_witness)) = false.
Proof. vm_compute. reflexivity. Qed.

Theorem unsync_refuted : forall g, cfg_unsync g = true ->
  exists h, dir_history g h /\ ~ linearizable astep_r ainit h.
Proof.
  intros g Hu. exists (ops_of (erase unsync_witness)). split.
  - exists unsync_witness. split; [|split; [reflexivity|]].
    + simpl. repeat split; reflexivity.
    + rewrite Hu. apply unsync_witness_runs; exact Hu.
  - intros HL. apply (lin_check_complete _ _ _ astep_r dres_eqb) in HL.
    + rewrite unsync_witness_not_lin in HL. discriminate.
    + intros r. apply dres_eqb_spec. reflexivity.
Qed.

(* counter wrap: register/unregister 2^32-1 times, then register once more *)
Lemma run_app : forall S (step : S -> dop -> out S) l1 l2 s,
  run step s (l1 ++ l2) =
  (fst (run step (fst (run step s l1)) l2), snd (run step s l1) ++ snd (run step (fst (run step s l1)) l2)).
Proof.
  intros S step l1; induction l1 as [|o l1 IH]; intros l2 s.
  - simpl. destruct (run step s l2); reflexivity.
  - rewrite <- app_comm_cons. rewrite !run_cons. rewrite IH. reflexivity.
Qed.

Fixpoint cycle (n : nat) (k : N) : list dop :=
  match n with
  | O => []
  | S n' => ORegister (ex_info "a"%string) :: OUnregister (k + 1) :: cycle n' (k + 1)
  end.

Definition empty_at (k : N) : cstate := {| staging := []; services := []; lastID := k |}.

Lemma cycle_run : forall g n k, (k + N.of_nat n < W32) ->
  fst (run (cstep g) (empty_at k) (cycle n k)) = empty_at (k + N.of_nat n) /\
  (n <> O -> exists ids, tr_ids (snd (run (cstep g) (empty_at k) (cycle n k))) = ids ++ [(k + N.of_nat n)]).
Proof.
  intros g n; induction n as [|n IH]; intros k Hk.
  - simpl. rewrite N.add_0_r. split; [reflexivity | tauto].
  - assert (Hk1 : (k + 1 < W32)) by lia.
    assert (Hstep1 : cstep g (empty_at k) (ORegister (ex_info "a"%string)) =
                     ({| staging := [((k + 1), with_id (ex_info "a"%string) (k + 1))]; services := []; lastID := (k + 1) |}, RId (k + 1), [])).
    { simpl. unfold c_register, reg_check, reg_commit. simpl.
      assert (E : (W32 <=? k + 1) = false) by (apply N.leb_gt; exact Hk1). rewrite E. rewrite andb_false_r.
      rewrite (N.mod_small _ _ Hk1). reflexivity. }
    assert (Hstep2 : cstep g {| staging := [((k + 1), with_id (ex_info "a"%string) (k + 1))]; services := []; lastID := (k + 1) |}
                       (OUnregister (k + 1)) = (empty_at (k + 1), ROk, [])).
    { simpl. unfold c_unregister. simpl. rewrite N.eqb_refl. reflexivity. }
    cbn [cycle]. rewrite run_cons, Hstep1. cbn [fst snd]. rewrite run_cons, Hstep2. cbn [fst snd].
    assert (Hk' : (k + 1 + N.of_nat n < W32)) by lia.
    destruct (IH (k + 1) Hk') as [IH1 IH2].
    replace (k + N.of_nat (S n)) with (k + 1 + N.of_nat n) by lia.
    split; [exact IH1|]. intros _. rewrite !tr_ids_cons. cbn [app].
    destruct n as [|n'].
    + exists []. simpl. rewrite N.add_0_r. reflexivity.
    + destruct (IH2 ltac:(discriminate)) as [ids Hids]. exists ((k + 1) :: ids). rewrite Hids. reflexivity.
Qed.

Lemma tr_ids_app : forall t1 t2, tr_ids (t1 ++ t2) = tr_ids t1 ++ tr_ids t2.
Proof. intros. unfold tr_ids. apply flat_map_app. Qed.

Theorem wrap_refuted : forall g, cfg_wrap g = true ->
  exists ops, ~ StronglySorted N.lt (tr_ids (snd (run (cstep g) cinit ops))).
Proof.
  intros g Hw. set (n := N.to_nat (W32 - 1)).
  exists (cycle n 0 ++ [ORegister (ex_info "a"%string)]).
  assert (Hn : (0 + N.of_nat n = W32 - 1)) by (unfold n; rewrite N2Nat.id; reflexivity).
  assert (Hlt : (0 + N.of_nat n < W32)) by (rewrite Hn; unfold W32; lia).
  destruct (cycle_run g n 0 Hlt) as [H1 H2].
  assert (Hn0 : n <> O) by (unfold n; intros Hc; apply (f_equal N.of_nat) in Hc; rewrite N2Nat.id in Hc; discriminate).
  destruct (H2 Hn0) as [ids Hids].
  change cinit with (empty_at 0). rewrite run_app. cbn [snd]. rewrite H1.
  rewrite tr_ids_app. rewrite Hids, Hn.
  assert (Hlast : cstep g (empty_at (W32 - 1)) (ORegister (ex_info "a"%string)) =
                  ({| staging := [(0, with_id (ex_info "a"%string) 0)]; services := []; lastID := 0 |}, RId 0, [])).
  { simpl. unfold c_register, reg_check, reg_commit. simpl. rewrite Hw. reflexivity. }
  rewrite run_cons, Hlast. cbn [fst snd run]. rewrite tr_ids_cons. cbn [tr_ids flat_map app].
  intros Hs. rewrite <- app_assoc in Hs. cbn [app] in Hs.
  clear - Hs. induction ids as [|x ids IH]; simpl in Hs.
  - inversion Hs as [|? ? _ Hf]; subst. inversion Hf as [|? ? Hlt _]; subst. unfold W32 in Hlt. lia.
  - inversion Hs; subst. auto.
Qed.

(* ---------- the clauses on the implementation model, by refinement ---------- *)
Theorem concrete_ids_increasing : forall g ops, cfg_wrap g = false ->
  StronglySorted N.lt (tr_ids (snd (run (cstep g) cinit ops))).
Proof.
  intros g ops Hw. rewrite (refinement g ops Hw). apply (ids_increasing_gen ops ainit AInv_init).
Qed.

Theorem concrete_events_exact : forall g ops id, cfg_wrap g = false ->
  events_for id (tr_events (snd (run (cstep g) cinit ops))) =
  life_events id (lifecycle_of id (snd (run (cstep g) cinit ops))).
Proof. intros g ops id Hw. rewrite (refinement g ops Hw). apply events_exact. Qed.

Theorem update_identity_reachable : forall ops i,
  let a := fst (run astep ainit ops) in
  forall id n rd, entry_with (fst (fst (astep a (OUpdate i)))) id n rd <-> entry_with a id n rd.
Proof. intros ops i a. apply update_keeps_identity. apply (run_inv ops ainit AInv_init). Qed.

Theorem dir_lin_check_correct : forall h,
  lin_check astep_r dres_eqb ainit h = true <-> linearizable astep_r ainit h.
Proof. intros h. apply lin_check_iff. apply dres_eqb_spec. Qed.

(* ---------- identifiers handed out in a linearizable history ---------- *)
(* Along a legal sequential order of the calls (pending ones included, whatever they would
   return) the ids of the completed registrations increase strictly; hence the ids of a
   linearizable history are pairwise distinct: no identifier is handed to two callers. *)
Lemma hist_ids_cons : forall (x : orec dop dres) l,
  hist_ids (x :: l) = (match o_op x, o_ret x with ORegister _, Some (_, RId id) => [id] | _, _ => [] end) ++ hist_ids l.
Proof. reflexivity. Qed.

Lemma legal_ids_increasing : forall lin a, AInv a -> legal astep_r a lin ->
  StronglySorted N.lt (hist_ids lin) /\ Forall (fun id => a_next a < id) (hist_ids lin).
Proof.
  induction lin as [|x l IH]; intros a Ha Hl.
  - split; constructor.
  - simpl in Hl. destruct Hl as [Hres Hl]. unfold astep_r in Hres, Hl.
    remember (astep a (o_op x)) as y eqn:Hy. destruct y as [[a1 r1] ev1]. symmetry in Hy. cbn [fst snd] in *.
    destruct (astep_inv _ _ _ _ _ Ha Hy) as [Ha' Hle].
    destruct (IH _ Ha' Hl) as [Hs Hf].
    assert (Hweak : Forall (fun id => a_next a < id) (hist_ids l)).
    { eapply Forall_impl; [|exact Hf]. cbv beta; intros; lia. }
    rewrite hist_ids_cons.
    destruct (o_op x) eqn:Ho; try (split; assumption).
    destruct (o_ret x) as [[u r0]|] eqn:Hr; try (split; assumption).
    destruct r0; try (split; assumption).
    subst r1.
    apply astep_register in Hy. destruct Hy as [[_ [_ [_ [E1 [E2 _]]]]]|[_ [E2 _]]]; [|discriminate].
    inversion E2; subst id. subst a1. cbn [a_next] in Hf. cbn [app]. split.
    + constructor; [exact Hs | exact Hf].
    + constructor; [lia | exact Hweak].
Qed.

Lemma hist_ids_app : forall a b : list (orec dop dres), hist_ids (a ++ b) = hist_ids a ++ hist_ids b.
Proof. intros. unfold hist_ids. apply flat_map_app. Qed.

Lemma hist_ids_pending : forall rest : list (orec dop dres),
  Forall (fun x => o_ret x = None) rest -> hist_ids rest = [].
Proof.
  induction 1 as [|x l Hx _ IH]; [reflexivity|].
  rewrite hist_ids_cons, Hx, IH. destruct (o_op x); reflexivity.
Qed.

Theorem lin_ids_increasing : forall h, linearizable astep_r ainit h ->
  exists lin rest, Permutation h (lin ++ rest) /\ Forall (fun x => o_ret x = None) rest /\ rt_ok lin /\
    StronglySorted N.lt (hist_ids lin) /\ Permutation (hist_ids h) (hist_ids lin).
Proof.
  intros h [lin [rest [HP [Hpend [Hleg Hrt]]]]]. exists lin, rest.
  repeat split; try assumption.
  - apply (legal_ids_increasing lin ainit AInv_init Hleg).
  - unfold hist_ids at 1. rewrite (Permutation_flat_map _ HP). fold (hist_ids (lin ++ rest)).
    rewrite hist_ids_app, (hist_ids_pending rest Hpend), app_nil_r. reflexivity.
Qed.

Lemma sorted_lt_nodup : forall l, StronglySorted N.lt l -> NoDup l.
Proof.
  induction 1 as [|x l _ IH Hx]; constructor; [|exact IH].
  intros Hin. rewrite Forall_forall in Hx. specialize (Hx _ Hin). lia.
Qed.

Theorem lin_ids_distinct : forall h, linearizable astep_r ainit h -> NoDup (hist_ids h).
Proof.
  intros h Hl. destruct (lin_ids_increasing h Hl) as [lin [rest [_ [_ [_ [Hs HP]]]]]].
  eapply Permutation_NoDup; [symmetry; exact HP | apply sorted_lt_nodup; exact Hs].
Qed.

Lemma nodupb_spec : forall l, nodupb l = true <-> NoDup l.
Proof.
  induction l as [|x r IH]; simpl.
  - split; [constructor | reflexivity].
  - rewrite andb_true_iff, negb_true_iff, IH. split.
    + intros [Hx Hr]. constructor; [|exact Hr]. intros Hin.
      assert (existsb (N.eqb x) r = true) by (apply existsb_exists; exists x; split; [exact Hin | apply N.eqb_refl]).
      congruence.
    + intros Hn. inversion Hn as [|? ? Hx Hr]; subst. split; [|exact Hr].
      destruct (existsb (N.eqb x) r) eqn:E; [|reflexivity].
      apply existsb_exists in E. destruct E as [y [Hy Hxy]]. apply N.eqb_eq in Hxy. subst y. contradiction.
Qed.
