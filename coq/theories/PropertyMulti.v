(* PropertyMulti.v — an object with several properties: one table (bus/object.go:
   objectImpl.properties, a map from property name to value under ONE propertiesMutex) holding one
   register of Property.v per declared property.

   The object modelled is the one the harness builds with bus.NewBasicObject: a meta object that
   declares the properties of [ptable] (name, uid), all of signature "i", and an onPropertyChange
   of the generated shape (switch on the name, basic.ReadInt32, the implementor's validator;
   "unknown property" otherwise).

   An operation names its property the way the wire does — a string value or, for setProperty, an
   unsigned value looked up in meta.Properties; the service-side Update<Prop> helper and
   registerEvent give the uid.  [localize] is that name resolution: it yields the register the
   operation acts on and the operation in Property.v's own vocabulary (where the register is
   called [prop_name] / [prop_uid]); an operation that resolves to no declared property fails and
   touches nothing.  [mstep] then runs Property.pstep on that register and leaves every other
   register alone, so every theorem about [pstep] speaks about each property of the object.

   No proofs in this file. *)
From Coq Require Import NArith List Bool String.
From QV Require Import Bytes Property.
Import ListNotations.
Local Open Scope N_scope.

Definition ptable := list (string * N).      (* declared properties: name, uid *)

Inductive mop :=
| MGet (nm : pname)                          (* remote property(name) *)
| MSet (nm : pname) (v : cval)               (* remote setProperty(name, value) *)
| MUpdate (uid : N) (x : N)                  (* stubObject.UpdateProperty(uid, "i", le32 x) *)
| MSubscribe (uid : N) (c : nat) (mid : N).  (* registerEvent(uid) from connection c, message id mid *)

Fixpoint idx_name (t : ptable) (s : string) : option nat :=
  match t with
  | [] => None
  | (n, _) :: r => if String.eqb n s then Some O else option_map S (idx_name r s)
  end.
Fixpoint idx_uid (t : ptable) (u : N) : option nat :=
  match t with
  | [] => None
  | (_, u') :: r => if u' =? u then Some O else option_map S (idx_uid r u)
  end.
Definition uid_of (t : ptable) (k : nat) : N := snd (nth k t (EmptyString, 0)).

Definition at_reg (o : pop) (k : option nat) : option (nat * pop) := option_map (fun i => (i, o)) k.

(* which register, and the operation as that register sees it *)
Definition localize (t : ptable) (o : mop) : option (nat * pop) :=
  match o with
  | MGet (NmStr s) => at_reg (PGet (NmStr prop_name)) (idx_name t s)
  | MGet _ => None                                     (* objectImpl.Property: only a string name *)
  | MSet (NmStr s) v => at_reg (PSet (NmStr prop_name) v) (idx_name t s)
  | MSet (NmUint u) v => at_reg (PSet (NmUint prop_uid) v) (idx_uid t u)
  | MSet NmOther _ => None
  | MUpdate u x => at_reg (PUpdate x) (idx_uid t u)
  | MSubscribe u c mid => at_reg (PSubscribe c mid) (idx_uid t u)
  end.

Definition mstate := list pstate.            (* one register per declared property, in table order *)
Definition minit (t : ptable) : mstate := map (fun _ => pinit) t.
Definition mreg (ms : mstate) (k : nat) : pstate := nth k ms pinit.
Fixpoint mupd (k : nat) (s : pstate) (ms : mstate) : mstate :=
  match ms, k with
  | [], _ => []
  | _ :: r, O => s :: r
  | x :: r, S k' => x :: mupd k' s r
  end.

Definition mevent := (N * pevent)%type.      (* the property's uid (the action of the event frame), the event *)

Definition mstep (t : ptable) (c : pcfg) (valid : N -> bool) (ms : mstate) (o : mop)
  : mstate * pres * list mevent :=
  match localize t o with
  | Some (k, po) =>
      let '(s1, r, ev) := pstep c valid (mreg ms k) po in
      (mupd k s1 ms, r, map (fun e => (uid_of t k, e)) ev)
  | None => (ms, RFail, [])
  end.

(* the form Lin.v wants *)
Definition mrstep (t : ptable) (c : pcfg) (valid : N -> bool) (ms : mstate) (o : mop) : mstate * pres :=
  fst (mstep t c valid ms o).

Fixpoint mrun (t : ptable) (c : pcfg) (valid : N -> bool) (ms : mstate) (ops : list mop)
  : mstate * list (pres * list mevent) :=
  match ops with
  | [] => (ms, [])
  | o :: r =>
      let '(s1, res, ev) := mstep t c valid ms o in
      let '(s2, l) := mrun t c valid s1 r in (s2, (res, ev) :: l)
  end.

(* the operations of a sequence that resolve to register k, as that register sees them *)
Fixpoint ops_for (t : ptable) (k : nat) (ops : list mop) : list pop :=
  match ops with
  | [] => []
  | o :: r =>
      match localize t o with
      | Some (k', po) => if Nat.eqb k' k then po :: ops_for t k r else ops_for t k r
      | None => ops_for t k r
      end
  end.
