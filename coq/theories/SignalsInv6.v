(* SignalsInv6.v — after the reply that acknowledged the removal of a registration, no event frame
   of that registration is written on that connection (repaired configuration). *)
From QV Require Import Signals SignalsLemmas SignalsStep SignalsInv1 SignalsInv2 SignalsInv3 SignalsInv4 SignalsProofs.
From Coq Require Import Permutation.
Local Open Scope N_scope.

Definition gone_of (log : list (dframe * option N)) : list N :=
  flat_map (fun e => match e with (DReply _ _, Some m) => [m] | _ => [] end) log.
Definition pendnote (st : state) (c : nat) : list N :=
  match pend st with Some (c', DReply _ _, Some m) => if Nat.eqb c' c then [m] else [] | _ => [] end.

Definition mid_free (st : state) (c : nat) (mr : N) : Prop :=
  (forall u, In u (table st) -> u_conn u = c -> u_mid u <> mr) /\
  (forall m sig h, In (UReg m sig h) (up st c) -> m <> mr) /\
  mr <= c_mid (cl st c).

Record AckInv (st : state) : Prop := {
  a_emit : forall sig p us, emit st = Some (sig, p, us) -> forall u, In u us -> In u (table st);
  a_gone : forall c mr, In mr (gone_of (dlog st c) ++ pendnote st c) -> mid_free st c mr;
  a_log : forall c, no_event_after_ack [] (dlog st c) = true;
  a_pend : forall c f n, pend st = Some (c, f, n) -> dreply f <> None
}.

Lemma AckInv_init : AckInv init.
Proof. split; [discriminate|intros c mr []|reflexivity|discriminate]. Qed.

Lemma gone_of_app a b : gone_of (a ++ b) = gone_of a ++ gone_of b.
Proof. apply flat_map_app. Qed.

Lemma existsb_Neqb_In m l : existsb (N.eqb m) l = true <-> In m l.
Proof.
  split.
  - intro H. apply existsb_exists in H as (y & Hy & E). apply N.eqb_eq in E. now subst.
  - intro H. apply existsb_exists. exists m. split; [exact H|apply N.eqb_refl].
Qed.

(* appending one frame to a log *)
Lemma no_event_after_ack_app G log e :
  no_event_after_ack G (log ++ [e]) = true <->
  no_event_after_ack G log = true /\
  (forall s m p n, e = (DEvent s m p, n) -> ~ In m G /\ ~ In m (gone_of log)).
Proof.
  revert G. induction log as [|[f n] log IH]; intro G.
  - cbn [app no_event_after_ack gone_of flat_map]. destruct e as [[a m|a m|s m p] n0].
    + destruct n0; split; try (intros _; split; [reflexivity|discriminate]); auto.
    + split; [intros _; split; [reflexivity|discriminate]|auto].
    + rewrite andb_true_r, negb_true_iff. split.
      * intro H. split; [reflexivity|]. intros s0 m0 p0 n1 [= -> -> -> ->]. split; [|intros []].
        intro Hin. apply existsb_Neqb_In in Hin. congruence.
      * intros [_ H]. destruct (H s m p n0 eq_refl) as [Hn _].
        destruct (existsb (N.eqb m) G) eqn:E; [|reflexivity]. apply existsb_Neqb_In in E. contradiction.
  - cbn [app]. destruct f as [a m|a m|s m p].
    + destruct n as [mm|]; cbn [no_event_after_ack gone_of flat_map app]; rewrite IH; fold (gone_of log).
      * split; intros [H1 H2]; (split; [exact H1|]); intros s0 m0 p0 n1 E; destruct (H2 s0 m0 p0 n1 E) as [A B].
        -- split; [intro; apply A; now right|]. intros [->|Hin]; [apply A; now left|contradiction].
        -- split; [intros [->|Hin]; [apply B; now left|contradiction]|]. intro; apply B; now right.
      * reflexivity.
    + cbn [no_event_after_ack gone_of flat_map app]. now rewrite IH.
    + cbn [no_event_after_ack gone_of flat_map app]. rewrite !andb_true_iff, IH. fold (gone_of log). tauto.
Qed.

Lemma mid_free_mono st st' c mr :
  (forall u, In u (table st') -> In u (table st)) ->
  (forall m sig h, In (UReg m sig h) (up st' c) -> In (UReg m sig h) (up st c)) ->
  c_mid (cl st c) <= c_mid (cl st' c) ->
  mid_free st c mr -> mid_free st' c mr.
Proof. intros Ht Hu Hm (A & B & C). repeat split; eauto. lia. Qed.

Lemma AckInv_frame st st' :
  (forall sig p us, emit st' = Some (sig, p, us) -> forall u, In u us -> In u (table st')) ->
  (forall u, In u (table st') -> In u (table st)) ->
  (forall c m sig h, In (UReg m sig h) (up st' c) -> In (UReg m sig h) (up st c)) ->
  (forall c, c_mid (cl st c) <= c_mid (cl st' c)) ->
  dlog st' = dlog st -> (forall c, pendnote st' c = pendnote st c) ->
  (forall c f n, pend st' = Some (c, f, n) -> dreply f <> None) ->
  AckInv st -> AckInv st'.
Proof.
  intros H1 H2 H3 H4 H5 H6 H7 [A1 A2 A3 A4]. split; [exact H1| |now rewrite H5|exact H7].
  intros c mr Hin. rewrite H5, H6 in Hin. eapply mid_free_mono; eauto.
Qed.

Lemma c_mid_fupd_le (f : nat -> cstate) c0 k c : c_mid (f c0) <= c_mid k -> c_mid (f c) <= c_mid (fupd f c0 k c).
Proof. apply c_mid_fupd. Qed.

Lemma In_mk_emit sig p us sig' p' us' : mk_emit sig p us = Some (sig', p', us') -> us' = us.
Proof. destruct us; cbn; [discriminate|now intros [= _ _ <-]]. Qed.

Theorem AckInv_step g st l st' :
  clean g -> UidInv st -> MidInv st -> AckInv st -> Step g st l st' -> AckInv st'.
Proof.
  intros (Hg1 & Hg2 & Hg3) HU HM HA HS. pose proof HA as [A1 A2 A3 A4]. inversion HS; subst; clear HS.
  - apply (AckInv_frame st); psimpl; auto; intros; lia.
  - apply (AckInv_frame st); psimpl; auto. intro c. apply c_mid_fupd_le. cbn. lia.
  - apply (AckInv_frame st); psimpl; auto. intro c. apply c_mid_fupd_le. cbn. lia.
  - (* send reg *)
    split; psimpl; [exact A1| |exact A3|exact A4].
    intros c mr Hin. destruct (A2 c mr Hin) as (B1 & B2 & B3). split; [exact B1|]. unfold pendnote in *. psimpl.
    destruct (Nat.eq_dec c (s_conn x)) as [->|Ne].
    + rewrite !fupd_eq. cbn [c_mid]. split; [|lia]. intros m sig h0 Hi. apply in_app_or in Hi as [Hi|[Hi|[]]]; [eauto|].
      injection Hi as <- _ _. lia.
    + rewrite !fupd_neq by exact Ne. auto.
  - (* mbox reg *)
    split; psimpl.
    + intros sig0 p us He. rewrite (H3 Hg2) in He. discriminate.
    + intros c0 mr Hin. unfold pendnote in Hin. psimpl. rewrite app_nil_r in Hin.
      destruct (A2 c0 mr) as (B1 & B2 & B3); [apply in_or_app; now left|]. repeat split; psimpl; [| |exact B3].
      * intros u Hu Hc. apply in_app_or in Hu as [Hu|[<-|[]]]; [eauto|]. cbn in Hc. subst c0. cbn.
        apply (B2 m sig uid). rewrite H2. now left.
      * intros m0 sig0 h0 Hi. destruct (Nat.eq_dec c0 c) as [->|Ne]; [|rewrite fupd_neq in Hi by exact Ne; eauto].
        rewrite fupd_eq in Hi. apply (B2 m0 sig0 h0). rewrite H2. now right.
    + exact A3.
    + intros c0 f n [= <- <- <-]. discriminate.
  - exfalso. eapply clean_no_dup; eassumption.
  - exfalso. eapply clean_no_dup; eassumption.
  - (* mbox unreg *)
    destruct (find_idx_some _ _ _ H4) as (e & He & Hi).
    unfold is_user in Hi. apply andb_prop in Hi as [_ Hc]. apply Nat.eqb_eq in Hc.
    rewrite (nth_nth_error _ _ no_user _ He).
    pose proof (swap_remove_perm _ _ _ He) as P.
    assert (Hsub : forall u, In u (swap_remove (table st) i) -> In u (table st)).
    { intros u Hu. apply (Permutation_in _ (Permutation_sym P)). now right. }
    split; psimpl.
    + intros sig0 p us Hem. rewrite (H3 Hg2) in Hem. discriminate.
    + intros c0 mr Hin. unfold pendnote in Hin. psimpl. unfold A_unregister in Hin.
      apply in_app_or in Hin as [Hin|Hin].
      * destruct (A2 c0 mr) as (B1 & B2 & B3); [apply in_or_app; now left|]. repeat split; psimpl; [| |exact B3].
        -- intros u Hu. apply B1. now apply Hsub.
        -- intros m0 sig0 h0 Hi0. destruct (Nat.eq_dec c0 c) as [->|Ne]; [|rewrite fupd_neq in Hi0 by exact Ne; eauto].
           rewrite fupd_eq in Hi0. apply (B2 m0 sig0 h0). rewrite H2. now right.
      * destruct (Nat.eqb c c0) eqn:Ec; [|destruct Hin]. apply Nat.eqb_eq in Ec. subst c0. destruct Hin as [<-|[]].
        destruct (HM c) as [Hn Hk]. unfold keys in Hn, Hk.
        assert (Pc : Permutation (map u_mid (conn_ents (table st) c)) (u_mid e :: map u_mid (conn_ents (swap_remove (table st) i) c))).
        { pose proof (conn_ents_swap_remove _ _ _ c He) as Pc. cbn [conn_ents filter] in Pc. rewrite Hc, Nat.eqb_refl in Pc.
          now apply (Permutation_map u_mid) in Pc. }
        repeat split; psimpl.
        -- intros u Hu Hcu Heq. apply NoDup_app_l in Hn. apply (Permutation_NoDup Pc) in Hn.
           inversion Hn as [|? ? Hnot _]; subst. apply Hnot. rewrite <- Heq. apply in_map.
           apply filter_In. split; [exact Hu|]. now rewrite Hcu, Nat.eqb_refl.
        -- intros m0 sig0 h0 Hi0 ->. rewrite fupd_eq in Hi0.
           eapply NoDup_app_disj; [exact Hn| |].
           ++ apply (Permutation_in _ (Permutation_sym Pc)). now left.
           ++ rewrite H2. cbn [fkeys flat_map app]. unfold fkeys. apply in_flat_map. exists (UReg (u_mid e) sig0 h0). split; [exact Hi0|now left].
        -- apply Hk. apply in_or_app. left. apply (Permutation_in _ (Permutation_sym Pc)). now left.
    + exact A3.
    + intros c0 f n [= <- <- <-]. discriminate.
  - (* mbox unreg err *)
    apply (AckInv_frame st); psimpl; auto.
    + intros c0 m0 sig0 h0 Hi. destruct (Nat.eq_dec c0 c) as [->|Ne]; [|now rewrite fupd_neq in Hi by exact Ne].
      rewrite fupd_eq in Hi. rewrite H2. now right.
    + intro; lia.
    + intro c0. unfold pendnote. psimpl. now rewrite H1.
    + intros c0 f n [= <- <- <-]. discriminate.
  - (* reply *)
    split; psimpl; [exact A1| | |discriminate].
    + intros c0 mr Hin. unfold pendnote in Hin. psimpl. rewrite app_nil_r in Hin.
      apply (mid_free_mono st); psimpl; auto; [lia|]. apply A2. unfold pendnote. rewrite H0.
      destruct (Nat.eq_dec c0 c) as [->|Ne].
      * rewrite fupd_eq, gone_of_app in Hin. rewrite Nat.eqb_refl. cbn [gone_of flat_map] in Hin.
        destruct f; try (rewrite !app_nil_r in Hin; apply in_or_app; now left).
        destruct note; rewrite ?app_nil_r in Hin; [exact Hin|apply in_or_app; now left].
      * rewrite fupd_neq in Hin by exact Ne. apply in_or_app; now left.
    + intro c0. destruct (Nat.eq_dec c0 c) as [->|Ne]; [|now rewrite fupd_neq by exact Ne].
      rewrite fupd_eq. apply no_event_after_ack_app. split; [apply A3|].
      intros s0 m0 p0 n0 [= -> _]. exfalso. now apply (A4 _ _ _ H0).
  - (* emit snap *)
    apply (AckInv_frame st); psimpl; auto; [|intro; lia].
    intros sig0 p0 us He u Hu. apply In_mk_emit in He. subst us. now apply filter_In in Hu as [Hu _].
  - (* emit send *)
    split; psimpl; [| | |exact A4].
    + intros sig0 p0 us0 He u0 Hu0. apply In_mk_emit in He. subst us0. apply (A1 _ _ _ H). now right.
    + intros c0 mr Hin. apply (mid_free_mono st); psimpl; auto; [lia|]. apply A2.
      unfold pendnote in *. psimpl. destruct (Nat.eq_dec c0 (u_conn u)) as [->|Ne].
      * rewrite fupd_eq, gone_of_app in Hin. cbn [gone_of flat_map app] in Hin. now rewrite app_nil_r in Hin.
      * now rewrite fupd_neq in Hin by exact Ne.
    + intro c0. destruct (Nat.eq_dec c0 (u_conn u)) as [->|Ne]; [|now rewrite fupd_neq by exact Ne].
      rewrite fupd_eq. apply no_event_after_ack_app. split; [apply A3|].
      intros s0 m0 p0 n0 [= _ <- _ _]. split; [intros []|]. intro Hin.
      destruct (A2 (u_conn u) (u_mid u)) as (B1 & _); [apply in_or_app; now left|].
      apply (B1 u); [apply (A1 _ _ _ H); now left|reflexivity|reflexivity].
  - apply (AckInv_frame st); psimpl; auto; intros; lia.
  - apply (AckInv_frame st); psimpl; auto; intros; lia.
  - apply (AckInv_frame st); psimpl; auto. intro c0. apply c_mid_fupd_le. cbn. lia.
  - apply (AckInv_frame st); psimpl; auto. intro c0. apply c_mid_fupd_le. cbn. lia.
  - apply (AckInv_frame st); psimpl; auto. intro c0. apply c_mid_fupd_le. cbn. lia.
  - (* send unreg *)
    apply (AckInv_frame st); psimpl; auto.
    + intros c0 m0 sig0 h0 Hi. destruct (Nat.eq_dec c0 (s_conn x)) as [->|Ne]; [|now rewrite !fupd_neq in Hi by exact Ne].
      rewrite !fupd_eq in Hi. apply in_app_or in Hi as [Hi|[Hi|[]]]; [exact Hi|discriminate].
    + intro c0. apply c_mid_fupd_le. cbn. lia.
  - apply (AckInv_frame st); psimpl; auto; intros; lia.
  - apply (AckInv_frame st); psimpl; auto; intros; lia.
Qed.
