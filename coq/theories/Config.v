(* Config.v — defect switches of the wire-format models.  Each field is a behaviour of the
   pinned tree that violates a property; the harness probes the real code and supplies the
   observed value, the theorems are stated for [clean] configurations and refuted per switch. *)
Record wcfg := {
  value_reader_no_len : bool;      (* reader.go valueReader returns signature bytes without their length prefix *)
  string_reader_drops_err : bool;  (* reader.go stringReader overwrites the ReadString error *)
  refl_drop8 : bool;               (* encoding.go: no Int8/Uint8 case in encoder and decoder *)
  refl_struct_ignores_err : bool;  (* encoding.go qiDecoder.value: struct field errors ignored *)
  refl_neg_len_panics : bool       (* encoding.go sliceValue: negative length reaches SetLen *)
}.
Definition wclean : wcfg := {| value_reader_no_len := false; string_reader_drops_err := false;
  refl_drop8 := false; refl_struct_ignores_err := false; refl_neg_len_panics := false |}.
Definition wpinned : wcfg := {| value_reader_no_len := true; string_reader_drops_err := true;
  refl_drop8 := true; refl_struct_ignores_err := true; refl_neg_len_panics := true |}.
