(* HostileProofs.v — C12 for the repaired configuration (no duplicate-id deadlock, writes do not
   block for ever): no goroutine of the server is ever dead or blocked, no endpoint mutex stays
   held, and from every reachable state a fresh client's call is answered within a bounded number
   of steps of the object's goroutine and of its own connection's goroutines. *)
From QV Require Import Signals SignalsLemmas Hostile.
Local Open Scope N_scope.

Section Proofs.
Variable cls : okind -> N -> N -> pcls.
Variable g : hcfg.
Hypothesis Hclean : hclean g.

Notation hstep := (hstep cls g).
Notation hrun := (hrun cls g).

Definition cgood (x : conn) : Prop :=
  c_hlock x = false /\ c_proc x = PIdle /\ (forall d, c_cons x <> CBlockedW d) /\ (List.length (c_q x) <= ConsumerCap)%nat.
Definition ogood (x : obj) : Prop := o_gor x = OIdle /\ (List.length (o_mb x) <= MailboxCap)%nat.
Record HInv (st : hstate) : Prop := {
  hi_conns : Forall cgood (conns st);
  hi_objs : Forall ogood (objs st);
  hi_hold : forall c x o f, nth_error (conns st) c = Some x -> c_cons x = CHold o f -> (o < List.length (objs st))%nat
}.

Lemma Forall_set_nth {A} (P : A -> Prop) l i x : Forall P l -> P x -> Forall P (set_nth l i x).
Proof.
  intro H. revert i. induction H as [|y l Py Hl IH]; intros [|i] Px; cbn; constructor; auto.
Qed.
Lemma Forall_nth_error {A} (P : A -> Prop) l i x : Forall P l -> nth_error l i = Some x -> P x.
Proof. intros H Hn. eapply Forall_forall; [exact H|]. eapply nth_error_In; exact Hn. Qed.

Lemma can_write_clean x : can_write g x = true.
Proof. unfold can_write. destruct Hclean as [_ ->]. reflexivity. Qed.

Lemma cgood_with_out x d : cgood x -> cgood (with_out x d).
Proof. unfold with_out. destruct (c_open x); auto. Qed.

Lemma do_writes_clean cs ws : Forall cgood cs ->
  exists cs', do_writes g cs ws = (cs', []) /\ Forall cgood cs' /\ List.length cs' = List.length cs.
Proof.
  revert cs. induction ws as [|[c d] ws IH]; intros cs H; cbn [do_writes].
  - exists cs. auto.
  - destruct (nth_error cs c) as [x|] eqn:E.
    + rewrite can_write_clean.
      destruct (IH (set_nth cs c (with_out x d))) as (cs' & E' & F' & L').
      { apply Forall_set_nth; [exact H|]. apply cgood_with_out. eapply Forall_nth_error; eassumption. }
      exists cs'. rewrite set_nth_length in L'. auto.
    + apply IH. exact H.
Qed.

Lemma conn_locked_false st c : Forall cgood (conns st) -> conn_locked st c = false.
Proof.
  intro H. unfold conn_locked. destruct (nth_error (conns st) c) as [x|] eqn:E; [|reflexivity].
  now destruct (Forall_nth_error _ _ _ _ H E).
Qed.

(* in the repaired configuration the object's goroutine always completes its mail *)
Lemma obj_exec_clean st x c f : Forall cgood (conns st) -> o_gor x = OIdle ->
  exists x' ws, obj_exec cls g st x c f = Some (x', ws, None) /\ o_gor x' = OIdle /\ o_mb x' = tl (o_mb x) /\
                o_svc x' = o_svc x /\ o_id x' = o_id x /\ o_kind x' = o_kind x.
Proof.
  intros HC HG. destruct Hclean as [Hd _]. unfold obj_exec.
  assert (HL : forall c0, conn_locked st c0 = false) by (intro; now apply conn_locked_false).
  assert (HE : existsb (fun u => conn_locked st (u_conn u)) (o_table x) = false).
  { apply Bool.not_true_is_false. intro E. apply existsb_exists in E as (u & _ & E). now rewrite HL in E. }
  rewrite Hd, HE. rewrite !HL.
  destruct (o_kind x); [| |repeat eexists; reflexivity];
  (destruct (negb (h_other_types_run g) && negb ((f_type f =? T_call) || (f_type f =? T_post))); [repeat eexists; reflexivity|]);
  (destruct (f_act f =? A_register);
   [destruct (cls _ (f_act f) (f_pl f)); try (repeat eexists; reflexivity);
    destruct (negb (oid_ok x oid)); try (repeat eexists; reflexivity);
    destruct (find_idx _ _); repeat eexists; reflexivity|]);
  (destruct (f_act f =? A_unregister);
   [destruct (cls _ (f_act f) (f_pl f)); try (repeat eexists; reflexivity);
    destruct (negb (oid_ok x oid)); try (repeat eexists; reflexivity);
    destruct (find_idx _ _); repeat eexists; reflexivity|]);
  (destruct (f_act f =? A_metaObject);
   [destruct (cls _ (f_act f) (f_pl f)); repeat eexists; reflexivity|]);
  (destruct (f_act f =? A_terminate);
   [destruct (cls _ (f_act f) (f_pl f)); try (repeat eexists; reflexivity);
    destruct (negb (oid_ok x oid)); repeat eexists; reflexivity|]);
  destruct (cls _ (f_act f) (f_pl f)); repeat eexists; reflexivity.
Qed.

Lemma ogood_same_gor x mb : o_gor x = OIdle -> (List.length mb <= MailboxCap)%nat ->
  ogood {| o_svc := o_svc x; o_id := o_id x; o_kind := o_kind x; o_alive := o_alive x; o_table := o_table x; o_mb := mb; o_gor := o_gor x |}.
Proof. intros; split; assumption. Qed.

Lemma length_tl_le {A} (l : list A) n : (List.length l <= n)%nat -> (List.length (tl l) <= n)%nat.
Proof. destruct l; cbn; lia. Qed.

Lemma do_writes_hold (n : nat) : forall ws cs cs', do_writes g cs ws = (cs', []) ->
  (forall c x o f, nth_error cs c = Some x -> c_cons x = CHold o f -> (o < n)%nat) ->
  forall c x o f, nth_error cs' c = Some x -> c_cons x = CHold o f -> (o < n)%nat.
Proof.
  induction ws as [|[c d] ws IH]; intros cs cs' E Hc; cbn [do_writes] in E.
  - now injection E as <-.
  - destruct (nth_error cs c) as [x|] eqn:Ex; [|eapply IH; eassumption].
    destruct (can_write g x); [|discriminate]. eapply IH; [exact E|].
    intros c1 x1 o f Hn Hh. destruct (Nat.eq_dec c c1) as [->|Ne].
    + rewrite (nth_error_set_nth_eq _ _ _ _ Ex) in Hn. injection Hn as <-.
      eapply (Hc c1 x); [exact Ex|]. unfold with_out in Hh. destruct (c_open x); exact Hh.
    + rewrite nth_error_set_nth_neq in Hn by exact Ne. eapply Hc; eassumption.
Qed.

Theorem HInv_step st l st' : HInv st -> hstep st l = Some st' -> HInv st'.
Proof.
  intros [HC HO HH] H. destruct l as [c f|c| |c|c|c|c|c|o|o| ]; cbn [Hostile.hstep] in H.
  - (* HSend *)
    destruct (nth_error (conns st) c) as [x|] eqn:Ex; [|discriminate]. injection H as <-.
    pose proof (Forall_nth_error _ _ _ _ HC Ex) as (G1 & G2 & G3 & G4).
    split; cbn; [apply Forall_set_nth; [exact HC|repeat split; assumption]|exact HO|].
    intros c0 x0 o f0 Hn Hc. destruct (Nat.eq_dec c c0) as [->|Ne].
    + rewrite (nth_error_set_nth_eq _ _ _ _ Ex) in Hn. injection Hn as <-. cbn in Hc. eapply HH; eassumption.
    + rewrite nth_error_set_nth_neq in Hn by exact Ne. eapply HH; eassumption.
  - (* HRead *)
    destruct (nth_error (conns st) c) as [x|] eqn:Ex; [|discriminate]. destruct (c_out x) as [|d r] eqn:Eo; [discriminate|].
    injection H as <-. pose proof (Forall_nth_error _ _ _ _ HC Ex) as (G1 & G2 & G3 & G4).
    split; cbn; [apply Forall_set_nth; [exact HC|repeat split; assumption]|exact HO|].
    intros c0 x0 o f0 Hn Hc. destruct (Nat.eq_dec c c0) as [->|Ne].
    + rewrite (nth_error_set_nth_eq _ _ _ _ Ex) in Hn. injection Hn as <-. cbn in Hc. eapply HH; eassumption.
    + rewrite nth_error_set_nth_neq in Hn by exact Ne. eapply HH; eassumption.
  - (* HConnect *)
    injection H as <-. split; cbn; [apply Forall_app; split; [exact HC|constructor; [|constructor]]|exact HO|].
    + repeat split; cbn; try discriminate. unfold ConsumerCap. lia.
    + intros c0 x0 o f0 Hn Hc. destruct (Nat.eq_dec c0 (List.length (conns st))) as [->|Ne].
      * rewrite nth_error_app_last in Hn. injection Hn as <-. discriminate.
      * assert (c0 < List.length (conns st))%nat.
        { assert (c0 < List.length (conns st ++ [conn0]))%nat by (apply nth_error_Some; congruence).
          rewrite app_length in H. cbn in H. lia. }
        rewrite nth_error_app1 in Hn by assumption. eapply HH; eassumption.
  - (* LProc *)
    destruct (nth_error (conns st) c) as [x|] eqn:Ex; [|discriminate].
    pose proof (Forall_nth_error _ _ _ _ HC Ex) as (G1 & G2 & G3 & G4).
    destruct (c_open x); [|discriminate]. rewrite G1, G2 in H. destruct (c_in x) as [|f rest]; [discriminate|].
    rewrite can_write_clean in H.
    assert (Hhold : forall x', c_cons x' = c_cons x -> forall c0 x0 o f0,
              nth_error (set_nth (conns st) c x') c0 = Some x0 -> c_cons x0 = CHold o f0 -> (o < List.length (objs st))%nat).
    { intros x' Hc c0 x0 o f0 Hn Hc0. destruct (Nat.eq_dec c c0) as [->|Ne].
      - rewrite (nth_error_set_nth_eq _ _ _ _ Ex) in Hn. injection Hn as <-. rewrite Hc in Hc0. eapply HH; eassumption.
      - rewrite nth_error_set_nth_neq in Hn by exact Ne. eapply HH; eassumption. }
    destruct (negb (readable f)).
    + injection H as <-. split; cbn; [apply Forall_set_nth; [exact HC|repeat split; assumption]|exact HO|].
      (intros c0 x0 o0 f0 Hn0 Hc0; eapply Hhold; [|exact Hn0|exact Hc0]; reflexivity).
    + destruct (negb (for_server f)); [injection H as <-; split; cbn; [apply Forall_set_nth; [exact HC|repeat split; assumption]|exact HO|(intros c0 x0 o0 f0 Hn0 Hc0; eapply Hhold; [|exact Hn0|exact Hc0]; reflexivity)]|].
      destruct (Nat.ltb (List.length (c_q x)) ConsumerCap) eqn:El.
      * injection H as <-. apply Nat.ltb_lt in El. split; cbn; [apply Forall_set_nth; [exact HC|]|exact HO|(intros c0 x0 o0 f0 Hn0 Hc0; eapply Hhold; [|exact Hn0|exact Hc0]; reflexivity)].
        repeat split; cbn; try assumption. rewrite app_length. cbn. lia.
      * destruct (f_type f =? T_call); injection H as <-.
        -- split; cbn; [apply Forall_set_nth; [exact HC|repeat split; cbn; assumption]|exact HO|].
           intros c0 x0 o0 f0 Hn0 Hc0; eapply Hhold; [|exact Hn0|exact Hc0]. reflexivity.
        -- split; cbn; [apply Forall_set_nth; [exact HC|repeat split; assumption]|exact HO|(intros c0 x0 o0 f0 Hn0 Hc0; eapply Hhold; [|exact Hn0|exact Hc0]; reflexivity)].
  - (* LProcResume: never enabled *)
    destruct (nth_error (conns st) c) as [x|] eqn:Ex; [|discriminate].
    pose proof (Forall_nth_error _ _ _ _ HC Ex) as (G1 & G2 & G3 & G4). rewrite G2 in H. discriminate.
  - (* LCons *)
    destruct (nth_error (conns st) c) as [x|] eqn:Ex; [|discriminate].
    pose proof (Forall_nth_error _ _ _ _ HC Ex) as (G1 & G2 & G3 & G4).
    destruct (c_cons x) eqn:Ec; try discriminate. destruct (c_q x) as [|f rest] eqn:Eq; [discriminate|].
    cbn [List.length] in G4.
    destruct (find_obj g st (f_svc f) (f_obj f)) as [o|] eqn:Ef.
    + destruct (nth_error (objs st) o) as [y|] eqn:Ey; [|discriminate].
      assert (Lo : (o < List.length (objs st))%nat) by (apply nth_error_Some; congruence).
      pose proof (Forall_nth_error _ _ _ _ HO Ey) as (Y1 & Y2).
      destruct (Nat.ltb (List.length (o_mb y)) MailboxCap) eqn:El; injection H as <-.
      * apply Nat.ltb_lt in El. split; cbn.
        -- apply Forall_set_nth; [exact HC|]. repeat split; cbn; try assumption; try discriminate. lia.
        -- apply Forall_set_nth; [exact HO|]. split; cbn; [exact Y1|]. rewrite app_length. cbn. lia.
        -- rewrite set_nth_length. intros c0 x0 o0 f0 Hn Hc0. destruct (Nat.eq_dec c c0) as [->|Ne].
           ++ rewrite (nth_error_set_nth_eq _ _ _ _ Ex) in Hn. injection Hn as <-. discriminate.
           ++ rewrite nth_error_set_nth_neq in Hn by exact Ne. eapply HH; eassumption.
      * split; cbn.
        -- apply Forall_set_nth; [exact HC|]. repeat split; cbn; try assumption; try discriminate. lia.
        -- exact HO.
        -- intros c0 x0 o0 f0 Hn Hc0. destruct (Nat.eq_dec c c0) as [->|Ne].
           ++ rewrite (nth_error_set_nth_eq _ _ _ _ Ex) in Hn. injection Hn as <-. cbn in Hc0. injection Hc0 as <- _. exact Lo.
           ++ rewrite nth_error_set_nth_neq in Hn by exact Ne. eapply HH; eassumption.
    + rewrite can_write_clean in H. injection H as <-. split; cbn; [|exact HO|].
      * apply Forall_set_nth; [exact HC|]. apply cgood_with_out. repeat split; cbn; try assumption; try discriminate. lia.
      * intros c0 x0 o0 f0 Hn Hc0. destruct (Nat.eq_dec c c0) as [->|Ne].
        -- rewrite (nth_error_set_nth_eq _ _ _ _ Ex) in Hn. injection Hn as <-. unfold with_out in Hc0. destruct (c_open x); discriminate.
        -- rewrite nth_error_set_nth_neq in Hn by exact Ne. eapply HH; eassumption.
  - (* LConsPut *)
    destruct (nth_error (conns st) c) as [x|] eqn:Ex; [|discriminate].
    pose proof (Forall_nth_error _ _ _ _ HC Ex) as (G1 & G2 & G3 & G4).
    destruct (c_cons x) as [|o f|] eqn:Ec; try discriminate.
    destruct (nth_error (objs st) o) as [y|] eqn:Ey; [|discriminate].
    pose proof (Forall_nth_error _ _ _ _ HO Ey) as (Y1 & Y2).
    destruct (Nat.ltb (List.length (o_mb y)) MailboxCap) eqn:El; [|discriminate]. injection H as <-. apply Nat.ltb_lt in El.
    split; cbn.
    + apply Forall_set_nth; [exact HC|]. repeat split; cbn; try assumption; try discriminate.
    + apply Forall_set_nth; [exact HO|]. split; cbn; [exact Y1|]. rewrite app_length. cbn. lia.
    + rewrite set_nth_length. intros c0 x0 o0 f0 Hn Hc0. destruct (Nat.eq_dec c c0) as [->|Ne].
      * rewrite (nth_error_set_nth_eq _ _ _ _ Ex) in Hn. injection Hn as <-. discriminate.
      * rewrite nth_error_set_nth_neq in Hn by exact Ne. eapply HH; eassumption.
  - (* LConsResume: never enabled *)
    destruct (nth_error (conns st) c) as [x|] eqn:Ex; [|discriminate].
    pose proof (Forall_nth_error _ _ _ _ HC Ex) as (G1 & G2 & G3 & G4).
    destruct (c_cons x) eqn:Ec; try discriminate. exfalso. eapply G3. reflexivity.
  - (* LObj *)
    destruct (nth_error (objs st) o) as [x|] eqn:Ex; [|discriminate].
    pose proof (Forall_nth_error _ _ _ _ HO Ex) as (Y1 & Y2). rewrite Y1 in H.
    destruct (o_mb x) as [|[c f] r] eqn:Em; [discriminate|].
    destruct (obj_exec_clean st x c f HC Y1) as (x' & ws & E & G1 & G2 & _). rewrite E in H. cbn [lock_conn] in H.
    destruct (do_writes_clean (conns st) ws HC) as (cs' & Ew & Fw & Lw). rewrite Ew in H. injection H as <-.
    split; cbn.
    + exact Fw.
    + apply Forall_set_nth; [exact HO|]. split; [exact G1|]. rewrite G2. cbn [List.length] in Y2. apply length_tl_le. rewrite Em. cbn. lia.
    + rewrite set_nth_length. intros c0 x0 o0 f0 Hn Hc0.
      eapply do_writes_hold; [exact Ew|exact HH|exact Hn|exact Hc0].
  - (* LObjResume: never enabled *)
    destruct (nth_error (objs st) o) as [x|] eqn:Ex; [|discriminate].
    pose proof (Forall_nth_error _ _ _ _ HO Ex) as (Y1 & Y2). rewrite Y1 in H. discriminate.
  - (* LCloser *)
    destruct (closers st) as [|[[o uid] c] r]; [discriminate|].
    destruct (nth_error (objs st) o) as [x|] eqn:Ex; injection H as <-.
    + pose proof (Forall_nth_error _ _ _ _ HO Ex) as (Y1 & Y2).
      split; cbn; [exact HC|apply Forall_set_nth; [exact HO|split; assumption]|]. now rewrite set_nth_length.
    + split; assumption.
Qed.

(* ---- what never changes: the objects' keys and kinds ---- *)
Definition okeys (st : hstate) : list (N * N * okind) := map (fun x => (o_svc x, o_id x, o_kind x)) (objs st).

Lemma map_set_nth_same {A B} (h : A -> B) l i x y : nth_error l i = Some y -> h x = h y -> map h (set_nth l i x) = map h l.
Proof.
  revert i; induction l as [|z l IH]; intros [|i]; cbn; try discriminate.
  - intros [= ->] ->. reflexivity.
  - intros Hn He. now rewrite (IH _ Hn He).
Qed.

Lemma okeys_step st l st' : HInv st -> hstep st l = Some st' -> okeys st' = okeys st.
Proof.
  intros [HC HO HH] H. unfold okeys. destruct l as [c f|c| |c|c|c|c|c|o|o| ]; cbn [Hostile.hstep] in H.
  - destruct (nth_error (conns st) c); [|discriminate]. now injection H as <-.
  - destruct (nth_error (conns st) c) as [x|]; [|discriminate]. destruct (c_out x); [discriminate|]. now injection H as <-.
  - now injection H as <-.
  - destruct (nth_error (conns st) c) as [x|]; [|discriminate].
    destruct (c_open x), (c_proc x), (c_hlock x), (c_in x); try discriminate.
    destruct (negb (readable h)); [now injection H as <-|]. destruct (negb (for_server h)); [now injection H as <-|].
    destruct (Nat.ltb _ _); [now injection H as <-|]. destruct (f_type h =? T_call); [destruct (can_write g x)|]; now injection H as <-.
  - destruct (nth_error (conns st) c) as [x|]; [|discriminate]. destruct (c_proc x); [discriminate|].
    destruct (can_write g x); [|discriminate]. now injection H as <-.
  - destruct (nth_error (conns st) c) as [x|]; [|discriminate]. destruct (c_cons x); try discriminate. destruct (c_q x) as [|f rest]; [discriminate|].
    destruct (find_obj g st (f_svc f) (f_obj f)) as [o|].
    + destruct (nth_error (objs st) o) as [y|] eqn:Ey; [|discriminate]. destruct (Nat.ltb _ _); injection H as <-; cbn; [|reflexivity].
      now apply (map_set_nth_same _ _ _ _ y).
    + destruct (can_write g x); now injection H as <-.
  - destruct (nth_error (conns st) c) as [x|]; [|discriminate]. destruct (c_cons x) as [|o f|]; try discriminate.
    destruct (nth_error (objs st) o) as [y|] eqn:Ey; [|discriminate]. destruct (Nat.ltb _ _); [|discriminate]. injection H as <-. cbn.
    now apply (map_set_nth_same _ _ _ _ y).
  - destruct (nth_error (conns st) c) as [x|]; [|discriminate]. destruct (c_cons x); try discriminate.
    destruct (can_write g x); [|discriminate]. now injection H as <-.
  - destruct (nth_error (objs st) o) as [x|] eqn:Ex; [|discriminate].
    pose proof (Forall_nth_error _ _ _ _ HO Ex) as (Y1 & Y2). rewrite Y1 in H.
    destruct (o_mb x) as [|[c f] r] eqn:Em; [discriminate|].
    destruct (obj_exec_clean st x c f HC Y1) as (x' & ws & E & G1 & G2 & K1 & K2 & K3). rewrite E in H. cbn [lock_conn] in H.
    destruct (do_writes_clean (conns st) ws HC) as (cs' & Ew & Fw & Lw). rewrite Ew in H. injection H as <-. cbn.
    apply (map_set_nth_same _ _ _ _ x); [exact Ex|]. now rewrite K1, K2, K3.
  - destruct (nth_error (objs st) o) as [x|] eqn:Ex; [|discriminate].
    pose proof (Forall_nth_error _ _ _ _ HO Ex) as (Y1 & Y2). rewrite Y1 in H. discriminate.
  - destruct (closers st) as [|[[o uid] c] r]; [discriminate|].
    destruct (nth_error (objs st) o) as [x|] eqn:Ex; injection H as <-; cbn; [|reflexivity].
    now apply (map_set_nth_same _ _ _ _ x).
Qed.

Lemma run_inv st0 tr : forall st, HInv st0 -> hrun st0 tr = Some st -> HInv st /\ okeys st = okeys st0.
Proof.
  revert st0. induction tr as [|l r IH]; intros st0 st I H; cbn in H; [injection H as <-; auto|].
  destruct (hstep st0 l) as [st1|] eqn:E; [|discriminate].
  destruct (IH st1 st (HInv_step _ _ _ I E) H) as [I' K]. split; [exact I'|]. rewrite K. now apply (okeys_step _ l).
Qed.

(* ---- the object's goroutine is never stuck: it takes its next mail ---- *)
Lemma obj_takes st o x c f r : HInv st -> nth_error (objs st) o = Some x -> o_mb x = (c, f) :: r ->
  exists st' x', hstep st (LObj o) = Some st' /\ nth_error (objs st') o = Some x' /\ o_mb x' = r /\
                 List.length (conns st') = List.length (conns st).
Proof.
  intros [HC HO HH] Ex Em. pose proof (Forall_nth_error _ _ _ _ HO Ex) as (Y1 & Y2).
  destruct (obj_exec_clean st x c f HC Y1) as (x' & ws & E & G1 & G2 & _).
  destruct (do_writes_clean (conns st) ws HC) as (cs' & Ew & Fw & Lw).
  cbn [Hostile.hstep]. rewrite Ex, Y1, Em, E. cbn [lock_conn]. rewrite Ew.
  eexists. exists x'. split; [reflexivity|]. cbn. split; [eapply nth_error_set_nth_eq; exact Ex|]. split; [now rewrite G2, Em|exact Lw].
Qed.

Lemma drain st o : forall n x, HInv st -> nth_error (objs st) o = Some x -> List.length (o_mb x) = n ->
  exists st1 x1, hrun st (repeat (LObj o) n) = Some st1 /\ HInv st1 /\ nth_error (objs st1) o = Some x1 /\ o_mb x1 = [] /\
                 okeys st1 = okeys st /\ List.length (conns st1) = List.length (conns st).
Proof.
  intro n. revert st. induction n as [|n IH]; intros st x I Ex Ln.
  - exists st, x. cbn. destruct (o_mb x) eqn:Em0; [|discriminate]. destruct I. repeat split; auto.
  - destruct (o_mb x) as [|[c f] r] eqn:Em; [discriminate|]. injection Ln as Ln.
    destruct (obj_takes st o x c f r I Ex Em) as (st' & x' & Es & Ex' & Em' & Lc).
    pose proof (HInv_step _ _ _ I Es) as I'.
    destruct (IH st' x' I' Ex') as (st1 & x1 & Er & I1 & Ex1 & Em1 & K1 & L1); [now rewrite Em'|].
    exists st1, x1. cbn [repeat Hostile.hrun]. rewrite Es. split; [exact Er|]. split; [exact I1|]. repeat split; try assumption.
    + rewrite K1. now apply (okeys_step _ (LObj o)).
    + lia.
Qed.

(* ---- the probe ---- *)
Lemma hrun_app st a b : hrun st (a ++ b) = match hrun st a with Some s => hrun s b | None => None end.
Proof. revert st. induction a as [|l a IH]; intro st; cbn; [reflexivity|]. destruct (Hostile.hstep cls g st l); [apply IH|reflexivity]. Qed.

Lemma set_nth_app_last {A} (l : list A) a b : set_nth (l ++ [a]) (List.length l) b = l ++ [b].
Proof. induction l as [|y l IH]; cbn; [reflexivity|now rewrite IH]. Qed.

Definition key_of (x : obj) : N * N := (o_svc x, o_id x).
Definition keys_distinct (st : hstate) : Prop := NoDup (map key_of (objs st)).
Lemma keys_distinct_okeys st st' : okeys st' = okeys st -> keys_distinct st -> keys_distinct st'.
Proof.
  unfold keys_distinct, okeys. intros E H.
  assert (M : forall s, map key_of (objs s) = map (fun k => (fst (fst k), snd (fst k))) (map (fun x => (o_svc x, o_id x, o_kind x)) (objs s))).
  { intro s0. rewrite map_map. reflexivity. }
  rewrite M, E, <- M. exact H.
Qed.

Lemma find_idx_unique {A} (f : A -> bool) l o x :
  nth_error l o = Some x -> f x = true ->
  (forall i y, nth_error l i = Some y -> f y = true -> i = o) -> find_idx f l = Some o.
Proof.
  revert o. induction l as [|z l IH]; intros [|o]; cbn; try discriminate.
  - intros [= ->] Fx _. now rewrite Fx.
  - intros Hn Fx U. destruct (f z) eqn:Fz.
    + specialize (U O z eq_refl Fz). discriminate.
    + rewrite (IH o Hn Fx); [reflexivity|]. intros i y Hi Fy. specialize (U (S i) y Hi Fy). congruence.
Qed.

Lemma NoDup_map_nth {A B} (h : A -> B) l i j x y :
  NoDup (map h l) -> nth_error l i = Some x -> nth_error l j = Some y -> h x = h y -> i = j.
Proof.
  revert i j. induction l as [|z l IH]; intros [|i] [|j]; cbn; try discriminate; intro H; inversion H as [|? ? Hz Hn]; subst.
  - reflexivity.
  - intros [= ->] Hj E. exfalso. apply Hz. rewrite E. apply in_map. eapply nth_error_In; exact Hj.
  - intros Hi [= ->] E. exfalso. apply Hz. rewrite <- E. apply in_map. eapply nth_error_In; exact Hi.
  - intros Hi Hj E. f_equal. eapply IH; eassumption.
Qed.

Lemma find_obj_at st o x : keys_distinct st -> nth_error (objs st) o = Some x ->
  (o_alive x || h_removed_answers g) = true -> find_obj g st (o_svc x) (o_id x) = Some o.
Proof.
  intros K Ex Al. unfold find_obj. apply (find_idx_unique _ _ o x Ex).
  - now rewrite !N.eqb_refl, Al.
  - intros i y Ey Fy. apply andb_prop in Fy as [Fy _]. apply andb_prop in Fy as [F1 F2]. apply N.eqb_eq in F1, F2.
    eapply (NoDup_map_nth key_of); try eassumption. unfold key_of. congruence.
Qed.

Definition mkst (os : list obj) (cs : list conn) (cl : list (nat * N * nat)) : hstate := {| objs := os; conns := cs; closers := cl |}.
Definition conn_in (f : hframe) : conn :=
  {| c_open := true; c_in := [f]; c_q := []; c_proc := PIdle; c_cons := CIdle; c_hlock := false; c_out := []; c_got := [] |}.
Definition conn_q (f : hframe) : conn :=
  {| c_open := true; c_in := []; c_q := [f]; c_proc := PIdle; c_cons := CIdle; c_hlock := false; c_out := []; c_got := [] |}.
Definition conn_out (d : dframe) : conn :=
  {| c_open := true; c_in := []; c_q := []; c_proc := PIdle; c_cons := CIdle; c_hlock := false; c_out := [d]; c_got := [] |}.
Definition with_mb (x : obj) (mb : list (nat * hframe)) : obj :=
  {| o_svc := o_svc x; o_id := o_id x; o_kind := o_kind x; o_alive := o_alive x; o_table := o_table x; o_mb := mb; o_gor := o_gor x |}.

Lemma p_connect os cs cl : hstep (mkst os cs cl) HConnect = Some (mkst os (cs ++ [conn0]) cl).
Proof. reflexivity. Qed.
Lemma p_send os cs cl f : hstep (mkst os (cs ++ [conn0]) cl) (HSend (List.length cs) f) = Some (mkst os (cs ++ [conn_in f]) cl).
Proof. cbn [Hostile.hstep conns mkst]. rewrite nth_error_app_last. unfold upd_conn. cbn [conns objs closers mkst]. now rewrite set_nth_app_last. Qed.
Lemma p_proc os cs cl f : readable f = true -> for_server f = true ->
  hstep (mkst os (cs ++ [conn_in f]) cl) (LProc (List.length cs)) = Some (mkst os (cs ++ [conn_q f]) cl).
Proof.
  intros R F. cbn [Hostile.hstep conns mkst]. rewrite nth_error_app_last. cbn [conn_in c_open c_proc c_hlock c_in c_q].
  rewrite R, F. cbn [negb List.length Nat.ltb Nat.leb ConsumerCap]. unfold upd_conn. cbn [conns objs closers app mkst]. now rewrite set_nth_app_last.
Qed.
Lemma p_cons os cs cl f o y : find_obj g (mkst os (cs ++ [conn_q f]) cl) (f_svc f) (f_obj f) = Some o ->
  nth_error os o = Some y -> o_mb y = [] ->
  hstep (mkst os (cs ++ [conn_q f]) cl) (LCons (List.length cs)) =
    Some (mkst (set_nth os o (with_mb y [(List.length cs, f)])) (cs ++ [conn0]) cl).
Proof.
  intros Hf Ey Em. cbn [Hostile.hstep conns mkst]. rewrite nth_error_app_last. cbn [conn_q c_cons c_q]. rewrite Hf. cbn [objs mkst].
  rewrite Ey, Em. cbn [List.length Nat.ltb Nat.leb MailboxCap app conns closers mkst]. rewrite set_nth_app_last. reflexivity.
Qed.
Lemma p_obj os cs cl o y f : 
  nth_error os o = Some y -> o_gor y = OIdle -> o_kind y <> KAuth -> Forall cgood cs ->
  f_act f = A_metaObject -> f_type f = T_call ->
  (exists oid sg u, cls (o_kind y) A_metaObject (f_pl f) = PArgs oid sg u /\ (oid = 0 \/ oid = o_id y)) ->
  hstep (mkst (set_nth os o (with_mb y [(List.length cs, f)])) (cs ++ [conn0]) cl) (LObj o) =
    Some (mkst (set_nth os o (with_mb y [])) (cs ++ [conn_out (DReply A_metaObject (f_id f))]) cl).
Proof.
  intros Ey Hg Hk HC Ha Ht (oid & sg & u & Hc & Ho).
  cbn [Hostile.hstep objs mkst]. rewrite (nth_error_set_nth_eq _ _ _ _ Ey). cbn [with_mb o_gor o_mb]. rewrite Hg.
  assert (Hok : oid_ok (with_mb y [(List.length cs, f)]) oid = true).
  { unfold oid_ok, with_mb. cbn [o_id]. destruct Ho as [->| ->]; [reflexivity|rewrite N.eqb_refl; apply orb_true_r]. }
  assert (Hset : forall (z : obj), set_nth (set_nth os o (with_mb y [(List.length cs, f)])) o z = set_nth os o z).
  { intro z. clear. revert o. induction os as [|w os IH]; intros [|o]; cbn; try reflexivity. now rewrite IH. }
  unfold obj_exec. rewrite Ha, Ht. change (o_kind (with_mb y [(List.length cs, f)])) with (o_kind y).
  destruct (o_kind y) eqn:Ekind; [| |contradiction];
    (cbn [T_call T_post A_metaObject A_register A_unregister N.eqb Pos.eqb orb negb andb]; rewrite ?andb_false_r; cbn [A_metaObject A_register A_unregister N.eqb Pos.eqb]; rewrite Hc, Hok; unfold answers, reply; rewrite Ht, Ha;
     cbn [T_call T_post N.eqb Pos.eqb map lock_conn do_writes conns mkst];
     rewrite nth_error_app_last, can_write_clean; cbn [with_out conn0 c_open c_in c_q c_proc c_cons c_hlock c_out c_got app do_writes];
     rewrite set_nth_app_last; cbn [o_gor with_mb o_svc o_id o_kind o_alive o_table o_mb tl]; rewrite Hset; unfold mkst, with_mb, conn_out; cbn [closers]; rewrite Ekind, Hg; reflexivity).
Qed.

Theorem probe_answered_bounded st o x pl oid sg u :
  HInv st -> keys_distinct st -> nth_error (objs st) o = Some x -> o_kind x <> KAuth ->
  cls (o_kind x) A_metaObject pl = PArgs oid sg u -> (oid = 0 \/ oid = o_id x) ->
  (List.length (probe_sched st o x pl) <= MailboxCap + 5)%nat /\
  ((exists st', hrun st (probe_sched st o x pl) = Some st' /\ probe_answered st' (List.length (conns st)) = true) \/
   (exists st1 x1, hrun st (repeat (LObj o) (List.length (o_mb x))) = Some st1 /\ nth_error (objs st1) o = Some x1 /\
                   o_alive x1 = false)).
Proof.
  intros I K Ex Hk Hcls Hoid. split.
  { unfold probe_sched. rewrite app_length, repeat_length. cbn. pose proof (Forall_nth_error _ _ _ _ (hi_objs _ I) Ex) as (_ & L). unfold MailboxCap in *. lia. }
  destruct (drain st o _ x I Ex eq_refl) as (st1 & x1 & Er & I1 & Ex1 & Em1 & K1 & L1).
  destruct (o_alive x1) eqn:Al; [left|right; exists st1, x1; auto].
  assert (Ekey : o_svc x1 = o_svc x /\ o_id x1 = o_id x /\ o_kind x1 = o_kind x).
  { unfold okeys in K1. assert (E : nth_error (map (fun x => (o_svc x, o_id x, o_kind x)) (objs st1)) o = nth_error (map (fun x => (o_svc x, o_id x, o_kind x)) (objs st)) o) by now rewrite K1.
    rewrite !nth_error_map, Ex1, Ex in E. cbn in E. injection E as -> -> ->. auto. }
  destruct Ekey as (Ks & Ki & Kk).
  pose proof (find_obj_at st1 o x1 (keys_distinct_okeys _ _ K1 K) Ex1) as Hf. rewrite Al in Hf. specialize (Hf eq_refl).
  pose proof (Forall_nth_error _ _ _ _ (hi_objs _ I1) Ex1) as (G1 & _).
  pose proof (hi_conns _ I1) as HC1.
  unfold probe_sched. rewrite hrun_app, Er. rewrite <- L1.
  destruct st1 as [os1 cs1 cl1]. cbn [objs conns closers] in *.
  change {| objs := os1; conns := cs1; closers := cl1 |} with (mkst os1 cs1 cl1).
  set (f := probe_frame x pl).
  exists (mkst (set_nth os1 o (with_mb x1 [])) (cs1 ++ [conn_out (DReply A_metaObject 3)]) cl1). split.
  - cbn [Hostile.hrun]. rewrite p_connect, p_send, (p_proc os1 cs1 cl1 f eq_refl eq_refl).
    rewrite (p_cons os1 cs1 cl1 f o x1); [|unfold find_obj in *; cbn [objs mkst f probe_frame f_svc f_obj] in *; now rewrite <- Ks, <- Ki|exact Ex1|exact Em1].
    rewrite (p_obj os1 cs1 cl1 o x1 f Ex1 G1); [reflexivity|congruence|exact HC1|reflexivity|reflexivity|].
    exists oid, sg, u. rewrite Kk. split; [exact Hcls|]. rewrite Ki. exact Hoid.
  - unfold probe_answered. cbn [conns mkst]. rewrite nth_error_app_last. reflexivity.
Qed.
End Proofs.

(* ---- statements over runs from the harness's initial server ---- *)
(* a server that has just started: distinct (service, object) keys, nothing queued, nobody connected *)
Definition hstart (st0 : hstate) : Prop := HInv st0 /\ keys_distinct st0.
Lemma hstart_init id2 : id2 <> 1 -> hstart (hinit_of id2).
Proof.
  intro Hn. split; [split; cbn|].
  - constructor.
  - repeat constructor; cbn; unfold MailboxCap; lia.
  - intros c x o f H. destruct c; discriminate.
  - unfold keys_distinct. cbn. repeat constructor; cbn; intuition (try discriminate). injection H0 as E. congruence.
Qed.

Theorem c12_safe cls g st0 tr st : hclean g -> hstart st0 -> hrun cls g st0 tr = Some st -> HInv st.
Proof. intros Hc [H0 _] H. exact (proj1 (run_inv cls g Hc st0 tr st H0 H)). Qed.

Theorem c12_probe cls g st0 tr st o x pl oid sg u :
  hclean g -> hstart st0 -> hrun cls g st0 tr = Some st ->
  nth_error (objs st) o = Some x -> o_kind x <> KAuth ->
  cls (o_kind x) A_metaObject pl = PArgs oid sg u -> (oid = 0 \/ oid = o_id x) ->
  (List.length (probe_sched st o x pl) <= MailboxCap + 5)%nat /\
  ((exists st', hrun cls g st (probe_sched st o x pl) = Some st' /\ probe_answered st' (List.length (conns st)) = true) \/
   (exists st1 x1, hrun cls g st (repeat (LObj o) (List.length (o_mb x))) = Some st1 /\ nth_error (objs st1) o = Some x1 /\
                   o_alive x1 = false)).
Proof.
  intros Hc [H0 K0] H. destruct (run_inv cls g Hc st0 tr st H0 H) as [I K].
  apply probe_answered_bounded; try assumption. eapply keys_distinct_okeys; [exact K|exact K0].
Qed.

(* an object stops being alive only by executing a terminate request that names it *)
Theorem c12_removed_only_by_terminate cls g st l st' o x x' :
  hstep cls g st l = Some st' -> nth_error (objs st) o = Some x -> nth_error (objs st') o = Some x' ->
  o_alive x = true -> o_alive x' = false ->
  l = LObj o /\ exists c f r oid sg u, o_mb x = (c, f) :: r /\ f_act f = A_terminate /\
                 cls (o_kind x) (f_act f) (f_pl f) = PArgs oid sg u /\ oid_ok x oid = true.
Proof.
  intros H Ex Ex' Al Al'.
  assert (Same : forall y, nth_error (objs st') o = Some y -> o_alive y = o_alive x -> False) by (intros y Hy E; congruence).
  destruct l as [c f|c| |c|c|c|c|c|o0|o0| ]; cbn [hstep] in H.
  - destruct (nth_error (conns st) c); [|discriminate]. injection H as <-. cbn in Ex'. congruence.
  - destruct (nth_error (conns st) c) as [y|]; [|discriminate]. destruct (c_out y); [discriminate|]. injection H as <-. cbn in Ex'. congruence.
  - injection H as <-. cbn in Ex'. congruence.
  - destruct (nth_error (conns st) c) as [y|]; [|discriminate].
    destruct (c_open y), (c_proc y), (c_hlock y), (c_in y); try discriminate.
    destruct (negb (readable h)); [injection H as <-; cbn in Ex'; congruence|]. destruct (negb (for_server h)); [injection H as <-; cbn in Ex'; congruence|].
    destruct (Nat.ltb _ _); [injection H as <-; cbn in Ex'; congruence|]. destruct (f_type h =? T_call); [destruct (can_write g y)|]; injection H as <-; cbn in Ex'; congruence.
  - destruct (nth_error (conns st) c) as [y|]; [|discriminate]. destruct (c_proc y); [discriminate|].
    destruct (can_write g y); [|discriminate]. injection H as <-. cbn in Ex'. congruence.
  - destruct (nth_error (conns st) c) as [y|]; [|discriminate]. destruct (c_cons y); try discriminate. destruct (c_q y) as [|f rest]; [discriminate|].
    destruct (find_obj g st (f_svc f) (f_obj f)) as [o1|].
    + destruct (nth_error (objs st) o1) as [z|] eqn:Ez; [|discriminate]. destruct (Nat.ltb _ _); injection H as <-; cbn in Ex'; [|congruence].
      destruct (Nat.eq_dec o1 o) as [->|Ne]; [rewrite (nth_error_set_nth_eq _ _ _ _ Ez) in Ex'; injection Ex' as <-; cbn in Al'; congruence|].
      rewrite nth_error_set_nth_neq in Ex' by exact Ne. congruence.
    + destruct (can_write g y); injection H as <-; cbn in Ex'; congruence.
  - destruct (nth_error (conns st) c) as [y|]; [|discriminate]. destruct (c_cons y) as [|o1 f|]; try discriminate.
    destruct (nth_error (objs st) o1) as [z|] eqn:Ez; [|discriminate]. destruct (Nat.ltb _ _); [|discriminate]. injection H as <-. cbn in Ex'.
    destruct (Nat.eq_dec o1 o) as [->|Ne]; [rewrite (nth_error_set_nth_eq _ _ _ _ Ez) in Ex'; injection Ex' as <-; cbn in Al'; congruence|].
    rewrite nth_error_set_nth_neq in Ex' by exact Ne. congruence.
  - destruct (nth_error (conns st) c) as [y|]; [|discriminate]. destruct (c_cons y); try discriminate.
    destruct (can_write g y); [|discriminate]. injection H as <-. cbn in Ex'. congruence.
  - (* LObj *)
    destruct (nth_error (objs st) o0) as [z|] eqn:Ez; [|discriminate].
    destruct (o_gor z); try discriminate. destruct (o_mb z) as [|[c f] r] eqn:Em; [discriminate|].
    destruct (obj_exec cls g st z c f) as [[[z' ws] lk]|] eqn:Ee; [|discriminate].
    destruct (do_writes g (lock_conn (conns st) lk) ws) as [cs rest]. injection H as <-. cbn in Ex'.
    destruct (Nat.eq_dec o0 o) as [->|Ne]; [|rewrite nth_error_set_nth_neq in Ex' by exact Ne; congruence].
    rewrite Ez in Ex. injection Ex as ->. rewrite (nth_error_set_nth_eq _ _ _ _ Ez) in Ex'. injection Ex' as <-.
    split; [reflexivity|]. exists c, f, r.
    assert (Al2 : o_alive z' = false) by (destruct rest, (o_gor z'); cbn in Al'; exact Al').
    unfold obj_exec in Ee. destruct (o_kind x) eqn:Ek;
      [| |injection Ee as <- _ _; cbn in Al2; congruence];
      (destruct (negb (h_other_types_run g) && negb ((f_type f =? T_call) || (f_type f =? T_post)));
       [injection Ee as <- _ _; cbn in Al2; congruence|]);
      (destruct (f_act f =? A_register) eqn:E0;
       [destruct (cls _ (f_act f) (f_pl f)); try (injection Ee as <- _ _; cbn in Al2; congruence);
        destruct (negb (oid_ok x oid)); try (injection Ee as <- _ _; cbn in Al2; congruence);
        destruct (conn_locked st c); try discriminate;
        destruct (find_idx _ _); [destruct (h_dup_relock g); [destruct (conn_locked st _); try discriminate|]|];
        injection Ee as <- _ _; cbn in Al2; congruence|]);
      (destruct (f_act f =? A_unregister) eqn:E1;
       [destruct (cls _ (f_act f) (f_pl f)); try (injection Ee as <- _ _; cbn in Al2; congruence);
        destruct (negb (oid_ok x oid)); try (injection Ee as <- _ _; cbn in Al2; congruence);
        destruct (find_idx _ _); [destruct (conn_locked st c); try discriminate|];
        injection Ee as <- _ _; cbn in Al2; congruence|]);
      (destruct (f_act f =? A_metaObject) eqn:E2;
       [destruct (cls _ (f_act f) (f_pl f)); injection Ee as <- _ _; cbn in Al2; congruence|]);
      (destruct (f_act f =? A_terminate) eqn:E3;
       [apply N.eqb_eq in E3; destruct (cls _ (f_act f) (f_pl f)) eqn:Ec; try (injection Ee as <- _ _; cbn in Al2; congruence);
        destruct (oid_ok x oid) eqn:Eo; cbn [negb] in Ee; [|injection Ee as <- _ _; cbn in Al2; congruence];
        exists oid, sig, uid; auto|]);
      destruct (cls _ (f_act f) (f_pl f)); injection Ee as <- _ _; cbn in Al2; congruence.
  - destruct (nth_error (objs st) o0) as [z|] eqn:Ez; [|discriminate]. destruct (o_gor z); try discriminate.
    destruct (do_writes g (conns st) ws) as [cs rest]. destruct (Nat.eqb _ _); [discriminate|]. injection H as <-. cbn in Ex'.
    destruct (Nat.eq_dec o0 o) as [->|Ne]; [rewrite (nth_error_set_nth_eq _ _ _ _ Ez) in Ex'; injection Ex' as <-; cbn in Al'; congruence|].
    rewrite nth_error_set_nth_neq in Ex' by exact Ne. congruence.
  - destruct (closers st) as [|[[o1 uid] c] r]; [discriminate|].
    destruct (nth_error (objs st) o1) as [z|] eqn:Ez; injection H as <-; cbn in Ex'; [|congruence].
    destruct (Nat.eq_dec o1 o) as [->|Ne]; [rewrite (nth_error_set_nth_eq _ _ _ _ Ez) in Ex'; injection Ex' as <-; cbn in Al'; congruence|].
    rewrite nth_error_set_nth_neq in Ex' by exact Ne. congruence.
Qed.

(* ---- refutations: the pinned behaviours ---- *)
Definition hcfg_of (d u w r : bool) : hcfg :=
  {| h_dup_relock := d; h_uid_global := u; h_write_blocks := w; h_removed_answers := r; h_other_types_run := true |}.
Definition hfr (t s o a i pl : N) : hframe := {| f_type := t; f_svc := s; f_obj := o; f_act := a; f_id := i; f_pl := pl |}.
Definition generic_obj : obj := mk_obj 2 1 KGeneric.

(* registerEvent twice with one id: the object's goroutine is dead, the probe schedule cannot run *)
Definition tr_dup : list hlabel :=
  [HConnect; HSend 0 (hfr 1 2 1 0 11 (pack_args 1 200 7)); LProc 0; LCons 0; LObj 2;
   HSend 0 (hfr 1 2 1 0 13 (pack_args 1 200 7)); LProc 0; LCons 0; LObj 2].
Lemma refuted_dup_relock :
  exists st x, hrun std_cls (hcfg_of true false false true) hinit tr_dup = Some st /\
    nth_error (objs st) 2 = Some x /\ o_gor x = ODead /\ o_alive x = true /\
    hrun std_cls (hcfg_of true false false true) st (probe_sched st 2 x (pack_args 1 0 0)) = None.
Proof. vm_compute. do 2 eexists. repeat split; reflexivity. Qed.

(* a client that does not read: after OutCap answers the object's goroutine is blocked in its write *)
Definition flood (n : nat) : list hlabel :=
  HConnect :: flat_map (fun i => [HSend 0 (hfr 1 2 1 2 (N.of_nat (11 + 2 * i)) (pack_args 1 0 0)); LProc 0; LCons 0; LObj 2]) (seq 0 n).
Lemma refuted_write_blocks :
  exists st x, hrun std_cls (hcfg_of false false true true) hinit (flood (S OutCap)) = Some st /\
    nth_error (objs st) 2 = Some x /\ (exists ws, o_gor x = OBlocked ws) /\ o_alive x = true /\
    hrun std_cls (hcfg_of false false true true) st (probe_sched st 2 x (pack_args 1 0 0)) = None.
Proof. vm_compute. do 2 eexists. repeat split; try reflexivity. eexists; reflexivity. Qed.

(* the same two scripts on the repaired configuration: the probe is answered *)
Lemma ex_clean_probe :
  exists st x st', hrun std_cls (hcfg_of false true false true) hinit (tr_dup ++ tl (flood 70)) = Some st /\
    nth_error (objs st) 2 = Some x /\
    hrun std_cls (hcfg_of false true false true) st (probe_sched st 2 x (pack_args 1 0 0)) = Some st' /\
    probe_answered st' (List.length (conns st)) = true.
Proof. vm_compute. do 3 eexists. repeat split; reflexivity. Qed.
