(* WireRefute.v — machine-checked witnesses that each defect switch, when on, breaks the
   property it belongs to.  The harness replays the same inputs on the real code to learn
   whether the switch is on in the tree being checked. *)
From QV Require Import Value GenDec ParseOpt.
Local Open Scope N_scope.

Definition only_value_reader := {| value_reader_no_len := true; string_reader_drops_err := false; refl_drop8 := false; refl_struct_ignores_err := false; refl_neg_len_panics := false |}.
Definition only_string_reader := {| value_reader_no_len := false; string_reader_drops_err := true; refl_drop8 := false; refl_struct_ignores_err := false; refl_neg_len_panics := false |}.
Definition only_drop8 := {| value_reader_no_len := false; string_reader_drops_err := false; refl_drop8 := true; refl_struct_ignores_err := false; refl_neg_len_panics := false |}.
Definition only_struct_err := {| value_reader_no_len := false; string_reader_drops_err := false; refl_drop8 := false; refl_struct_ignores_err := true; refl_neg_len_panics := false |}.
Definition only_neg_len := {| value_reader_no_len := false; string_reader_drops_err := false; refl_drop8 := false; refl_struct_ignores_err := false; refl_neg_len_panics := true |}.

(* C02/C03: "m" carrying int32 5 — the signature reader returns other bytes than it consumed *)
Definition dyn5 := VDyn (TS SI32) (VNum 4 5).
Lemma sig_read_value_refuted :
  has_ty dyn5 (TS SValue) = true /\
  exists d, sig_read parse_opt only_value_reader 1 (TS SValue) (spec_enc dyn5) = ROk (d, []) /\ d <> spec_enc dyn5.
Proof. split; [vm_compute; reflexivity|]. eexists. split; [vm_compute; reflexivity|]. vm_compute. discriminate. Qed.

(* hence an opaque dynamic value whose signature contains "m" does not re-encode to its bytes *)
Definition opq_sm := DOpaque (bytes_of_string "{sm}") (spec_enc (VMap [(VStr [x61], dyn5)])).
Lemma value_reencode_refuted :
  exists v, new_value parse_opt only_value_reader (enc_dval opq_sm) = ROk (v, []) /\ enc_dval v <> enc_dval opq_sm.
Proof. eexists. split; [vm_compute; reflexivity|]. vm_compute. discriminate. Qed.

(* C02: a value the encoder writes and the decoder refuses (independent of the switches) *)
Lemma value_unbounded_refuted :
  exists l, new_value parse_opt wclean (enc_dval (DList (repeat DVoid 4097))) = RErr l.
Proof. eexists. vm_compute. reflexivity. Qed.

(* C03: 8-bit fields vanish from the reflection encoding *)
Definition s8 := VTup [VNum 1 0x7f; VNum 4 1].
Lemma refl_drop8_refuted :
  has_ty s8 (TTuple [TS SI8; TS SI32]) = true /\ refl_enc only_drop8 s8 <> spec_enc s8.
Proof. split; vm_compute; [reflexivity|discriminate]. Qed.

(* C03: a list the reflection encoder writes (as documented) and the reflection decoder refuses: the
   decoder's bound of 4096 entries is not applied by the encoder (independent of the switches) *)
Definition bytes4097 := VList (repeat (VNum 1 0) 4097).
Lemma refl_list_unbounded_refuted :
  has_ty bytes4097 (TList (TS SU8)) = true /\ refl_enc wclean bytes4097 = spec_enc bytes4097 /\
  exists l, refl_dec wclean tval_eqb (TList (TS SU8)) (spec_enc bytes4097) = RErr l.
Proof. split; [vm_compute; reflexivity|]. split; [vm_compute; reflexivity|]. eexists. vm_compute. reflexivity. Qed.

(* C08: truncated encodings that are accepted *)
Definition hello := VTup [VStr (bytes_of_string "hello")].
Lemma sig_read_prefix_refuted :
  exists r, sig_read parse_opt only_string_reader 0 (TStruct "A" [("a"%string, TS SStr)]) (firstn 5 (spec_enc hello)) = ROk r.
Proof. eexists. vm_compute. reflexivity. Qed.
Lemma refl_dec_prefix_refuted :
  exists r, refl_dec only_struct_err tval_eqb (TTuple [TS SI32; TS SI32]) (firstn 4 (spec_enc (VTup [VNum 4 1; VNum 4 2]))) = ROk r.
Proof. eexists. vm_compute. reflexivity. Qed.

(* C07: a negative list length reaches SetLen *)
Lemma refl_neg_len_refuted :
  refl_dec only_neg_len tval_eqb (TList (TS SI32)) [xff; xff; xff; xff] = RPanic.
Proof. vm_compute. reflexivity. Qed.
