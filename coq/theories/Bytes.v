(* Bytes.v — bytes, little/big-endian fixed-width integers, hex literals.
   Shared by every wire-format model.  Stdlib only. *)
From Coq Require Export List NArith ZArith Lia Bool.
From Coq.Strings Require Export Byte.
From Coq Require Import String Ascii.
Export ListNotations.
Local Open Scope N_scope.

Definition byte := Byte.byte.
Definition bytes := list byte.

Definition byte_of_N (n : N) : byte :=
  match Byte.of_N (n mod 256) with Some b => b | None => Byte.x00 end.

Lemma to_N_byte_of_N n : Byte.to_N (byte_of_N n) = n mod 256.
Proof.
  unfold byte_of_N. destruct (Byte.of_N (n mod 256)) as [b|] eqn:E.
  - now apply Byte.to_of_N.
  - apply Byte.of_N_None_iff in E.
    assert (n mod 256 < 256) by (apply N.mod_lt; discriminate). lia.
Qed.

Lemma byte_of_N_to_N b : byte_of_N (Byte.to_N b) = b.
Proof.
  unfold byte_of_N. pose proof (Byte.to_N_bounded b) as Hb.
  rewrite N.mod_small by lia. now rewrite Byte.of_to_N.
Qed.

Lemma to_N_lt b : Byte.to_N b < 256.
Proof. pose proof (Byte.to_N_bounded b). lia. Qed.

(* little-endian encoding of x on n bytes (x taken modulo 2^(8n)) *)
Fixpoint le (n : nat) (x : N) : bytes :=
  match n with
  | O => []
  | S n' => byte_of_N x :: le n' (x / 256)
  end.

Fixpoint unle (bs : bytes) : N :=
  match bs with
  | [] => 0
  | b :: r => Byte.to_N b + 256 * unle r
  end.

Definition be (n : nat) (x : N) : bytes := rev (le n x).
Definition unbe (bs : bytes) : N := unle (rev bs).

Lemma le_length n x : List.length (le n x) = n.
Proof. revert x; induction n as [|n IH]; intro x; cbn [le List.length]; [reflexivity|now rewrite IH]. Qed.

Lemma be_length n x : List.length (be n x) = n.
Proof. unfold be. now rewrite rev_length, le_length. Qed.

Lemma unle_le n x : unle (le n x) = x mod 2 ^ (8 * N.of_nat n).
Proof.
  revert x; induction n as [|n IH]; intro x.
  - cbn. now rewrite N.mod_1_r.
  - cbn [le unle]. rewrite to_N_byte_of_N, IH.
    replace (8 * N.of_nat (S n)) with (8 + 8 * N.of_nat n) by lia.
    rewrite N.pow_add_r. change (2 ^ 8) with 256.
    assert (Hp : 2 ^ (8 * N.of_nat n) <> 0) by (apply N.pow_nonzero; discriminate).
    rewrite (N.mod_mul_r x 256 (2 ^ (8 * N.of_nat n))) by (discriminate || assumption).
    reflexivity.
Qed.

Lemma unle_le_small n x : x < 2 ^ (8 * N.of_nat n) -> unle (le n x) = x.
Proof. intro H. rewrite unle_le. now apply N.mod_small. Qed.

Lemma unbe_be_small n x : x < 2 ^ (8 * N.of_nat n) -> unbe (be n x) = x.
Proof. intro H. unfold unbe, be. rewrite rev_involutive. now apply unle_le_small. Qed.

Lemma unle_bound bs : unle bs < 2 ^ (8 * N.of_nat (List.length bs)).
Proof.
  induction bs as [|b r IH].
  - cbn. lia.
  - cbn [unle List.length]. pose proof (to_N_lt b) as Hb.
    replace (8 * N.of_nat (S (List.length r))) with (8 + 8 * N.of_nat (List.length r)) by lia.
    rewrite N.pow_add_r. change (2 ^ 8) with 256. nia.
Qed.

Lemma le_unle bs : le (List.length bs) (unle bs) = bs.
Proof.
  induction bs as [|b r IH]; [reflexivity|].
  cbn [List.length le unle]. f_equal.
  - unfold byte_of_N. pose proof (to_N_lt b) as Hb.
    replace ((Byte.to_N b + 256 * unle r) mod 256) with (Byte.to_N b).
    + now rewrite Byte.of_to_N.
    + rewrite N.mul_comm, N.mod_add by discriminate. now rewrite N.mod_small.
  - replace ((Byte.to_N b + 256 * unle r) / 256) with (unle r); [exact IH|].
    pose proof (to_N_lt b) as Hb.
    rewrite N.mul_comm, N.div_add by discriminate.
    rewrite (N.div_small (Byte.to_N b)) by assumption. lia.
Qed.

Lemma le_inj n x y :
  x < 2 ^ (8 * N.of_nat n) -> y < 2 ^ (8 * N.of_nat n) -> le n x = le n y -> x = y.
Proof.
  intros Hx Hy E. rewrite <- (unle_le_small n x Hx), <- (unle_le_small n y Hy). now rewrite E.
Qed.

(* hex text <-> bytes, for the generated case files *)
Definition hexval (c : ascii) : option N :=
  let n := N_of_ascii c in
  if (48 <=? n) && (n <=? 57) then Some (n - 48)
  else if (97 <=? n) && (n <=? 102) then Some (n - 87)
  else if (65 <=? n) && (n <=? 70) then Some (n - 55)
  else None.

Fixpoint unhex (s : string) : bytes :=
  match s with
  | String a (String b r) =>
      match hexval a, hexval b with
      | Some x, Some y => byte_of_N (16 * x + y) :: unhex r
      | _, _ => []
      end
  | _ => []
  end.

Definition eqb_byte (a b : byte) : bool := Byte.eqb a b.
Fixpoint eqb_bytes (a b : bytes) : bool :=
  match a, b with
  | [], [] => true
  | x :: a', y :: b' => Byte.eqb x y && eqb_bytes a' b'
  | _, _ => false
  end.

Lemma eqb_bytes_eq a b : eqb_bytes a b = true <-> a = b.
Proof.
  revert b; induction a as [|x a IH]; intros [|y b]; cbn; split; intro H; try congruence; try discriminate.
  - apply andb_true_iff in H as [H1 H2]. apply Byte.byte_dec_bl in H1. apply IH in H2. congruence.
  - inversion H; subst. apply andb_true_iff; split; [apply Byte.byte_dec_lb; reflexivity| now apply IH].
Qed.

(* firstn/skipn helpers used by all decoders *)
Lemma firstn_app_exact {A} (a b : list A) : firstn (List.length a) (a ++ b) = a.
Proof. rewrite firstn_app, Nat.sub_diag, firstn_all. cbn. now rewrite app_nil_r. Qed.
Lemma skipn_app_exact {A} (a b : list A) : skipn (List.length a) (a ++ b) = b.
Proof. rewrite skipn_app, Nat.sub_diag, skipn_all. reflexivity. Qed.
