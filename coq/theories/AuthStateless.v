(* AuthStateless.v — C12 for service 0 itself (model: Auth.v, shared with C06).

   A fresh client is served only if it can first authenticate: service 0 is one of the objects that
   must "keep answering other clients' calls".  In the model of bus/authenticate.go the mailbox
   goroutine of service 0 keeps NO state between two mails: the only things a mail leaves behind
   are the authentication flag of ITS OWN connection and the shorter mailbox.  So what service 0
   answers to a request depends on that request (and on whether its connection is still open) —
   never on what any client sent before.  The theorems below say it for EVERY state of the model
   (reachable or not), every authenticator, every connection filter and every service table. *)
From QV Require Import Auth AuthProofs.
From Coq Require Import Lia.
Local Open Scope N_scope.

Section Stateless.
Variable skip_other : bytes -> bytes -> option bytes.
Variable filter_pass : N -> bool.
Variable auth : bytes -> bytes -> bool.
Variable exists_obj : N -> N -> option bool.

Notation step := (Auth.step skip_other filter_pass auth exists_obj).
Notation exec := (Auth.exec skip_other filter_pass auth exists_obj).

(* the answer to the mail at the head of service 0's mailbox is the same in any two states that
   agree on that mail and on "its connection is closed" *)
Lemma mbox_answer_stateless : forall st st' c f q q',
  s_mbox st = (c, f) :: q -> s_mbox st' = (c, f) :: q' ->
  c_closed (get st c) = c_closed (get st' c) ->
  snd (step st LMbox) = snd (step st' LMbox).
Proof.
  intros st st' c f q q' H H' Hc. cbn [Auth.step]. rewrite H, H'.
  unfold send_err, send_reply, send. rewrite <- Hc.
  destruct (negb (f_act f =? AuthenticateActionID)); [reflexivity|].
  destruct (dec_capmap skip_other (f_payload f)) as [m r| |]; try reflexivity.
  destruct (creds m) as [[u t]|]; [|reflexivity].
  destruct (auth u t); reflexivity.
Qed.

(* an authenticate request with accepted credentials at the head of the mailbox is answered with
   "done" and its connection becomes authenticated — in every state *)
Lemma mbox_accepts : forall st c f q m r u t,
  s_mbox st = (c, f) :: q -> f_act f = AuthenticateActionID ->
  dec_capmap skip_other (f_payload f) = DOk m r -> creds m = Some (u, t) -> auth u t = true ->
  c_closed (get st c) = false ->
  snd (step st LMbox) = [OAuthCall u t true; OFrame c T_Reply (f_svc f) (f_obj f) (f_act f) (f_id f) BAuthDone] /\
  c_authed (get (fst (step st LMbox)) c) = true /\
  s_mbox (fst (step st LMbox)) = q.
Proof.
  intros st c f q m r u t H Ha D C A Hc. cbn [Auth.step]. rewrite H, Ha, D, C, A.
  cbn [negb N.eqb AuthenticateActionID Pos.eqb fst snd].
  unfold send_reply, send. rewrite Hc. cbn [fst snd].
  rewrite get_setc_same, mbox_setc, mbox_set_mbox, Ha. cbn [c_authed]. auto.
Qed.

(* a mail of another connection leaves connection c as it is *)
Lemma mbox_other_conn : forall st c c' f q,
  s_mbox st = (c', f) :: q -> c' <> c ->
  get (fst (step st LMbox)) c = get st c /\ s_mbox (fst (step st LMbox)) = q.
Proof.
  intros st c c' f q H N. cbn [Auth.step]. rewrite H.
  destruct (negb (f_act f =? AuthenticateActionID)).
  { cbn [fst]. rewrite get_set_mbox, mbox_set_mbox. auto. }
  destruct (dec_capmap skip_other (f_payload f)) as [m r| |]; cbn [fst];
    try (rewrite get_set_mbox, mbox_set_mbox; auto).
  destruct (creds m) as [[u t]|]; cbn [fst]; [|rewrite get_set_mbox, mbox_set_mbox; auto].
  destruct (auth u t); cbn [fst].
  - rewrite get_setc_other by (intro E; apply N; symmetry; exact E).
    rewrite get_set_mbox, mbox_setc, mbox_set_mbox. auto.
  - rewrite get_set_mbox, mbox_set_mbox. auto.
Qed.

Fixpoint mboxes (n : nat) : list label := match n with O => [] | S k => LMbox :: mboxes k end.

Lemma drain_others : forall q st c tl,
  s_mbox st = q ++ tl -> (forall e, In e q -> fst e <> c) ->
  get (exec st (mboxes (List.length q))) c = get st c /\ s_mbox (exec st (mboxes (List.length q))) = tl.
Proof.
  induction q as [|[c' f] q IH]; intros st c tl H N.
  - cbn. auto.
  - cbn [List.length mboxes Auth.exec].
    destruct (mbox_other_conn st c c' f (q ++ tl) H) as [G M].
    { apply (N (c', f)). left; reflexivity. }
    destruct (IH (fst (step st LMbox)) c tl M) as [G' M'].
    { intros e I. apply N. right; exact I. }
    rewrite G' , G. auto.
Qed.

(* the bounded schedule of a fresh client: whatever the mailbox of service 0 holds (at most its
   capacity, all of it from OTHER connections), a connection that is open and has nothing queued
   and sends an authenticate request with accepted credentials is answered "done" after
     LArrive; LConn; one LMbox per mail that was already there; LMbox
   — steps of its own two goroutines and of service 0's goroutine only *)
Theorem fresh_client_authenticates : forall st c f m r u t,
  c_closed (get st c) = false -> c_dead (get st c) = false -> c_inq (get st c) = [] ->
  (List.length (s_mbox st) <= queue_cap)%nat -> (forall e, In e (s_mbox st) -> fst e <> c) ->
  type_ok (f_type f) = true -> filter_pass (f_type f) = true ->
  f_svc f = 0 -> f_obj f = 0 -> f_act f = AuthenticateActionID ->
  dec_capmap skip_other (f_payload f) = DOk m r -> creds m = Some (u, t) -> auth u t = true ->
  let st' := exec st (LArrive c f :: LConn c :: mboxes (List.length (s_mbox st))) in
  snd (step st' LMbox) = [OAuthCall u t true; OFrame c T_Reply 0 0 AuthenticateActionID (f_id f) BAuthDone] /\
  c_authed (get (fst (step st' LMbox)) c) = true.
Proof.
  intros st c f m r u t Hc Hd Hq Hl Hn Ht Hf Hs Ho Ha D C A st'.
  subst st'. cbn [Auth.exec].
  (* LArrive *)
  set (st1 := fst (step st (LArrive c f))).
  assert (E1 : st1 = setc st c {| c_authed := c_authed (get st c); c_closed := false; c_dead := c_dead (get st c); c_inq := [f] |}).
  { subst st1. cbn [Auth.step]. rewrite Hc, Ht, Hf, Hq. cbn [negb List.length Nat.leb app fst]. reflexivity. }
  (* LConn *)
  set (st2 := fst (step st1 (LConn c))).
  assert (E2 : s_mbox st2 = s_mbox st ++ [(c, f)] /\ c_closed (get st2 c) = false).
  { subst st2. cbn [Auth.step]. rewrite E1, get_setc_same. cbn [c_dead c_inq c_authed]. rewrite Hd.
    rewrite Hs, Ho. cbn [N.eqb negb andb]. rewrite andb_false_r. rewrite mbox_setc.
    apply Nat.leb_le in Hl. rewrite Hl. cbn [fst].
    rewrite mbox_set_mbox, get_set_mbox, get_setc_same. cbn [c_closed]. auto. }
  destruct E2 as [M2 C2].
  destruct (drain_others (s_mbox st) st2 c [(c, f)] M2 Hn) as [G3 M3].
  set (st3 := exec st2 (mboxes (List.length (s_mbox st)))) in *.
  assert (C3 : c_closed (get st3 c) = false) by (rewrite G3; exact C2).
  destruct (mbox_accepts st3 c f [] m r u t M3 Ha D C A C3) as [O [Au _]].
  rewrite O, Au, Hs, Ho, Ha. auto.
Qed.

End Stateless.
