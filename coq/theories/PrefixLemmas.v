(* PrefixLemmas.v — generic facts for "truncation is never accepted" (C08):
   a decoder that consumes exactly its encodings and refuses every proper prefix of each,
   keeps doing so under seq_with / pair_with / rep (both branches).
   All notions are relative to a bound B on the length of the input the decoder is run on
   (needed for dec_dval, whose fuel is the input length); B is arbitrary elsewhere. *)
From Coq Require Import ZifyN ZifyNat ZifyBool.
From QV Require Import WireDefs WireProofs.
Local Open Scope nat_scope.

(* p consumes exactly e (whatever follows), on inputs shorter than B *)
Definition eats {A} (B : nat) (p : bytes -> res (A * bytes)) (e : bytes) : Prop :=
  forall rest, List.length (e ++ rest) < B -> exists x, p (e ++ rest) = ROk (x, rest).
(* p refuses every proper prefix of e shorter than B *)
Definition strict {A} (B : nat) (p : bytes -> res (A * bytes)) (e : bytes) : Prop :=
  forall k, k < List.length e -> k < B -> fails (p (firstn k e)).

Lemma exact_eats {A} B (p : bytes -> res (A * bytes)) x e : exact p x e -> eats B p e.
Proof. intros Hex rest Hlen. exists x. apply Hex. Qed.

Lemma firstn_app_lt {A} k (a b : list A) : k < List.length a -> firstn k (a ++ b) = firstn k a.
Proof.
  intro Hk. rewrite firstn_app. replace (k - List.length a) with 0 by lia.
  cbn [firstn]. apply app_nil_r.
Qed.

Lemma firstn_app_ge {A} k (a b : list A) :
  List.length a <= k -> firstn k (a ++ b) = a ++ firstn (k - List.length a) b.
Proof. intro Hk. rewrite firstn_app. rewrite firstn_all2 by exact Hk. reflexivity. Qed.

Lemma firstn_len_lt {A} k (e : list A) : k < List.length e -> List.length (firstn k e) = k.
Proof. intro Hk. rewrite firstn_length. lia. Qed.

Lemma fails_err {A} (l : bytes) : fails (@RErr A l).
Proof. exists l. reflexivity. Qed.

(* ---------- leaves ---------- *)
Lemma take_n_fail n bs : List.length bs < n -> take_n n bs = RErr [].
Proof.
  intro Hlen. unfold take_n. replace (Nat.ltb (List.length bs) n) with true; [reflexivity|].
  symmetry. apply Nat.ltb_lt. exact Hlen.
Qed.

Lemma take_n_ok a r : take_n (List.length a) (a ++ r) = ROk (a, r).
Proof.
  unfold take_n. replace (Nat.ltb (List.length (a ++ r)) (List.length a)) with false.
  - rewrite firstn_app_exact, skipn_app_exact. reflexivity.
  - symmetry. apply Nat.ltb_ge. rewrite app_length. lia.
Qed.

Lemma take_n_strict B e : strict B (take_n (List.length e)) e.
Proof.
  intros k Hk HB. rewrite take_n_fail; [apply fails_err|]. rewrite firstn_len_lt; lia.
Qed.

Lemma read_num_fail w bs : List.length bs < w -> read_num w bs = RErr [].
Proof. intro Hlen. unfold read_num. rewrite take_n_fail by exact Hlen. reflexivity. Qed.

Lemma read_num_ok w x r : (x < 2 ^ (8 * N.of_nat w))%N -> read_num w (le w x ++ r) = ROk (x, r).
Proof.
  intro Hx. unfold read_num. pose proof (take_n_ok (le w x) r) as Ht.
  rewrite le_length in Ht. rewrite Ht. cbn [bind]. rewrite unle_le_small by exact Hx. reflexivity.
Qed.

Lemma read_num_strict B w x : strict B (read_num w) (le w x).
Proof.
  intros k Hk HB. rewrite le_length in Hk. rewrite read_num_fail; [apply fails_err|].
  rewrite firstn_length, le_length. lia.
Qed.

Lemma pow32 : (2 ^ (8 * N.of_nat 4) = 4294967296)%N.
Proof. reflexivity. Qed.

Lemma read_str_ok s r :
  (N.of_nat (List.length s) <= MaxStringSize)%N -> read_str (enc_str s ++ r) = ROk (s, r).
Proof.
  intro Hs. unfold read_str, enc_str, enc_u32. rewrite <- app_assoc.
  rewrite read_num_ok by (rewrite pow32; unfold MaxStringSize in Hs; lia).
  cbn [bind]. destruct (N.eqb_spec (N.of_nat (List.length s)) 0) as [Hz|Hnz].
  - destruct s as [|b s']; [reflexivity|cbn [List.length] in Hz; lia].
  - replace (N.ltb MaxStringSize (N.of_nat (List.length s))) with false
      by (symmetry; apply N.ltb_ge; exact Hs).
    rewrite Nat2N.id. apply take_n_ok.
Qed.

Lemma read_str_strict B s :
  (N.of_nat (List.length s) <= MaxStringSize)%N -> strict B read_str (enc_str s).
Proof.
  intros Hs k Hk HB. rewrite enc_str_length in Hk. unfold enc_str, enc_u32.
  destruct (Nat.lt_ge_cases k 4) as [Hlt|Hge].
  - unfold read_str. rewrite read_num_fail; [apply fails_err|].
    rewrite firstn_length, app_length, le_length. lia.
  - rewrite firstn_app_ge by (rewrite le_length; exact Hge). rewrite le_length.
    unfold read_str. rewrite read_num_ok by (rewrite pow32; unfold MaxStringSize in Hs; lia).
    cbn [bind]. destruct (N.eqb_spec (N.of_nat (List.length s)) 0) as [Hz|Hnz]; [lia|].
    replace (N.ltb MaxStringSize (N.of_nat (List.length s))) with false
      by (symmetry; apply N.ltb_ge; exact Hs).
    rewrite Nat2N.id. rewrite take_n_fail; [apply fails_err|]. rewrite firstn_length. lia.
Qed.

(* ---------- sequences ---------- *)
Section Seq.
  Context {A : Type}.
  Implicit Types p : bytes -> res (A * bytes).

  Inductive all2 (B : nat) : list (bytes -> res (A * bytes)) -> list bytes -> Prop :=
  | all2_nil : all2 B [] []
  | all2_cons : forall p e ps es,
      eats B p e -> strict B p e -> all2 B ps es -> all2 B (p :: ps) (e :: es).

  Lemma seq_with_eats B ps es : all2 B ps es -> eats B (seq_with ps) (concat es).
  Proof.
    intro Hall. induction Hall as [|p e ps es Heat Hstr Hall IH]; intros rest Hlen.
    - exists []. reflexivity.
    - cbn [concat] in Hlen |- *. rewrite <- app_assoc in Hlen |- *.
      destruct (Heat (concat es ++ rest) Hlen) as [x Hx].
      destruct (IH rest) as [xs Hxs]; [rewrite app_length in Hlen; lia|].
      exists (x :: xs). cbn [seq_with]. rewrite Hx, Hxs. reflexivity.
  Qed.

  Lemma seq_with_strict B ps es : all2 B ps es -> strict B (seq_with ps) (concat es).
  Proof.
    intro Hall. induction Hall as [|p e ps es Heat Hstr Hall IH]; intros k Hk HB.
    - cbn in Hk. lia.
    - cbn [concat] in Hk |- *. rewrite app_length in Hk.
      destruct (Nat.lt_ge_cases k (List.length e)) as [Hlt|Hge].
      + rewrite firstn_app_lt by exact Hlt. destruct (Hstr k Hlt HB) as [l Hl].
        cbn [seq_with]. rewrite Hl. apply fails_err.
      + rewrite firstn_app_ge by exact Hge.
        destruct (Heat (firstn (k - List.length e) (concat es))) as [x Hx].
        { rewrite app_length, firstn_length. lia. }
        destruct (IH (k - List.length e)) as [l Hl]; [lia|lia|].
        cbn [seq_with]. rewrite Hx, Hl. apply fails_err.
  Qed.

  Lemma rep_nat_seq p n bs : rep_nat p n bs = seq_with (repeat p n) bs.
  Proof.
    revert bs. induction n as [|n IH]; intro bs; [reflexivity|].
    cbn [rep_nat repeat seq_with]. destruct (p bs) as [[x r]|l| |]; try reflexivity.
    rewrite IH. reflexivity.
  Qed.

  Lemma all2_repeat B p es :
    Forall (fun e => eats B p e /\ strict B p e) es -> all2 B (repeat p (List.length es)) es.
  Proof.
    intro Hes. induction Hes as [|e es [Heat Hstr] Hes IH]; cbn [List.length repeat]; constructor; assumption.
  Qed.

  Lemma rep_nat_eats B p es :
    Forall (fun e => eats B p e /\ strict B p e) es -> eats B (rep_nat p (List.length es)) (concat es).
  Proof.
    intros Hes rest Hlen. rewrite rep_nat_seq. exact (seq_with_eats B _ es (all2_repeat B p es Hes) rest Hlen).
  Qed.

  Lemma rep_nat_strict B p es :
    Forall (fun e => eats B p e /\ strict B p e) es -> strict B (rep_nat p (List.length es)) (concat es).
  Proof.
    intros Hes k Hk HB. rewrite rep_nat_seq. exact (seq_with_strict B _ es (all2_repeat B p es Hes) k Hk HB).
  Qed.
End Seq.

(* ---------- counted loops ---------- *)
Section Rep.
  Context {A : Type}.
  Implicit Types p : bytes -> res (A * bytes).

  Definition elem_ok (B : nat) p (e : bytes) : Prop := eats B p e /\ strict B p e.

  Lemma concat_len_ge (es : list bytes) :
    Forall (fun e => 1 <= List.length e) es -> List.length es <= List.length (concat es).
  Proof.
    intro H. induction H as [|e es He Hes IH]; [cbn; lia|].
    cbn [concat List.length]. rewrite app_length. lia.
  Qed.

  Lemma concat_nil (es : list bytes) : Forall (fun e => e = []) es -> concat es = [].
  Proof.
    intro H. induction H as [|e es He Hes IH]; [reflexivity|]. cbn [concat]. rewrite He, IH. reflexivity.
  Qed.

  Lemma rep_slow_S p f n bs acc :
    n <> 0%N ->
    rep_slow p (S f) n bs acc =
      match p bs with
      | ROk (d, bs') =>
          if Nat.ltb (List.length bs') (List.length bs) then rep_slow p f (n - 1) bs' (d :: acc)
          else ROk (rev acc ++ repeat d (N.to_nat n), bs')
      | RErr l => RErr l
      | RPanic => RPanic
      | RFuel => RFuel
      end.
  Proof.
    intro Hn. cbn [rep_slow]. destruct (N.eqb_spec n 0) as [Hz|Hnz]; [contradiction|reflexivity].
  Qed.

  Lemma rep_slow_strict B p es :
    Forall (fun e => elem_ok B p e /\ 1 <= List.length e) es ->
    forall k fuel acc, k < List.length (concat es) -> k < B -> k < fuel ->
      fails (rep_slow p fuel (N.of_nat (List.length es)) (firstn k (concat es)) acc).
  Proof.
    intro Hes. induction Hes as [|e es [[Heat Hstr] Hne] Hes IH]; intros k fuel acc Hk HB Hfuel.
    - cbn in Hk. lia.
    - destruct fuel as [|f]; [lia|].
      rewrite rep_slow_S by (cbn [List.length]; lia).
      cbn [concat] in Hk |- *. rewrite app_length in Hk.
      destruct (Nat.lt_ge_cases k (List.length e)) as [Hlt|Hge].
      + rewrite firstn_app_lt by exact Hlt. destruct (Hstr k Hlt HB) as [l Hl].
        rewrite Hl. apply fails_err.
      + rewrite firstn_app_ge by exact Hge.
        destruct (Heat (firstn (k - List.length e) (concat es))) as [x Hx].
        { rewrite app_length, firstn_length. lia. }
        rewrite Hx.
        replace (Nat.ltb (List.length (firstn (k - List.length e) (concat es)))
                         (List.length (e ++ firstn (k - List.length e) (concat es)))) with true
          by (symmetry; apply Nat.ltb_lt; rewrite app_length; lia).
        replace (N.of_nat (List.length (e :: es)) - 1)%N with (N.of_nat (List.length es))
          by (cbn [List.length]; lia).
        apply IH; lia.
  Qed.

  Lemma Forall_and_l {X} (P Q : X -> Prop) (l : list X) :
    Forall P l -> Forall Q l -> Forall (fun x => P x /\ Q x) l.
  Proof.
    intros HP HQ. induction HP as [|x l Hx HP IH]; [constructor|].
    inversion HQ as [|x' l' Hqx HQ']; subst. constructor; [split; assumption|apply IH; exact HQ'].
  Qed.

  (* zero-width elements: the encoding of the members is empty and has no proper prefix *)
  Lemma rep_strict B p es :
    Forall (elem_ok B p) es -> uniform es -> strict B (rep p (N.of_nat (List.length es))) (concat es).
  Proof.
    intros Hes [Hsz|Hnil] k Hk HB; [|rewrite (concat_nil es Hnil) in Hk; cbn in Hk; lia].
    unfold rep.
    destruct (N.ltb (N.of_nat (List.length (firstn k (concat es)))) (N.of_nat (List.length es))).
    - apply (rep_slow_strict B p es (Forall_and_l _ _ es Hes Hsz) k _ [] Hk HB).
      rewrite firstn_len_lt by exact Hk. lia.
    - rewrite Nat2N.id. exact (rep_nat_strict B p es Hes k Hk HB).
  Qed.

  (* zero-width elements, count beyond the input: the loop stops at the first element, which
     consumed nothing *)
  Lemma rep_eats B p es :
    Forall (elem_ok B p) es -> uniform es -> eats B (rep p (N.of_nat (List.length es))) (concat es).
  Proof.
    intros Hes Hu rest Hlen. unfold rep.
    destruct (N.ltb (N.of_nat (List.length (concat es ++ rest))) (N.of_nat (List.length es))) eqn:Hlt.
    - destruct Hu as [Hsz|Hnil].
      + pose proof (concat_len_ge es Hsz) as Hge. rewrite app_length in Hlt. lia.
      + rewrite (concat_nil es Hnil) in Hlen |- *. cbn [app] in Hlen |- *.
        destruct es as [|e es']; [exists []; reflexivity|].
        rewrite rep_slow_S by (cbn [List.length]; lia).
        inversion Hes as [|e0 es0 [Heat _] Hes0]; subst. inversion Hnil as [|e1 es1 He1 Hnil1]; subst.
        destruct (Heat rest Hlen) as [x Hx]. cbn [app] in Hx. rewrite Hx.
        replace (Nat.ltb (List.length rest) (List.length rest)) with false
          by (symmetry; apply Nat.ltb_ge; lia).
        eexists. reflexivity.
    - rewrite Nat2N.id. exact (rep_nat_eats B p es Hes rest Hlen).
  Qed.
End Rep.

(* ---------- pairs ---------- *)
Section Pair.
  Context {A C : Type}.
  Variable pk : bytes -> res (A * bytes).
  Variable pv : bytes -> res (C * bytes).

  Lemma pair_with_eats B ek ev : eats B pk ek -> eats B pv ev -> eats B (pair_with pk pv) (ek ++ ev).
  Proof.
    intros Hk Hv rest Hlen. rewrite <- app_assoc in Hlen |- *.
    destruct (Hk (ev ++ rest) Hlen) as [x Hx].
    destruct (Hv rest) as [y Hy]; [rewrite app_length in Hlen; lia|].
    exists (x, y). unfold pair_with. rewrite Hx, Hy. reflexivity.
  Qed.

  Lemma pair_with_strict B ek ev :
    eats B pk ek -> strict B pk ek -> strict B pv ev -> strict B (pair_with pk pv) (ek ++ ev).
  Proof.
    intros Hk Hsk Hsv k Hlen HB. rewrite app_length in Hlen. unfold pair_with.
    destruct (Nat.lt_ge_cases k (List.length ek)) as [Hlt|Hge].
    - rewrite firstn_app_lt by exact Hlt. destruct (Hsk k Hlt HB) as [l Hl]. rewrite Hl. apply fails_err.
    - rewrite firstn_app_ge by exact Hge.
      destruct (Hk (firstn (k - List.length ek) ev)) as [x Hx].
      { rewrite app_length, firstn_length. lia. }
      destruct (Hsv (k - List.length ek)) as [l Hl]; [lia|lia|].
      rewrite Hx, Hl. apply fails_err.
  Qed.
End Pair.

(* ---------- a header followed by a body, cut at k ---------- *)
Lemma read_u32_trunc n body k :
  (n < 2 ^ 32)%N -> k < List.length (enc_u32 n ++ body) ->
  (k < 4 /\ read_num 4 (firstn k (enc_u32 n ++ body)) = RErr []) \/
  (4 <= k /\ k - 4 < List.length body /\
   read_num 4 (firstn k (enc_u32 n ++ body)) = ROk (n, firstn (k - 4) body)).
Proof.
  intros Hn Hk. rewrite app_length, enc_u32_length in Hk.
  destruct (Nat.lt_ge_cases k 4) as [Hlt|Hge].
  - left. split; [exact Hlt|]. apply read_num_fail. rewrite firstn_length, app_length, enc_u32_length. lia.
  - right. split; [exact Hge|]. split; [lia|].
    rewrite firstn_app_ge by (rewrite enc_u32_length; exact Hge). rewrite enc_u32_length.
    apply read_u32_enc. exact Hn.
Qed.

Lemma read_str_trunc B s body k :
  (N.of_nat (List.length s) <= MaxStringSize)%N -> k < List.length (enc_str s ++ body) -> k < B ->
  fails (read_str (firstn k (enc_str s ++ body))) \/
  (List.length (enc_str s) <= k /\ k - List.length (enc_str s) < List.length body /\
   read_str (firstn k (enc_str s ++ body)) = ROk (s, firstn (k - List.length (enc_str s)) body)).
Proof.
  intros Hs Hk HB. rewrite app_length in Hk.
  destruct (Nat.lt_ge_cases k (List.length (enc_str s))) as [Hlt|Hge].
  - left. rewrite firstn_app_lt by exact Hlt. exact (read_str_strict B s Hs k Hlt HB).
  - right. split; [exact Hge|]. split; [lia|].
    rewrite firstn_app_ge by exact Hge. apply read_str_enc. exact Hs.
Qed.

Lemma fails_bind {A C} (r : res A) (f : A -> res C) : fails r -> fails (bind r f).
Proof. intros [l Hl]. rewrite Hl. apply fails_err. Qed.

Lemma lt31_32 (n : N) : (n < 2 ^ 31 -> n < 2 ^ 32)%N.
Proof.
  intro Hn. change (2 ^ 31)%N with 2147483648%N in Hn. change (2 ^ 32)%N with 4294967296%N. lia.
Qed.

(* ---------- plumbing between Forall / Forall2 and all2 ---------- *)
Lemma Forall2_Forall_l {X Y} (P : X -> Prop) (R : X -> Y -> Prop) l ts :
  Forall P l -> Forall2 R l ts -> Forall2 (fun x t => P x /\ R x t) l ts.
Proof.
  intros HP HR. induction HR as [|x t l ts Hx HR IH]; [constructor|].
  inversion HP as [|x' l' Hpx HP']; subst. constructor; [split; assumption|apply IH; exact HP'].
Qed.

Lemma Forall2_mp {X Y} (P Q : X -> Y -> Prop) l ts :
  Forall (fun x => forall y, P x y -> Q x y) l -> Forall2 P l ts -> Forall2 Q l ts.
Proof.
  intros HI HP. induction HP as [|x t l ts Hx HP IH]; [constructor|].
  inversion HI as [|x' l' Hix HI']; subst. constructor; [apply Hix; exact Hx|apply IH; exact HI'].
Qed.

Lemma all2_of_Forall2 {A T} B (body : T -> bytes -> res (A * bytes)) (l : list tval) ts :
  Forall2 (fun x t => eats B (body t) (spec_enc x) /\ strict B (body t) (spec_enc x)) l ts ->
  all2 B (map body ts) (map spec_enc l).
Proof.
  intro HF. induction HF as [|x t l ts [He Hs] HF IH]; cbn [map]; constructor; assumption.
Qed.

Lemma dyn_depth_members (l : list tval) :
  Forall (fun x => dyn_depth x <= fold_right (fun y a => Nat.max (dyn_depth y) a) 0 l) l.
Proof. apply Forall_forall. intros x Hin. apply dyn_depth_in. exact Hin. Qed.

(* ---------- post-processing the result does not change what is consumed ---------- *)
Lemma eats_map {A C} B (p : bytes -> res (A * bytes)) (g : A -> C) e :
  eats B p e -> eats B (fun bs => do '(a, r) <- p bs; ROk (g a, r)) e.
Proof.
  intros He rest Hlen. destruct (He rest Hlen) as [x Hx]. exists (g x). rewrite Hx. reflexivity.
Qed.

Lemma strict_map {A C} B (p : bytes -> res (A * bytes)) (g : A -> C) e :
  strict B p e -> strict B (fun bs => do '(a, r) <- p bs; ROk (g a, r)) e.
Proof. intros Hs k Hk HB. apply fails_bind. exact (Hs k Hk HB). Qed.

Lemma eats_ext {A} B (p q : bytes -> res (A * bytes)) e :
  (forall bs, p bs = q bs) -> eats B q e -> eats B p e.
Proof. intros Heq He rest Hlen. rewrite Heq. exact (He rest Hlen). Qed.

Lemma strict_ext {A} B (p q : bytes -> res (A * bytes)) e :
  (forall bs, p bs = q bs) -> strict B q e -> strict B p e.
Proof. intros Heq Hs k Hk HB. rewrite Heq. exact (Hs k Hk HB). Qed.

Lemma both_ext {A} B (p q : bytes -> res (A * bytes)) e :
  (forall bs, p bs = q bs) -> eats B q e /\ strict B q e -> eats B p e /\ strict B p e.
Proof. intros Heq [He Hs]. split; [exact (eats_ext B p q e Heq He)|exact (strict_ext B p q e Heq Hs)]. Qed.
