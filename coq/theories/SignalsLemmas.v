(* SignalsLemmas.v — list and update lemmas used by SignalsProofs.v. *)
From QV Require Import Signals.
From Coq Require Import Permutation.
Local Open Scope N_scope.

Definition cnt {A} (f : A -> bool) (l : list A) : nat := List.length (filter f l).

Lemma cnt_app {A} (f : A -> bool) a b : cnt f (a ++ b) = (cnt f a + cnt f b)%nat.
Proof. unfold cnt. now rewrite filter_app, app_length. Qed.
Lemma cnt_cons {A} (f : A -> bool) x l : cnt f (x :: l) = ((if f x then 1 else 0) + cnt f l)%nat.
Proof. unfold cnt. cbn. now destruct (f x). Qed.
Lemma cnt_nil {A} (f : A -> bool) : cnt f [] = O. Proof. reflexivity. Qed.
Lemma cnt_map {A} (f : A -> bool) (h : A -> A) l : (forall x, f (h x) = f x) -> cnt f (map h l) = cnt f l.
Proof. intro H. induction l as [|x l IH]; [reflexivity|]. cbn [map]. now rewrite !cnt_cons, H, IH. Qed.
Lemma cnt_ext {A} (f g : A -> bool) l : (forall x, In x l -> f x = g x) -> cnt f l = cnt g l.
Proof. intro H. induction l as [|x l IH]; [reflexivity|]. rewrite !cnt_cons, H by now left. rewrite IH; [reflexivity|]. intros; apply H; now right. Qed.
Lemma cnt_zero_iff {A} (f : A -> bool) l : cnt f l = O <-> forall x, In x l -> f x = false.
Proof.
  induction l as [|x l IH]; [split; [intros _ y []|reflexivity]|]. rewrite cnt_cons. split.
  - intros H y [<-|Hy]; destruct (f x) eqn:E; try discriminate; try reflexivity.
    apply IH; [lia|exact Hy].
  - intro H. rewrite (H x) by now left. apply IH. intros; apply H; now right.
Qed.
Lemma cnt_pos {A} (f : A -> bool) l : (cnt f l > 0)%nat -> exists x, In x l /\ f x = true.
Proof.
  induction l as [|x l IH]; [cbn; lia|]. rewrite cnt_cons. destruct (f x) eqn:E.
  - intros _. exists x. split; [now left|exact E].
  - intro H. destruct IH as [y [Hy Fy]]; [lia|]. exists y. split; [now right|exact Fy].
Qed.
Lemma cnt_In {A} (f : A -> bool) l x : In x l -> f x = true -> (cnt f l >= 1)%nat.
Proof.
  induction l as [|y l IH]; [intros []|]. rewrite cnt_cons. intros [->|H] Fx; [rewrite Fx; lia|].
  specialize (IH H Fx). lia.
Qed.

(* set_nth *)
Lemma set_nth_length {A} (l : list A) i x : List.length (set_nth l i x) = List.length l.
Proof. revert i; induction l as [|y l IH]; intros [|i]; cbn; try reflexivity. now rewrite IH. Qed.
Lemma nth_error_set_nth_eq {A} (l : list A) i x y : nth_error l i = Some y -> nth_error (set_nth l i x) i = Some x.
Proof. revert i; induction l as [|z l IH]; intros [|i]; cbn; try discriminate; [reflexivity|apply IH]. Qed.
Lemma nth_error_set_nth_neq {A} (l : list A) i j x : i <> j -> nth_error (set_nth l i x) j = nth_error l j.
Proof. revert i j; induction l as [|z l IH]; intros [|i] [|j] H; cbn; try reflexivity; [congruence|apply IH; congruence]. Qed.
Lemma set_nth_split {A} (l : list A) i x y : nth_error l i = Some y ->
  exists a b, l = a ++ y :: b /\ set_nth l i x = a ++ x :: b /\ List.length a = i.
Proof.
  revert i; induction l as [|z l IH]; intros [|i]; cbn; try discriminate.
  - intros [= ->]. exists [], l. repeat split.
  - intro H. destruct (IH _ H) as (a & b & -> & E & L). exists (z :: a), b. cbn. rewrite E, L. repeat split.
Qed.
Lemma cnt_set_nth {A} (f : A -> bool) l i x y : nth_error l i = Some y ->
  (cnt f (set_nth l i x) + (if f y then 1 else 0) = cnt f l + (if f x then 1 else 0))%nat.
Proof.
  intro H. destruct (set_nth_split l i x y H) as (a & b & -> & -> & _).
  rewrite !cnt_app, !cnt_cons. destruct (f x), (f y); lia.
Qed.
Lemma In_set_nth {A} (l : list A) i x z : In z (set_nth l i x) -> z = x \/ In z l.
Proof.
  revert i; induction l as [|y l IH]; intros [|i]; cbn; try tauto.
  - intros [<-|H]; tauto.
  - intros [<-|H]; [tauto|]. destruct (IH _ H); tauto.
Qed.
Lemma nth_error_app_last {A} (l : list A) x : nth_error (l ++ [x]) (List.length l) = Some x.
Proof. rewrite nth_error_app2 by lia. now rewrite Nat.sub_diag. Qed.

(* find_idx *)
Lemma find_idx_some {A} (f : A -> bool) l i : find_idx f l = Some i ->
  exists x, nth_error l i = Some x /\ f x = true.
Proof.
  revert i; induction l as [|y l IH]; intro i; cbn; [discriminate|]. destruct (f y) eqn:E.
  - intros [= <-]. now exists y.
  - destruct (find_idx f l) as [j|]; cbn; [|discriminate]. intros [= <-]. now apply IH.
Qed.
Lemma find_idx_none {A} (f : A -> bool) l : find_idx f l = None -> forall x, In x l -> f x = false.
Proof.
  induction l as [|y l IH]; cbn; [intros _ x []|]. destruct (f y) eqn:E; [discriminate|].
  destruct (find_idx f l); cbn; [discriminate|]. intros _ x [<-|H]; [exact E|now apply IH].
Qed.
Lemma find_idx_none_cnt {A} (f : A -> bool) l : find_idx f l = None -> cnt f l = O.
Proof. intro H. apply cnt_zero_iff. now apply find_idx_none. Qed.

(* swap_remove removes exactly the i-th element, up to order *)
Lemma Permutation_filter {A} (f : A -> bool) l l' : Permutation l l' -> Permutation (filter f l) (filter f l').
Proof.
  induction 1 as [|x l l' _ IH|x y l|l l' l'' _ IH1 _ IH2]; cbn.
  - constructor.
  - destruct (f x); [now constructor|exact IH].
  - destruct (f x), (f y); try apply Permutation_refl. apply perm_swap.
  - eapply Permutation_trans; eassumption.
Qed.
Lemma removelast_app_one {A} (l : list A) x : removelast (l ++ [x]) = l.
Proof. apply removelast_last. Qed.
Lemma swap_remove_perm {A} (l : list A) i e : nth_error l i = Some e -> Permutation l (e :: swap_remove l i).
Proof.
  intro H. unfold swap_remove.
  assert (L : (i < List.length l)%nat) by (apply nth_error_Some; congruence).
  destruct (exists_last (l := l)) as (l0 & z & ->); [intro; subst; cbn in L; lia|].
  rewrite app_length in *; cbn [List.length] in *.
  replace (Nat.pred (List.length l0 + 1)) with (List.length l0) by lia.
  rewrite nth_error_app_last.
  destruct (Nat.eq_dec i (List.length l0)) as [->|Ne].
  - rewrite nth_error_app_last in H. injection H as <-.
    assert (E : set_nth (l0 ++ [z]) (List.length l0) z = l0 ++ [z]).
    { clear. induction l0 as [|y l0 IH]; [reflexivity|]. cbn. now rewrite IH. }
    rewrite E, removelast_app_one. apply Permutation_sym, Permutation_cons_append.
  - assert (Li : (i < List.length l0)%nat) by lia.
    rewrite nth_error_app1 in H by exact Li.
    destruct (set_nth_split l0 i z e H) as (a & b & E0 & E1 & _).
    assert (E : set_nth (l0 ++ [z]) i z = set_nth l0 i z ++ [z]).
    { clear - Li. revert i Li; induction l0 as [|y l0 IH]; intros [|i] Li; cbn in *; try lia; [reflexivity|]. now rewrite IH by lia. }
    rewrite E, removelast_app_one, E1, E0.
    rewrite <- app_assoc. cbn.
    apply Permutation_trans with (e :: a ++ b ++ [z]).
    + apply Permutation_sym, Permutation_middle.
    + constructor. apply Permutation_app_head. apply Permutation_sym, Permutation_cons_append.
Qed.

Lemma nth_nth_error {A} (l : list A) i d x : nth_error l i = Some x -> nth i l d = x.
Proof. revert i; induction l as [|y l IH]; intros [|i]; cbn; try discriminate; [now intros [= ->]|apply IH]. Qed.

(* functional updates *)
Lemma fupd_eq {A} (f : nat -> A) k v : fupd f k v k = v.
Proof. unfold fupd. now rewrite Nat.eqb_refl. Qed.
Lemma fupd_neq {A} (f : nat -> A) k v k' : k' <> k -> fupd f k v k' = f k'.
Proof. unfold fupd. intro H. now rewrite (proj2 (Nat.eqb_neq k' k) H). Qed.
Lemma nupd_eq {A} (f : N -> A) k v : nupd f k v k = v.
Proof. unfold nupd. now rewrite N.eqb_refl. Qed.
Lemma nupd_neq {A} (f : N -> A) k v k' : k' <> k -> nupd f k v k' = f k'.
Proof. unfold nupd. intro H. now rewrite (proj2 (N.eqb_neq k' k) H). Qed.

Lemma NoDup_app_r {A} (l l' : list A) : NoDup (l ++ l') -> NoDup l'.
Proof. induction l as [|x l IH]; [trivial|]. cbn. intro H. inversion H; subst. auto. Qed.
Lemma NoDup_app_l {A} (l l' : list A) : NoDup (l ++ l') -> NoDup l.
Proof.
  induction l as [|x l IH]; [constructor|]. cbn. intro H. inversion H as [|? ? Hx Hn]; subst.
  constructor; [|auto]. intro Hin. apply Hx. apply in_or_app. now left.
Qed.
Lemma NoDup_app_disj {A} (l l' : list A) x : NoDup (l ++ l') -> In x l -> In x l' -> False.
Proof.
  induction l as [|y l IH]; [intros _ []|]. cbn. intro H. inversion H as [|? ? Hy Hn]; subst.
  intros [->|Hin] Hin'; [apply Hy, in_or_app; now right|eauto].
Qed.
