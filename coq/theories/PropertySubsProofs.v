(* PropertySubsProofs.v — proofs about PropertySubs.v: whatever the clients register and
   unregister, with whatever user ids, the subscribers an accepted write notifies are exactly the
   registrations for the property that were acknowledged and not unregistered since. *)
From Coq Require Import Arith NArith List Bool String Lia Permutation.
From QV Require Import Bytes Property PropertyProofs PropertySubs.
Import ListNotations.
Local Open Scope N_scope.

Definition key (r : reg) : nat * N := (r_conn r, r_uid r).

Lemma same_user_key : forall c uid r, same_user c uid r = true <-> key r = (c, uid).
Proof.
  intros c uid r. unfold same_user, key. rewrite andb_true_iff, Nat.eqb_eq, N.eqb_eq.
  split; [intros [-> ->]; reflexivity | intros H; inversion H; auto].
Qed.

Lemma same_user_false_key : forall c uid r, same_user c uid r = false <-> key r <> (c, uid).
Proof.
  intros c uid r. rewrite <- same_user_key. destruct (same_user c uid r); split; congruence.
Qed.

(* ---- a registration never touches the entries that are there ---- *)
Lemma register_keeps_entries : forall c valid s cn obj sig uid mid s' r ev,
  sstep c valid s (SRegister cn obj sig uid mid) = (s', r, ev) ->
  ev = [] /\ s_val s' = s_val s /\
  ((r = RDone /\ s_regs s' = s_regs s ++ [{| r_conn := cn; r_uid := uid; r_sig := sig; r_mid := mid |}]) \/
   (r = RFail /\ s' = s)).
Proof.
  intros c valid s cn obj sig uid mid s' r ev H. cbn [sstep] in H.
  destruct (object_ok obj).
  - unfold add_user in H. cbn [r_conn r_uid] in H.
    destruct (existsb (same_user cn uid) (s_regs s)); inversion H; subst; cbn; auto.
  - inversion H; subst; auto.
Qed.

Lemma register_keeps_subscribers : forall c valid s cn obj sig uid mid s' r ev,
  sstep c valid s (SRegister cn obj sig uid mid) = (s', r, ev) ->
  exists extra, subs_of prop_uid (s_regs s') = subs_of prop_uid (s_regs s) ++ extra.
Proof.
  intros c valid s cn obj sig uid mid s' r ev H.
  destruct (register_keeps_entries _ _ _ _ _ _ _ _ _ _ _ H) as (_ & _ & [[_ E] | [_ E]]).
  - rewrite E. unfold subs_of. rewrite filter_app, map_app. eexists; reflexivity.
  - subst s'. exists []. rewrite app_nil_r. reflexivity.
Qed.

(* ---- reads, writes and updates are Property.pstep on the projected subscriber list ---- *)
Definition not_subscribe (o : pop) : bool := match o with PSubscribe _ _ => false | _ => true end.

Lemma sop_is_pstep : forall c valid s o, not_subscribe o = true ->
  sstep c valid s (SOp o) =
    (let '(p', r, ev) := pstep c valid (pstate_of s) o in
     ({| s_val := p_val p'; s_regs := s_regs s |}, r, map (fun e => (prop_uid, e)) ev)).
Proof. intros c valid s o H. destruct o; try discriminate; reflexivity. Qed.

Lemma write_not_subscribe : forall o, is_write o = true -> not_subscribe o = true.
Proof. destruct o; cbn; congruence. Qed.

Lemma srejected_unchanged : forall c valid s o s' ev,
  sstep c valid s (SOp o) = (s', RFail, ev) -> s' = s /\ ev = [].
Proof.
  intros c valid s o s' ev H. destruct (not_subscribe o) eqn:Hn.
  - rewrite sop_is_pstep in H by exact Hn.
    destruct (pstep c valid (pstate_of s) o) as [[p' r] evp] eqn:Hp.
    inversion H; subst.
    destruct (rejected_unchanged _ _ _ _ _ _ Hp) as [-> ->].
    destruct s; auto.
  - destruct o; try discriminate. cbn in H. inversion H; auto.
Qed.

Lemma saccepted_events : forall c valid s o s' ev, is_write o = true ->
  sstep c valid s (SOp o) = (s', RDone, ev) ->
  exists v, check c valid o = Some v /\ s_val s' = Some v /\ s_regs s' = s_regs s /\ ev = owed (s_regs s) v.
Proof.
  intros c valid s o s' ev Hw H.
  rewrite sop_is_pstep in H by (apply write_not_subscribe; exact Hw).
  destruct (pstep c valid (pstate_of s) o) as [[p' r] evp] eqn:Hp.
  inversion H; subst.
  destruct (accepted_one_event _ _ _ _ _ _ Hw Hp) as (v & Hc & Hv & _ & He).
  exists v. cbn. repeat split; auto.
  rewrite He. cbn [pstate_of p_subs]. unfold owed, subs_of. rewrite !map_map. reflexivity.
Qed.

(* ---- the table and what the clients know ---- *)
Lemma Permutation_filter' : forall (f : reg -> bool) l l', Permutation l l' -> Permutation (filter f l) (filter f l').
Proof.
  intros f l l' H. induction H; cbn.
  - constructor.
  - destruct (f x); auto.
  - destruct (f x), (f y); auto using perm_swap, Permutation_refl.
  - eapply Permutation_trans; eauto.
Qed.

Lemma last_removelast_perm : forall (x : reg) r d, Permutation (x :: r) (last (x :: r) d :: removelast (x :: r)).
Proof.
  intros x r d.
  rewrite (app_removelast_last d (l := x :: r)) at 1 by discriminate.
  apply Permutation_sym, Permutation_cons_append.
Qed.

Lemma nodup_keys_filter : forall f l, NoDup (map key l) -> NoDup (map key (filter f l)).
Proof.
  intros f l. induction l as [|x r IH]; cbn; intros H; auto.
  inversion H; subst. destruct (f x); cbn; auto.
  constructor; auto. intros Hin. apply H2.
  apply in_map_iff in Hin. destruct Hin as (y & Hy & Hin). apply filter_In in Hin.
  apply in_map_iff. exists y. tauto.
Qed.

Lemma filter_none : forall (f : reg -> bool) l, (forall x, In x l -> f x = true) -> filter f l = l.
Proof.
  intros f l. induction l as [|x r IH]; cbn; intros H; auto.
  rewrite (H x) by auto. f_equal. apply IH. intros; apply H; auto.
Qed.

(* with distinct keys, removing the first entry of a user removes all there is of that user *)
Lemma remove_user_perm : forall cn uid l l', NoDup (map key l) ->
  remove_user (same_user cn uid) l = Some l' ->
  Permutation l' (filter (fun x => negb (same_user cn uid x)) l).
Proof.
  intros cn uid l. induction l as [|x r IH]; cbn; intros l' Hn H; try discriminate.
  inversion Hn; subst.
  destruct (same_user cn uid x) eqn:Hx; cbn.
  - assert (Hr : filter (fun y => negb (same_user cn uid y)) r = r).
    { apply filter_none. intros y Hy. apply negb_true_iff, same_user_false_key.
      intros Hk. apply H2. apply same_user_key in Hx. rewrite Hx, <- Hk. apply in_map. exact Hy. }
    rewrite Hr. inversion H; subst. destruct r as [|y r']; auto.
    apply Permutation_sym, last_removelast_perm.
  - destruct (remove_user (same_user cn uid) r) as [l1|] eqn:Hr; cbn in H; inversion H; subst.
    constructor. apply IH; auto.
Qed.

Lemma nodup_snoc : forall (l : list (nat * N)) x, NoDup l -> ~ In x l -> NoDup (l ++ [x]).
Proof.
  intros l x Hn Hx. eapply Permutation_NoDup; [apply Permutation_cons_append|]. constructor; auto.
Qed.

Definition sinv (s : sstate) (act : list reg) : Prop :=
  Permutation (s_regs s) act /\ NoDup (map key (s_regs s)).

Lemma sinv_step : forall c valid s act o s' r ev, sinv s act ->
  sstep c valid s o = (s', r, ev) -> sinv s' (track act o r).
Proof.
  intros c valid s act o s' r ev [Hp Hn] H. destruct o as [o | cn obj sig uid mid | cn obj sig uid | x | cn a].
  - assert (s_regs s' = s_regs s) as E.
    { destruct (not_subscribe o) eqn:Ho.
      - rewrite sop_is_pstep in H by exact Ho.
        destruct (pstep c valid (pstate_of s) o) as [[p' r'] evp]. inversion H; reflexivity.
      - destruct o; try discriminate. cbn in H. inversion H; reflexivity. }
    cbn [track]. unfold sinv. rewrite E. auto.
  - destruct (register_keeps_entries _ _ _ _ _ _ _ _ _ _ _ H) as (_ & _ & [[-> E] | [-> ->]]).
    + cbn [track]. unfold sinv. rewrite E. split.
      * apply Permutation_app_tail. exact Hp.
      * cbn [sstep] in H. destruct (object_ok obj); [|inversion H; subst; exfalso; revert E; clear; intros E;
          apply (f_equal (@List.length reg)) in E; rewrite app_length in E; cbn in E; lia].
        unfold add_user in H. cbn [r_conn r_uid] in H.
        destruct (existsb (same_user cn uid) (s_regs s)) eqn:Hex;
          [inversion H; subst; exfalso; revert E; clear; intros E;
           apply (f_equal (@List.length reg)) in E; rewrite app_length in E; cbn in E; lia|].
        rewrite map_app. cbn [map]. apply nodup_snoc; auto.
        intros Hin. apply in_map_iff in Hin. destruct Hin as (y & Hy & Hin).
        assert (existsb (same_user cn uid) (s_regs s) = true); [|congruence].
        apply existsb_exists. exists y. split; auto. apply same_user_key. exact Hy.
    + cbn [track]. split; auto.
  - cbn [sstep] in H. destruct (object_ok obj); [|inversion H; subst; cbn [track]; split; auto].
    destruct (remove_user (same_user cn uid) (s_regs s)) as [l|] eqn:Hr; inversion H; subst; cbn [track]; [|split; auto].
    pose proof (remove_user_perm _ _ _ _ Hn Hr) as Hl.
    split; cbn [s_regs].
    + eapply Permutation_trans; [exact Hl|]. apply Permutation_filter'. exact Hp.
    + eapply Permutation_NoDup; [apply Permutation_map, Permutation_sym, Hl|].
      apply nodup_keys_filter. exact Hn.
  - cbn [sstep] in H. inversion H; subst. cbn [track]. split; auto.
  - cbn [sstep] in H. inversion H; subst. cbn [track]. split; auto.
Qed.

(* ---- the object's other methods (statistics and traces switched on or off, metaObject, ...) are
   transparent: nothing changes, nothing is emitted ---- *)
Lemma aux_transparent : forall c valid s cn a, sstep c valid s (SAux cn a) = (s, RDone, []).
Proof. reflexivity. Qed.

Definition is_aux (o : sop) : bool := match o with SAux _ _ => true | _ => false end.

(* ... so such calls can be erased from any sequence, wherever they stand and whichever connection
   makes them: the object ends in the same state and the clients know the same registrations *)
Lemma srun_erase_aux : forall c valid ops s act,
  srun c valid s act (filter (fun o => negb (is_aux o)) ops) = srun c valid s act ops.
Proof.
  intros c valid ops. induction ops as [|o r IH]; intros s act; [reflexivity|].
  destruct o as [o | cn obj sig uid mid | cn obj sig uid | x | cn a]; cbn [filter is_aux negb srun].
  1-4: match goal with |- context [sstep ?c ?v ?s ?o] => destruct (sstep c v s o) as [[s1 res] ev] end; apply IH.
  cbn [sstep track]. apply IH.
Qed.

Lemma sinv_run : forall c valid ops s act s' act', sinv s act ->
  srun c valid s act ops = (s', act') -> sinv s' act'.
Proof.
  intros c valid ops. induction ops as [|o r IH]; cbn; intros s act s' act' Hi H.
  - inversion H; subst; auto.
  - destruct (sstep c valid s o) as [[s1 res] ev] eqn:Hs.
    eapply IH; [|exact H]. eapply sinv_step; eauto.
Qed.

Lemma sinv_init : sinv sinit [].
Proof. split; cbn; constructor. Qed.

(* after any sequence of registrations (colliding or not), unregistrations, signals, reads and
   writes, an accepted write owes — and sends — exactly one event carrying the new value to each
   registration for the property that was acknowledged and not unregistered since, and nothing else *)
Lemma acknowledged_subscriptions_one_event : forall c valid ops s act o s' ev,
  srun c valid sinit [] ops = (s, act) -> is_write o = true ->
  sstep c valid s (SOp o) = (s', RDone, ev) ->
  exists v, check c valid o = Some v /\ s_val s' = Some v /\ Permutation ev (owed act v).
Proof.
  intros c valid ops s act o s' ev Hr Hw Hs.
  destruct (sinv_run _ _ _ _ _ _ _ sinv_init Hr) as [Hp _].
  destruct (saccepted_events _ _ _ _ _ _ Hw Hs) as (v & Hc & Hv & _ & He).
  exists v. repeat split; auto. rewrite He. unfold owed.
  apply Permutation_map, Permutation_filter'. exact Hp.
Qed.

(* ---- an executed example: the id collision across a property and a signal of one object ---- *)
Definition mk_reg (c : nat) (uid sig mid : N) : reg := {| r_conn := c; r_uid := uid; r_sig := sig; r_mid := mid |}.
Definition i32 (x : N) : cval := {| cv_sig := prop_sig; cv_data := le 4 x |}.
Definition ex_sops : list sop :=
  [SRegister 0 1 prop_uid 42 5;        (* connection 0 subscribes to "delay" with user id 42 *)
   SRegister 0 1 boom_uid 42 9;        (* ... and tries "boom" with the same id: refused *)
   SRegister 1 1 boom_uid 42 3;        (* the same id on another connection is another user *)
   SOp (PSet (NmStr prop_name) (i32 33));
   SSignal 8;
   SUnregister 0 1 boom_uid 42;        (* the signal id of unregisterEvent is not looked at *)
   SOp (PUpdate 34);
   SRegister 0 0 prop_uid 42 11;       (* registering again after unregistering *)
   SOp (PSet (NmUint prop_uid) (i32 (2 ^ 32 - 1)));
   SOp (PUpdate 35)].

(* statistics switched on by connection 2; connections 0 and 1 do the same thing (same user id);
   traces switched on by connection 0, statistics off by connection 1; connection 1 leaves *)
Definition ex_feature_sops : list sop :=
  [SAux 2 81;
   SRegister 0 1 prop_uid 42 5;
   SRegister 1 1 prop_uid 42 5;
   SOp (PSet (NmStr prop_name) (i32 33));
   SAux 0 85; SAux 1 81;
   SOp (PUpdate 34);
   SUnregister 1 1 prop_uid 42;
   SOp (PSet (NmStr prop_name) (i32 35))].

Fixpoint srun_out (c : pcfg) (valid : N -> bool) (s : sstate) (ops : list sop) : list (pres * list sevent) :=
  match ops with
  | [] => []
  | o :: r => let '(s1, res, ev) := sstep c valid s o in (res, ev) :: srun_out c valid s1 r
  end.

Lemma ex_sseq : srun_out pcfg_clean nonneg sinit ex_sops =
  [(RDone, []); (RFail, []); (RDone, []);
   (RDone, [(prop_uid, ((0%nat, 5), le 4 33))]);
   (RDone, [(boom_uid, ((1%nat, 3), le 4 8))]);
   (RDone, []);
   (RDone, []);
   (RDone, []);
   (RFail, []);
   (RDone, [(prop_uid, ((0%nat, 11), le 4 35))])]
  /\ snd (srun pcfg_clean nonneg sinit [] ex_sops) = [mk_reg 1 42 boom_uid 3; mk_reg 0 42 prop_uid 11].
Proof. vm_compute. split; reflexivity. Qed.

Lemma ex_feature_seq : srun_out pcfg_clean nonneg sinit ex_feature_sops =
  [(RDone, []); (RDone, []); (RDone, []);
   (RDone, [(prop_uid, ((0%nat, 5), le 4 33)); (prop_uid, ((1%nat, 5), le 4 33))]);
   (RDone, []); (RDone, []);
   (RDone, [(prop_uid, ((0%nat, 5), le 4 34)); (prop_uid, ((1%nat, 5), le 4 34))]);
   (RDone, []);
   (RDone, [(prop_uid, ((0%nat, 5), le 4 35))])].
Proof. vm_compute. reflexivity. Qed.
