(* CallWitness.v — concrete runs of the Call.v system: non-vacuity and the defect-switch witnesses. *)
From QV Require Import Call CallProofs.
Local Open Scope N_scope.

(* ---------- a concrete system: witnesses for the defect switches and non-vacuity ---------- *)
Definition ex_target (s o a : N) : tgt :=
  if s =? 1 then if o =? 1 then if a =? 100 then Meth else NoAct else NoObj else NoSvc.
Definition ex_fres (s o a : N) (p : bytes) : bytes := rev p.
(* the method of the example takes a list of bytes: every payload decodes (a method without
   parameters behaves the same way for the empty payload of the client's Cancel frame) *)
Definition ex_ok (s o a : N) (p : bytes) : bool := true.
Definition ex_callerr (s o a : N) (p : bytes) : bool := false.
Definition run_ex (cf : cfg) (ls : list label) : state := exec cf pinned_filter_pass ex_target ex_fres ex_ok ex_callerr init ls.
Definition p12 : bytes := [x01; x02].
Definition p345 : bytes := [x03; x04; x05].

(* two calls in flight on one connection, answers handled in the other order of the returns *)
Definition ex_two_calls : list label :=
  [LAlloc 0 1 1 100 p12; LAlloc 0 1 1 100 p345; LSend 0 1; LSend 0 0; LSrv 0; LSrv 0; LMbox 1 1; LMbox 1 1;
   LCli 0; LCli 0; LReturn 0 0; LReturn 0 1].

Lemma ex_two_calls_results :
  let st := run_ex cfg_clean ex_two_calls in
  k_result (calls st 0 0) = Some (ROk (rev p12)) /\ k_result (calls st 0 1) = Some (ROk (rev p345)) /\
  ex st (TCall 0 0) = 1%nat /\ ex st (TCall 0 1) = 1%nat /\ k_returns (calls st 0 0) = 1%nat /\ bounded st.
Proof.
  cbv zeta. split; [vm_compute; reflexivity|]. split; [vm_compute; reflexivity|]. split; [vm_compute; reflexivity|].
  split; [vm_compute; reflexivity|]. split; [vm_compute; reflexivity|].
  apply bounded_short. vm_compute. discriminate.
Qed.

(* pinned tree: a call that is cancelled runs its method twice (the Cancel frame is dispatched on
   the action only) *)
Definition ex_cancel : list label :=
  [LAlloc 0 1 1 100 p12; LSend 0 0; LSrv 0; LMbox 1 1; LCancel 0 0; LSrv 0; LMbox 1 1].
Lemma ex_cancel_runs_twice : ex (run_ex cfg_pinned ex_cancel) (TCall 0 0) = 2%nat.
Proof. vm_compute. reflexivity. Qed.
Lemma ex_cancel_clean_once : ex (run_ex cfg_clean ex_cancel) (TCall 0 0) = 1%nat.
Proof. vm_compute. reflexivity. Qed.

(* pinned tree: a Capability (6) or Cancel (7) frame from any peer runs the method and is answered with a Reply *)
Definition ex_raw (ty : N) : list label := [LRaw 0 ty 1 1 100 7 p12; LSrv 0; LMbox 1 1].
Lemma ex_capability_runs :
  ex (run_ex cfg_pinned (ex_raw T_Capability)) (TRaw 0 0) = 1%nat /\
  map f_type (s2c (run_ex cfg_pinned (ex_raw T_Capability)) 0) = [T_Reply] /\
  ex (run_ex cfg_pinned (ex_raw T_Cancel)) (TRaw 0 0) = 1%nat.
Proof. vm_compute. repeat split; reflexivity. Qed.

(* pinned tree: a Post to an action that does not exist (or whose arguments cannot be decoded)
   is answered with an Error frame *)
Definition ex_post_noact : list label := [LRaw 0 T_Post 1 1 999 7 p12; LSrv 0; LMbox 1 1].
Lemma ex_post_answered :
  back (run_ex cfg_pinned ex_post_noact) (TRaw 0 0) = 1%nat /\ rawty (run_ex cfg_pinned ex_post_noact) 0 0 = T_Post.
Proof. vm_compute. split; reflexivity. Qed.
