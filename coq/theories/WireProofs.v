(* WireProofs.v — the typed decoder of the documented format (spec_dec) and the signature
   driven reader (sig_read) are exact on valid encodings: they return the value (resp. its
   bytes) and leave exactly what follows.  Size facts: an encoding is at least as long as
   the minimal width of its type and as the nesting of its dynamic values. *)
From QV Require Import Wire WireLemmas.
From Coq Require Import ZifyN ZifyNat ZifyBool Lia.
Local Open Scope nat_scope.

(* ---------- sizes ---------- *)
Lemma dyn_depth_le_len_any : forall v, dyn_depth v <= List.length (spec_enc v).
Proof.
  induction v as [w b|b|s|l IH|kvs IH|l IH|t v IH] using tval_ind2;
    cbn [dyn_depth spec_enc]; try lia.
  - rewrite app_length.
    enough (Hle : fold_right (fun x a => Nat.max (dyn_depth x) a) 0 l <= List.length (flat_map spec_enc l)) by lia.
    induction IH as [|x l' Hx HF IH']; cbn [fold_right flat_map]; [lia|]. rewrite app_length. lia.
  - rewrite app_length.
    enough (Hle : fold_right (fun kv a => Nat.max (Nat.max (dyn_depth (fst kv)) (dyn_depth (snd kv))) a) 0 kvs
                  <= List.length (flat_map (fun kv => spec_enc (fst kv) ++ spec_enc (snd kv)) kvs)) by lia.
    induction IH as [|kv l' [Hk Hv] HF IH']; cbn [fold_right flat_map]; [lia|]. rewrite !app_length. lia.
  - induction IH as [|x l' Hx HF IH']; cbn [fold_right flat_map]; [lia|].
    rewrite app_length. lia.
  - rewrite app_length, enc_str_length. lia.
Qed.

Lemma dyn_depth_le_len : forall v t, has_ty v t = true -> dyn_depth v <= List.length (spec_enc v).
Proof. intros v t _. apply dyn_depth_le_len_any. Qed.

Lemma min_width_tuple_le : forall (l : list tval) (ts : list ty),
  Forall (fun v => forall t, has_ty v t = true -> min_width t <= List.length (spec_enc v)) l ->
  Forall2 (fun x t => has_ty x t = true) l ts ->
  fold_right (fun t a => min_width t + a) 0 ts <= List.length (flat_map spec_enc l).
Proof.
  intros l ts IH HF. induction HF as [|x t l' ts' Hx HF' IHF]; [reflexivity|].
  inversion IH as [|x' l'' Hx' IH']; subst. cbn [fold_right flat_map]. rewrite app_length.
  specialize (Hx' t Hx). specialize (IHF IH'). lia.
Qed.

Lemma min_width_struct_le : forall (l : list tval) (fs : list (string * ty)),
  Forall (fun v => forall t, has_ty v t = true -> min_width t <= List.length (spec_enc v)) l ->
  Forall2 (fun x f => has_ty x (snd f) = true) l fs ->
  fold_right (fun f a => min_width (snd f) + a) 0 fs <= List.length (flat_map spec_enc l).
Proof.
  intros l fs IH HF. induction HF as [|x f l' fs' Hx HF' IHF]; [reflexivity|].
  inversion IH as [|x' l'' Hx' IH']; subst. cbn [fold_right flat_map]. rewrite app_length.
  specialize (Hx' (snd f) Hx). specialize (IHF IH'). lia.
Qed.

Lemma min_width_le_len : forall v t, has_ty v t = true -> min_width t <= List.length (spec_enc v).
Proof.
  induction v as [w b|b|s|l IH|kvs IH|l IH|t' v IH] using tval_ind2; intros t Hty.
  - apply has_ty_VNum in Hty as (s & Ht & Hw & Hb). subst t. cbn [spec_enc]. rewrite le_length.
    destruct s; cbn [scalar_width] in Hw; try discriminate; injection Hw as Hw; subst w; cbn [min_width]; lia.
  - apply has_ty_VBool in Hty. subst t. cbn [min_width spec_enc List.length]. lia.
  - apply has_ty_VStr in Hty as [Ht _]. subst t. cbn [min_width spec_enc]. rewrite enc_str_length. lia.
  - apply has_ty_VList in Hty as (t' & Ht & _ & _). subst t. cbn [min_width spec_enc].
    rewrite app_length, enc_u32_length. lia.
  - apply has_ty_VMap in Hty as (tk & tv & Ht & _ & _). subst t. cbn [min_width spec_enc].
    rewrite app_length, enc_u32_length. lia.
  - apply has_ty_VTup_expand in Hty as [(ts & Ht & HF)|[(n & fs & Ht & HF)|[Ht Hl]]].
    + subst t. cbn [min_width spec_enc]. now apply min_width_tuple_le.
    + rewrite <- min_width_expand1, Ht. cbn [min_width spec_enc]. now apply min_width_struct_le.
    + subst t. cbn [min_width]. lia.
  - apply has_ty_VDyn in Hty as (Ht & _). subst t. cbn [min_width spec_enc].
    rewrite app_length, enc_str_length. lia.
Qed.
