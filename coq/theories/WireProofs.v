(* WireProofs.v — the typed decoder of the documented format (spec_dec) and the signature
   driven reader (sig_read) are exact on valid encodings: they return the value (resp. its
   bytes) and leave exactly what follows.  Size facts: an encoding is at least as long as
   the minimal width of its type and as the nesting of its dynamic values. *)
From QV Require Import Wire WireLemmas.
From Coq Require Import ZifyN ZifyNat ZifyBool Lia.
Local Open Scope nat_scope.

(* ---------- sizes ---------- *)
Lemma dyn_depth_le_len_any : forall v, dyn_depth v <= List.length (spec_enc v).
Proof.
  induction v as [w b|b|s|l IH|kvs IH|l IH|t v IH] using tval_ind2;
    cbn [dyn_depth spec_enc]; try lia.
  - rewrite app_length.
    enough (Hle : fold_right (fun x a => Nat.max (dyn_depth x) a) 0 l <= List.length (flat_map spec_enc l)) by lia.
    induction IH as [|x l' Hx HF IH']; cbn [fold_right flat_map]; [lia|]. rewrite app_length. lia.
  - rewrite app_length.
    enough (Hle : fold_right (fun kv a => Nat.max (Nat.max (dyn_depth (fst kv)) (dyn_depth (snd kv))) a) 0 kvs
                  <= List.length (flat_map (fun kv => spec_enc (fst kv) ++ spec_enc (snd kv)) kvs)) by lia.
    induction IH as [|kv l' [Hk Hv] HF IH']; cbn [fold_right flat_map]; [lia|]. rewrite !app_length. lia.
  - induction IH as [|x l' Hx HF IH']; cbn [fold_right flat_map]; [lia|].
    rewrite app_length. lia.
  - rewrite app_length, enc_str_length. lia.
Qed.

Lemma dyn_depth_le_len : forall v t, has_ty v t = true -> dyn_depth v <= List.length (spec_enc v).
Proof. intros v t _. apply dyn_depth_le_len_any. Qed.

Lemma min_width_tuple_le : forall (l : list tval) (ts : list ty),
  Forall (fun v => forall t, has_ty v t = true -> min_width t <= List.length (spec_enc v)) l ->
  Forall2 (fun x t => has_ty x t = true) l ts ->
  fold_right (fun t a => min_width t + a) 0 ts <= List.length (flat_map spec_enc l).
Proof.
  intros l ts IH HF. induction HF as [|x t l' ts' Hx HF' IHF]; [reflexivity|].
  inversion IH as [|x' l'' Hx' IH']; subst. cbn [fold_right flat_map]. rewrite app_length.
  specialize (Hx' t Hx). specialize (IHF IH'). lia.
Qed.

Lemma min_width_struct_le : forall (l : list tval) (fs : list (string * ty)),
  Forall (fun v => forall t, has_ty v t = true -> min_width t <= List.length (spec_enc v)) l ->
  Forall2 (fun x f => has_ty x (snd f) = true) l fs ->
  fold_right (fun f a => min_width (snd f) + a) 0 fs <= List.length (flat_map spec_enc l).
Proof.
  intros l fs IH HF. induction HF as [|x f l' fs' Hx HF' IHF]; [reflexivity|].
  inversion IH as [|x' l'' Hx' IH']; subst. cbn [fold_right flat_map]. rewrite app_length.
  specialize (Hx' (snd f) Hx). specialize (IHF IH'). lia.
Qed.

Lemma min_width_le_len : forall v t, has_ty v t = true -> min_width t <= List.length (spec_enc v).
Proof.
  induction v as [w b|b|s|l IH|kvs IH|l IH|t' v IH] using tval_ind2; intros t Hty.
  - apply has_ty_VNum in Hty as (s & Ht & Hw & Hb). subst t. cbn [spec_enc]. rewrite le_length.
    destruct s; cbn [scalar_width] in Hw; try discriminate; injection Hw as Hw; subst w; cbn [min_width]; lia.
  - apply has_ty_VBool in Hty. subst t. cbn [min_width spec_enc List.length]. lia.
  - apply has_ty_VStr in Hty as [Ht _]. subst t. cbn [min_width spec_enc]. rewrite enc_str_length. lia.
  - apply has_ty_VList in Hty as (t' & Ht & _ & _). subst t. cbn [min_width spec_enc].
    rewrite app_length, enc_u32_length. lia.
  - apply has_ty_VMap in Hty as (tk & tv & Ht & _ & _). subst t. cbn [min_width spec_enc].
    rewrite app_length, enc_u32_length. lia.
  - apply has_ty_VTup_expand in Hty as [(ts & Ht & HF)|[(n & fs & Ht & HF)|[Ht Hl]]].
    + subst t. cbn [min_width spec_enc]. now apply min_width_tuple_le.
    + rewrite <- min_width_expand1, Ht. cbn [min_width spec_enc]. now apply min_width_struct_le.
    + subst t. cbn [min_width]. lia.
  - apply has_ty_VDyn in Hty as (Ht & _). subst t. cbn [min_width spec_enc].
    rewrite app_length, enc_str_length. lia.
Qed.

(* ---------- zero-width types ---------- *)
(* a type of minimal width 0 that has a value at all is made of void and of tuples / structs
   of such types; its values are written as nothing *)
Lemma zero_width_members : forall {T} (proj : T -> ty) (l : list tval) (ts : list T),
  Forall (fun v => forall t, has_ty v t = true -> min_width t = 0 -> spec_enc v = []) l ->
  Forall2 (fun x t => has_ty x (proj t) = true) l ts ->
  fold_right (fun t a => min_width (proj t) + a) 0 ts = 0 -> flat_map spec_enc l = [].
Proof.
  intros T proj l ts IH HF. induction HF as [|x t l' ts' Hx HF' IHF]; intro Hz; [reflexivity|].
  inversion IH as [|x' l'' Hx' IH']; subst. cbn [fold_right] in Hz. cbn [flat_map].
  rewrite (Hx' (proj t) Hx) by lia. rewrite (IHF IH') by lia. reflexivity.
Qed.

Lemma zero_width_enc : forall v t, has_ty v t = true -> min_width t = 0 -> spec_enc v = [].
Proof.
  induction v as [w b|b|s|l IH|kvs IH|l IH|t' v IH] using tval_ind2; intros t Hty Hz.
  - apply has_ty_VNum in Hty as (s & Ht & Hw & Hb). subst t.
    destruct s; cbn [scalar_width] in Hw; try discriminate; cbn [min_width] in Hz; discriminate.
  - apply has_ty_VBool in Hty. subst t. cbn [min_width] in Hz. discriminate.
  - apply has_ty_VStr in Hty as [Ht _]. subst t. cbn [min_width] in Hz. discriminate.
  - apply has_ty_VList in Hty as (t' & Ht & _ & _). subst t. cbn [min_width] in Hz. discriminate.
  - apply has_ty_VMap in Hty as (tk & tv & Ht & _ & _). subst t. cbn [min_width] in Hz. discriminate.
  - apply has_ty_VTup_expand in Hty as [(ts & Ht & HF)|[(n & fs & Ht & HF)|[Ht Hl]]].
    + subst t. cbn [min_width] in Hz. cbn [spec_enc].
      exact (zero_width_members (fun t => t) l ts IH HF Hz).
    + rewrite <- min_width_expand1, Ht in Hz. cbn [min_width] in Hz. cbn [spec_enc].
      exact (zero_width_members (@snd string ty) l fs IH HF Hz).
    + subst l. reflexivity.
  - apply has_ty_VDyn in Hty as (Ht & _). subst t. cbn [min_width] in Hz. discriminate.
Qed.

(* ... and there is exactly one of them, the zero value of the type *)
Lemma zero_width_members_val : forall {T} (proj : T -> ty) (l : list tval) (ts : list T),
  Forall (fun v => forall t, has_ty v t = true -> min_width t = 0 -> v = zero_val t) l ->
  Forall2 (fun x t => has_ty x (proj t) = true) l ts ->
  fold_right (fun t a => min_width (proj t) + a) 0 ts = 0 -> l = map (fun t => zero_val (proj t)) ts.
Proof.
  intros T proj l ts IH HF. induction HF as [|x t l' ts' Hx HF' IHF]; intro Hz; [reflexivity|].
  inversion IH as [|x' l'' Hx' IH']; subst. cbn [fold_right] in Hz. cbn [map].
  rewrite <- (Hx' (proj t) Hx) by lia. rewrite <- (IHF IH') by lia. reflexivity.
Qed.

Lemma zero_width_val : forall v t, has_ty v t = true -> min_width t = 0 -> v = zero_val t.
Proof.
  induction v as [w b|b|s|l IH|kvs IH|l IH|t' v IH] using tval_ind2; intros t Hty Hz.
  - apply has_ty_VNum in Hty as (s & Ht & Hw & Hb). subst t.
    destruct s; cbn [scalar_width] in Hw; try discriminate; cbn [min_width] in Hz; discriminate.
  - apply has_ty_VBool in Hty. subst t. cbn [min_width] in Hz. discriminate.
  - apply has_ty_VStr in Hty as [Ht _]. subst t. cbn [min_width] in Hz. discriminate.
  - apply has_ty_VList in Hty as (t' & Ht & _ & _). subst t. cbn [min_width] in Hz. discriminate.
  - apply has_ty_VMap in Hty as (tk & tv & Ht & _ & _). subst t. cbn [min_width] in Hz. discriminate.
  - apply has_ty_VTup in Hty as [(ts & Ht & HF)|[(n & fs & Ht & HF)|[[Ht Hl]|[Ht Ho]]]]; subst t.
    + cbn [min_width] in Hz. cbn [zero_val]. f_equal.
      exact (zero_width_members_val (fun t => t) l ts IH HF Hz).
    + cbn [min_width] in Hz. cbn [zero_val]. f_equal.
      exact (zero_width_members_val (@snd string ty) l fs IH HF Hz).
    + subst l. reflexivity.
    + cbn [min_width] in Hz. discriminate.
  - apply has_ty_VDyn in Hty as (Ht & _). subst t. cbn [min_width] in Hz. discriminate.
Qed.

(* hence the members of one list (the entries of one map) are all written on at least one
   byte, or all on none *)
Lemma uniform_elems : forall t' (l : list tval),
  Forall (fun x => has_ty x t' = true) l -> uniform (map spec_enc l).
Proof.
  intros t' l HF. destruct (Nat.eq_dec (min_width t') 0) as [Hz|Hnz].
  - right. apply (proj2 (Forall_map spec_enc (fun e => e = []) l)).
    eapply Forall_impl; [|exact HF]. intros x Hx. exact (zero_width_enc x t' Hx Hz).
  - left. apply (proj2 (Forall_map spec_enc (fun e => 1 <= List.length e) l)).
    eapply Forall_impl; [|exact HF]. intros x Hx. cbv beta in *.
    pose proof (min_width_le_len x t' Hx) as Hm. lia.
Qed.

Lemma uniform_entries : forall tk tv (kvs : list (tval * tval)),
  Forall (fun kv => has_ty (fst kv) tk = true /\ has_ty (snd kv) tv = true) kvs ->
  uniform (map (fun kv => spec_enc (fst kv) ++ spec_enc (snd kv)) kvs).
Proof.
  intros tk tv kvs HF. destruct (Nat.eq_dec (min_width tk + min_width tv) 0) as [Hz|Hnz].
  - right. apply (proj2 (Forall_map (fun kv : tval * tval => spec_enc (fst kv) ++ spec_enc (snd kv))
                           (fun e => e = []) kvs)).
    eapply Forall_impl; [|exact HF]. intros kv [Hk Hv]. cbv beta.
    rewrite (zero_width_enc _ tk Hk) by lia. rewrite (zero_width_enc _ tv Hv) by lia. reflexivity.
  - left. apply (proj2 (Forall_map (fun kv : tval * tval => spec_enc (fst kv) ++ spec_enc (snd kv))
                          (fun e => 1 <= List.length e) kvs)).
    eapply Forall_impl; [|exact HF]. intros kv [Hk Hv]. cbv beta in *.
    pose proof (min_width_le_len _ tk Hk) as Hm1. pose proof (min_width_le_len _ tv Hv) as Hm2.
    rewrite app_length. lia.
Qed.

(* ---------- the guard under which the handlers for "m" and "o" are used ---------- *)
(* [H] says that the handlers are exact (up to dynamic nesting f); a plain type never
   reaches them. *)
Definition guard (H : Prop) (f : nat) (t : ty) (v : tval) : Prop :=
  plain t = true \/ (H /\ dyn_depth v <= f).

Lemma dyn_depth_in : forall x (l : list tval),
  In x l -> dyn_depth x <= fold_right (fun y a => Nat.max (dyn_depth y) a) 0 l.
Proof.
  intros x l. induction l as [|y l' IH]; intro Hin; [destruct Hin|].
  cbn [fold_right]. destruct Hin as [Heq|Hin]; [subst y; lia|]. specialize (IH Hin). lia.
Qed.

Lemma dyn_depth_in_map : forall kv (kvs : list (tval * tval)),
  In kv kvs ->
  Nat.max (dyn_depth (fst kv)) (dyn_depth (snd kv)) <=
  fold_right (fun y a => Nat.max (Nat.max (dyn_depth (fst y)) (dyn_depth (snd y))) a) 0 kvs.
Proof.
  intros kv kvs. induction kvs as [|y l' IH]; intro Hin; [destruct Hin|].
  cbn [fold_right]. destruct Hin as [Heq|Hin]; [subst y; lia|]. specialize (IH Hin). lia.
Qed.

Lemma guard_list : forall H f t' l x, guard H f (TList t') (VList l) -> In x l -> guard H f t' x.
Proof.
  intros H f t' l x [Hp|[HH Hd]] Hin; [left; exact Hp|right]. split; [exact HH|].
  pose proof (dyn_depth_in x l Hin) as Hx. cbn [dyn_depth] in Hd. lia.
Qed.

Lemma guard_map : forall H f tk tv kvs kv, guard H f (TMap tk tv) (VMap kvs) -> In kv kvs ->
  guard H f tk (fst kv) /\ guard H f tv (snd kv).
Proof.
  intros H f tk tv kvs kv [Hp|[HH Hd]] Hin.
  - cbn [plain] in Hp. apply andb_true_iff in Hp as [Hk Hv]. split; left; assumption.
  - pose proof (dyn_depth_in_map kv kvs Hin) as Hx. cbn [dyn_depth] in Hd. split; right; (split; [exact HH|lia]).
Qed.

(* members of a tuple / fields of a struct: from the induction hypothesis on the members to
   a Forall2 of the conclusion; [proj] is [fun t => t] for tuples and [snd] for fields *)
Lemma members_from_IH : forall {T} (proj : T -> ty) (Q : tval -> ty -> Prop) (H : Prop) (f : nat)
    (l : list tval) (ts : list T),
  Forall (fun v => forall t, has_ty v t = true -> guard H f t v -> Q v t) l ->
  Forall2 (fun x t => has_ty x (proj t) = true) l ts ->
  (forallb (fun t => plain (proj t)) ts = true \/
   (H /\ fold_right (fun y a => Nat.max (dyn_depth y) a) 0 l <= f)) ->
  Forall2 (fun x t => Q x (proj t)) l ts.
Proof.
  intros T proj Q H f l ts IH HF. induction HF as [|x t l' ts' Hx HF' IHF]; intros Hg; [constructor|].
  inversion IH as [|x' l'' Hx' IH']; subst.
  constructor.
  - apply Hx'; [exact Hx|].
    destruct Hg as [Hp|[HH Hd]].
    + left. cbn [forallb] in Hp. now apply andb_true_iff in Hp as [Hp _].
    + right. split; [exact HH|]. cbn [fold_right] in Hd. lia.
  - apply IHF; [exact IH'|].
    destruct Hg as [Hp|[HH Hd]].
    + left. cbn [forallb] in Hp. now apply andb_true_iff in Hp as [_ Hp].
    + right. split; [exact HH|]. cbn [fold_right] in Hd. lia.
Qed.

Lemma parsers_of_members : forall {T A} (body : T -> bytes -> res (A * bytes)) (g : tval -> A)
    (l : list tval) (ts : list T),
  Forall2 (fun x t => exact (body t) (g x) (spec_enc x)) l ts ->
  Forall2 (fun p v => exact p (g v) (spec_enc v)) (map body ts) l.
Proof.
  intros T A body g l ts HF. induction HF as [|x t l' ts' Hx HF' IHF]; cbn [map]; constructor; assumption.
Qed.

Lemma lt31_lt32 : forall n : N, (n < 2 ^ 31 -> n < 2 ^ 32)%N.
Proof.
  intros n Hn. change (2 ^ 31)%N with 2147483648%N in Hn. change (2 ^ 32)%N with 4294967296%N. lia.
Qed.

(* ---------- spec_body with abstract handlers ---------- *)
Section SpecBodyExact.
  Variable dyn obj : bytes -> res (tval * bytes).
  Variable f : nat.

  Definition spec_handlers_ok : Prop :=
    (forall t' v', has_ty (VDyn t' v') (TS SValue) = true -> dyn_depth (VDyn t' v') <= f ->
                   exact dyn (VDyn t' v') (spec_enc (VDyn t' v'))) /\
    (forall v, has_ty v ty_ObjectReference = true -> exact obj v (spec_enc v)).

  Lemma spec_body_exact : forall v t,
    has_ty v t = true -> guard spec_handlers_ok f t v ->
    exact (spec_body dyn obj t) v (spec_enc v).
  Proof.
    induction v as [w b|b|s|l IH|kvs IH|l IH|t' v IH] using tval_ind2; intros t Hty Hg.
    - apply has_ty_VNum in Hty as (s & Ht & Hw & Hb). subst t. intro rest.
      destruct s; cbn [scalar_width] in Hw; try discriminate; injection Hw as Hw; subst w;
        cbn [spec_body scalar_width spec_enc]; rewrite (read_num_le _ _ _ Hb); reflexivity.
    - apply has_ty_VBool in Hty. subst t. intro rest. destruct b; reflexivity.
    - apply has_ty_VStr in Hty as [Ht Hs]. subst t. intro rest. cbn [spec_body spec_enc].
      rewrite (read_str_enc _ _ Hs). reflexivity.
    - apply has_ty_VList in Hty as (t' & Ht & Hn & HF). subst t. intro rest.
      cbn [spec_body spec_enc]. rewrite <- app_assoc, (read_u32_enc _ _ (lt31_lt32 _ Hn)). cbn [bind].
      rewrite (rep_exact spec_enc (spec_body dyn obj t') l _ eq_refl);
        [reflexivity| |exact (uniform_elems t' l HF)].
      apply Forall_forall. intros x Hin. rewrite Forall_forall in IH, HF.
      apply IH; [exact Hin|exact (HF x Hin)|exact (guard_list _ _ _ _ _ Hg Hin)].
    - apply has_ty_VMap in Hty as (tk & tv & Ht & Hn & HF). subst t. intro rest.
      cbn [spec_body spec_enc]. rewrite <- app_assoc, (read_u32_enc _ _ (lt31_lt32 _ Hn)). cbn [bind].
      rewrite (rep_exact (fun kv => spec_enc (fst kv) ++ spec_enc (snd kv))
                 (pair_with (spec_body dyn obj tk) (spec_body dyn obj tv)) kvs _ eq_refl);
        [reflexivity| |exact (uniform_entries tk tv kvs HF)].
      apply Forall_forall. intros kv Hin. rewrite Forall_forall in IH, HF.
      destruct (IH kv Hin) as [IHk IHv]. destruct (HF kv Hin) as [Hk Hv].
      destruct (guard_map _ _ _ _ _ _ Hg Hin) as [Hgk Hgv].
      destruct kv as [k v]. cbn [fst snd] in *. apply pair_with_exact; [apply IHk|apply IHv]; assumption.
    - apply has_ty_VTup in Hty as [(ts & Ht & HF)|[(n & fs & Ht & HF)|[[Ht Hl]|[Ht Ho]]]]; subst t.
      + intro rest. cbn [spec_body spec_enc].
        rewrite (seq_with_exact spec_enc (map (spec_body dyn obj) ts) l); [reflexivity|].
        apply (parsers_of_members (spec_body dyn obj) (fun v => v)).
        apply (members_from_IH (fun t => t) (fun v t => exact (spec_body dyn obj t) v (spec_enc v))
                 spec_handlers_ok f l ts IH HF).
        destruct Hg as [Hp|[HH Hd]]; [left; exact Hp|right; split; [exact HH|exact Hd]].
      + intro rest. cbn [spec_body spec_enc].
        rewrite (seq_with_exact spec_enc (map (fun fd => spec_body dyn obj (snd fd)) fs) l); [reflexivity|].
        apply (parsers_of_members (fun fd => spec_body dyn obj (snd fd)) (fun v => v)).
        apply (members_from_IH (@snd string ty) (fun v t => exact (spec_body dyn obj t) v (spec_enc v))
                 spec_handlers_ok f l fs IH HF).
        destruct Hg as [Hp|[HH Hd]]; [left; exact Hp|right; split; [exact HH|exact Hd]].
      + subst l. intro rest. reflexivity.
      + destruct Hg as [Hp|[[_ Hobj] _]]; [cbn in Hp; discriminate|].
        intro rest. cbn [spec_body]. apply Hobj. exact Ho.
    - pose proof Hty as Hty'. apply has_ty_VDyn in Hty' as (Ht & _). subst t.
      destruct Hg as [Hp|[[Hdyn _] Hd]]; [cbn in Hp; discriminate|].
      intro rest. cbn [spec_body]. apply Hdyn; assumption.
  Qed.
End SpecBodyExact.

Section P.
  Variable parse : string -> option ty.
  Hypothesis parse_print : forall t, wf_ty t = true -> parse (print t) = Some t.
  Variable c : wcfg.

  (* the "m" handler of spec_dec at a given fuel *)
  Definition spec_dyn (fuel : nat) : bytes -> res (tval * bytes) :=
    match fuel with
    | O => out_of_fuel
    | S f => fun bs =>
        do '(sg, r) <- read_str bs;
        match parse (string_of_bytes sg) with
        | None => RErr r
        | Some t' => do '(v, r') <- spec_dec parse f t' r; ROk (VDyn t' v, r')
        end
    end.

  Lemma spec_dec_unfold : forall fuel, spec_dec parse fuel = spec_body (spec_dyn fuel) (spec_obj).
  Proof. intro fuel. destruct fuel; reflexivity. Qed.

  Lemma spec_obj_exact : forall v, has_ty v ty_ObjectReference = true -> exact spec_obj v (spec_enc v).
  Proof.
    intros v Hty. unfold spec_obj.
    apply (spec_body_exact no_dyn no_dyn 0 v ty_ObjectReference Hty).
    left. exact plain_ObjectReference.
  Qed.

  Lemma spec_dec_exact : forall fuel v t,
    has_ty v t = true -> dyn_depth v <= fuel ->
    exact (spec_dec parse fuel t) v (spec_enc v).
  Proof.
    induction fuel as [|f IH]; intros v t Hty Hd; rewrite spec_dec_unfold.
    - apply (spec_body_exact _ _ 0 v t Hty). right. split; [|exact Hd]. split.
      + intros t' v' _ Hd'. cbn [dyn_depth] in Hd'. lia.
      + exact spec_obj_exact.
    - apply (spec_body_exact _ _ (S f) v t Hty). right. split; [|exact Hd]. split.
      + intros t' v' Hty' Hd' rest. cbn [dyn_depth] in Hd'.
        apply has_ty_VDyn in Hty' as (_ & Hg & Hlen & Hv).
        cbn [spec_dyn spec_enc]. rewrite <- app_assoc.
        rewrite read_str_enc by (rewrite length_bytes_of_string; exact Hlen). cbn [bind].
        rewrite string_of_bytes_of_string, (parse_print t' Hg).
        rewrite (IH v' t' Hv (le_S_n _ _ Hd') rest). reflexivity.
      + exact spec_obj_exact.
  Qed.

  Theorem spec_dec_enc : forall v t fuel rest,
    wf_ty t = true -> has_ty v t = true -> dyn_depth v <= fuel ->
    spec_dec parse fuel t (spec_enc v ++ rest) = ROk (v, rest).
  Proof.
    intros v t fuel rest Hg Hty Hd. exact (spec_dec_exact fuel v t Hty Hd rest).
  Qed.

  (* ---------- sig_body with abstract handlers: returns the bytes of the value ---------- *)
  Lemma string_reader_enc : forall s rest,
    (N.of_nat (List.length s) <= MaxStringSize)%N ->
    string_reader c (enc_str s ++ rest) = ROk (enc_str s, rest).
  Proof. intros s rest Hs. unfold string_reader. rewrite (read_str_enc s rest Hs). reflexivity. Qed.

  Lemma concat_map_flat_map : forall (l : list tval), List.concat (map spec_enc l) = flat_map spec_enc l.
  Proof. intro l. symmetry. apply flat_map_concat_map. Qed.

  Section SigBodyExact.
    Variable dyn obj : bytes -> res (bytes * bytes).
    Variable f : nat.

    Definition sig_handlers_ok : Prop :=
      (forall t' v', has_ty (VDyn t' v') (TS SValue) = true -> dyn_depth (VDyn t' v') <= f ->
                     exact dyn (spec_enc (VDyn t' v')) (spec_enc (VDyn t' v'))) /\
      (forall v, has_ty v ty_ObjectReference = true -> exact obj (spec_enc v) (spec_enc v)).

    Lemma sig_body_exact : forall v t,
      has_ty v t = true -> guard sig_handlers_ok f t v ->
      exact (sig_body c dyn obj t) (spec_enc v) (spec_enc v).
    Proof.
      induction v as [w b|b|s|l IH|kvs IH|l IH|t' v IH] using tval_ind2; intros t Hty Hg.
      - apply has_ty_VNum in Hty as (s & Ht & Hw & Hb). subst t. intro rest.
        destruct s; cbn [scalar_width] in Hw; try discriminate; injection Hw as Hw; subst w;
          cbn [sig_body scalar_width spec_enc]; apply take_n_app_len; apply le_length.
      - apply has_ty_VBool in Hty. subst t. intro rest. destruct b; reflexivity.
      - apply has_ty_VStr in Hty as [Ht Hs]. subst t. intro rest. cbn [sig_body spec_enc].
        apply string_reader_enc. exact Hs.
      - apply has_ty_VList in Hty as (t' & Ht & Hn & HF). subst t. intro rest.
        cbn [sig_body spec_enc]. rewrite <- app_assoc, (read_u32_enc _ _ (lt31_lt32 _ Hn)). cbn [bind].
        rewrite (rep_exact_gen spec_enc spec_enc (sig_body c dyn obj t') l _ eq_refl).
        + unfold cat_res. cbn [bind]. now rewrite concat_map_flat_map.
        + apply Forall_forall. intros x Hin. rewrite Forall_forall in IH, HF.
          apply IH; [exact Hin|exact (HF x Hin)|exact (guard_list _ _ _ _ _ Hg Hin)].
        + exact (uniform_elems t' l HF).
      - apply has_ty_VMap in Hty as (tk & tv & Ht & Hn & HF). subst t. intro rest.
        cbn [sig_body spec_enc]. rewrite <- app_assoc, (read_u32_enc _ _ (lt31_lt32 _ Hn)). cbn [bind].
        rewrite (rep_exact_gen (fun kv : tval * tval => spec_enc (fst kv) ++ spec_enc (snd kv))
                   (fun kv => spec_enc (fst kv) ++ spec_enc (snd kv)) _ kvs _ eq_refl).
        + unfold cat_res. cbn [bind]. now rewrite <- flat_map_concat_map.
        + apply Forall_forall. intros kv Hin. rewrite Forall_forall in IH, HF.
          destruct (IH kv Hin) as [IHk IHv]. destruct (HF kv Hin) as [Hk Hv].
          destruct (guard_map _ _ _ _ _ _ Hg Hin) as [Hgk Hgv].
          intro rest'.
          rewrite (pair_with_exact _ _ _ _ _ _ (IHk tk Hk Hgk) (IHv tv Hv Hgv) rest'). reflexivity.
        + exact (uniform_entries tk tv kvs HF).
      - apply has_ty_VTup in Hty as [(ts & Ht & HF)|[(n & fs & Ht & HF)|[[Ht Hl]|[Ht Ho]]]]; subst t.
        + intro rest. cbn [sig_body spec_enc].
          rewrite (seq_with_exact_gen spec_enc spec_enc (map (sig_body c dyn obj) ts) l).
          * unfold cat_res. cbn [bind]. now rewrite concat_map_flat_map.
          * apply (parsers_of_members (sig_body c dyn obj) spec_enc).
            apply (members_from_IH (fun t => t) (fun v t => exact (sig_body c dyn obj t) (spec_enc v) (spec_enc v))
                     sig_handlers_ok f l ts IH HF).
            destruct Hg as [Hp|[HH Hd]]; [left; exact Hp|right; split; [exact HH|exact Hd]].
        + intro rest. cbn [sig_body spec_enc].
          rewrite (seq_with_exact_gen spec_enc spec_enc (map (fun fd => sig_body c dyn obj (snd fd)) fs) l).
          * unfold cat_res. cbn [bind]. now rewrite concat_map_flat_map.
          * apply (parsers_of_members (fun fd => sig_body c dyn obj (snd fd)) spec_enc).
            apply (members_from_IH (@snd string ty) (fun v t => exact (sig_body c dyn obj t) (spec_enc v) (spec_enc v))
                     sig_handlers_ok f l fs IH HF).
            destruct Hg as [Hp|[HH Hd]]; [left; exact Hp|right; split; [exact HH|exact Hd]].
        + subst l. intro rest. reflexivity.
        + destruct Hg as [Hp|[[_ Hobj] _]]; [cbn in Hp; discriminate|].
          intro rest. cbn [sig_body]. apply Hobj. exact Ho.
      - pose proof Hty as Hty'. apply has_ty_VDyn in Hty' as (Ht & _). subst t.
        destruct Hg as [Hp|[[Hdyn _] Hd]]; [cbn in Hp; discriminate|].
        intro rest. cbn [sig_body]. apply Hdyn; assumption.
    Qed.
  End SigBodyExact.

  (* the "m" handler of sig_read at a given fuel *)
  Definition sig_dyn (fuel : nat) : bytes -> res (bytes * bytes) :=
    match fuel with
    | O => out_of_fuel
    | S f => fun bs =>
        do '(sg, r) <- read_str bs;
        match parse (string_of_bytes sg) with
        | None => RErr r
        | Some t' =>
            do '(d, r') <- sig_read parse c f t' r;
            ROk ((if value_reader_no_len c then sg else enc_str sg) ++ d, r')
        end
    end.

  Lemma sig_read_unfold : forall fuel, sig_read parse c fuel = sig_body c (sig_dyn fuel) (sig_obj c).
  Proof. intro fuel. destruct fuel; reflexivity. Qed.

  Lemma sig_obj_exact : forall v,
    has_ty v ty_ObjectReference = true -> exact (sig_obj c) (spec_enc v) (spec_enc v).
  Proof.
    intros v Hty. unfold sig_obj.
    apply (sig_body_exact no_dyn no_dyn 0 v ty_ObjectReference Hty).
    left. exact plain_ObjectReference.
  Qed.

  Lemma sig_read_exact : forall fuel v t,
    value_reader_no_len c = false ->
    has_ty v t = true -> dyn_depth v <= fuel ->
    exact (sig_read parse c fuel t) (spec_enc v) (spec_enc v).
  Proof.
    intros fuel v t Hc. revert v t.
    induction fuel as [|f IH]; intros v t Hty Hd; rewrite sig_read_unfold.
    - apply (sig_body_exact _ _ 0 v t Hty). right. split; [|exact Hd]. split.
      + intros t' v' _ Hd'. cbn [dyn_depth] in Hd'. lia.
      + exact sig_obj_exact.
    - apply (sig_body_exact _ _ (S f) v t Hty). right. split; [|exact Hd]. split.
      + intros t' v' Hty' Hd' rest. cbn [dyn_depth] in Hd'.
        apply has_ty_VDyn in Hty' as (_ & Hg & Hlen & Hv).
        cbn [sig_dyn spec_enc]. rewrite <- app_assoc.
        rewrite read_str_enc by (rewrite length_bytes_of_string; exact Hlen). cbn [bind].
        rewrite string_of_bytes_of_string, (parse_print t' Hg).
        rewrite (IH v' t' Hv (le_S_n _ _ Hd') rest). cbn [bind].
        rewrite Hc. reflexivity.
      + exact sig_obj_exact.
  Qed.

  Theorem sig_read_spec : forall v t fuel rest,
    value_reader_no_len c = false ->
    wf_ty t = true -> has_ty v t = true -> dyn_depth v <= fuel ->
    sig_read parse c fuel t (spec_enc v ++ rest) = ROk (spec_enc v, rest).
  Proof.
    intros v t fuel rest Hc Hg Hty Hd.
    exact (sig_read_exact fuel v t Hc Hty Hd rest).
  Qed.
End P.

Print Assumptions dyn_depth_le_len.
Print Assumptions min_width_le_len.
Print Assumptions spec_dec_enc.
Print Assumptions sig_read_spec.
