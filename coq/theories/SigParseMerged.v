(* SigParseMerged.v — the repaired signature grammar (decl_m / parse_m of SigParse.v,
   design/C07.grammar.fix.diff) against the pinned one (decl / parse):
   1. EQUIVALENCE: the two grammars give the same result (node, rest, or failure, NoFuel and Hang
      included) on every input and for every fuel, hence parse_m s = parse s for every string;
      the theorems of SigParseProofs.v carry over;
   2. LINEAR COST: the number of parser invocations of parse_m is at most linear in the length of
      the input (the pinned grammar: at least 2^n on n nested parentheses). *)
From Coq Require Import String Ascii List NArith Bool Arith Lia.
From QV Require Import Sig Peg PegProofs SigParse SigParseProofs.
Import ListNotations.
Local Open Scope string_scope.

(* ---------- parsers with the same results ---------- *)
Definition feq (p q : sparser) : Prop := forall s, fst (p s) = fst (q s).

Lemma feq_refl p : feq p p.
Proof. intro s. reflexivity. Qed.

Lemma and_loop_fst_cons (p : sparser) ps s :
  fst (and_loop (p :: ps) s) =
  match fst (p s) with
  | Ok n r => lift (cons n) (fst (and_loop ps r))
  | Fail => Fail | NoFuel => NoFuel | Hang => Hang
  end.
Proof.
  cbn [and_loop]. destruct (p s) as [[n r| | |] k]; cbn [fst]; try reflexivity.
  destruct (and_loop ps r) as [[ns r'| | |] k']; reflexivity.
Qed.

Lemma por_fst_cons cb (p : sparser) ps s :
  fst (por cb (p :: ps) s) =
  match fst (p s) with
  | Ok n r => Ok (docb cb [n]) r
  | Fail => fst (por cb ps s)
  | NoFuel => NoFuel | Hang => Hang
  end.
Proof.
  cbn [por]. destruct (p s) as [[n r| | |] k]; cbn [fst]; try reflexivity.
  destruct (por cb ps s) as [y k']. reflexivity.
Qed.

Lemma kleene_loop_fst_S n (p : sparser) s :
  fst (kleene_loop (S n) p s) =
  match fst (p s) with
  | Ok x r => if Nat.ltb (String.length r) (String.length s)
              then lift (cons x) (fst (kleene_loop n p r)) else Hang
  | Fail => Ok [] s
  | NoFuel => NoFuel | Hang => Hang
  end.
Proof.
  rewrite kleene_loop_S. destruct (p s) as [[x r| | |] k]; cbn [fst]; try reflexivity.
  destruct (Nat.ltb (String.length r) (String.length s)); [|reflexivity].
  destruct (kleene_loop n p r) as [[xs r'| | |] k']; reflexivity.
Qed.

Lemma maybe_fst cb (p : sparser) s :
  fst (maybe cb p s) =
  match fst (p s) with
  | Ok n r => Ok (docb cb [n]) r
  | Fail => Ok NNone s
  | NoFuel => NoFuel | Hang => Hang
  end.
Proof. unfold maybe. destruct (p s) as [[n r| | |] k]; reflexivity. Qed.

Lemma and_loop_feq ps qs : Forall2 feq ps qs -> forall s, fst (and_loop ps s) = fst (and_loop qs s).
Proof.
  induction 1 as [|p q ps qs Hpq HF IH]; intro s; [reflexivity|].
  rewrite !and_loop_fst_cons, (Hpq s). destruct (fst (q s)) as [n r| | |]; try reflexivity.
  now rewrite IH.
Qed.

Lemma pand_feq cb ps qs : Forall2 feq ps qs -> feq (pand cb ps) (pand cb qs).
Proof. intros HF s. rewrite !pand_fst. now rewrite (and_loop_feq ps qs HF). Qed.

Lemma por_feq cb ps qs : Forall2 feq ps qs -> feq (por cb ps) (por cb qs).
Proof.
  induction 1 as [|p q ps qs Hpq HF IH]; intro s; [reflexivity|].
  rewrite !por_fst_cons, (Hpq s). destruct (fst (q s)) as [n r| | |]; try reflexivity. apply IH.
Qed.

Lemma kleene_loop_feq n (p q : sparser) : feq p q ->
  forall s, fst (kleene_loop n p s) = fst (kleene_loop n q s).
Proof.
  intro Hpq. induction n as [|n IH]; intro s; [reflexivity|].
  rewrite !kleene_loop_fst_S, (Hpq s). destruct (fst (q s)) as [x r| | |]; try reflexivity.
  now rewrite IH.
Qed.

Lemma kleene_feq cb (p q : sparser) : feq p q -> feq (kleene cb p) (kleene cb q).
Proof. intros Hpq s. rewrite !kleene_fst. now rewrite (kleene_loop_feq _ p q Hpq). Qed.

(* ---------- the merged alternative is the ordered choice struct / tuple ---------- *)
Ltac step_and := repeat rewrite and_loop_fst_cons; cbn [lift].

Lemma merged_alt (d : sparser) s :
  fst (por None [struct_type d; tuple_type d] s) = fst (por None [tuple_or_struct_type d] s).
Proof.
  rewrite !por_fst_cons, !por_nil. unfold struct_type, tuple_type, tuple_or_struct_type.
  rewrite !pand_fst. step_and.
  destruct (fst (atom "(" s)) as [n1 s1| | |]; cbn [lift]; try reflexivity. step_and.
  destruct (fst (list_type d s1)) as [n2 s2| | |]; cbn [lift]; try reflexivity. step_and.
  destruct (fst (atom ")" s2)) as [n3 s3| | |]; cbn [lift]; try reflexivity. step_and.
  rewrite maybe_fst. unfold struct_def. rewrite pand_fst. step_and.
  destruct (fst (atom "<" s3)) as [n4 s4| | |]; cbn [lift]; try reflexivity. step_and.
  destruct (fst (struct_name s4)) as [n5 s5| | |]; cbn [lift]; try reflexivity. step_and.
  destruct (fst (member_list s5)) as [n6 s6| | |]; cbn [lift]; try reflexivity. step_and.
  destruct (fst (atom ">" s6)) as [n7 s7| | |]; cbn [lift]; reflexivity.
Qed.

Lemma decl_m_S f s : decl_m (S f) s =
  por None [basic_type; map_type (decl_m f); array_type (decl_m f); tuple_or_struct_type (decl_m f)] s.
Proof. reflexivity. Qed.

(* EQUIVALENCE at the level of the grammar: same node and rest, same failure, and the model's own
   outcomes NoFuel / Hang coincide as well, for every fuel and every input *)
Theorem decl_m_decl : forall f, feq (decl_m f) (decl f).
Proof.
  induction f as [|f IH]; intro s; [reflexivity|].
  rewrite decl_m_S, decl_S.
  rewrite (por_fst_cons None basic_type), (por_fst_cons None basic_type).
  destruct (fst (basic_type s)) as [n r| | |]; try reflexivity.
  rewrite (por_fst_cons None (map_type (decl_m f))), (por_fst_cons None (map_type (decl f))).
  assert (Hmap : fst (map_type (decl_m f) s) = fst (map_type (decl f) s)).
  { apply pand_feq. repeat constructor; try apply feq_refl; exact IH. }
  rewrite Hmap. destruct (fst (map_type (decl f) s)) as [n r| | |]; try reflexivity.
  rewrite (por_fst_cons None (array_type (decl_m f))), (por_fst_cons None (array_type (decl f))).
  assert (Harr : fst (array_type (decl_m f) s) = fst (array_type (decl f) s)).
  { apply pand_feq. repeat constructor; try apply feq_refl; exact IH. }
  rewrite Harr. destruct (fst (array_type (decl f) s)) as [n r| | |]; try reflexivity.
  rewrite merged_alt. apply por_feq. repeat constructor.
  apply pand_feq. repeat constructor; try apply feq_refl. now apply kleene_feq.
Qed.

Lemma parse_m_eq s : parse_m s = parse_fuel_m (S (String.length s)) s.
Proof. unfold parse_m, parse_c_m, parse_fuel_m. destruct (decl_m (S (String.length s)) s). reflexivity. Qed.

Theorem parse_fuel_m_parse_fuel : forall f s, parse_fuel_m f s = parse_fuel f s.
Proof. intros f s. unfold parse_fuel_m, parse_fuel. now rewrite (decl_m_decl f s). Qed.

(* EQUIVALENCE: the repaired Parse returns what the pinned Parse returns, on every string *)
Theorem parse_m_parse : forall s, parse_m s = parse s.
Proof. intro s. rewrite parse_m_eq, parse_eq. apply parse_fuel_m_parse_fuel. Qed.

Corollary parse_g_parse : forall b s, parse_g b s = parse s.
Proof. intros [|] s; [apply parse_m_parse|reflexivity]. Qed.

(* the theorems of SigParseProofs.v, for the repaired grammar *)
Theorem parse_m_print : forall t, wf_ty t = true -> parse_m (print t) = POk t.
Proof. intros t H. rewrite parse_m_parse. now apply parse_print. Qed.

Theorem parse_m_total : forall s, parse_m s <> PFuel.
Proof. intro s. rewrite parse_m_parse. apply parse_total. Qed.

Theorem parse_m_wf : forall s t, parse_m s = POk t -> wf_ty t = true.
Proof. intros s t. rewrite parse_m_parse. apply parse_wf. Qed.

Theorem parse_m_fixed_point : forall s t, parse_m s = POk t -> parse_m (print t) = POk t.
Proof. intros s t. rewrite !parse_m_parse. apply parse_fixed_point. Qed.

Theorem parse_m_canonical : forall s t, parse_m s = POk t -> unspace s = print t.
Proof. intros s t. rewrite parse_m_parse. apply parse_canonical. Qed.

Corollary parse_m_outcomes s : (exists t, parse_m s = POk t) \/ parse_m s = PErr.
Proof. rewrite parse_m_parse. apply parse_outcomes. Qed.

(* ====================================================================================== *)
(* ---------- LINEAR COST of the repaired grammar ---------- *)
From Coq Require Import ZifyN ZifyNat ZifyBool.
Local Open Scope N_scope.

(* step counts of the combinators, as functions of the children's results *)
Lemma and_loop_snd_cons (p : sparser) ps s :
  snd (and_loop (p :: ps) s) =
  snd (p s) + match fst (p s) with Ok _ r => snd (and_loop ps r) | _ => 0 end.
Proof.
  cbn [and_loop]. destruct (p s) as [[n r| | |] k]; cbn [fst snd]; try lia.
  destruct (and_loop ps r) as [[ns r'| | |] k']; reflexivity.
Qed.

Lemma por_snd_nil cb s : snd (@por ty cb [] s) = 1.
Proof. reflexivity. Qed.

Lemma por_snd_cons cb (p : sparser) ps s :
  snd (por cb (p :: ps) s) =
  match fst (p s) with
  | Ok _ _ => 1 + snd (p s)
  | Fail => snd (p s) + snd (por cb ps s)
  | _ => snd (p s)
  end.
Proof.
  cbn [por]. destruct (p s) as [[n r| | |] k]; cbn [fst snd]; try reflexivity.
  destruct (por cb ps s) as [y k']. reflexivity.
Qed.

Lemma kleene_loop_snd_S n (p : sparser) s :
  snd (kleene_loop (S n) p s) =
  snd (p s) + match fst (p s) with
              | Ok _ r => if Nat.ltb (String.length r) (String.length s) then snd (kleene_loop n p r) else 0
              | _ => 0
              end.
Proof.
  rewrite kleene_loop_S. destruct (p s) as [[x r| | |] k]; cbn [fst snd]; try lia.
  destruct (Nat.ltb (String.length r) (String.length s)); cbn [snd]; [|lia].
  destruct (kleene_loop n p r) as [[xs r'| | |] k']; reflexivity.
Qed.

Lemma kleene_snd cb (p : sparser) s : snd (kleene cb p s) = 1 + snd (kleene_loop (S (String.length s)) p s).
Proof. unfold kleene. destruct (kleene_loop _ p s) as [[ns r| | |] k]; reflexivity. Qed.

Lemma maybe_snd cb (p : sparser) s : snd (maybe cb p s) = 1 + snd (p s).
Proof. unfold maybe. destruct (p s) as [[n r| | |] k]; reflexivity. Qed.

(* length of a string as a binary number *)
Definition L (s : string) : N := N.of_nat (String.length s).

(* ---------- terminals: one step each; a match consumes ---------- *)
Lemma atom_head c s :
  @atom ty (String c "") s =
  match skip_ws s with
  | String b r => if Ascii.eqb c b then (Ok (NTerm (String c "")) r, 1) else (Fail, 1)
  | EmptyString => (Fail, 1)
  end.
Proof.
  unfold atom. destruct (skip_ws s) as [|b r]; [reflexivity|]. cbn [strip_prefix].
  destruct (Ascii.eqb c b); reflexivity.
Qed.

Lemma atom_ok_len m s n r : m <> ""%string -> fst (@atom ty m s) = Ok n r -> L r < L s.
Proof.
  intros Hm H. pose proof (atom_goodS (V:=ty) m (String.length s) Hm s (le_n _)) as G.
  rewrite H in G. unfold L. lia.
Qed.

Lemma ident_snd s : snd (ident s) = 1.
Proof.
  unfold ident, token1. destruct (skip_ws s) as [|c r]; [reflexivity|].
  destruct (is_alpha c); [|reflexivity]. destruct (span is_alnum_ r). reflexivity.
Qed.

Lemma ident_ok_len s n r : fst (ident s) = Ok n r -> L r < L s.
Proof.
  intro H. pose proof (token1_goodS (V:=ty) is_alpha is_alnum_ (String.length s) s (le_n _)) as G.
  fold ident in G. rewrite H in G. unfold L. lia.
Qed.

Lemma struct_name_snd s : snd (struct_name s) = 1.
Proof.
  unfold struct_name. destruct (skip_ws s) as [|c r]; [reflexivity|].
  destruct (is_alpha c); [|reflexivity]. destruct (span is_alnum_ r) as [a b].
  destruct b as [|y b]; [reflexivity|].
  destruct y as [[] [] [] [] [] [] [] []]; try reflexivity.
  destruct b as [|c2 r2]; [reflexivity|]. destruct (is_alpha c2); [|reflexivity].
  destruct (span is_alnum_ r2) as [a2 b2]. destruct b2 as [|z b3]; [reflexivity|].
  destruct z as [[] [] [] [] [] [] [] []]; reflexivity.
Qed.

Lemma struct_name_ok_len s n r : fst (struct_name s) = Ok n r -> L r < L s.
Proof.
  intro H. pose proof (struct_name_goodS (String.length s) s (le_n _)) as G.
  rewrite H in G. unfold L. lia.
Qed.

(* ---------- the member names and the optional struct definition ---------- *)
Lemma and_loop_snd_nil s : snd (@and_loop ty [] s) = 0.
Proof. reflexivity. Qed.

Lemma member_p_snd s : snd (member_p s) <= 3.
Proof.
  unfold member_p. rewrite pand_snd, and_loop_snd_cons, atom_snd.
  destruct (fst (atom "," s)) as [n r| | |]; try lia.
  rewrite and_loop_snd_cons, ident_snd. destruct (fst (ident r)); rewrite ?and_loop_snd_nil; lia.
Qed.

Lemma names_loop_cost n : forall s,
  snd (kleene_loop n member_p s) <= 3 * L s + 3 /\
  match fst (kleene_loop n member_p s) with
  | Ok _ r => snd (kleene_loop n member_p s) + 3 * L r <= 3 * L s + 3
  | _ => True
  end.
Proof.
  induction n as [|n IH]; intro s; [cbn; split; [lia|exact I]|].
  rewrite kleene_loop_snd_S, kleene_loop_fst_S. pose proof (member_p_snd s) as Hk.
  destruct (fst (member_p s)) as [x r| | |]; try (split; [lia|exact I]).
  - destruct (Nat.ltb (String.length r) (String.length s)) eqn:Hlt; [|split; [lia|exact I]].
    apply Nat.ltb_lt in Hlt. destruct (IH r) as [H1 H2].
    assert (Hl : L r + 1 <= L s) by (unfold L; lia).
    split; [lia|]. destruct (fst (kleene_loop n member_p r)) as [xs r'| | |]; cbn [lift]; try exact I. lia.
  - split; lia.
Qed.

Lemma member_list_cost s :
  snd (member_list s) <= 3 * L s + 4 /\
  match fst (member_list s) with
  | Ok _ r => L r <= L s /\ snd (member_list s) + 3 * L r <= 3 * L s + 4
  | _ => True
  end.
Proof.
  unfold member_list. fold member_p. rewrite kleene_snd.
  destruct (names_loop_cost (S (String.length s)) s) as [H1 H2]. split; [lia|].
  destruct (fst (kleene None member_p s)) as [n r| | |] eqn:E; try exact I.
  pose proof (kleene_inv _ _ _ _ _ E) as (ns & _ & _ & Hlen).
  rewrite kleene_fst in E.
  destruct (fst (kleene_loop (S (String.length s)) member_p s)) as [xs r'| | |]; cbn [lift] in E; try discriminate.
  inversion E; subst. unfold L in *. lia.
Qed.

Lemma follow_head s : follow s = false -> exists x, skip_ws s = String "<" x.
Proof.
  unfold follow. destruct (skip_ws s) as [|c x]; [discriminate|].
  destruct (Ascii.eqb "<" c) eqn:E; [|discriminate]. apply Ascii.eqb_eq in E. subst c. eauto.
Qed.

Lemma struct_def_cost s :
  snd (struct_def s) <= 3 * L s + 8 /\
  (follow s = true -> fst (struct_def s) = Fail /\ snd (struct_def s) = 2) /\
  match fst (struct_def s) with
  | Ok _ r => L r < L s /\ snd (struct_def s) + 3 * L r <= 3 * L s + 8
  | _ => True
  end.
Proof.
  unfold struct_def. rewrite pand_snd, pand_fst, and_loop_snd_cons, and_loop_fst_cons, atom_snd.
  destruct (fst (atom "<" s)) as [n1 s1| | |] eqn:E1.
  2:{ split; [lia|]. split; [intros _; split; [reflexivity|lia]|exact I]. }
  2:{ split; [lia|]. split; [intro Hf; rewrite (follow_atom_lt s Hf) in E1; discriminate|exact I]. }
  2:{ split; [lia|]. split; [intro Hf; rewrite (follow_atom_lt s Hf) in E1; discriminate|exact I]. }
  apply atom_ok_len in E1 as Hl1; [|discriminate].
  assert (Hnf : follow s = true -> False) by (intro Hf; rewrite (follow_atom_lt s Hf) in E1; discriminate).
  rewrite and_loop_snd_cons, and_loop_fst_cons, struct_name_snd.
  destruct (fst (struct_name s1)) as [n2 s2| | |] eqn:E2; cbn [lift]; try (split; [lia|]; split; [tauto|exact I]).
  apply struct_name_ok_len in E2 as Hl2.
  rewrite and_loop_snd_cons, and_loop_fst_cons. destruct (member_list_cost s2) as [Hm1 Hm2].
  destruct (fst (member_list s2)) as [n3 s3| | |] eqn:E3; cbn [lift]; try (split; [lia|]; split; [tauto|exact I]).
  destruct Hm2 as [Hl3 Hm2].
  rewrite and_loop_snd_cons, and_loop_fst_cons, atom_snd.
  destruct (fst (atom ">" s3)) as [n4 s4| | |] eqn:E4; cbn [lift]; try (split; [lia|]; split; [tauto|exact I]).
  apply atom_ok_len in E4 as Hl4; [|discriminate].
  cbn [and_loop fst snd lift]. split; [lia|]. split; [tauto|]. split; lia.
Qed.

Definition opt_def : sparser := maybe None struct_def.

Lemma opt_def_cost s :
  snd (opt_def s) <= 3 * L s + 9 /\
  (follow s = true -> snd (opt_def s) = 3 /\ exists n, fst (opt_def s) = Ok n s) /\
  match fst (opt_def s) with
  | Ok _ r => r = s \/ (L r < L s /\ snd (opt_def s) + 3 * L r <= 3 * L s + 9)
  | _ => True
  end.
Proof.
  unfold opt_def. rewrite maybe_snd, maybe_fst. destruct (struct_def_cost s) as (H1 & H2 & H3).
  split; [lia|]. split.
  - intro Hf. destruct (H2 Hf) as [Ha Hb]. rewrite Ha, Hb. split; [reflexivity|eauto].
  - destruct (fst (struct_def s)) as [n r| | |]; try exact I; [|now left].
    right. destruct H3 as [Hl Hc]. split; [exact Hl|lia].
Qed.

(* ---------- the invariant of declarationType ---------- *)
(* cA steps per character, cB for the last failure.  An accepted prefix is paid by the characters
   it consumed, unless what follows begins with '<' (the optional struct definition may have been
   scanned to its end and dropped: at most 3 steps per character, once, after which every
   continuation fails within 24 steps). *)
Definition cA : N := 30.
Definition cB : N := 24.
Definition Psi (r : string) : N := if follow r then cA * L r else 0.

Definition opens (c : ascii) : bool := (Ascii.eqb "{" c || Ascii.eqb "[" c || Ascii.eqb "(" c)%bool.
Definition starter (s : string) : bool :=
  match skip_ws s with String c _ => opens c | EmptyString => false end.

Definition dspec (d : sparser) : Prop := forall s,
  match fst (d s) with
  | Ok _ r => L r < L s /\ snd (d s) + Psi r <= cA * L s
  | _ => snd (d s) <= cA * L s + cB
  end.
Definition dcheap (d : sparser) : Prop := forall s, starter s = false -> snd (d s) <= 24.
Definition dlt (d : sparser) : Prop := forall s, follow s = false ->
  match fst (d s) with Ok _ _ => False | _ => True end.
(* an alternative of declarationType that begins with its own bracket: 22 = the steps
   declarationType spends around it *)
Definition pspec (p : sparser) : Prop := forall s,
  match fst (p s) with
  | Ok _ r => L r < L s /\ snd (p s) + Psi r + 22 <= cA * L s
  | _ => snd (p s) + 22 <= cA * L s + cB
  end.

Lemma Psi_le r : Psi r <= cA * L r.
Proof. unfold Psi. destruct (follow r); lia. Qed.

Lemma nonfollow_nonstarter s : follow s = false -> starter s = false.
Proof. intro H. destruct (follow_head s H) as [x E]. unfold starter. now rewrite E. Qed.

Lemma atom_ok_follow c s n r : Ascii.eqb "<" c = false -> fst (@atom ty (String c "") s) = Ok n r -> follow s = true.
Proof.
  intros Hc. rewrite atom_head. unfold follow. destruct (skip_ws s) as [|b x]; [discriminate|].
  destruct (Ascii.eqb c b) eqn:E; [|discriminate]. apply Ascii.eqb_eq in E. subst b. now rewrite Hc.
Qed.

Lemma dspec_any d s : dspec d -> snd (d s) <= cA * L s + cB.
Proof. intro H. specialize (H s). destruct (fst (d s)); unfold cA, cB in *; lia. Qed.

Lemma pand_atom_miss cb a ps s :
  match skip_ws s with String c _ => Ascii.eqb a c = false | EmptyString => True end ->
  @pand ty cb (atom (String a "") :: ps) s = (Fail, 2).
Proof.
  intro H. unfold pand. cbn [and_loop]. rewrite atom_head.
  destruct (skip_ws s) as [|c x]; [reflexivity|]. now rewrite H.
Qed.

Section Level.
Variable d : sparser.
Hypothesis Hd : dspec d.
Hypothesis Hc : dcheap d.
Hypothesis Hl : dlt d.

(* the loop of listType: what it costs, where it stops *)
Lemma list_loop_cost n : forall s,
  snd (kleene_loop n d s) <= cA * L s + cB /\
  (follow s = false ->
     snd (kleene_loop n d s) <= 24 /\
     match fst (kleene_loop n d s) with Ok _ r => r = s | _ => True end) /\
  match fst (kleene_loop n d s) with
  | Ok _ r => L r <= L s /\
              (follow r = true -> snd (kleene_loop n d s) + cA * L r <= cA * L s + snd (d r))
  | _ => True
  end.
Proof.
  induction n as [|n IH]; intro s.
  { cbn. unfold cA, cB. repeat split; lia. }
  rewrite kleene_loop_snd_S, kleene_loop_fst_S.
  pose proof (Hd s) as Hds. pose proof (Hc s) as Hcs. pose proof (Hl s) as Hls.
  destruct (fst (d s)) as [x r| | |] eqn:E.
  - destruct Hds as [Hlen Hk].
    assert (Hlt : Nat.ltb (String.length r) (String.length s) = true) by (apply Nat.ltb_lt; unfold L in Hlen; lia).
    rewrite Hlt. destruct (IH r) as (I1 & I2 & I3).
    split; [|split].
    + unfold Psi in Hk. destruct (follow r) eqn:Hf.
      * unfold cA, cB in *. lia.
      * destruct (I2 eq_refl) as [I2a _]. unfold cA, cB in *. lia.
    + intro Hf. exfalso. exact (Hls Hf).
    + destruct (fst (kleene_loop n d r)) as [xs r'| | |] eqn:E2; cbn [lift]; try exact I.
      destruct I3 as [I3a I3b]. split; [lia|]. intro Hf'.
      unfold Psi in Hk. destruct (follow r) eqn:Hf.
      * specialize (I3b Hf'). unfold cA in *. lia.
      * destruct (I2 eq_refl) as [_ I2b]. subst r'. congruence.
  - split; [lia|]. split.
    + intro Hf. split; [|reflexivity]. rewrite N.add_0_r. apply Hcs. now apply nonfollow_nonstarter.
    + split; [lia|]. intros _. lia.
  - split; [lia|]. split; [|exact I].
    intro Hf. split; [|exact I]. rewrite N.add_0_r. apply Hcs. now apply nonfollow_nonstarter.
  - split; [lia|]. split; [|exact I].
    intro Hf. split; [|exact I]. rewrite N.add_0_r. apply Hcs. now apply nonfollow_nonstarter.
Qed.

Lemma list_cost s :
  snd (list_type d s) <= cA * L s + cB + 1 /\
  match fst (list_type d s) with
  | Ok _ r => L r <= L s /\
              (follow r = true -> snd (list_type d s) + cA * L r <= cA * L s + 1 + snd (d r))
  | _ => True
  end.
Proof.
  unfold list_type. rewrite kleene_snd, kleene_fst.
  destruct (list_loop_cost (S (String.length s)) s) as (H1 & _ & H3).
  split; [lia|].
  destruct (fst (kleene_loop (S (String.length s)) d s)) as [xs r| | |]; cbn [lift]; try exact I.
  destruct H3 as [H3a H3b]. split; [exact H3a|]. intro Hf. specialize (H3b Hf). lia.
Qed.

Ltac and_cons := rewrite and_loop_snd_cons, and_loop_fst_cons.

Lemma array_spec : pspec (array_type d).
Proof.
  intro s. unfold array_type. rewrite pand_snd, pand_fst. and_cons. rewrite atom_snd.
  destruct (fst (atom "[" s)) as [n1 s1| | |] eqn:E1; cbn [lift]; try (unfold cA, cB; lia).
  apply atom_ok_len in E1 as L1; [|discriminate].
  and_cons. pose proof (Hd s1) as H1.
  destruct (fst (d s1)) as [n2 s2| | |] eqn:E2; cbn [lift]; try (unfold cA, cB in *; lia).
  destruct H1 as [L2 K1]. and_cons. rewrite atom_snd.
  destruct (fst (atom "]" s2)) as [n3 s3| | |] eqn:E3; cbn [lift and_loop fst snd];
    try (pose proof (Psi_le s2); unfold cA, cB in *; lia).
  apply atom_ok_len in E3 as L3; [|discriminate].
  apply atom_ok_follow in E3 as F2; [|reflexivity].
  unfold Psi in K1. rewrite F2 in K1. pose proof (Psi_le s3). split; [lia|]. unfold cA, cB in *. lia.
Qed.

Lemma map_spec : pspec (map_type d).
Proof.
  intro s. unfold map_type. rewrite pand_snd, pand_fst. and_cons. rewrite atom_snd.
  destruct (fst (atom "{" s)) as [n1 s1| | |] eqn:E1; cbn [lift]; try (unfold cA, cB; lia).
  apply atom_ok_len in E1 as L1; [|discriminate].
  and_cons. pose proof (Hd s1) as H1.
  destruct (fst (d s1)) as [n2 s2| | |] eqn:E2; cbn [lift]; try (unfold cA, cB in *; lia).
  destruct H1 as [L2 K1]. and_cons.
  pose proof (Hd s2) as H2. pose proof (Hl s2) as Hl2. pose proof (Hc s2) as Hc2.
  unfold Psi in K1. destruct (follow s2) eqn:F2.
  2:{ specialize (Hc2 (nonfollow_nonstarter s2 F2)). specialize (Hl2 eq_refl).
      destruct (fst (d s2)) as [n3 s3| | |]; cbn [lift]; unfold cA, cB in *; lia. }
  destruct (fst (d s2)) as [n3 s3| | |] eqn:E3; cbn [lift]; try (unfold cA, cB in *; lia).
  destruct H2 as [L3 K2]. and_cons. rewrite atom_snd.
  destruct (fst (atom "}" s3)) as [n4 s4| | |] eqn:E4; cbn [lift and_loop fst snd];
    try (pose proof (Psi_le s3); unfold cA, cB in *; lia).
  apply atom_ok_len in E4 as L4; [|discriminate].
  apply atom_ok_follow in E4 as F3; [|reflexivity].
  unfold Psi in K2. rewrite F3 in K2. pose proof (Psi_le s4). split; [lia|]. unfold cA, cB in *. lia.
Qed.

Lemma atom_ok_nonstarter c s n r : opens c = false -> fst (@atom ty (String c "") s) = Ok n r -> starter s = false.
Proof.
  intros Hc0. rewrite atom_head. unfold starter. destruct (skip_ws s) as [|b x]; [discriminate|].
  destruct (Ascii.eqb c b) eqn:E; [|discriminate]. apply Ascii.eqb_eq in E. now subst b.
Qed.

Lemma tos_spec : pspec (tuple_or_struct_type d).
Proof.
  intro s. unfold tuple_or_struct_type. fold opt_def. rewrite pand_snd, pand_fst. and_cons. rewrite atom_snd.
  destruct (fst (atom "(" s)) as [n1 s1| | |] eqn:E1; cbn [lift]; try (unfold cA, cB; lia).
  apply atom_ok_len in E1 as L1; [|discriminate].
  and_cons. destruct (list_cost s1) as [C1 C2].
  destruct (fst (list_type d s1)) as [n2 s2| | |] eqn:E2; cbn [lift]; try (unfold cA, cB in *; lia).
  destruct C2 as [L2 K]. and_cons. rewrite atom_snd.
  destruct (fst (atom ")" s2)) as [n3 s3| | |] eqn:E3; cbn [lift]; try (unfold cA, cB in *; lia).
  apply atom_ok_len in E3 as L3; [|discriminate].
  apply atom_ok_follow in E3 as F2; [|reflexivity].
  apply atom_ok_nonstarter in E3 as S2; [|reflexivity].
  specialize (K F2). pose proof (Hc s2 S2) as D2.
  and_cons. destruct (opt_def_cost s3) as (M1 & M2 & M3).
  destruct (fst (opt_def s3)) as [n4 s4| | |] eqn:E4; cbn [lift and_loop fst snd]; try (unfold cA, cB in *; lia).
  destruct M3 as [->|[L4 M3]].
  - split; [lia|]. unfold Psi. destruct (follow s3) eqn:F3.
    + destruct (M2 eq_refl) as [M2a _]. unfold cA, cB in *. lia.
    + unfold cA, cB in *. lia.
  - split; [lia|]. pose proof (Psi_le s4). unfold cA, cB in *. lia.
Qed.

End Level.

(* ---------- declarationType ---------- *)
Lemma basic_snd_le s : snd (basic_type s) <= 17.
Proof.
  unfold basic_type. cbn [map basic_letters].
  repeat (rewrite por_snd_cons, atom_snd;
          match goal with |- context [fst (atom ?m s)] => destruct (fst (@atom ty m s)) end; try lia).
  rewrite por_snd_nil. lia.
Qed.

Lemma basic_ok_len s n r : fst (basic_type s) = Ok n r -> L r < L s.
Proof.
  intro H. pose proof (basic_type_goodS (String.length s) s (le_n _)) as G.
  rewrite H in G. unfold L. lia.
Qed.

(* the three bracketed alternatives on an input that begins with none of the brackets *)
Lemma brackets_miss (d : sparser) s : starter s = false ->
  por None [map_type d; array_type d; tuple_or_struct_type d] s = (Fail, 7).
Proof.
  intro H. unfold starter, opens in H.
  assert (Hm : forall a, (a = "{" \/ a = "[" \/ a = "(")%char ->
            match skip_ws s with String c _ => Ascii.eqb a c = false | EmptyString => True end).
  { intros a Ha. destruct (skip_ws s) as [|c x]; [exact I|].
    apply orb_false_elim in H as [H H3]. apply orb_false_elim in H as [H1 H2].
    destruct Ha as [->|[->| ->]]; assumption. }
  unfold map_type, array_type, tuple_or_struct_type. cbn [por].
  rewrite !pand_atom_miss by (apply Hm; auto). reflexivity.
Qed.

Lemma decl_m_cheap f : dcheap (decl_m f).
Proof.
  intros s H. destruct f as [|f]; [cbn; lia|]. rewrite decl_m_S, por_snd_cons.
  pose proof (basic_snd_le s). rewrite (brackets_miss _ s H).
  destruct (fst (basic_type s)); cbn [snd]; lia.
Qed.

Lemma basic_lt s x : skip_ws s = String "<" x -> fst (basic_type s) = Fail.
Proof.
  intro E. unfold basic_type. cbn [map basic_letters].
  repeat (rewrite por_fst_cons, atom_head, E; cbn [Ascii.eqb Bool.eqb fst]). reflexivity.
Qed.

Lemma decl_m_lt f : dlt (decl_m f).
Proof.
  intros s H. destruct f as [|f]; [exact I|]. destruct (follow_head s H) as [x E].
  rewrite decl_m_S, por_fst_cons, (basic_lt s x E), (brackets_miss _ s (nonfollow_nonstarter s H)). exact I.
Qed.

Lemma head_miss cb a ps s c x : skip_ws s = String c x -> Ascii.eqb a c = false ->
  @pand ty cb (atom (String a "") :: ps) s = (Fail, 2).
Proof. intros E H. apply pand_atom_miss. now rewrite E. Qed.

(* one alternative may match (its bracket is the head of the input), the others miss *)
Ltac one_alt H :=
  repeat (rewrite por_snd_cons, por_fst_cons);
  repeat match goal with Hm : _ = (Fail, 2) |- _ => rewrite Hm; clear Hm end;
  cbn [fst snd]; rewrite ?por_snd_nil, ?por_nil;
  match type of H with
  | match fst ?p with _ => _ end => destruct (fst p) as [? ?| | |]
  end; cbn [fst snd]; unfold cA, cB in *; lia.

Theorem decl_m_cost : forall f, dspec (decl_m f).
Proof.
  induction f as [|f IH]; intro s; [cbn; unfold cA, cB; lia|].
  pose proof (decl_m_cheap f) as Hc. pose proof (decl_m_lt f) as Hl.
  rewrite decl_m_S, por_snd_cons, por_fst_cons.
  pose proof (basic_snd_le s) as Hb.
  destruct (fst (basic_type s)) as [n r| | |] eqn:Eb; try (unfold cA, cB; lia).
  { apply basic_ok_len in Eb. pose proof (Psi_le r). split; [exact Eb|]. unfold cA in *. lia. }
  destruct (starter s) eqn:St.
  2:{ rewrite (brackets_miss _ s St). cbn [fst snd]. unfold cA, cB. lia. }
  unfold starter in St. destruct (skip_ws s) as [|c x] eqn:Es; [discriminate|]. unfold opens in St.
  destruct (Ascii.eqb "{" c) eqn:E1.
  { apply Ascii.eqb_eq in E1. subst c.
    assert (Ha : array_type (decl_m f) s = (Fail, 2)) by (apply (head_miss _ _ _ _ _ _ Es); reflexivity).
    assert (Ht : tuple_or_struct_type (decl_m f) s = (Fail, 2)) by (apply (head_miss _ _ _ _ _ _ Es); reflexivity).
    pose proof (map_spec _ IH Hc Hl s) as Hp. one_alt Hp. }
  destruct (Ascii.eqb "[" c) eqn:E2.
  { apply Ascii.eqb_eq in E2. subst c.
    assert (Hm : map_type (decl_m f) s = (Fail, 2)) by (apply (head_miss _ _ _ _ _ _ Es); reflexivity).
    assert (Ht : tuple_or_struct_type (decl_m f) s = (Fail, 2)) by (apply (head_miss _ _ _ _ _ _ Es); reflexivity).
    pose proof (array_spec _ IH s) as Hp. one_alt Hp. }
  destruct (Ascii.eqb "(" c) eqn:E3; [|discriminate].
  apply Ascii.eqb_eq in E3. subst c.
  assert (Hm : map_type (decl_m f) s = (Fail, 2)) by (apply (head_miss _ _ _ _ _ _ Es); reflexivity).
  assert (Ha : array_type (decl_m f) s = (Fail, 2)) by (apply (head_miss _ _ _ _ _ _ Es); reflexivity).
  pose proof (tos_spec _ IH Hc Hl s) as Hp. one_alt Hp.
Qed.

Lemma parse_steps_m_eq s : parse_steps_m s = snd (decl_m (S (String.length s)) s).
Proof. unfold parse_steps_m, parse_c_m. destruct (decl_m (S (String.length s)) s). reflexivity. Qed.

(* LINEAR COST: the repaired Parse makes at most 30 parser invocations per character of its
   input, plus 24 — for every string, accepted or not *)
Theorem parse_steps_m_linear : forall s, parse_steps_m s <= 30 * N.of_nat (String.length s) + 24.
Proof.
  intro s. rewrite parse_steps_m_eq. pose proof (decl_m_cost (S (String.length s)) s) as H.
  fold (L s). destruct (fst (decl_m (S (String.length s)) s)); unfold cA, cB in H; lia.
Qed.

(* the same bound with any fuel (the step count never depends on running out of fuel) *)
Theorem decl_m_steps_linear : forall f s, snd (decl_m f s) <= 30 * N.of_nat (String.length s) + 24.
Proof.
  intros f s. pose proof (decl_m_cost f s) as H.
  fold (L s). destruct (fst (decl_m f s)); unfold cA, cB in H; lia.
Qed.

Lemma rep_len c n : String.length (rep c n) = n.
Proof. induction n as [|n IH]; cbn; [reflexivity|now rewrite IH]. Qed.

(* the witness of nest_steps_exponential: linear in the nesting depth *)
Corollary nest_steps_m_linear : forall n, parse_steps_m (nest n) <= 60 * N.of_nat n + 24.
Proof.
  intro n. pose proof (parse_steps_m_linear (nest n)) as H.
  unfold nest in H at 2. rewrite slen_app, !rep_len in H. lia.
Qed.

(* both grammars on 22 nested parentheses (the witness the harness runs) *)
Example nest22_steps : parse_steps_m (nest 22) = 1166 /\ 2 ^ 22 <= parse_steps (nest 22).
Proof. split; [vm_compute; reflexivity|apply (nest_steps_exponential 22)]. Qed.

Print Assumptions decl_m_decl.
Print Assumptions parse_m_parse.
Print Assumptions parse_steps_m_linear.
Print Assumptions nest_steps_m_linear.
