(* SigParseMerged.v — the repaired signature grammar (decl_m / parse_m of SigParse.v,
   design/C07.grammar.fix.diff) against the pinned one (decl / parse):
   1. EQUIVALENCE: the two grammars give the same result (node, rest, or failure, NoFuel and Hang
      included) on every input and for every fuel, hence parse_m s = parse s for every string;
      the theorems of SigParseProofs.v carry over;
   2. LINEAR COST: the number of parser invocations of parse_m is at most linear in the length of
      the input (the pinned grammar: at least 2^n on n nested parentheses). *)
From Coq Require Import String Ascii List NArith Bool Arith Lia.
From QV Require Import Sig Peg PegProofs SigParse SigParseProofs.
Import ListNotations.
Local Open Scope string_scope.

(* ---------- parsers with the same results ---------- *)
Definition feq (p q : sparser) : Prop := forall s, fst (p s) = fst (q s).

Lemma feq_refl p : feq p p.
Proof. intro s. reflexivity. Qed.

Lemma and_loop_fst_cons (p : sparser) ps s :
  fst (and_loop (p :: ps) s) =
  match fst (p s) with
  | Ok n r => lift (cons n) (fst (and_loop ps r))
  | Fail => Fail | NoFuel => NoFuel | Hang => Hang
  end.
Proof.
  cbn [and_loop]. destruct (p s) as [[n r| | |] k]; cbn [fst]; try reflexivity.
  destruct (and_loop ps r) as [[ns r'| | |] k']; reflexivity.
Qed.

Lemma por_fst_cons cb (p : sparser) ps s :
  fst (por cb (p :: ps) s) =
  match fst (p s) with
  | Ok n r => Ok (docb cb [n]) r
  | Fail => fst (por cb ps s)
  | NoFuel => NoFuel | Hang => Hang
  end.
Proof.
  cbn [por]. destruct (p s) as [[n r| | |] k]; cbn [fst]; try reflexivity.
  destruct (por cb ps s) as [y k']. reflexivity.
Qed.

Lemma kleene_loop_fst_S n (p : sparser) s :
  fst (kleene_loop (S n) p s) =
  match fst (p s) with
  | Ok x r => if Nat.ltb (String.length r) (String.length s)
              then lift (cons x) (fst (kleene_loop n p r)) else Hang
  | Fail => Ok [] s
  | NoFuel => NoFuel | Hang => Hang
  end.
Proof.
  rewrite kleene_loop_S. destruct (p s) as [[x r| | |] k]; cbn [fst]; try reflexivity.
  destruct (Nat.ltb (String.length r) (String.length s)); [|reflexivity].
  destruct (kleene_loop n p r) as [[xs r'| | |] k']; reflexivity.
Qed.

Lemma maybe_fst cb (p : sparser) s :
  fst (maybe cb p s) =
  match fst (p s) with
  | Ok n r => Ok (docb cb [n]) r
  | Fail => Ok NNone s
  | NoFuel => NoFuel | Hang => Hang
  end.
Proof. unfold maybe. destruct (p s) as [[n r| | |] k]; reflexivity. Qed.

Lemma and_loop_feq ps qs : Forall2 feq ps qs -> forall s, fst (and_loop ps s) = fst (and_loop qs s).
Proof.
  induction 1 as [|p q ps qs Hpq HF IH]; intro s; [reflexivity|].
  rewrite !and_loop_fst_cons, (Hpq s). destruct (fst (q s)) as [n r| | |]; try reflexivity.
  now rewrite IH.
Qed.

Lemma pand_feq cb ps qs : Forall2 feq ps qs -> feq (pand cb ps) (pand cb qs).
Proof. intros HF s. rewrite !pand_fst. now rewrite (and_loop_feq ps qs HF). Qed.

Lemma por_feq cb ps qs : Forall2 feq ps qs -> feq (por cb ps) (por cb qs).
Proof.
  induction 1 as [|p q ps qs Hpq HF IH]; intro s; [reflexivity|].
  rewrite !por_fst_cons, (Hpq s). destruct (fst (q s)) as [n r| | |]; try reflexivity. apply IH.
Qed.

Lemma kleene_loop_feq n (p q : sparser) : feq p q ->
  forall s, fst (kleene_loop n p s) = fst (kleene_loop n q s).
Proof.
  intro Hpq. induction n as [|n IH]; intro s; [reflexivity|].
  rewrite !kleene_loop_fst_S, (Hpq s). destruct (fst (q s)) as [x r| | |]; try reflexivity.
  now rewrite IH.
Qed.

Lemma kleene_feq cb (p q : sparser) : feq p q -> feq (kleene cb p) (kleene cb q).
Proof. intros Hpq s. rewrite !kleene_fst. now rewrite (kleene_loop_feq _ p q Hpq). Qed.

(* ---------- the merged alternative is the ordered choice struct / tuple ---------- *)
Ltac step_and := repeat rewrite and_loop_fst_cons; cbn [lift].

Lemma merged_alt (d : sparser) s :
  fst (por None [struct_type d; tuple_type d] s) = fst (por None [tuple_or_struct_type d] s).
Proof.
  rewrite !por_fst_cons, !por_nil. unfold struct_type, tuple_type, tuple_or_struct_type.
  rewrite !pand_fst. step_and.
  destruct (fst (atom "(" s)) as [n1 s1| | |]; cbn [lift]; try reflexivity. step_and.
  destruct (fst (list_type d s1)) as [n2 s2| | |]; cbn [lift]; try reflexivity. step_and.
  destruct (fst (atom ")" s2)) as [n3 s3| | |]; cbn [lift]; try reflexivity. step_and.
  rewrite maybe_fst. unfold struct_def. rewrite pand_fst. step_and.
  destruct (fst (atom "<" s3)) as [n4 s4| | |]; cbn [lift]; try reflexivity. step_and.
  destruct (fst (struct_name s4)) as [n5 s5| | |]; cbn [lift]; try reflexivity. step_and.
  destruct (fst (member_list s5)) as [n6 s6| | |]; cbn [lift]; try reflexivity. step_and.
  destruct (fst (atom ">" s6)) as [n7 s7| | |]; cbn [lift]; reflexivity.
Qed.

Lemma decl_m_S f s : decl_m (S f) s =
  por None [basic_type; map_type (decl_m f); array_type (decl_m f); tuple_or_struct_type (decl_m f)] s.
Proof. reflexivity. Qed.

(* EQUIVALENCE at the level of the grammar: same node and rest, same failure, and the model's own
   outcomes NoFuel / Hang coincide as well, for every fuel and every input *)
Theorem decl_m_decl : forall f, feq (decl_m f) (decl f).
Proof.
  induction f as [|f IH]; intro s; [reflexivity|].
  rewrite decl_m_S, decl_S.
  rewrite (por_fst_cons None basic_type), (por_fst_cons None basic_type).
  destruct (fst (basic_type s)) as [n r| | |]; try reflexivity.
  rewrite (por_fst_cons None (map_type (decl_m f))), (por_fst_cons None (map_type (decl f))).
  assert (Hmap : fst (map_type (decl_m f) s) = fst (map_type (decl f) s)).
  { apply pand_feq. repeat constructor; try apply feq_refl; exact IH. }
  rewrite Hmap. destruct (fst (map_type (decl f) s)) as [n r| | |]; try reflexivity.
  rewrite (por_fst_cons None (array_type (decl_m f))), (por_fst_cons None (array_type (decl f))).
  assert (Harr : fst (array_type (decl_m f) s) = fst (array_type (decl f) s)).
  { apply pand_feq. repeat constructor; try apply feq_refl; exact IH. }
  rewrite Harr. destruct (fst (array_type (decl f) s)) as [n r| | |]; try reflexivity.
  rewrite merged_alt. apply por_feq. repeat constructor.
  apply pand_feq. repeat constructor; try apply feq_refl. now apply kleene_feq.
Qed.

Lemma parse_m_eq s : parse_m s = parse_fuel_m (S (String.length s)) s.
Proof. unfold parse_m, parse_c_m, parse_fuel_m. destruct (decl_m (S (String.length s)) s). reflexivity. Qed.

Theorem parse_fuel_m_parse_fuel : forall f s, parse_fuel_m f s = parse_fuel f s.
Proof. intros f s. unfold parse_fuel_m, parse_fuel. now rewrite (decl_m_decl f s). Qed.

(* EQUIVALENCE: the repaired Parse returns what the pinned Parse returns, on every string *)
Theorem parse_m_parse : forall s, parse_m s = parse s.
Proof. intro s. rewrite parse_m_eq, parse_eq. apply parse_fuel_m_parse_fuel. Qed.

Corollary parse_g_parse : forall b s, parse_g b s = parse s.
Proof. intros [|] s; [apply parse_m_parse|reflexivity]. Qed.

(* the theorems of SigParseProofs.v, for the repaired grammar *)
Theorem parse_m_print : forall t, wf_ty t = true -> parse_m (print t) = POk t.
Proof. intros t H. rewrite parse_m_parse. now apply parse_print. Qed.

Theorem parse_m_total : forall s, parse_m s <> PFuel.
Proof. intro s. rewrite parse_m_parse. apply parse_total. Qed.

Theorem parse_m_wf : forall s t, parse_m s = POk t -> wf_ty t = true.
Proof. intros s t. rewrite parse_m_parse. apply parse_wf. Qed.

Theorem parse_m_fixed_point : forall s t, parse_m s = POk t -> parse_m (print t) = POk t.
Proof. intros s t. rewrite !parse_m_parse. apply parse_fixed_point. Qed.

Theorem parse_m_canonical : forall s t, parse_m s = POk t -> unspace s = print t.
Proof. intros s t. rewrite parse_m_parse. apply parse_canonical. Qed.

Corollary parse_m_outcomes s : (exists t, parse_m s = POk t) \/ parse_m s = PErr.
Proof. rewrite parse_m_parse. apply parse_outcomes. Qed.
