(* Auth.v — model of the server side of a connection up to the point where a message reaches
   a service: bus/server.go (handle: filter, consumer goroutine, firewall), bus/router.go,
   bus/service.go (Receive), bus/mailbox.go (service 0's mailbox goroutine),
   bus/authenticate.go (ReadCapabilityMap, serviceAuthenticate), bus/auth.go
   (CapabilityMap.Authenticated / SetAuthenticated), bus/channel.go (SendError / SendReply).

   Goroutines and their atomic actions (labels):
     LArrive c f   the reader goroutine of connection c (endPoint.process) has read the
                   well-formed frame f and dispatched it (filter, bounded queue)
     LDropFull c f the same, but the consumer queue was full (dispatch's `default:` branch)
     LGarbage c    the reader could not read a frame (bad magic/version/type/size, EOF):
                   endPoint.closeWith — stream closed, consumer queue closed (it is still drained)
     LConn c       the consumer goroutine of c (server.handle) takes the next queued frame:
                   firewall, Router.Receive, serviceImpl.Receive
     LMbox         service 0's mailbox goroutine takes the next mail: serviceAuthenticate.Receive
   "every interleaving" is "every list of labels"; a label that is not enabled is a no-op. *)
From QV Require Export Bytes Message.
From Coq Require Import String.
Local Open Scope N_scope.

(* ---------- capability map decoding (ReadCapabilityMap, basic.ReadString, value.NewValue) ---------- *)

Definition bs (s : string) : bytes := list_byte_of_string s.

Definition KeyState : bytes := bs "__qi_auth_state".
Definition KeyUser : bytes := bs "auth_user".
Definition KeyToken : bytes := bs "auth_token".
Definition StateError : N := 1.
Definition StateDone : N := 3.
Definition capabilityMapSizeMax : N := 4096.
Definition MaxStringSize : N := 10 * 1024 * 1024.
Definition AuthenticateActionID : N := 8.

(* the value kinds the authentication code distinguishes: StringValue, UintValue, IntValue
   (32-bit patterns), anything else *)
Inductive cval := VStr (s : bytes) | VUint (n : N) | VInt (n : N) | VOther.

Inductive dres (A : Type) :=
| DOk (a : A) (rest : bytes)
| DErr            (* the Go decoder returns an error *)
| DFuel.          (* model fuel exhausted: excluded by dec_value_fuel *)
Arguments DOk {A}. Arguments DErr {A}. Arguments DFuel {A}.

Definition read_u32 (b : bytes) : dres N :=
  if (List.length b <? 4)%nat then DErr else DOk (unle (firstn 4 b)) (skipn 4 b).

(* basic.ReadString *)
Definition read_string (b : bytes) : dres bytes :=
  match read_u32 b with
  | DOk n r =>
      if n =? 0 then DOk [] r
      else if MaxStringSize <? n then DErr
      else if (N.of_nat (List.length r) <? n) then DErr
      else DOk (firstn (N.to_nat n) r) (skipn (N.to_nat n) r)
  | DErr => DErr | DFuel => DFuel
  end.

Definition read_fixed (k : nat) (v : bytes -> cval) (b : bytes) : dres cval :=
  if (List.length b <? k)%nat then DErr else DOk (v (firstn k b)) (skipn k b).

Section Decode.
(* how the signatures outside the table below are read (newList, newRaw, newOpaque through
   signature.MakeReader): Some rest = a value was read, None = error.  Such a value is never a
   StringValue/UintValue/IntValue.  Every theorem holds for every such function. *)
Variable skip_other : bytes -> bytes -> option bytes.

Definition sig_is (s : bytes) (t : string) : bool := eqb_bytes s (bs t).

(* value.NewValue: signature string, then the table `solve`; "m" recurses and returns the
   inner value itself *)
Fixpoint dec_value (fuel : nat) (b : bytes) : dres cval :=
  match fuel with
  | O => DFuel
  | S fuel' =>
      match read_string b with
      | DErr => DErr | DFuel => DFuel
      | DOk s r =>
          if sig_is s "c" || sig_is s "C" || sig_is s "b" then read_fixed 1 (fun _ => VOther) r
          else if sig_is s "w" || sig_is s "W" then read_fixed 2 (fun _ => VOther) r
          else if sig_is s "i" then read_fixed 4 (fun x => VInt (unle x)) r
          else if sig_is s "I" then read_fixed 4 (fun x => VUint (unle x)) r
          else if sig_is s "f" then read_fixed 4 (fun _ => VOther) r
          else if sig_is s "l" || sig_is s "L" then read_fixed 8 (fun _ => VOther) r
          else if sig_is s "s" then
            match read_string r with DOk x r' => DOk (VStr x) r' | DErr => DErr | DFuel => DFuel end
          else if sig_is s "v" then DOk VOther r
          else if sig_is s "m" then dec_value fuel' r
          else match skip_other s r with Some r' => DOk VOther r' | None => DErr end
      end
  end.

Definition capmap := list (bytes * cval).

Fixpoint dec_entries (n : nat) (b : bytes) (acc : capmap) : dres capmap :=
  match n with
  | O => DOk acc b
  | S n' =>
      match read_string b with
      | DErr => DErr | DFuel => DFuel
      | DOk k r =>
          match dec_value (S (List.length r)) r with
          | DErr => DErr | DFuel => DFuel
          | DOk v r' => dec_entries n' r' ((k, v) :: acc)     (* m[k] = v: a later entry wins *)
          end
      end
  end.

(* ReadCapabilityMap; bytes after the last entry are not looked at *)
Definition dec_capmap (b : bytes) : dres capmap :=
  match read_u32 b with
  | DErr => DErr | DFuel => DFuel
  | DOk n r => if capabilityMapSizeMax <? n then DErr else dec_entries (N.to_nat n) r []
  end.

(* Go map lookup after the insertions above: the list is newest first *)
Fixpoint lookup (k : bytes) (m : capmap) : option cval :=
  match m with
  | [] => None
  | (k', v) :: r => if eqb_bytes k k' then Some v else lookup k r
  end.

(* serviceAuthenticate.Authenticate up to the call of the Authenticator: absent key = "",
   present but not a StringValue = refusal without consulting the authenticator *)
Definition cred_of (k : bytes) (m : capmap) : option bytes :=
  match lookup k m with
  | None => Some []
  | Some (VStr s) => Some s
  | Some _ => None
  end.

Definition creds (m : capmap) : option (bytes * bytes) :=
  match cred_of KeyUser m with
  | None => None
  | Some u => match cred_of KeyToken m with None => None | Some t => Some (u, t) end
  end.

(* CapabilityMap.Authenticated on an arbitrary map (used for the server's own map only) *)
Definition cap_authenticated (m : capmap) : bool :=
  match lookup KeyState m with
  | Some (VUint n) => n =? StateDone
  | Some (VInt n) => n =? StateDone
  | _ => false
  end.

(* ---------- frames, connections, server ---------- *)

Record frame := { f_type : N; f_svc : N; f_obj : N; f_act : N; f_id : N; f_payload : bytes }.

(* server.handle's filter in the pinned tree: Reply, Error, Event, Cancelled are not queued.
   The model takes the filter as a parameter (no statement of C06 depends on which types it
   lets through); the correspondence run instantiates it from the types srcfacts reads in the
   source. *)
Definition pinned_filter_pass (t : N) : bool :=
  negb ((t =? T_Reply) || (t =? T_Error) || (t =? T_Event) || (t =? T_Cancelled)).
(* Header.Read accepts types 1..8 only *)
Definition type_ok (t : N) : bool := (1 <=? t) && (t <=? 8).

Inductive errclass := ENotAuth | ESvcNotFound | EObjNotFound | EActNotFound | EBadPayload | EBlocked.

Inductive body :=
| BErr (e : errclass)        (* error frame: value string of the error *)
| BAuthDone                  (* reply: the channel's own map, now with __qi_auth_state = 3 *)
| BAuthRefused.              (* reply: {__qi_auth_state: 1} *)

Inductive out :=
| OFrame (c : nat) (ty svc obj act id : N) (b : body)   (* written to c's stream *)
| OClose (c : nat)                                        (* stream.Close() (first time) *)
| ODeliver (c : nat) (f : frame)     (* Router.Receive for a service other than 0 *)
| OAuthCall (u t : bytes) (ans : bool).   (* the Authenticator was consulted *)

Definition out_conn (o : out) : option nat :=
  match o with OFrame c _ _ _ _ _ _ => Some c | OClose c => Some c | ODeliver c _ => Some c | OAuthCall _ _ _ => None end.

Record conn := { c_authed : bool;     (* channel.capability[__qi_auth_state] == 3 *)
                 c_closed : bool;     (* the stream was closed *)
                 c_dead : bool;       (* the consumer goroutine has returned *)
                 c_inq : list frame   (* the consumer queue *) }.
Definition conn0 : conn := {| c_authed := false; c_closed := false; c_dead := false; c_inq := [] |}.

Record state := { s_conns : list (nat * conn); s_mbox : list (nat * frame) }.
Definition init : state := {| s_conns := []; s_mbox := [] |}.

Fixpoint getc (c : nat) (l : list (nat * conn)) : conn :=
  match l with
  | [] => conn0
  | (c', x) :: r => if Nat.eqb c c' then x else getc c r
  end.
Definition get (st : state) (c : nat) : conn := getc c (s_conns st).
Definition setc (st : state) (c : nat) (x : conn) : state :=
  {| s_conns := (c, x) :: s_conns st; s_mbox := s_mbox st |}.
Definition set_mbox (st : state) (q : list (nat * frame)) : state :=
  {| s_conns := s_conns st; s_mbox := q |}.

Inductive label := LArrive (c : nat) (f : frame) | LDropFull (c : nat) (f : frame) | LGarbage (c : nat)
                 | LConn (c : nat) | LMbox.

Variable filter_pass : N -> bool.
Variable auth : bytes -> bytes -> bool.
(* which (service, object) pairs other than service 0 exist *)
Variable exists_obj : N -> N -> option bool.   (* None: no such service; Some b: service exists, object exists iff b *)

Definition queue_cap : nat := 10.

Definition send (x : conn) (c : nat) (ty : N) (f : frame) (b : body) : list out :=
  if c_closed x then [] else [OFrame c ty (f_svc f) (f_obj f) (f_act f) (f_id f) b].
Definition send_err x c f e := send x c T_Error f (BErr e).
Definition send_reply x c f b := send x c T_Reply f b.

Definition close_outs (x : conn) (c : nat) : list out := if c_closed x then [] else [OClose c].

Definition is_auth_req (f : frame) : bool :=
  type_ok (f_type f) && filter_pass (f_type f) && (f_svc f =? 0) && (f_obj f =? 0) && (f_act f =? AuthenticateActionID).

Definition frame_creds (f : frame) : option (bytes * bytes) :=
  match dec_capmap (f_payload f) with DOk m _ => creds m | _ => None end.

Definition accepted_b (f : frame) : bool :=
  is_auth_req f && match frame_creds f with Some (u, t) => auth u t | None => false end.

Definition step (st : state) (l : label) : state * list out :=
  match l with
  | LArrive c f =>
      let x := get st c in
      if c_closed x then (st, [])
      else if negb (type_ok (f_type f)) then
        (setc st c {| c_authed := c_authed x; c_closed := true; c_dead := c_dead x; c_inq := c_inq x |}, [OClose c])
      else if negb (filter_pass (f_type f)) then (st, [])
      else if (List.length (c_inq x) <=? queue_cap)%nat then
        (setc st c {| c_authed := c_authed x; c_closed := false; c_dead := c_dead x; c_inq := c_inq x ++ [f] |}, [])
      else (st, if f_type f =? T_Call then send_err x c f EBlocked else [])
  | LDropFull c f =>
      let x := get st c in
      if c_closed x || negb (type_ok (f_type f)) || negb (filter_pass (f_type f)) then (st, [])
      else if (queue_cap <=? List.length (c_inq x))%nat
           then (st, if f_type f =? T_Call then send_err x c f EBlocked else [])
           else (st, [])
  | LGarbage c =>
      let x := get st c in
      if c_closed x then (st, [])
      else (setc st c {| c_authed := c_authed x; c_closed := true; c_dead := c_dead x; c_inq := c_inq x |}, [OClose c])
  | LConn c =>
      let x := get st c in
      if c_dead x then (st, [])
      else match c_inq x with
      | [] => (st, [])
      | f :: q =>
          let x' := {| c_authed := c_authed x; c_closed := c_closed x; c_dead := c_dead x; c_inq := q |} in
          if negb (c_authed x) && negb (f_svc f =? 0) then       (* firewall *)
            (setc st c {| c_authed := c_authed x; c_closed := true; c_dead := true; c_inq := q |},
             send_err x c f ENotAuth ++ close_outs x c)
          else if f_svc f =? 0 then
            if f_obj f =? 0 then
              if (List.length (s_mbox st) <=? queue_cap)%nat
              then (set_mbox (setc st c x') (s_mbox st ++ [(c, f)]), [])
              else (st, [])                                       (* blocked on the mailbox *)
            else (setc st c x', send_err x c f EObjNotFound)
          else
            (setc st c x',
             ODeliver c f ::
             match exists_obj (f_svc f) (f_obj f) with
             | None => send_err x c f ESvcNotFound
             | Some false => send_err x c f EObjNotFound
             | Some true => []
             end)
      end
  | LMbox =>
      match s_mbox st with
      | [] => (st, [])
      | (c, f) :: q =>
          let st1 := set_mbox st q in
          let x := get st c in
          if negb (f_act f =? AuthenticateActionID) then (st1, send_err x c f EActNotFound)
          else match dec_capmap (f_payload f) with
          | DOk m _ =>
              match creds m with
              | None => (st1, send_reply x c f BAuthRefused)
              | Some (u, t) =>
                  if auth u t then
                    (setc st1 c {| c_authed := true; c_closed := c_closed x; c_dead := c_dead x; c_inq := c_inq x |},
                     OAuthCall u t true :: send_reply x c f BAuthDone)
                  else (st1, OAuthCall u t false :: send_reply x c f BAuthRefused)
              end
          | _ => (st1, send_err x c f EBadPayload)
          end
      end
  end.

Fixpoint trace (st : state) (ls : list label) : list (label * list out) :=
  match ls with
  | [] => []
  | l :: r => let '(st', o) := step st l in (l, o) :: trace st' r
  end.

Fixpoint exec (st : state) (ls : list label) : state :=
  match ls with
  | [] => st
  | l :: r => exec (fst (step st l)) r
  end.

End Decode.
