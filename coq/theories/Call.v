(* Call.v — labelled transition system for C04: clients (bus/client.go), connections, the
   server's connection goroutine (bus/server.go handle, bus/router.go, bus/service.go),
   per-object mailboxes (bus/mailbox.go), generated stubs (meta/stub/stub.go,
   bus/object_stub_gen.go), answers (bus/channel.go SendReply/SendError) and the client
   endpoint's dispatch (bus/net/endpoint.go).

   Labels = atomic actions of one goroutine:
     LAlloc c s o a p   a caller goroutine of client c: nextMessageID under the client's mutex
                        (messageID += 2, uint32, starting from 1) for a call of (s,o,a) with payload p
     LSend c i          the same goroutine, call number i of client c: MakeHandler (single-shot
                        filter on service/object/action/id, queue of one) then Send
     LReturn c i        Call reads the frame its handler queued and returns
     LCancel c i        Call's select takes the cancel branch: sends a Cancel frame, returns ErrCancelled
     LRaw c ty s o a id p   a peer that is not this client model (harness, libqi) writes any frame
     LSrv c             the server's connection goroutine takes the next frame of c: filter,
                        router, service: answers an error or puts it into the object's mailbox
     LSrvDrop c         endPoint.dispatch found the consumer queue full: frame dropped (a Call is
                        answered with an error)
     LMbox s o          the mailbox goroutine of object (s,o) takes its oldest mail: stub
     LCli c             the client endpoint's reader dispatches the next frame from the server
   Ghost state: every frame carries the tag of the request it belongs to; ex counts method body
   executions per tag, back counts frames sent back per tag.
   A label that is not enabled is a no-op: "every schedule" is "every list of labels". *)
From QV Require Export Bytes Message.
Local Open Scope N_scope.

Inductive tag := TCall (c i : nat) | TRaw (c n : nat).
Definition tag_conn (t : tag) : nat := match t with TCall c _ => c | TRaw c _ => c end.
Definition tag_eqb (a b : tag) : bool :=
  match a, b with
  | TCall c i, TCall c' i' => Nat.eqb c c' && Nat.eqb i i'
  | TRaw c n, TRaw c' n' => Nat.eqb c c' && Nat.eqb n n'
  | _, _ => false
  end.

Record frame := { f_type : N; f_svc : N; f_obj : N; f_act : N; f_id : N; f_payload : bytes; f_tag : tag }.

Definition key := (N * N * N * N)%type.
Definition fkey (g : frame) : key := (f_svc g, f_obj g, f_act g, f_id g).
Definition key_eqb (a b : key) : bool :=
  let '(s, o, x, i) := a in let '(s', o', x', i') := b in (s =? s') && (o =? o') && (x =? x') && (i =? i').

Inductive result := ROk (p : bytes) | RErr | RCancelled | RUnexpected.

Record callst := { k_alloc : bool; k_key : key; k_payload : bytes; k_sent : bool;
                   k_handler : bool;           (* the handler is in the endpoint's table *)
                   k_chan : option frame;      (* the handler's queue of one *)
                   k_waiting : bool;           (* Call is inside its select *)
                   k_returns : nat;            (* ghost: how many times Call returned *)
                   k_result : option result }.
Definition call0 : callst :=
  {| k_alloc := false; k_key := (0, 0, 0, 0); k_payload := []; k_sent := false; k_handler := false;
     k_chan := None; k_waiting := false; k_returns := 0; k_result := None |}.

(* defect switches: behaviours of the pinned tree that violate C04 *)
Record cfg := { noncall_runs : bool;   (* Cancel/Capability frames aimed at a method run it and get a Reply *)
                post_answered : bool }. (* a Post that cannot be served is answered with an Error frame *)
Definition clean (k : cfg) : Prop := noncall_runs k = false /\ post_answered k = false.
Definition cfg_clean : cfg := {| noncall_runs := false; post_answered := false |}.
Definition cfg_pinned : cfg := {| noncall_runs := true; post_answered := true |}.

Inductive tgt := NoSvc | NoObj | NoAct | Meth.

Inductive label :=
| LAlloc (c : nat) (s o a : N) (p : bytes)
| LSend (c i : nat) | LReturn (c i : nat) | LCancel (c i : nat)
| LRaw (c : nat) (ty s o a id : N) (p : bytes)
| LSrv (c : nat) | LSrvDrop (c : nat) | LMbox (s o : N) | LCli (c : nat).

Record state := {
  mid : nat -> N;                    (* client.messageID *)
  issued : nat -> nat;               (* ids allocated so far = next call number *)
  rawc : nat -> bool;                (* connection used by a raw peer *)
  calls : nat -> nat -> callst;
  c2s : nat -> list frame;           (* client -> server, FIFO *)
  s2c : nat -> list frame;           (* server -> client, FIFO *)
  mails : list (nat * frame);        (* all mailboxes; per-object order = order in this list *)
  nraw : nat -> nat;                 (* raw frames written so far per connection *)
  rawty : nat -> nat -> N;           (* ghost: type of raw frame n of connection c *)
  ex : tag -> nat;                   (* ghost: method body executions *)
  back : tag -> nat }.               (* ghost: frames sent back in answer *)

Definition init : state :=
  {| mid := fun _ => 1; issued := fun _ => O; rawc := fun _ => false; calls := fun _ _ => call0;
     c2s := fun _ => []; s2c := fun _ => []; mails := []; nraw := fun _ => O; rawty := fun _ _ => 0;
     ex := fun _ => O; back := fun _ => O |}.

Definition upd {A} (m : nat -> A) (k : nat) (v : A) : nat -> A := fun x => if Nat.eqb x k then v else m x.
Definition upd2 {A} (m : nat -> nat -> A) (c i : nat) (v : A) : nat -> nat -> A :=
  fun c' i' => if Nat.eqb c' c && Nat.eqb i' i then v else m c' i'.
Definition updt (m : tag -> nat) (t : tag) (v : nat) : tag -> nat := fun t' => if tag_eqb t' t then v else m t'.

(* NewClient starts messageID at 1: the ids of a client are 3, 5, 7, ... (mod 2^32) *)
Definition id_of_index (i : nat) : N := (2 * (N.of_nat i + 1) + 1) mod 2 ^ 32.
Definition next_id (m : N) : N := (m + 2) mod 2 ^ 32.

(* server.handle's filter in the pinned tree; the model takes the filter as a parameter (the
   correspondence run instantiates it from the source) *)
Definition pinned_filter_pass (t : N) : bool :=
  negb ((t =? T_Reply) || (t =? T_Error) || (t =? T_Event) || (t =? T_Cancelled)).
Definition type_ok (t : N) : bool := (1 <=? t) && (t <=? 8).
Definition is_cp (t : N) : bool := (t =? T_Call) || (t =? T_Post).

Section Model.
Variable k : cfg.
Variable filter_pass : N -> bool.             (* the connection's message-type filter *)
Variable target : N -> N -> N -> tgt.            (* does (service, object, action) name a method *)
Variable fres : N -> N -> N -> bytes -> bytes.   (* what the method returns for a payload *)
Variable okargs : N -> N -> N -> bytes -> bool.  (* the stub can decode the payload *)
Variable callerr : N -> N -> N -> bytes -> bool. (* the method returns an error *)

Definition set_calls (st : state) v := {| mid := mid st; issued := issued st; rawc := rawc st; calls := v; c2s := c2s st;
  s2c := s2c st; mails := mails st; nraw := nraw st; rawty := rawty st; ex := ex st; back := back st |}.
Definition set_c2s (st : state) v := {| mid := mid st; issued := issued st; rawc := rawc st; calls := calls st; c2s := v;
  s2c := s2c st; mails := mails st; nraw := nraw st; rawty := rawty st; ex := ex st; back := back st |}.
Definition set_s2c (st : state) v := {| mid := mid st; issued := issued st; rawc := rawc st; calls := calls st; c2s := c2s st;
  s2c := v; mails := mails st; nraw := nraw st; rawty := rawty st; ex := ex st; back := back st |}.
Definition set_mails (st : state) v := {| mid := mid st; issued := issued st; rawc := rawc st; calls := calls st; c2s := c2s st;
  s2c := s2c st; mails := v; nraw := nraw st; rawty := rawty st; ex := ex st; back := back st |}.
Definition set_ex (st : state) v := {| mid := mid st; issued := issued st; rawc := rawc st; calls := calls st; c2s := c2s st;
  s2c := s2c st; mails := mails st; nraw := nraw st; rawty := rawty st; ex := v; back := back st |}.
Definition set_back (st : state) v := {| mid := mid st; issued := issued st; rawc := rawc st; calls := calls st; c2s := c2s st;
  s2c := s2c st; mails := mails st; nraw := nraw st; rawty := rawty st; ex := ex st; back := v |}.

Definition mk_frame (ty : N) (ky : key) (p : bytes) (t : tag) : frame :=
  let '(s, o, a, i) := ky in {| f_type := ty; f_svc := s; f_obj := o; f_act := a; f_id := i; f_payload := p; f_tag := t |}.

(* channel.SendReply / SendError: the request's service, object, action and id, new type *)
Definition answer (st : state) (c : nat) (g : frame) (ty : N) (p : bytes) : state :=
  if (f_type g =? T_Post) && negb (post_answered k) then st
  else set_back (set_s2c st (upd (s2c st) c (s2c st c ++ [mk_frame ty (fkey g) p (f_tag g)])))
                (updt (back st) (f_tag g) (S (back st (f_tag g)))).

Definition err_payload : bytes := [].   (* the text of the error is not modelled *)

Definition do_alloc (st : state) (c : nat) (s o a : N) (p : bytes) : state :=
  if rawc st c then st else
  let i := issued st c in
  let id := next_id (mid st c) in
  {| mid := upd (mid st) c id; issued := upd (issued st) c (S i); rawc := rawc st;
     calls := upd2 (calls st) c i {| k_alloc := true; k_key := (s, o, a, id); k_payload := p; k_sent := false;
                                     k_handler := false; k_chan := None; k_waiting := false; k_returns := 0; k_result := None |};
     c2s := c2s st; s2c := s2c st; mails := mails st; nraw := nraw st; rawty := rawty st; ex := ex st; back := back st |}.

Definition do_send (st : state) (c i : nat) : state :=
  let x := calls st c i in
  if k_alloc x && negb (k_sent x) then
    set_c2s (set_calls st (upd2 (calls st) c i
               {| k_alloc := true; k_key := k_key x; k_payload := k_payload x; k_sent := true; k_handler := true;
                  k_chan := None; k_waiting := true; k_returns := k_returns x; k_result := k_result x |}))
            (upd (c2s st) c (c2s st c ++ [mk_frame T_Call (k_key x) (k_payload x) (TCall c i)]))
  else st.

Definition result_of (g : frame) : result :=
  if f_type g =? T_Reply then ROk (f_payload g)
  else if f_type g =? T_Error then RErr
  else if f_type g =? T_Cancelled then RCancelled
  else RUnexpected.

Definition do_return (st : state) (c i : nat) : state :=
  let x := calls st c i in
  match k_chan x with
  | Some g =>
      if k_waiting x then
        set_calls st (upd2 (calls st) c i
          {| k_alloc := k_alloc x; k_key := k_key x; k_payload := k_payload x; k_sent := k_sent x; k_handler := k_handler x;
             k_chan := None; k_waiting := false; k_returns := S (k_returns x); k_result := Some (result_of g) |})
      else st
  | None => st
  end.

Definition do_cancel (st : state) (c i : nat) : state :=
  let x := calls st c i in
  if k_waiting x then
    set_c2s (set_calls st (upd2 (calls st) c i
               {| k_alloc := k_alloc x; k_key := k_key x; k_payload := k_payload x; k_sent := k_sent x; k_handler := k_handler x;
                  k_chan := k_chan x; k_waiting := false; k_returns := S (k_returns x); k_result := Some RCancelled |}))
            (upd (c2s st) c (c2s st c ++ [mk_frame T_Cancel (k_key x) [] (TCall c i)]))
  else st.

Definition do_raw (st : state) (c : nat) (ty s o a id : N) (p : bytes) : state :=
  if negb (Nat.eqb (issued st c) 0) || negb (type_ok ty) then st else
  let n := nraw st c in
  {| mid := mid st; issued := issued st; rawc := upd (rawc st) c true; calls := calls st;
     c2s := upd (c2s st) c (c2s st c ++ [mk_frame ty (s, o, a, id) p (TRaw c n)]);
     s2c := s2c st; mails := mails st; nraw := upd (nraw st) c (S n); rawty := upd2 (rawty st) c n ty;
     ex := ex st; back := back st |}.

Definition do_srv (st : state) (c : nat) : state :=
  match c2s st c with
  | [] => st
  | g :: q =>
      let st1 := set_c2s st (upd (c2s st) c q) in
      if negb (filter_pass (f_type g)) then st1
      else match target (f_svc g) (f_obj g) (f_act g) with
           | NoSvc | NoObj => answer st1 c g T_Error err_payload
           | _ => set_mails st1 (mails st1 ++ [(c, g)])
           end
  end.

Definition do_srvdrop (st : state) (c : nat) : state :=
  match c2s st c with
  | [] => st
  | g :: q =>
      let st1 := set_c2s st (upd (c2s st) c q) in
      if (f_type g =? T_Call) then answer st1 c g T_Error err_payload else st1
  end.

Fixpoint take_mail (s o : N) (l : list (nat * frame)) : option (nat * frame * list (nat * frame)) :=
  match l with
  | [] => None
  | (c, g) :: r =>
      if (f_svc g =? s) && (f_obj g =? o) then Some (c, g, r)
      else match take_mail s o r with
           | Some (c', g', r') => Some (c', g', (c, g) :: r')
           | None => None
           end
  end.

(* the generated stub: switch on the action only; argument decoding, the method, the Post test,
   error or reply *)
Definition runs (ty : N) : bool := is_cp ty || noncall_runs k.

Definition do_mbox (st : state) (s o : N) : state :=
  match take_mail s o (mails st) with
  | None => st
  | Some (c, g, r) =>
      let st1 := set_mails st r in
      (* with the defect, every type that reached the mailbox is dispatched on its action; without
         it, only Call and Post are *)
      if negb (runs (f_type g)) then st1 else
      match target (f_svc g) (f_obj g) (f_act g) with
      | Meth =>
          if negb (okargs (f_svc g) (f_obj g) (f_act g) (f_payload g)) then answer st1 c g T_Error err_payload
          else
            let st2 := set_ex st1 (updt (ex st1) (f_tag g) (S (ex st1 (f_tag g)))) in
            if f_type g =? T_Post then st2
            else if callerr (f_svc g) (f_obj g) (f_act g) (f_payload g) then answer st2 c g T_Error err_payload
            else answer st2 c g T_Reply (fres (f_svc g) (f_obj g) (f_act g) (f_payload g))
      | _ => answer st1 c g T_Error err_payload      (* default: ActionNotFound *)
      end
  end.

(* endPoint.dispatch on the client: every handler whose filter matches gets the frame (queue of
   one, non-blocking) and is removed *)
Definition hit (x : callst) (g : frame) : bool := k_handler x && key_eqb (k_key x) (fkey g).
Definition delivered (x : callst) (g : frame) : callst :=
  {| k_alloc := k_alloc x; k_key := k_key x; k_payload := k_payload x; k_sent := k_sent x; k_handler := false;
     k_chan := match k_chan x with None => Some g | y => y end;
     k_waiting := k_waiting x; k_returns := k_returns x; k_result := k_result x |}.

Definition do_cli (st : state) (c : nat) : state :=
  match s2c st c with
  | [] => st
  | g :: q =>
      set_calls (set_s2c st (upd (s2c st) c q))
        (fun c' i => if Nat.eqb c' c && Nat.ltb i (issued st c) && hit (calls st c' i) g
                     then delivered (calls st c' i) g else calls st c' i)
  end.

Definition step (st : state) (l : label) : state :=
  match l with
  | LAlloc c s o a p => do_alloc st c s o a p
  | LSend c i => do_send st c i
  | LReturn c i => do_return st c i
  | LCancel c i => do_cancel st c i
  | LRaw c ty s o a id p => do_raw st c ty s o a id p
  | LSrv c => do_srv st c
  | LSrvDrop c => do_srvdrop st c
  | LMbox s o => do_mbox st s o
  | LCli c => do_cli st c
  end.

Fixpoint exec (st : state) (ls : list label) : state :=
  match ls with [] => st | l :: r => exec (step st l) r end.

End Model.
