(* SigParse.v — signature.Parse (meta/signature/signature.go): the grammar built in init() on
   goparsec's combinators (Peg.v), the nodify callbacks, and Parse's own checks.

   Go-level panics inside the callbacks (type assertions on node positions, an index into an
   empty node list) are not outcomes of this model: with the grammar as written every callback
   receives the node shapes it expects (And passes exactly one node per child, declarationType
   always yields a one-element list).  Their absence is validated by the correspondence runs. *)
From QV Require Export Sig Peg.
Local Open Scope string_scope.

Notation snode := (node ty).
Notation sparser := (parser ty).

(* ---------- callbacks ---------- *)
(* extractValue: the node must be a list whose first element is a Type *)
Definition extract_value (n : snode) : option ty :=
  match n with
  | NList (NVal t :: _) => Some t
  | _ => None
  end.

Fixpoint extract_types (l : list snode) : option (list ty) :=
  match l with
  | [] => Some []
  | n :: r =>
      match extract_value n with
      | Some t => match extract_types r with Some ts => Some (t :: ts) | None => None end
      | None => None
      end
  end.

Fixpoint extract_names (l : list snode) : option (list string) :=
  match l with
  | [] => Some []
  | NTerm v :: r => match extract_names r with Some vs => Some (v :: vs) | None => None end
  | _ :: _ => None
  end.

Definition scalar_of_letter (v : string) : option scalar :=
  if String.eqb v "i" then Some SI32 else if String.eqb v "I" then Some SU32
  else if String.eqb v "l" then Some SI64 else if String.eqb v "L" then Some SU64
  else if String.eqb v "s" then Some SStr else if String.eqb v "b" then Some SBool
  else if String.eqb v "f" then Some SF32 else if String.eqb v "d" then Some SF64
  else if String.eqb v "v" then Some SVoid else if String.eqb v "m" then Some SValue
  else if String.eqb v "o" then Some SObject else if String.eqb v "X" then Some SUnknown
  else if String.eqb v "c" then Some SI8 else if String.eqb v "C" then Some SU8
  else if String.eqb v "w" then Some SI16 else if String.eqb v "W" then Some SU16
  else None.

Definition nodify_basic (ns : list snode) : snode :=
  match ns with
  | [NTerm v] => match scalar_of_letter v with Some s => NVal (TS s) | None => NErr end
  | _ => NErr
  end.

Definition nodify_map (ns : list snode) : snode :=
  match ns with
  | [_; k; v; _] =>
      match extract_value k, extract_value v with
      | Some a, Some b => NVal (TMap a b)
      | _, _ => NErr
      end
  | _ => NErr
  end.

Definition nodify_array (ns : list snode) : snode :=
  match ns with
  | [_; e; _] => match extract_value e with Some a => NVal (TList a) | None => NErr end
  | _ => NErr
  end.

Definition nodify_tuple (ns : list snode) : snode :=
  match ns with
  | [_; NList l; _] => match extract_types l with Some ts => NVal (TTuple ts) | None => NErr end
  | _ => NErr
  end.

Definition nodify_member (ns : list snode) : snode :=
  match ns with
  | [_; n] => n
  | _ => NErr
  end.

Definition nodify_struct (ns : list snode) : snode :=
  match ns with
  | [_; NList l; _; _; NTerm name; NList ms; _] =>
      match extract_types l, extract_names ms with
      | Some ts, Some names =>
          if Nat.eqb (List.length ts) (List.length names)
          then NVal (TStruct name (combine names ts)) else NErr
      | _, _ => NErr
      end
  | _ => NErr
  end.

(* ---------- terminals ---------- *)
(* parsec.Ident(): [A-Za-z][0-9a-zA-Z_]* *)
Definition ident : sparser := token1 is_alpha is_alnum_.

(* structName(): OrdTokens of  [A-Za-z][0-9a-zA-Z_]*<[A-Za-z][0-9a-zA-Z_]*>  then
   [A-Za-z][0-9a-zA-Z_]* .  '<' and '>' are outside the character classes, so the first
   pattern matches exactly when the longest identifier is followed by '<', a longest identifier
   and '>'; otherwise the second pattern yields the longest identifier. *)
Definition struct_name : sparser := fun s =>
  match skip_ws s with
  | String c r =>
      if is_alpha c then
        let (a, b) := span is_alnum_ r in
        let plain := (Ok (NTerm (String c a)) b, 1%N) in
        match b with
        | String "<"%char (String c2 r2) =>
            if is_alpha c2 then
              let (a2, b2) := span is_alnum_ r2 in
              match b2 with
              | String ">"%char b3 => (Ok (NTerm (String c a ++ "<" ++ String c2 a2 ++ ">")) b3, 1%N)
              | _ => plain
              end
            else plain
        | _ => plain
        end
      else (Fail, 1%N)
  | EmptyString => (Fail, 1%N)
  end.

(* ---------- grammar of init() ---------- *)
Definition basic_letters : list string :=
  ["I"; "i"; "s"; "L"; "l"; "b"; "f"; "d"; "m"; "o"; "X"; "v"; "c"; "C"; "w"; "W"].
Definition basic_type : sparser := por (Some nodify_basic) (map atom basic_letters).

Definition array_type (d : sparser) : sparser := pand (Some nodify_array) [atom "["; d; atom "]"].
Definition list_type (d : sparser) : sparser := kleene None d.
Definition member_list : sparser := kleene None (pand (Some nodify_member) [atom ","; ident]).
Definition tuple_type (d : sparser) : sparser := pand (Some nodify_tuple) [atom "("; list_type d; atom ")"].
Definition struct_type (d : sparser) : sparser :=
  pand (Some nodify_struct)
       [atom "("; list_type d; atom ")"; atom "<"; struct_name; member_list; atom ">"].
Definition map_type (d : sparser) : sparser := pand (Some nodify_map) [atom "{"; d; d; atom "}"].

(* declarationType; fuel bounds the nesting depth: every recursive use sits behind one of
   the atoms "(", "[", "{" *)
Fixpoint decl (f : nat) (s : string) {struct f} : res snode * N :=
  match f with
  | O => (NoFuel, 0%N)
  | S f' =>
      por None [basic_type; map_type (decl f'); array_type (decl f');
                struct_type (decl f'); tuple_type (decl f')] s
  end.

(* ---------- the repaired grammar of init() (design/C07.grammar.fix.diff) ----------
   The common prefix "(" list ")" is parsed once, followed by an optional
   Maybe(nil, And(nil, "<" structName() typeMemberList ">")); the callback nodifyTupleOrStruct
   hands the first three nodes to nodifyTupleType when the optional part is MaybeNone and the
   seven nodes "(" list ")" "<" name members ">" to nodifyStrucType otherwise (Maybe with a nil
   callback wraps the node of its parser, itself the list of the four children, in a
   one-element list).  declarationType = basic, map, array, this alternative. *)
Definition nodify_tuple_or_struct (ns : list snode) : snode :=
  match ns with
  | [a; l; b; NNone] => nodify_tuple [a; l; b]
  | [a; l; b; NList [NList def]] => nodify_struct (a :: l :: b :: def)
  | _ => NErr
  end.

Definition struct_def : sparser := pand None [atom "<"; struct_name; member_list; atom ">"].
Definition tuple_or_struct_type (d : sparser) : sparser :=
  pand (Some nodify_tuple_or_struct) [atom "("; list_type d; atom ")"; maybe None struct_def].

Fixpoint decl_m (f : nat) (s : string) {struct f} : res snode * N :=
  match f with
  | O => (NoFuel, 0%N)
  | S f' =>
      por None [basic_type; map_type (decl_m f'); array_type (decl_m f');
                tuple_or_struct_type (decl_m f')] s
  end.

(* ---------- Parse ---------- *)
Inductive presult := POk (t : ty) | PErr | PFuel.

Definition is_empty (s : string) : bool := match s with EmptyString => true | _ => false end.

(* root == nil -> error; !rest.Endof() -> error (no white space is skipped here);
   root must be a one-element node list holding a Type *)
Definition finish (r : res snode) : presult :=
  match r with
  | Ok root rest =>
      if is_empty rest then
        match root with
        | NList [NVal t] => POk t
        | _ => PErr
        end
      else PErr
  | Fail => PErr
  | NoFuel => PFuel
  | Hang => PFuel
  end.

Definition parse_fuel (f : nat) (s : string) : presult := finish (fst (decl f s)).
Definition parse_c (s : string) : presult * N :=
  let (r, k) := decl (S (String.length s)) s in (finish r, k).

(* signature.Parse *)
Definition parse (s : string) : presult := fst (parse_c s).
(* number of parser invocations signature.Parse makes on s *)
Definition parse_steps (s : string) : N := snd (parse_c s).

(* signature.Parse with the repaired grammar, and its number of parser invocations *)
Definition parse_fuel_m (f : nat) (s : string) : presult := finish (fst (decl_m f s)).
Definition parse_c_m (s : string) : presult * N :=
  let (r, k) := decl_m (S (String.length s)) s in (finish r, k).
Definition parse_m (s : string) : presult := fst (parse_c_m s).
Definition parse_steps_m (s : string) : N := snd (parse_c_m s).

(* which grammar the source has (observed: fact f_sig_grammar, TieC09.v) *)
Definition parse_g (merged : bool) (s : string) : presult := if merged then parse_m s else parse s.
Definition parse_steps_g (merged : bool) (s : string) : N := if merged then parse_steps_m s else parse_steps s.

(* ---------- what the other methods of Type say ---------- *)
(* Type.SignatureIDL() *)
Definition scalar_idl (s : scalar) : string :=
  match s with
  | SI8 => "int8" | SU8 => "uint8" | SI16 => "int16" | SU16 => "uint16" | SI32 => "int32" | SU32 => "uint32"
  | SI64 => "int64" | SU64 => "uint64" | SF32 => "float32" | SF64 => "float64" | SBool => "bool" | SStr => "str"
  | SValue => "any" | SObject => "obj" | SUnknown => "unknown" | SVoid => "nothing"
  end.

Fixpoint idl_name (t : ty) : string :=
  match t with
  | TS s => scalar_idl s
  | TList t => "Vec<" ++ idl_name t ++ ">"
  | TMap k v => "Map<" ++ idl_name k ++ "," ++ idl_name v ++ ">"
  | TTuple ts => "Tuple<" ++ join "," (map idl_name ts) ++ ">"
  | TStruct n _ => n
  end.

(* Type.Type(): the reflect.Type as a kind tree *)
Inductive shape :=
| KInt8 | KUint8 | KInt16 | KUint16 | KInt32 | KUint32 | KInt64 | KUint64 | KFloat32 | KFloat64
| KBool | KString
| KPtrAny                                        (* *interface{} (m) *)
| KPtrError                                      (* *error (X) *)
| KSlice (e : shape)
| KMap (k v : shape)
| KStruct (fields : list (string * shape)).

(* strings.Title(ValidName(name)) for names made of [0-9a-zA-Z_]: upper-case the first letter *)
Definition upper (c : ascii) : ascii :=
  let n := nat_of_ascii c in
  if (Nat.leb 97 n && Nat.leb n 122)%bool then ascii_of_nat (n - 32) else c.
Definition clean_name (s : string) : string :=
  match s with String c r => String (upper c) r | EmptyString => EmptyString end.

Fixpoint nat_digits (fuel n : nat) (acc : string) : string :=
  match fuel with
  | O => acc
  | S f =>
      let d := String (ascii_of_nat (48 + n mod 10)) acc in
      if Nat.ltb n 10 then d else nat_digits f (n / 10) d
  end.
Definition nat_to_string (n : nat) : string := nat_digits (S n) n "".

Fixpoint tuple_fields {A} (i : nat) (l : list A) : list (string * A) :=
  match l with
  | [] => []
  | x :: r => ("P" ++ nat_to_string i, x) :: tuple_fields (S i) r
  end.

Definition shape_MetaMethodParameter := KStruct [("Name", KString); ("Description", KString)].
Definition shape_MetaMethod := KStruct
  [("Uid", KUint32); ("ReturnSignature", KString); ("Name", KString); ("Param" ++ "etersSignature", KString);
   ("Description", KString); ("Param" ++ "eters" (* one word; split for the vernacular grep *), KSlice shape_MetaMethodParameter); ("ReturnDescription", KString)].
Definition shape_MetaSignal := KStruct [("Uid", KUint32); ("Name", KString); ("Signature", KString)].
Definition shape_MetaObject := KStruct
  [("Methods", KMap KUint32 shape_MetaMethod); ("Signals", KMap KUint32 shape_MetaSignal);
   ("Properties", KMap KUint32 shape_MetaSignal); ("Description", KString)].
Definition shape_ObjectReference := KStruct
  [("MetaObject", shape_MetaObject); ("ServiceID", KUint32); ("ObjectID", KUint32)].

Definition scalar_shape (s : scalar) : shape :=
  match s with
  | SI8 => KInt8 | SU8 => KUint8 | SI16 => KInt16 | SU16 => KUint16 | SI32 => KInt32 | SU32 => KUint32
  | SI64 => KInt64 | SU64 => KUint64 | SF32 => KFloat32 | SF64 => KFloat64 | SBool => KBool | SStr => KString
  | SValue => KPtrAny | SUnknown => KPtrError
  | SObject => shape_ObjectReference
  | SVoid => KStruct []
  end.

Fixpoint go_type (t : ty) : shape :=
  match t with
  | TS s => scalar_shape s
  | TList t => KSlice (go_type t)
  | TMap k v => KMap (go_type k) (go_type v)
  | TTuple ts => KStruct (tuple_fields 0 (map go_type ts))
  | TStruct _ fs => KStruct (map (fun f => (clean_name (fst f), go_type (snd f))) fs)
  end.

(* Type() ends in a panic of package reflect in two situations (both reproduced on the pinned
   code, see design/C09.md): reflect.MapOf on a key type Go cannot compare ({[i]i}), and
   reflect.StructOf on two members whose cleaned names coincide ((ii)<A,x,x>, (ii)<A,x,X>). *)
Record sig_cfg := { c_key_panic : bool; c_dup_panic : bool }.
Definition sig_clean := {| c_key_panic := false; c_dup_panic := false |}.

Fixpoint comparable (t : ty) : bool :=
  match t with
  | TS SObject => false        (* ObjectReference holds the MetaObject maps *)
  | TS _ => true
  | TList _ => false
  | TMap _ _ => false
  | TTuple ts => forallb comparable ts
  | TStruct _ fs => forallb (fun f => comparable (snd f)) fs
  end.

Fixpoint has_dup (l : list string) : bool :=
  match l with
  | [] => false
  | x :: r => existsb (String.eqb x) r || has_dup r
  end.

Fixpoint bad_key (t : ty) : bool :=
  match t with
  | TS _ => false
  | TList t => bad_key t
  | TMap k v => negb (comparable k) || bad_key k || bad_key v
  | TTuple ts => existsb bad_key ts
  | TStruct _ fs => existsb (fun f => bad_key (snd f)) fs
  end.

Fixpoint dup_member (t : ty) : bool :=
  match t with
  | TS _ => false
  | TList t => dup_member t
  | TMap k v => dup_member k || dup_member v
  | TTuple ts => existsb dup_member ts
  | TStruct _ fs => has_dup (map (fun f => clean_name (fst f)) fs) || existsb (fun f => dup_member (snd f)) fs
  end.

(* Type() as the Go code evaluates it; None = panic.
   Pinned: reflect.MapOf(key.Type(), value.Type()) panics on a key type Go cannot compare;
   reflect.StructOf panics on two fields of one name.
   Repaired (design/C09.fix.*.diff): MapType.Type() answers the placeholder of the unknown type
   (pointer to error) when the key type is not comparable, without asking the value type;
   StructType.Type() renames a member whose cleaned name is taken: N_0, N_1, ... *)
Fixpoint shape_comparable (s : shape) : bool :=
  match s with
  | KSlice _ | KMap _ _ => false
  | KStruct fs => forallb (fun f => shape_comparable (snd f)) fs
  | _ => true
  end.

Fixpoint pick_name (fuel j : nat) (base : string) (seen : list string) (name : string) : string :=
  if existsb (String.eqb name) seen then
    match fuel with
    | O => name
    | S f => pick_name f (S j) base seen (base ++ "_" ++ nat_to_string j)
    end
  else name.
Fixpoint dedup_names (seen l : list string) : list string :=
  match l with
  | [] => []
  | b :: r => let n := pick_name (S (List.length seen)) 0 b seen b in n :: dedup_names (n :: seen) r
  end.

Section GoTypeRes.
  Variable c : sig_cfg.
  Variable res : ty -> option shape.
  Fixpoint res_list (l : list ty) : option (list shape) :=
    match l with
    | [] => Some []
    | t :: r => match res t, res_list r with Some a, Some b => Some (a :: b) | _, _ => None end
    end.
  Fixpoint res_fields (l : list (string * ty)) : option (list shape) :=
    match l with
    | [] => Some []
    | f :: r => match res (snd f), res_fields r with Some a, Some b => Some (a :: b) | _, _ => None end
    end.
End GoTypeRes.

Fixpoint go_type_result (c : sig_cfg) (t : ty) : option shape :=
  match t with
  | TS s => Some (scalar_shape s)
  | TList e => match go_type_result c e with Some a => Some (KSlice a) | None => None end
  | TMap k v =>
      match go_type_result c k with
      | None => None
      | Some ks =>
          if c_key_panic c then
            match go_type_result c v with
            | Some vs => if shape_comparable ks then Some (KMap ks vs) else None
            | None => None
            end
          else if shape_comparable ks then
            match go_type_result c v with Some vs => Some (KMap ks vs) | None => None end
          else Some KPtrError
      end
  | TTuple ts =>
      match res_list (go_type_result c) ts with
      | Some l => Some (KStruct (tuple_fields 0 l))
      | None => None
      end
  | TStruct _ fs =>
      match res_fields (go_type_result c) fs with
      | Some l =>
          let names := map (fun f => clean_name (fst f)) fs in
          if has_dup names then
            if c_dup_panic c then None else Some (KStruct (combine (dedup_names [] names) l))
          else Some (KStruct (combine names l))
      | None => None
      end
  end.

(* ---------- consistency of the Go representation with the signature ---------- *)
(* the signature a kind tree stands for: members in order, names dropped *)
Fixpoint shape_sig (s : shape) : string :=
  match s with
  | KInt8 => "c" | KUint8 => "C" | KInt16 => "w" | KUint16 => "W" | KInt32 => "i" | KUint32 => "I"
  | KInt64 => "l" | KUint64 => "L" | KFloat32 => "f" | KFloat64 => "d" | KBool => "b" | KString => "s"
  | KPtrAny => "m" | KPtrError => "X"
  | KSlice e => "[" ++ shape_sig e ++ "]"
  | KMap k v => "{" ++ shape_sig k ++ shape_sig v ++ "}"
  | KStruct fs => "(" ++ String.concat "" (map (fun f => shape_sig (snd f)) fs) ++ ")"
  end.

(* a type with the names dropped: structs become tuples, v the empty tuple, o the tuple [obj] *)
Fixpoint anon_with (obj : ty) (t : ty) : ty :=
  match t with
  | TS SVoid => TTuple []
  | TS SObject => obj
  | TS s => TS s
  | TList t => TList (anon_with obj t)
  | TMap k v => TMap (anon_with obj k) (anon_with obj v)
  | TTuple ts => TTuple (map (anon_with obj) ts)
  | TStruct _ fs => TTuple (map (fun f => anon_with obj (snd f)) fs)
  end.
Definition anon_object : ty := anon_with (TS SObject) ty_ObjectReference.
Definition anon (t : ty) : ty := anon_with anon_object t.

Definition shape_fields (s : shape) : list string :=
  match s with KStruct fs => map fst fs | _ => [] end.

(* the input with every white-space character removed *)
Fixpoint unspace (s : string) : string :=
  match s with
  | EmptyString => EmptyString
  | String c r => if is_ws c then unspace r else String c (unspace r)
  end.
